/-
C01 — RPS schedules realise the configured load profile.

Every theorem is about the REGENERATED definitions of `Pandora.Gen.Schedule` (rewritten from /repo's current source on
every run): the constructors `NewConstConf/NewLineConf/NewStepConf/NewOnceConf` (and what they call), the predicates
`*_valid` read off the `validate` struct tags (= what config validation accepts), the `register.Limiter` table of
`core/import`, and the `doAtSchedule` record with its `Start/Next/Left` methods. Arithmetic is exact real arithmetic:
float64 rounding is *measured* by the sampling tie (harness `cmd/c01` + `Pandora.Spec.C01`), not proved.

Clause → theorem (details in notes/C01.md):
  valid = accepted by validation      C01_validation, C01_registry; C01_json_numbers (a float64 given for an int64 option:
                                       the regenerated decode hooks of core/config pass exactly the integers of the range)
  rate integral                        C01_cum_is_integral
  const: time of op k, count           C01_const
  line (incr./decr./flat/zero ends)    C01_line   (C01_line_flat: from = to is the const profile)
  step = one const per level           C01_step   (chaining of the parts: C02_seq_chain / C02_conc_*)
  once                                 C01_once
  every prefix instant                 C01_prefix
  no division by 0 / sqrt of negative  C01_defined
  bounds, finish, Left                 C01_leaf_run, C01_finish, C01_bounds, C01_left_before_start
  never Start()ed                      C01_implicit_start
  succession of the step levels in time C01_chain, C01_step_chain  (one consumer; several consumers: C02)
  int64 range of every integer          C01_int64_range
  float64 rounding of the const profile C01_const_float (standard model of floating-point arithmetic, every `fl`);
                                        line: C01_float_partial proves C01_float_statement for from ≤ to (flat and
                                        increasing lines, u = 2⁻⁵³, 27 roundings); decreasing lines are open
  several consumers, any interleaving   C01_lazy_start_concurrent (never Start()ed), C01_started_concurrent: small-step
                                        model of the start protocol over access lists regenerated from do_at.go /
                                        start_sync.go (`Gen/SchedConc.lean`); C01_lazy_start_flag_check_counterexample,
                                        C01_start_overlapping_next_counterexample (limits); C01_start_effect: what the
                                        regenerated access list of Start leaves behind (= initStarted), a second Start panics
  round 6, compositions                 C01_chain_is_c02_composite (the sequential composite of C01_chain IS C02's composite model
                                        over the regenerated leaf methods; Left() of a step profile before its start),
                                        C01_engine_fires_profile (profile → schedule → Waiter → instance loop over C04's model:
                                        operations acted on in profile order, at most once, none before its instant, all of
                                        them when nothing interferes)
-/
import Pandora.Proofs.C01
import Pandora.Proofs.C01Chain
import Pandora.Proofs.C01Float
import Pandora.Proofs.C01LineFloat
import Pandora.Bridge.C01Conc
import Pandora.Proofs.C01R6Comp
import Pandora.Proofs.C01R6Wait
import Mathlib.Analysis.SpecialFunctions.Integrals.Basic

set_option linter.unreachableTactic false
set_option linter.unusedTactic false

namespace Pandora.Props.C01
open Pandora Pandora.Gen.Schedule Pandora.Bridge.Schedule Pandora.Bridge.C01 Pandora.Proofs.LineMath Pandora.Proofs.C01
open Pandora.Proofs.C01Chain Pandora.Proofs.C01Float

/-! ### statement-level definitions -/

/-- configured rate (ops/s) of `line(from,to,D)` at `x` seconds after its start: linear from `from` to `to` -/
noncomputable def lineRate (f t : ℝ) (D : ℤ) (x : ℝ) : ℝ := f + (t - f) / secs D * x
/-- ∫₀ˣ lineRate (see `C01_cum_is_integral`) -/
noncomputable def lineCum (f t : ℝ) (D : ℤ) (x : ℝ) : ℝ := f * x + (t - f) * x ^ 2 / (2 * secs D)
/-- ∫₀ˣ of the constant rate `ops` -/
noncomputable def constCum (ops : ℝ) (x : ℝ) : ℝ := ops * x

/-- `x` (seconds after the start) is the earliest instant of the profile at which the integral `c` reaches `k` -/
def EarliestAt (c : ℝ → ℝ) (D : ℤ) (k : ℝ) (x : ℝ) : Prop :=
  0 ≤ x ∧ x ≤ secs D ∧ c x = k ∧ ∀ y, 0 ≤ y → y < x → c y < k

/-- "the constructor returned a leaf schedule of length `D` whose operation `k` (k = 0, 1, …) is scheduled at the
ns-truncation of the earliest instant at which the integral `c` reaches `k`, which holds as many operations as the
integral over the whole duration, rounded down, and none outside [0, D]" -/
def Realises (s : Sched) (c : ℝ → ℝ) (D : ℤ) : Prop :=
  ∃ (n : ℤ) (at_ : ℤ → ℤ), s = Sched.doAt D n at_ ∧ n = ⌊c (secs D)⌋ ∧
    ∀ k : ℤ, 0 ≤ k → k < n →
      ∃ x : ℝ, EarliestAt c D k x ∧ at_ k = ⌊x * 1000000000⌋ ∧ 0 ≤ at_ k ∧ at_ k ≤ D

/-- one `Next` per clock reading in `nows`, in sequence (`Except.error` = a panic) -/
def drainFrom (s : DoAtSt) : List ℤ → Except String (List (ℤ × Bool))
  | [] => Except.ok []
  | now :: rest =>
      match doAtSchedule_Next now s with
      | Except.error e => Except.error e
      | Except.ok (r, s') =>
          match drainFrom s' rest with
          | Except.error e => Except.error e
          | Except.ok rs => Except.ok (r :: rs)

/-- what a caller observes from a fresh leaf `doAt D n f`: `Start t0`, then one `Next` per clock reading in `nows` -/
def startAndDrain (D n : ℤ) (f : ℤ → ℤ) (t0 : ℤ) (nows : List ℤ) : Except String (List (ℤ × Bool)) :=
  match doAtSchedule_Start (NewDoAtSchedule D n f) t0 with
  | Except.error e => Except.error e
  | Except.ok (_, s) => drainFrom s nows

/-! ### which configurations are valid, and which constructor they reach -/

/-- Config validation (the regenerated `validate` struct tags) accepts exactly: rates ≥ 0, duration ≥ 1 ms, step ≥ 1,
times ≥ 1 — the hypotheses of the theorems below are these regenerated predicates themselves. -/
theorem C01_validation :
    (∀ (ops : ℝ) (D : ℤ), ConstConfig_valid ops D ↔ (0 ≤ ops ∧ 1000000 ≤ D)) ∧
    (∀ (f t : ℝ) (D : ℤ), LineConfig_valid f t D ↔ (0 ≤ f ∧ 0 ≤ t ∧ 1000000 ≤ D)) ∧
    (∀ (f t : ℝ) (s D : ℤ), StepConfig_valid f t s D ↔ (0 ≤ f ∧ 0 ≤ t ∧ 1 ≤ s ∧ 1000000 ≤ D)) ∧
    (∀ n : ℤ, OnceConfig_valid n ↔ 1 ≤ n) :=
  ⟨ConstConfig_valid_iff, LineConfig_valid_iff, StepConfig_valid_iff, OnceConfig_valid_iff⟩

/-- `core/import` registers the four profile kinds under their documented names, each with its own constructor. -/
theorem C01_registry :
    limiters.lookup "const" = some "NewConstConf" ∧ limiters.lookup "line" = some "NewLineConf" ∧
    limiters.lookup "step" = some "NewStepConf" ∧ limiters.lookup "once" = some "NewOnceConf" ∧
    (limiters.map Prod.fst).Nodup := by
  decide

/-- **numbers in JSON configs** (every number arrives as a float64): a float64 `v` given for an int64 option — `times`,
`step`, a `duration` written as a number of nanoseconds — passes the two decode hooks of core/config that stand in front
of every numeric option (REGENERATED: `WholeNumberHook`'s rejection test, `NumberRangeHook`'s range test for a signed
field with `kindBits(reflect.Int64)` bits; both are among `DefaultHooks`) iff it is an integer of the int64 range, i.e.
the number that is written is the option's value; in particular every value the validation predicates accept can be
written as a number. -/
theorem C01_json_numbers :
    "WholeNumberHook" ∈ defaultHooks ∧ "NumberRangeHook" ∈ defaultHooks ∧
    (∀ v : ℝ, (¬ WholeNumberHook_rejects v ∧ NumberRangeHook_fits_float kindBits_Int64 v) ↔
      ∃ z : ℤ, (z : ℝ) = v ∧ -(2:ℤ) ^ 63 ≤ z ∧ z < (2:ℤ) ^ 63) ∧
    (∀ n : ℤ, OnceConfig_valid n → n < 2 ^ 63 →
      ¬ WholeNumberHook_rejects (n : ℝ) ∧ NumberRangeHook_fits_float kindBits_Int64 (n : ℝ)) :=
  ⟨by decide, by decide, float_for_int64_iff, fun n hn h63 =>
    (float_for_int64_iff (n : ℝ)).mpr ⟨n, rfl, by have := (OnceConfig_valid_iff n).mp hn; omega, h63⟩⟩

/-- `lineCum` / `constCum` are the integrals of the configured rate since the profile's start. -/
theorem C01_cum_is_integral (f t ops : ℝ) (D : ℤ) (x : ℝ) :
    lineCum f t D x = ∫ y in (0:ℝ)..x, lineRate f t D y ∧ constCum ops x = ∫ _y in (0:ℝ)..x, ops ∧
    lineRate f t D 0 = f ∧ (0 < D → lineRate f t D (secs D) = t) := by
  refine ⟨?_, ?_, ?_, ?_⟩
  · have h1 : IntervalIntegrable (fun _ : ℝ => f) MeasureTheory.volume 0 x := by simp
    have h2 : IntervalIntegrable (fun y : ℝ => (t - f) / secs D * y) MeasureTheory.volume 0 x :=
      (continuous_const.mul continuous_id).intervalIntegrable _ _
    unfold lineRate lineCum
    rw [intervalIntegral.integral_add h1 h2, intervalIntegral.integral_const, intervalIntegral.integral_const_mul,
      integral_id]
    simp
    ring
  · unfold constCum; rw [intervalIntegral.integral_const]; simp; ring
  · unfold lineRate; ring
  · intro hD
    have := (secs_pos' hD).ne'
    unfold lineRate; field_simp; ring

/-! ### const, line, step, once -/

/-- **const**: for every accepted `(ops, duration)`: count = ⌊ops·D⌋; operation k at the ns-truncation of k/ops seconds,
the earliest instant with ops·x = k; inside [0, D]. Includes ops = 0 (no operations) and fractional-second durations. -/
theorem C01_const (ops : ℝ) (D : ℤ) (h : ConstConfig_valid ops D) :
    Realises (NewConstConf ops D) (constCum ops) D := by
  obtain ⟨hops, hD⟩ := (ConstConfig_valid_iff ops D).mp h
  have hD0 : 0 < D := by omega
  have htot0 : 0 ≤ ops * secs D := mul_nonneg hops (secs_pos' hD0).le
  refine ⟨_, _, NewConst_eq ops D hops, ?_, ?_⟩
  · unfold constCum; exact Go.f2i_of_nonneg htot0
  · intro k hk0 hkn
    obtain ⟨h1, h2, h3, h4, h5, h6, h7⟩ := const_core ops D hops hD0 k hk0 hkn
    exact ⟨(k:ℝ) / ops, ⟨h1, h2, h3, h4⟩, h5, h5 ▸ h6, h5 ▸ h7⟩

/-- a flat line is the const profile of the same rate (every accepted rate). Holds whether line.go returns `NewConst`
for `from == to` or lets the line formula run with slope 0 (`Bridge.Schedule.NewLine_flat` proves either reading). -/
theorem C01_line_flat (f : ℝ) (D : ℤ) (hf : 0 ≤ f) : NewLineConf f f D = NewConstConf f D := NewLine_flat f D hf

/-- **line**: for every accepted `(from, to, duration)` — increasing, decreasing, flat, zero end rates, any duration
≥ 1 ms: count = ⌊∫ rate⌋ = ⌊(from+to)/2 · D⌋; operation k sits at the ns-truncation of the earliest instant where the
integral reaches k; inside [0, D]. -/
theorem C01_line (f t : ℝ) (D : ℤ) (h : LineConfig_valid f t D) :
    Realises (NewLineConf f t D) (lineCum f t D) D ∧ lineCum f t D (secs D) = (f + t) / 2 * secs D := by
  obtain ⟨hf, ht, hD⟩ := (LineConfig_valid_iff f t D).mp h
  have hD0 : 0 < D := by omega
  have hs := secs_pos' hD0
  have hcum : ∀ x, lineCum f t D x = cum (slope f t D) f x := by
    intro x; unfold lineCum cum Bridge.Schedule.slope; field_simp; ring
  have htotal : lineCum f t D (secs D) = (f + t) / 2 * secs D := by rw [hcum, line_total hD0]
  refine ⟨?_, htotal⟩
  by_cases hne : f = t
  · -- flat: the const profile, whose integral is the same function
    subst hne
    have hc : lineCum f f D = constCum f := by funext x; unfold lineCum constCum; simp
    rw [hc, C01_line_flat f D hf]
    exact C01_const f D ((ConstConfig_valid_iff f D).mpr ⟨hf, hD⟩)
  · obtain ⟨at_, hnew, hk⟩ := line_core f t D hf ht hD0 hne
    refine ⟨_, at_, hnew, by rw [htotal], ?_⟩
    intro k hk0 hkn
    obtain ⟨he, hat, h0, hDle⟩ := hk k hk0 hkn
    refine ⟨xk (slope f t D) f (k:ℝ), ⟨he.1, he.2.1, ?_, ?_⟩, hat, h0, hDle⟩
    · rw [hcum]; exact he.2.2.1
    · intro y hy0 hyx; rw [hcum]; exact he.2.2.2 y hy0 hyx

/-- **step**: for every accepted `(from, to, step, duration)` the profile is the succession of one const profile of
length `duration` per rate level from, from+step, … ≤ to, each level itself an accepted const configuration (so
`C01_const` applies to every part). `from = to` is a single const profile; `from > to` has no level. That part j+1 starts
where part j finished is the composite schedule's contract (C02). -/
theorem C01_step (f t : ℝ) (s D : ℤ) (h : StepConfig_valid f t s D) :
    (f = t → NewStepConf f t s D = NewConstConf f D) ∧
    (f ≠ t → NewStepConf f t s D = Sched.composite ((Go.loopLE f t (s : ℝ)).map (fun r => NewConstConf r D))) ∧
    Go.loopLE f t (s : ℝ) =
      (if f ≤ t then (List.range (⌊(t - f) / (s : ℝ)⌋₊ + 1)).map (fun (j : ℕ) => f + (j : ℝ) * (s : ℝ)) else []) ∧
    ∀ r ∈ Go.loopLE f t (s : ℝ), f ≤ r ∧ r ≤ t ∧ ConstConfig_valid r D := by
  obtain ⟨hf, _, hs, hD⟩ := (StepConfig_valid_iff f t s D).mp h
  refine ⟨?_, ?_, rfl, ?_⟩
  · rintro rfl; exact NewStep_flat f s D
  · intro hne; exact NewStep_eq f t s D hne
  · intro r hr
    obtain ⟨h1, h2⟩ := loopLE_levels f t s hs r hr
    exact ⟨h1, h2, (ConstConfig_valid_iff r D).mpr ⟨le_trans hf h1, hD⟩⟩

/-- **every prefix instant**: at every instant `y` of the profile, operation `k` has been scheduled by `y` exactly when
the integral up to `y` has reached `k` — i.e. the number of operations scheduled in [0, y] is the number of
k = 0, 1, … with k ≤ ∫₀ʸ rate (const is the flat line `from = to`). -/
theorem C01_prefix (f t : ℝ) (D : ℤ) (h : LineConfig_valid f t D) (k x y : ℝ)
    (hx : EarliestAt (lineCum f t D) D k x) (hy0 : 0 ≤ y) (hyD : y ≤ secs D) :
    x ≤ y ↔ k ≤ lineCum f t D y := by
  obtain ⟨hf, ht, hD⟩ := (LineConfig_valid_iff f t D).mp h
  have hs := secs_pos' (D := D) (by omega)
  obtain ⟨hx0, hxD, hcx, hmin⟩ := hx
  constructor
  · intro hxy
    -- the rate is non-negative on [0, D], so the integral does not decrease from x to y
    have hrate : ∀ z, 0 ≤ z → z ≤ secs D → 0 ≤ f + (t - f) / secs D * z := by
      intro z hz0 hzD
      have e : f + (t - f) / secs D * z = (f * (secs D - z) + t * z) / secs D := by field_simp; ring
      rw [e]
      exact div_nonneg (add_nonneg (mul_nonneg hf (by linarith)) (mul_nonneg ht hz0)) hs.le
    have hdiff : lineCum f t D y - lineCum f t D x =
        (y - x) * ((f + (t - f) / secs D * x) + (f + (t - f) / secs D * y)) / 2 := by
      unfold lineCum; field_simp; ring
    have h1 := hrate x hx0 hxD
    have h2 := hrate y hy0 hyD
    have : 0 ≤ (y - x) * ((f + (t - f) / secs D * x) + (f + (t - f) / secs D * y)) / 2 :=
      div_nonneg (mul_nonneg (by linarith) (by linarith)) (by norm_num)
    linarith
  · intro hk
    by_contra hlt
    have := hmin y hy0 (not_le.mp hlt)
    linarith

/-- **nothing is defined only by Lean's totalisation**: Go's float division by zero and square root of a negative number
give ±Inf/NaN, Lean's give 0. Wherever the regenerated const/line code divides, the divisor is non-zero, and wherever it
takes a square root the argument is non-negative — for every operation index `k < n` the closures are ever called with
(`Next` calls `doAt i` only for `i < n`, `C01_leaf_run`). The bridge lemmas identify the regenerated expressions with
these closed forms by commutative-ring identities only, which never cancel a divisor. (`1e9/ops` is also evaluated
once for `ops = 0`, giving +Inf that no operation uses since then `n = 0`.) -/
theorem C01_defined :
    (∀ (ops : ℝ) (D : ℤ), ConstConfig_valid ops D →
        (D : ℝ) / 1000000000 ≠ 0 ∧ ∀ k : ℤ, 0 ≤ k → k < ⌊constCum ops (secs D)⌋ → ops ≠ 0) ∧
    (∀ (f t : ℝ) (D : ℤ), LineConfig_valid f t D → f ≠ t →
        (D : ℝ) / 1000000000 ≠ 0 ∧ Bridge.Schedule.slope f t D ≠ 0 ∧
        ∀ k : ℤ, 0 ≤ k → k < ⌊lineCum f t D (secs D)⌋ →
          0 ≤ 2 * Bridge.Schedule.slope f t D * (k:ℝ) + f * f ∧
          (0 < k → Real.sqrt (2 * Bridge.Schedule.slope f t D * (k:ℝ) + f * f) + f ≠ 0)) := by
  constructor
  · intro ops D h
    obtain ⟨hops, hD⟩ := (ConstConfig_valid_iff ops D).mp h
    have hs := secs_pos' (D := D) (by omega)
    refine ⟨by unfold secs at hs; exact hs.ne', ?_⟩
    intro k hk0 hkn hz
    subst hz
    unfold constCum at hkn
    simp at hkn
    omega
  · intro f t D h hne
    obtain ⟨hf, ht, hD⟩ := (LineConfig_valid_iff f t D).mp h
    have hD0 : 0 < D := by omega
    have hs := secs_pos' hD0
    have hc := line_cfg hf ht hD0 hne
    have htot : lineCum f t D (secs D) = cum (Bridge.Schedule.slope f t D) f (secs D) := by
      unfold lineCum cum Bridge.Schedule.slope; field_simp; ring
    refine ⟨by unfold secs at hs; exact hs.ne', hc.a_ne, ?_⟩
    intro k hk0 hkn
    rw [htot] at hkn
    have hk0' : (0:ℝ) ≤ (k:ℝ) := by exact_mod_cast hk0
    have hkle : (k:ℝ) ≤ cum (Bridge.Schedule.slope f t D) f (secs D) := by
      have : ((k:ℤ):ℝ) < ⌊cum (Bridge.Schedule.slope f t D) f (secs D)⌋ := by exact_mod_cast hkn
      exact le_of_lt (lt_of_lt_of_le this (Int.floor_le _))
    have hR := radicand_nonneg hc hk0' hkle
    have hR' : 0 ≤ 2 * Bridge.Schedule.slope f t D * (k:ℝ) + f * f := by nlinarith [hR]
    refine ⟨hR', ?_⟩
    intro hkpos
    have hkpos' : (0:ℝ) < (k:ℝ) := by exact_mod_cast hkpos
    have hsq := Real.sqrt_nonneg (2 * Bridge.Schedule.slope f t D * (k:ℝ) + f * f)
    rcases hf.lt_or_eq with hfpos | hf0
    · linarith
    · -- from = 0: the line increases, the radicand 2ak is positive
      have ha : 0 < Bridge.Schedule.slope f t D := by
        have hend := hc.end_nonneg
        rcases lt_or_gt_of_ne hc.a_ne with hneg | hpos
        · nlinarith
        · exact hpos
      have hff : f * f = 0 := by rw [← hf0]; ring
      have : 0 < 2 * Bridge.Schedule.slope f t D * (k:ℝ) + f * f := by
        have := mul_pos (mul_pos (by norm_num : (0:ℝ) < 2) ha) hkpos'
        linarith
      have := Real.sqrt_pos.mpr this
      linarith

/-! ### bounds and finish time: what a started leaf answers -/

/-- A leaf `doAt D n f` started at `t0` answers call number j (0-based) of `Next` with `(t0 + f j, true)` while
`j < n` and with `(t0 + D, false)` for ever after — whatever the clock shows; it never panics. -/
theorem C01_leaf_run (D n : ℤ) (f : ℤ → ℤ) (t0 : ℤ) (nows : List ℤ) :
    startAndDrain D n f t0 nows =
      Except.ok ((List.range nows.length).map
        (fun (j : ℕ) => if n ≤ (j : ℤ) then (t0 + D, false) else (t0 + f (j : ℤ), true))) := by
  have key : ∀ (l : List ℤ) (m0 : ℕ), drainFrom (startedSt D n f t0 m0) l =
      (nexts D n f t0 m0 l).map Prod.fst := by
    intro l
    induction l with
    | nil => intro m0; simp [drainFrom, nexts, Except.map]
    | cons now rest ih =>
        intro m0
        simp only [drainFrom, nexts, next_started, ih (m0 + 1)]
        cases nexts D n f t0 (m0 + 1) rest <;> simp [Except.map]
  simp only [startAndDrain, start_fresh, key nows 0, nexts_eq, Except.map, answer]
  simp

/-- **once**: all `times` operations at the start instant of a zero-length profile, which is also its finish time. -/
theorem C01_once (n : ℤ) (_h : OnceConfig_valid n) :
    NewOnceConf n = Sched.doAt 0 n (fun _ => 0) ∧
    ∀ (t0 : ℤ) (nows : List ℤ), startAndDrain 0 n (fun _ => 0) t0 nows =
      Except.ok ((List.range nows.length).map (fun (j : ℕ) => if n ≤ (j : ℤ) then (t0, false) else (t0, true))) := by
  refine ⟨NewOnce_eq n, ?_⟩
  intro t0 nows
  rw [C01_leaf_run]
  simp

/-- **finish**: an exhausted profile reports exactly start + duration, on every further call. -/
theorem C01_finish (D n : ℤ) (f : ℤ → ℤ) (t0 : ℤ) (nows : List ℤ) (rs : List (ℤ × Bool))
    (hrun : startAndDrain D n f t0 nows = Except.ok rs) (j : ℕ) (hj : j < rs.length) (hn : n ≤ (j : ℤ)) :
    rs[j] = (t0 + D, false) := by
  rw [C01_leaf_run] at hrun
  injection hrun with hrun
  subst hrun
  simp [hn]

/-- **bounds** (and count, and finish once more): for every leaf that realises a profile — by `C01_const` / `C01_line`
every accepted const and line configuration — the started schedule hands out operation j exactly when j < count, every
operation it hands out lies in [start, start + duration], and every later answer is (start + duration, false). -/
theorem C01_bounds (s : Sched) (c : ℝ → ℝ) (D : ℤ) (hs : Realises s c D) :
    ∃ (n : ℤ) (f : ℤ → ℤ), s = Sched.doAt D n f ∧ n = ⌊c (secs D)⌋ ∧
      ∀ (t0 : ℤ) (nows : List ℤ), ∃ rs, startAndDrain D n f t0 nows = Except.ok rs ∧ rs.length = nows.length ∧
        ∀ (j : ℕ) (hj : j < rs.length),
          (rs[j].2 = true ↔ (j : ℤ) < n) ∧
          (rs[j].2 = true → t0 ≤ rs[j].1 ∧ rs[j].1 ≤ t0 + D) ∧
          (rs[j].2 = false → rs[j].1 = t0 + D) := by
  obtain ⟨n, f, rfl, hn, hk⟩ := hs
  refine ⟨n, f, rfl, hn, ?_⟩
  intro t0 nows
  refine ⟨_, C01_leaf_run D n f t0 nows, by simp, ?_⟩
  intro j hj
  simp only [List.getElem_map, List.getElem_range]
  by_cases hnj : n ≤ (j : ℤ)
  · simp [hnj]
  · obtain ⟨x, _, _, h0, hD⟩ := hk (j : ℤ) (by omega) (by omega)
    simp only [hnj, if_false]
    refine ⟨by simp; omega, fun _ => ⟨by omega, by omega⟩, by simp⟩

/-- **Left before start** = the number of operations of the profile. -/
theorem C01_left_before_start (D n : ℤ) (f : ℤ → ℤ) (hn : 0 ≤ n) :
    doAtSchedule_Left (NewDoAtSchedule D n f) = Except.ok (n, NewDoAtSchedule D n f) := by
  rw [left_fresh]; simp [not_lt.mpr hn]


/-- **never `Start()`ed**: a schedule whose first `Next()` comes without a `Start` takes the clock reading of that call as
the profile's start — from then on it answers exactly like one that was started at that instant, so every theorem above
applies with `t0 := now`. -/
theorem C01_implicit_start (D n : ℤ) (f : ℤ → ℤ) (now : ℤ) (nows : List ℤ) :
    drainFrom (NewDoAtSchedule D n f) (now :: nows) = startAndDrain D n f now (now :: nows) := by
  have key : ∀ (l : List ℤ) (m0 : ℕ), drainFrom (startedSt D n f now m0) l =
      (nexts D n f now m0 l).map Prod.fst := by
    intro l
    induction l with
    | nil => intro m0; simp [drainFrom, nexts, Except.map]
    | cons x rest ih =>
        intro m0
        simp only [drainFrom, nexts, next_started, ih (m0 + 1)]
        cases nexts D n f now (m0 + 1) rest <;> simp [Except.map]
  simp only [startAndDrain, start_fresh, drainFrom, next_fresh, next_started, key nows 1]
  simp

/-! ### the succession of levels in time (step profile) -/

/-- `NewComposite` (regenerated table): no nested schedule → `NewOnce(0)`, one → that schedule itself; `compInit`, the
initial state of the model of `Proofs/C01Chain`, is built on exactly these two rows. -/
theorem C01_composite_small :
    compositeSmall = [(0, "NewOnce(0)"), (1, "scheds[0]")] ∧
    NewOnce 0 = Sched.doAt 0 0 (fun _ => 0) ∧
    compInit [] = (NewDoAtSchedule 0 0 (fun _ => 0), []) ∧
    (∀ l : Level, compInit [l] = (NewDoAtSchedule l.1 l.2.1 l.2.2, [])) :=
  ⟨rfl, NewOnce_eq 0, rfl, fun _ => rfl⟩

/-- **succession**: a profile made of the levels `l₀, l₁, …` (level i = (duration Dᵢ, count nᵢ, offsets fᵢ)), told its
start `t0` and asked by one consumer, never panics and answers call number j with `ans j`, where
* operation `k < nᵢ` of level `i` is call number (n₀ + … + nᵢ₋₁) + k and is scheduled at `t0 + (D₀ + … + Dᵢ₋₁) + fᵢ k`:
  level i starts exactly where level i−1 finished, whether or not that level held any operation;
* every call after the last operation is answered `(t0 + D₀ + … + D_last, false)`. -/
theorem C01_chain (l0 : Level) (levels : List Level) (t0 : ℤ) (nows : List ℤ) :
    ∃ ans : ℕ → ℤ × Bool,
      chainRun (l0 :: levels) t0 nows = Except.ok ((List.range nows.length).map ans) ∧
      (∀ (i : ℕ) (hi : i < (l0 :: levels).length) (k : ℕ), k < ((l0 :: levels)[i]).2.1.toNat →
          ans (opsBefore (l0 :: levels) i + k) =
            (t0 + durBefore (l0 :: levels) i + ((l0 :: levels)[i]).2.2 k, true)) ∧
      (∀ j : ℕ, totalOps (l0 :: levels) ≤ j → ans j = (t0 + totalDur (l0 :: levels), false)) := by
  refine ⟨chainAnswer t0 l0.1 l0.2.1 l0.2.2 0 levels, ?_, ?_, ?_⟩
  · have := compDrain_eq nows levels t0 l0.1 l0.2.1 l0.2.2 0
    simp only [Nat.cast_zero] at this
    simp only [chainRun, compInit, compStart, fresh, start_fresh]
    simpa [fresh] using this
  · intro i hi k hk
    exact chainAnswer_token levels l0 t0 i hi k hk
  · intro j hj
    have := chainAnswer_finish levels t0 l0.1 l0.2.1 l0.2.2 0 j (by simpa [totalOps] using hj)
    rw [this]
    simp only [totalDur]
    congr 1; ring

/-- the levels of a step profile, each the leaf that `C01_const` describes -/
noncomputable def stepLevels (f t : ℝ) (s D : ℤ) : List Level :=
  (Go.loopLE f t (s : ℝ)).map fun r => (D, Go.f2i (r * secs D), fun i => Go.f2i ((i : ℝ) * (1000000000 / r)))

/-- **step = succession of one const profile per level, in time**: for every accepted `(from, to, step, duration)` with
`from ≠ to` the constructor returns the composite of the level leaves; started at `t0`, operation `k` of level `i` (rate
`from + i·step`) is scheduled at `t0 + i·duration + ⌊k/rateᵢ·10⁹⌋` and the exhausted profile reports
`t0 + (number of levels)·duration`; with no level at all (`from > to`) it reports `t0`. -/
theorem C01_step_chain (f t : ℝ) (s D : ℤ) (h : StepConfig_valid f t s D) (hne : f ≠ t) (t0 : ℤ) (nows : List ℤ) :
    NewStepConf f t s D = Sched.composite ((stepLevels f t s D).map fun l => Sched.doAt l.1 l.2.1 l.2.2) ∧
    ∃ ans : ℕ → ℤ × Bool,
      chainRun (stepLevels f t s D) t0 nows = Except.ok ((List.range nows.length).map ans) ∧
      (∀ (i : ℕ) (hi : i < (stepLevels f t s D).length) (k : ℕ), k < ((stepLevels f t s D)[i]).2.1.toNat →
          ans (opsBefore (stepLevels f t s D) i + k) =
            (t0 + (i : ℤ) * D + ((stepLevels f t s D)[i]).2.2 k, true)) ∧
      (∀ j : ℕ, totalOps (stepLevels f t s D) ≤ j → ans j = (t0 + ((stepLevels f t s D).length : ℤ) * D, false)) := by
  obtain ⟨hf, _, hs, hD⟩ := (StepConfig_valid_iff f t s D).mp h
  have hallD : ∀ l ∈ stepLevels f t s D, l.1 = D := by
    intro l hl
    unfold stepLevels at hl
    rw [List.mem_map] at hl
    obtain ⟨r, _, rfl⟩ := hl
    rfl
  constructor
  · rw [(C01_step f t s D h).2.1 hne]
    congr 1
    unfold stepLevels
    rw [List.map_map]
    apply List.map_congr_left
    intro r hr
    have hr0 : 0 ≤ r := le_trans hf (loopLE_levels f t s hs r hr).1
    simp only [Function.comp, NewConstConf]
    exact NewConst_eq r D hr0
  · cases hl : stepLevels f t s D with
    | nil =>
        refine ⟨fun _ => (t0, false), ?_, ?_, ?_⟩
        · have key : ∀ (l : List ℤ) (m : ℕ), compDrain (startedSt 0 0 (fun _ => 0) t0 m) [] l =
              Except.ok (List.replicate l.length (t0, false)) := by
            intro l
            induction l with
            | nil => intro m; simp [compDrain]
            | cons x rest ih =>
                intro m
                simp only [compDrain, compNext, next_started, ih (m + 1)]
                simp [List.replicate_succ]
          simp only [chainRun, compInit, compStart, start_fresh]
          rw [key nows 0]
          simp
        · intro i hi; simp at hi
        · intro j _; simp
    | cons l0 levels =>
        rw [hl] at hallD
        obtain ⟨ans, hrun, htok, hfin⟩ := C01_chain l0 levels t0 nows
        refine ⟨ans, hrun, ?_, ?_⟩
        · intro i hi k hk
          rw [htok i hi k hk, durBefore_const (l0 :: levels) D hallD i (by omega)]
        · intro j hj
          rw [hfin j hj, totalDur_const (l0 :: levels) D hallD]

/-! ### integer ranges -/

/-- **every integer the constructors compute fits an int64** (the theorems read int64/Duration as ℤ): for an accepted line
or const (= flat line) configuration whose integral stays below 2⁶³ operations, the count is in [0, 2⁶³) and every offset
`at k`, k < count, is in [0, duration] ⊆ [0, 2⁶³) — a `time.Duration` is an int64 to begin with. (A profile of 2⁶³ or
more operations is outside the theorems and skipped by the harness.) -/
theorem C01_int64_range (f t : ℝ) (D : ℤ) (h : LineConfig_valid f t D) (hD : D < 2 ^ 63)
    (htot : lineCum f t D (secs D) < 2 ^ 63) :
    ∃ (n : ℤ) (at_ : ℤ → ℤ), NewLineConf f t D = Sched.doAt D n at_ ∧ 0 ≤ n ∧ n < 2 ^ 63 ∧
      ∀ k : ℤ, 0 ≤ k → k < n → 0 ≤ at_ k ∧ at_ k < 2 ^ 63 := by
  obtain ⟨hf, ht, hD1⟩ := (LineConfig_valid_iff f t D).mp h
  obtain ⟨⟨n, at_, hnew, hn, hk⟩, htotal⟩ := C01_line f t D h
  have hs := secs_pos' (D := D) (by omega)
  have h0 : 0 ≤ lineCum f t D (secs D) := by rw [htotal]; positivity
  refine ⟨n, at_, hnew, ?_, ?_, ?_⟩
  · rw [hn]; exact Int.floor_nonneg.mpr h0
  · rw [hn]
    have : (⌊lineCum f t D (secs D)⌋ : ℝ) < (2 : ℝ) ^ 63 := lt_of_le_of_lt (Int.floor_le _) htot
    exact_mod_cast this
  · intro k hk0 hkn
    obtain ⟨x, _, _, h1, h2⟩ := hk k hk0 hkn
    exact ⟨h1, by omega⟩

/-! ### float64 rounding of the const profile -/

/-- **the float64 gap of the const profile, proved**: let `fl` be ANY rounding function with relative error ≤ u ≤ 1/16
(IEEE-754 binary64 round-to-nearest without under/overflow: u = 2⁻⁵³). The regenerated float64 reading of `NewConst`
(every float operation of const.go wrapped in `fl`) returns a leaf of the configured length whose
* count ñ satisfies ⌊(1 − 4u)·ops·D⌋ ≤ ñ ≤ ⌊(1 + 4u)·ops·D⌋ (so ñ = ⌊∫rate⌋ unless the integral is within 4u·∫rate of an
  integer);
* operation `i ≥ 0` is at an offset `t ≥ 0` with ∫₀ᵗ rate ≤ i + 4u·i and ∫₀ᵗ⁺¹ rate ≥ i − 4u·i — the acceptance test of the
  executable Spec (whose δ = 2⁻⁴⁶·(i + 1 + ops·D) is 32 times wider for u = 2⁻⁵³);
* and, when 9u·ops·D ≤ 1, no operation `i < ñ` lies after the end of the profile. -/
theorem C01_const_float (u : ℝ) (fl : ℝ → ℝ) (hfl : Rounding u fl) (ops : ℝ) (D : ℤ) (h : ConstConfig_valid ops D) :
    ∃ (n : ℤ) (at_ : ℤ → ℤ), NewConst_fl fl ops D = Sched.doAt D n at_ ∧
      ⌊(1 - 4 * u) * constCum ops (secs D)⌋ ≤ n ∧ n ≤ ⌊(1 + 4 * u) * constCum ops (secs D)⌋ ∧
      (0 < ops → ∀ i : ℤ, 0 ≤ i →
        0 ≤ at_ i ∧
        constCum ops ((at_ i : ℝ) / 1000000000) ≤ (i : ℝ) + 4 * u * (i : ℝ) ∧
        (i : ℝ) - 4 * u * (i : ℝ) ≤ constCum ops (((at_ i : ℝ) + 1) / 1000000000) ∧
        (9 * u * constCum ops (secs D) ≤ 1 → i < n → at_ i ≤ D)) := by
  obtain ⟨hops, hD⟩ := (ConstConfig_valid_iff ops D).mp h
  have hD0 : 0 ≤ D := by omega
  obtain ⟨c, x, hnew, hcb, hxb⟩ := NewConst_fl_sem hfl ops D hops hD0
  refine ⟨_, _, hnew, ?_, ?_, ?_⟩
  · exact (const_count_ok hfl hops hD0 hcb).1
  · exact (const_count_ok hfl hops hD0 hcb).2
  · intro hpos i hi
    obtain ⟨h1, h2, h3⟩ := const_token_ok hfl hpos (hxb hpos) hi
    refine ⟨h1, h2, h3, ?_⟩
    intro hsmall hin
    exact const_token_le_D hfl hpos hD0 hcb (hxb hpos) hsmall hi hin

/-- the same claim for const AND line: every accepted configuration, every rounding function, the Spec's tolerance
δ(i) = 2⁻⁴⁶·(i + 1 + max(from,to)·D) in count space. Not proved for `from ≠ to` (the conjugate square-root form; derivation
on paper in notes/C01.md, bound 16u·(i + max·x)); the sampling tie measures it on every run. -/
def C01_float_statement : Prop :=
  ∀ (fl : ℝ → ℝ), Rounding (1 / 2 ^ 53) fl → ∀ (f t : ℝ) (D : ℤ), LineConfig_valid f t D →
    ∃ (n : ℤ) (at_ : ℤ → ℤ), NewLine_fl fl f t D = Sched.doAt D n at_ ∧
      ∀ i : ℤ, 0 ≤ i → i < n → (i : ℝ) < lineCum f t D (secs D) →
        lineCum f t D ((at_ i : ℝ) / 1000000000) ≤ (i : ℝ) + ((i : ℝ) + 1 + max f t * secs D) / 2 ^ 46 ∧
        (i : ℝ) - ((i : ℝ) + 1 + max f t * secs D) / 2 ^ 46 ≤ lineCum f t D (((at_ i : ℝ) + 1) / 1000000000)

/-- the flat case (`from = to`, which is the const profile) of `C01_float_statement` -/
theorem C01_float_flat (fl : ℝ → ℝ) (hfl : Rounding (1 / 2 ^ 53) fl) (f : ℝ) (D : ℤ) (h : LineConfig_valid f f D) :
    ∃ (n : ℤ) (at_ : ℤ → ℤ), NewLine_fl fl f f D = Sched.doAt D n at_ ∧
      ∀ i : ℤ, 0 ≤ i → i < n → (i : ℝ) < lineCum f f D (secs D) →
        lineCum f f D ((at_ i : ℝ) / 1000000000) ≤ (i : ℝ) + ((i : ℝ) + 1 + max f f * secs D) / 2 ^ 46 ∧
        (i : ℝ) - ((i : ℝ) + 1 + max f f * secs D) / 2 ^ 46 ≤ lineCum f f D (((at_ i : ℝ) + 1) / 1000000000) := by
  first
  | -- line.go returns NewConst for from == to: the const bound
    (obtain ⟨hf, _, hD⟩ := (LineConfig_valid_iff f f D).mp h
     have hs := secs_pos' (D := D) (by omega)
     obtain ⟨n, at_, hnew, _, _, htok⟩ :=
       C01_const_float (1 / 2 ^ 53) fl hfl f D ((ConstConfig_valid_iff f D).mpr ⟨hf, hD⟩)
     have hflat : NewLine_fl fl f f D = NewConst_fl fl f D := by unfold NewLine_fl; schedule_aux_unfold; simp
     have hc : lineCum f f D = constCum f := by funext x; unfold lineCum constCum; simp
     refine ⟨n, at_, by rw [hflat, hnew], ?_⟩
     intro i hi _ hlt
     have hi' : (0:ℝ) ≤ (i : ℝ) := by exact_mod_cast hi
     have hpos : 0 < f := by
       rcases hf.lt_or_eq with h1 | h1
       · exact h1
       · rw [hc, ← h1] at hlt; unfold constCum at hlt; simp at hlt; linarith
     obtain ⟨_, h2, h3, _⟩ := htok hpos i hi
     have hm : 0 ≤ max f f * secs D := by rw [max_self]; positivity
     -- 4·2⁻⁵³·i ≤ 2⁻⁴⁶·(i + 1 + …)
     have hδ : 4 * (1 / 2 ^ 53 : ℝ) * (i : ℝ) ≤ ((i : ℝ) + 1 + max f f * secs D) / 2 ^ 46 := by
       rw [le_div_iff₀ (by positivity : (0:ℝ) < 2 ^ 46)]
       have e : 4 * (1 / 2 ^ 53 : ℝ) * (i : ℝ) * 2 ^ 46 = (i : ℝ) / 32 := by ring
       rw [e]
       linarith
     rw [hc]
     exact ⟨by linarith, by linarith⟩)
  | -- no shortcut in line.go: the line formula runs with slope 0; its float64 tree is walked like an increasing line's
    (obtain ⟨hf, _, hD⟩ := (LineConfig_valid_iff f f D).mp h
     have hD0 : 0 < D := by omega
     have hc : lineCum f f D = Proofs.LineMath.cum (Bridge.Schedule.slope f f D) f := by
       funext y; unfold lineCum Proofs.LineMath.cum Bridge.Schedule.slope; field_simp; ring
     unfold NewLine_fl lineDoAt_fl
     schedule_aux_unfold
     refine ⟨_, _, rfl, ?_⟩
     intro i hi _ hlt
     rw [hc] at hlt ⊢
     have hpos : 0 < f := by
       rcases hf.lt_or_eq with h1 | h1
       · exact h1
       · exfalso
         rw [← h1] at hlt
         unfold Proofs.LineMath.cum Bridge.Schedule.slope at hlt
         simp at hlt
         have : (0:ℝ) ≤ (i:ℝ) := by exact_mod_cast hi
         linarith
     by_cases h0 : i = 0
     · subst h0
       simp only [if_true]
       exact Proofs.C01LineFloat.line_token0_ok hf le_rfl hD
     · have hipos : 0 < i := lt_of_le_of_ne hi (Ne.symm h0)
       simp only [h0, if_false]
       refine Proofs.C01LineFloat.line_token_ok_core hf le_rfl hD hipos ?_ (Proofs.C01LineFloat.flat_cumX hpos i)
       have hi' : (0:ℝ) < ((i : ℤ) : ℝ) := by exact_mod_cast hipos
       have hD' : (0:ℝ) < ((D : ℤ) : ℝ) := by exact_mod_cast hD0
       unfold Proofs.C01LineFloat.xExact Bridge.Schedule.slope Bridge.Schedule.secs
       simp only [sub_self]
       apply Proofs.C01LineFloat.Rel.conclude hfl
       · rel_tree hfl
       · decide
       · first
         | rfl
         | (ring_nf; done)
         | (congr 1 <;> ring_nf; done)
         | (field_simp; ring_nf; done))

/-- the NON-DECREASING half (`from ≤ to`) of `C01_float_statement`: flat lines are the const profile (`C01_const_float`);
for `from < to` every float operation of line.go acts on non-negative quantities, the float64 instant lies within 27
roundings of the exact one (`Proofs/C01LineFloat.NewLine_fl_sem` walks whatever operation tree the current source yields and
accepts up to 63) and its truncation passes the Spec's acceptance test.
Open: decreasing lines (`from > to`). -/
theorem C01_float_partial (fl : ℝ → ℝ) (hfl : Rounding (1 / 2 ^ 53) fl) (f t : ℝ) (D : ℤ) (h : LineConfig_valid f t D)
    (hft : f ≤ t) :
    ∃ (n : ℤ) (at_ : ℤ → ℤ), NewLine_fl fl f t D = Sched.doAt D n at_ ∧
      ∀ i : ℤ, 0 ≤ i → i < n → (i : ℝ) < lineCum f t D (secs D) →
        lineCum f t D ((at_ i : ℝ) / 1000000000) ≤ (i : ℝ) + ((i : ℝ) + 1 + max f t * secs D) / 2 ^ 46 ∧
        (i : ℝ) - ((i : ℝ) + 1 + max f t * secs D) / 2 ^ 46 ≤ lineCum f t D (((at_ i : ℝ) + 1) / 1000000000) := by
  rcases hft.lt_or_eq with hlt | heq
  · obtain ⟨hf, _, hD⟩ := (LineConfig_valid_iff f t D).mp h
    have hs := secs_pos' (D := D) (by omega)
    obtain ⟨n, x, hn, hx⟩ := Proofs.C01LineFloat.NewLine_fl_sem hfl hf hlt (by omega : 0 < D)
    have hc : lineCum f t D = Proofs.LineMath.cum (Bridge.Schedule.slope f t D) f := by
      funext y; unfold lineCum Proofs.LineMath.cum Bridge.Schedule.slope; field_simp; ring
    refine ⟨n, _, hn, ?_⟩
    intro i hi _ hcum
    rw [hc] at hcum ⊢
    by_cases h0 : i = 0
    · subst h0
      simp only [if_true]
      exact Proofs.C01LineFloat.line_token0_ok hf hlt.le hD
    · have hipos : 0 < i := lt_of_le_of_ne hi (Ne.symm h0)
      simp only [h0, if_false]
      exact Proofs.C01LineFloat.line_token_ok hf hlt hD hipos (hx i hipos) hcum
  · subst heq
    exact C01_float_flat fl hfl f D h

/-! ### several consumers: the start protocol of a leaf under every interleaving

`C01_leaf_run` reads one call of `Next` as one step.  The theorems below justify that reading for any number of
concurrent callers: in the small-step system of `Model/C01Conc.lean` (one step = one access to the shared state; the
access lists `nextProg` / `startProg` are REGENERATED from do_at.go + start_sync.go) every finished call based its answer
on the same start instant `v` and on an index nobody else got, and its answer is the answer of call number `idx` of the
sequential run of `C01_leaf_run` from a leaf started at `v`. -/

/-- `s` is a state of the small-step system in which nobody panicked, the finished calls hold pairwise different
indices below the counter, all of them read the start `v`, and each answered what the REGENERATED sequential
`doAtSchedule.Next` answers as call number `idx` of a leaf started at `v` (`C01_leaf_run`). -/
def ConcOK (D n : ℤ) (f : ℤ → ℤ) (v : ℤ) (s : Model.C01Conc.St) : Prop :=
  s.panics = [] ∧ (s.log.map (·.idx)).Nodup ∧
  ∀ a ∈ s.log, 0 ≤ a.idx ∧ a.idx < s.ctr ∧ a.start = some v ∧
    ∀ now : ℤ, ∃ r s', doAtSchedule_Next now (startedSt D n f v a.idx.toNat) = Except.ok (r, s') ∧
      Model.C01Conc.ansOf D n f a = some r ∧
      r = if n ≤ a.idx then (v + D, false) else (v + f a.idx, true)

theorem C01_conc_of_invariant (D n : ℤ) (f : ℤ → ℤ) (g : Bool) (body : List Model.C01Conc.Stmt) (V : ℤ → Prop)
    (s : Model.C01Conc.St) (h : Proofs.C01Conc.Inv g body V s) :
    ∃ v, (s.log = [] ∨ (V v ∧ s.start = some v)) ∧ ConcOK D n f v s := by
  have hv : ∃ v, s.log = [] ∨ (V v ∧ s.start = some v) := by
    by_cases hop : Proofs.C01Conc.Open g s
    · obtain ⟨v, hV, hs⟩ := h.opened hop
      exact ⟨v, Or.inr ⟨hV, hs⟩⟩
    · exact ⟨0, Or.inl (h.closed hop).1⟩
  obtain ⟨v, hs⟩ := hv
  refine ⟨v, hs, h.nopanic, h.log_nodup, ?_⟩
  intro a ha
  have hsv : s.start = some v := by
    rcases hs with h0 | h1
    · rw [h0] at ha; simp at ha
    · exact h1.2
  obtain ⟨h0, h1⟩ := h.log_lt a ha
  have hst : a.start = some v := by rw [h.logstart a ha, hsv]
  refine ⟨h0, h1, hst, ?_⟩
  intro now
  have hidx : ((a.idx.toNat : ℕ) : ℤ) = a.idx := Int.toNat_of_nonneg h0
  refine ⟨_, _, next_started D n f v now a.idx.toNat, ?_, ?_⟩
  · simp [Model.C01Conc.ansOf, hst, hidx]
  · simp [hidx]

/-- **lazy start, several consumers**: a leaf that is never `Start()`ed and is asked by any number of callers at the
same time, in ANY interleaving of their accesses to the shared state (`sched` = who moves next and what the clock shows
then): nobody panics, and as soon as one call has returned there is ONE instant `v` — a clock reading taken during the
run — such that every finished call answered `(v + f idx, true)` for its own index `idx < n` (no two calls share an
index), or `(v + D, false)` for `idx ≥ n`: the calls are linearised by the atomic increment and each sees the profile of
`C01_leaf_run` started at `v`; no call bases its answer on an unset start. -/
theorem C01_lazy_start_concurrent (D n : ℤ) (f : ℤ → ℤ) (sched : List (ℕ × ℤ)) :
    ∃ v, ((Model.C01Conc.run 0 (Model.C01Conc.initLazy Gen.SchedConc.nextProg) sched).log = [] ∨
            v ∈ sched.map Prod.snd) ∧
      ConcOK D n f v (Model.C01Conc.run 0 (Model.C01Conc.initLazy Gen.SchedConc.nextProg) sched) := by
  obtain ⟨g, body, hp, hb⟩ := Bridge.C01Conc.nextProg_body
  rw [hp]
  have hinv := Proofs.C01Conc.run_inv g body (fun v => v ∈ sched.map Prod.snd) hb 0 sched
    (Model.C01Conc.initLazy (Proofs.C01Conc.progG g body)) (fun x hx => List.mem_map_of_mem hx)
    (Proofs.C01Conc.inv_initLazy g body _)
  obtain ⟨v, hv, hok⟩ := C01_conc_of_invariant D n f g body _ _ hinv
  exact ⟨v, hv.imp id (fun h => h.1), hok⟩

/-- **started leaf, several consumers**: after `Start(t0)` has returned, any number of callers in any interleaving: every
finished call answered as call number `idx` of `C01_leaf_run` with start `t0`, indices pairwise different. -/
theorem C01_started_concurrent (D n : ℤ) (f : ℤ → ℤ) (t0 : ℤ) (sched : List (ℕ × ℤ)) :
    ConcOK D n f t0 (Model.C01Conc.run 0 (Model.C01Conc.initStarted t0 Gen.SchedConc.nextProg) sched) := by
  obtain ⟨g, body, hp, hb⟩ := Bridge.C01Conc.nextProg_body
  rw [hp]
  -- the Once is done from the beginning: no step consults the clock or writes `start`
  have key : ∀ (l : List (ℕ × ℤ)) (s : Model.C01Conc.St), s.once = .done → s.start = some t0 →
      Proofs.C01Conc.Inv g body (fun _ => True) s →
      Proofs.C01Conc.Inv g body (fun _ => True) (Model.C01Conc.run 0 s l) ∧ (Model.C01Conc.run 0 s l).start = some t0 := by
    intro l
    induction l with
    | nil => intro s _ hs h; exact ⟨h, hs⟩
    | cons x r ih =>
      intro s ho hs h
      obtain ⟨t, now⟩ := x
      simp only [Model.C01Conc.run]
      obtain ⟨ho', hs'⟩ := Proofs.C01Conc.step_done g body _ 0 s t now h ho
      exact ih _ ho' (by rw [hs', hs]) (Proofs.C01Conc.step_inv g body _ hb 0 s t now trivial h)
  obtain ⟨h1, h2⟩ := key sched _ rfl rfl (Proofs.C01Conc.inv_initStarted g body _ t0 trivial)
  obtain ⟨v, hv, hok⟩ := C01_conc_of_invariant D n f g body _ _ h1
  rcases hv with hnil | ⟨_, hsv⟩
  · -- no finished call yet: the statement about the log is empty
    refine ⟨hok.1, hok.2.1, ?_⟩
    intro a ha; rw [hnil] at ha; simp at ha
  · rw [h2] at hsv
    injection hsv with hsv
    subst hsv; exact hok

/-- **what `Start(t0)` leaves behind** (the state `C01_started_concurrent` starts from): the REGENERATED access list of
`doAtSchedule.Start`, run alone on a schedule nobody has touched, panics nowhere and ends with the started flag up, the
Once done, `s.start = t0`, no index drawn — exactly the shared fields of `initStarted t0`; a second `Start` panics.
Stated about what the list does, so `MarkStarted()` before or after the Once are both fine. -/
theorem C01_start_effect (t0 t1 : ℤ) :
    let s := Model.C01Conc.soloStart t0 Gen.SchedConc.startProg
    let i := Model.C01Conc.initStarted t0 Gen.SchedConc.nextProg
    s.panics = i.panics ∧ s.started = i.started ∧ s.once = i.once ∧ s.start = i.start ∧ s.ctr = i.ctr ∧ s.log = i.log ∧
    s.th 0 = [] ∧
    (Model.C01Conc.run t1 { s with th := fun j => if j = 0 then Gen.SchedConc.startProg else [] }
      (List.replicate Gen.SchedConc.startProg.length (0, 0))).panics = [0] := by
  obtain ⟨h1, h2, h3, h4, h5, h6, h7⟩ := Bridge.C01Conc.startProg_effect t0
  exact ⟨h1, h2, h3, h4, h5, h7, h6, Bridge.C01Conc.startProg_twice t0 t1⟩

/-- why the Once must come FIRST: a `Next` that consults the started flag before the Once
(`if !s.IsStarted() { s.startOnce.Do(…) }`, flag set as the first statement of the Once's body) lets a second caller skip
the Once while the first is between `MarkStarted()` and `s.start = time.Now()`: it answers from the zero time. -/
def flagCheckedNext : List Model.C01Conc.Stmt :=
  [.skipIfStarted 4, .onceEnter 3, .swapStarted, .writeStartNow, .onceExit, .incI, .readStartRet]

theorem C01_lazy_start_flag_check_counterexample :
    Model.C01Conc.safeLazy flagCheckedNext = false ∧
    -- the same check with the flag raised LAST is covered by `C01_lazy_start_concurrent`'s proof (`safeLazy` accepts it)
    Model.C01Conc.safeLazy [.skipIfStarted 4, .onceEnter 3, .writeStartNow, .swapStarted, .onceExit, .incI, .readStartRet] = true ∧
    ∃ sched : List (ℕ × ℤ), ∃ a ∈ (Model.C01Conc.run 0 (Model.C01Conc.initLazy flagCheckedNext) sched).log,
      a.start = none :=
  ⟨by decide, by decide, [(0, 10), (0, 10), (0, 10), (1, 11), (1, 11), (1, 11)], by decide⟩

/-- a limit of the start protocol as it is (not used by the engine, which never calls `Start` on a schedule that is
being drained; the composite starts its next level under its write lock): `Start` OVERLAPPING a first `Next` goes wrong —
`Start` marks the schedule started before it stores its argument, and the `Next` that wins the Once marks it again and
panics (or, with a flag check in front of the Once, answers from the unset start). -/
theorem C01_start_overlapping_next_counterexample :
    ∃ sched : List (ℕ × ℤ),
      (Model.C01Conc.run 7 { Model.C01Conc.initLazy Gen.SchedConc.nextProg with
          th := fun j => if j = 0 then Gen.SchedConc.startProg else Gen.SchedConc.nextProg } sched).panics ≠ [] ∨
      ∃ a ∈ (Model.C01Conc.run 7 { Model.C01Conc.initLazy Gen.SchedConc.nextProg with
          th := fun j => if j = 0 then Gen.SchedConc.startProg else Gen.SchedConc.nextProg } sched).log, a.start = none :=
  -- the `Next` wins the Once and raises the flag; `Start` finds the flag up (whether it looks before or after the Once)
  by first
    | exact ⟨[(1, 1), (1, 2), (1, 3), (1, 4), (0, 5), (0, 6), (0, 7)], by decide⟩
    | exact ⟨[(0, 1), (1, 2), (1, 3), (1, 4), (1, 5), (1, 6), (1, 7)], by decide⟩

/-! ### non-vacuity: every hypothesis above is met by concrete, non-trivial inputs -/

example : ConstConfig_valid 7.5 1000000 := by unfold ConstConfig_valid; schedule_timeval_unfold; norm_num
example : ConstConfig_valid 0 1500000000 := by unfold ConstConfig_valid; schedule_timeval_unfold; norm_num
-- increasing from a zero rate over a fractional number of seconds; decreasing to zero over half a second; flat
example : LineConfig_valid 0 10 1500000000 := by unfold LineConfig_valid; schedule_timeval_unfold; norm_num
example : LineConfig_valid 10 0 500000000 := by unfold LineConfig_valid; schedule_timeval_unfold; norm_num
example : LineConfig_valid 7.5 7.5 1000000 := by unfold LineConfig_valid; schedule_timeval_unfold; norm_num
example : LineConfig_valid 5 50 2500500000 ∧ (5:ℝ) ≤ 50 := by unfold LineConfig_valid; schedule_timeval_unfold; norm_num
-- … and such a profile does contain operations (the `k < n` of `Realises` is not empty): 7 of them
example : ⌊lineCum 0 10 1500000000 (secs 1500000000)⌋ = 7 := by
  rw [(C01_line 0 10 1500000000 (by unfold LineConfig_valid; schedule_timeval_unfold; norm_num)).2]
  unfold secs; rw [Int.floor_eq_iff]; norm_num
-- C01_defined: a non-flat accepted line (it has 7 operations, see above, so some 0 < k < n exists)
example : LineConfig_valid 0 10 1500000000 ∧ (0:ℝ) ≠ 10 := by unfold LineConfig_valid; schedule_timeval_unfold; norm_num
example : StepConfig_valid 1 10 3 1500000000 ∧ (1:ℝ) ≠ 10 := by unfold StepConfig_valid; schedule_timeval_unfold; norm_num
example : StepConfig_valid 5 5 1 1000000 := by unfold StepConfig_valid; schedule_timeval_unfold; norm_num
-- C01_prefix: an earliest instant and a later instant of a real profile (operation 1 of const 2/s over 1 s, y = 0.75 s)
example : EarliestAt (lineCum 2 2 1000000000) 1000000000 1 0.5 ∧ (0:ℝ) ≤ 0.75 ∧ (0.75:ℝ) ≤ secs 1000000000 := by
  unfold EarliestAt lineCum secs
  refine ⟨⟨by norm_num, by norm_num, by norm_num, ?_⟩, by norm_num, by norm_num⟩
  intro y _ hy; norm_num; linarith
-- 3·10⁹ operations written as a JSON number: beyond 2³¹, inside the hooks' range; 2.5 is refused
example : OnceConfig_valid 3000000000 ∧ (3000000000 : ℤ) < 2 ^ 63 ∧ WholeNumberHook_rejects 2.5 := by
  refine ⟨by unfold OnceConfig_valid; schedule_timeval_unfold; norm_num, by norm_num, ?_⟩
  by_contra h
  have := ((float_for_int64_iff 2.5).mp ⟨h, by unfold NumberRangeHook_fits_float kindBits_Int64; norm_num⟩)
  obtain ⟨z, hz, _, _⟩ := this
  have h2 : ((2 * z : ℤ) : ℝ) = 5 := by push_cast; rw [hz]; norm_num
  have h3 : (2 * z : ℤ) = 5 := by exact_mod_cast h2
  omega
example : OnceConfig_valid 3 := by unfold OnceConfig_valid; schedule_timeval_unfold; norm_num
-- a run in which the profile is exhausted (C01_finish) and a leaf that realises a profile (C01_bounds)
example : ∃ rs, startAndDrain 1000 2 (fun i => i * 10) 5 [0, 0, 0] = Except.ok rs ∧ 2 < rs.length ∧ (2:ℤ) ≤ ((2:ℕ):ℤ) :=
  ⟨_, C01_leaf_run _ _ _ _ _, by simp, by simp⟩
example : Realises (NewConstConf 7.5 1000000) (constCum 7.5) 1000000 :=
  C01_const _ _ (by unfold ConstConfig_valid; schedule_timeval_unfold; norm_num)
example : (0:ℤ) ≤ 7 := by norm_num
-- C01_chain / C01_step_chain: three levels of which the middle one holds no operation; a step profile with 4 levels
example : chainRun [((10:ℤ), (2:ℤ), fun k => 3 * k), (10, 0, fun _ => 0), (10, 1, fun _ => 7)] 100 [0, 0, 0, 0, 0] =
    Except.ok [(100, true), (103, true), (127, true), (130, false), (130, false)] := by
  obtain ⟨ans, hrun, htok, hfin⟩ :=
    C01_chain ((10:ℤ), (2:ℤ), fun k => 3 * k) [(10, 0, fun _ => 0), (10, 1, fun _ => 7)] 100 [0, 0, 0, 0, 0]
  rw [hrun]
  have a0 := htok 0 (by simp) 0 (by simp)
  have a1 := htok 0 (by simp) 1 (by simp)
  have a2 := htok 2 (by simp) 0 (by simp)
  have a3 := hfin 3 (by simp [totalOps])
  have a4 := hfin 4 (by simp [totalOps])
  simp [opsBefore, durBefore, totalOps, totalDur] at a0 a1 a2 a3 a4
  simp [List.range_succ, a0, a1, a2, a3, a4]
example : StepConfig_valid 1 10 3 1500000000 ∧ (1:ℝ) ≠ 10 ∧ (stepLevels 1 10 3 1500000000).length = 4 := by
  refine ⟨by unfold StepConfig_valid; schedule_timeval_unfold; norm_num, by norm_num, ?_⟩
  have : ⌊((10:ℝ) - 1) / 3⌋₊ = 3 := by rw [Nat.floor_eq_iff (by norm_num)]; norm_num
  simp [stepLevels, Go.loopLE, this]
-- C01_int64_range, C01_const_float, C01_float_partial: the rounding model is inhabited (exact arithmetic, and a rounding
-- that is always 1/16 too high), the configurations are the ones above
example : LineConfig_valid 0 10 1500000000 ∧ (1500000000:ℤ) < 2 ^ 63 ∧
    lineCum 0 10 1500000000 (secs 1500000000) < 2 ^ 63 := by
  refine ⟨by unfold LineConfig_valid; schedule_timeval_unfold; norm_num, by norm_num, ?_⟩
  rw [(C01_line 0 10 1500000000 (by unfold LineConfig_valid; schedule_timeval_unfold; norm_num)).2]; unfold secs; norm_num
example : Rounding 0 (fun x => x) ∧ Rounding (1 / 16) (fun x => x * (1 + 1 / 16)) := ⟨rounding_id, rounding_up⟩
example : ∃ fl, Rounding (1 / 2 ^ 53) fl := ⟨fun x => x, by norm_num, by norm_num, by intro x; simp⟩
example : (9:ℝ) * (1 / 16) * constCum 1 (secs 1000000000) ≤ 1 := by unfold constCum secs; norm_num

-- two callers of a never-started leaf taking turns access by access while the clock shows 10: both calls finish, both
-- read the start 10, they hold the indices 0 and 1
example : ((Model.C01Conc.run 0 (Model.C01Conc.initLazy Gen.SchedConc.nextProg)
      (List.replicate 12 [((0 : ℕ), (10 : ℤ)), (1, 10)]).flatten).log.map fun a => (a.start, a.idx)) ∈
        [[(some 10, (0 : ℤ)), (some 10, 1)], [(some 10, 1), (some 10, 0)]] := by decide
example : ((Model.C01Conc.run 0 (Model.C01Conc.initStarted 5 Gen.SchedConc.nextProg)
      (List.replicate 12 [((3 : ℕ), (1 : ℤ)), (4, 1)]).flatten).log.map fun a => (a.start, a.idx)) ∈
        [[(some 5, (0 : ℤ)), (some 5, 1)], [(some 5, 1), (some 5, 0)]] := by decide

/-! ### round 6 — compositions over the neighbours' models -/

open Pandora.Proofs.C01R6Comp in
/-- **the succession of levels is C02's composite over C01's leaves** (G, composition with C02): C02 models
`compositeSchedule` generically over the interface `Ops σ` of its nested schedules (`Model.C02.newComposite` with the
backwards `leftAfter` loop, `compStart`, `compNext`, `compLeft`) and ties that model to composite.go for EVERY instance
of the interface (C02_newComposite_is_source, C02_next_is_source, C02_left_is_source, C02_seq_refines). Instantiated
with the REGENERATED leaf methods of C01 (`doAtOps`), for every list of levels, every start and every sequence of calls
of one consumer it answers exactly what `chainRun` answers — so `C01_chain` and `C01_step_chain` are statements about
C02's composite model built on C01's regenerated leaves: operation k of level i at `t0 + i·D + ⌊k/rateᵢ·10⁹⌋`, finish at
`t0 + levels·D`. And `Left()` of that composite (two or more levels) before its start is the number of operations of all
levels together. -/
theorem C01_chain_is_c02_composite (levels : List Level) (t0 : ℤ) (nows : List ℤ) :
    c02Run levels t0 nows = chainRun levels t0 nows ∧
    (∀ (f t : ℝ) (s D : ℤ), StepConfig_valid f t s D → f ≠ t →
      ∃ ans : ℕ → ℤ × Bool,
        c02Run (stepLevels f t s D) t0 nows = Except.ok ((List.range nows.length).map ans) ∧
        (∀ (i : ℕ) (hi : i < (stepLevels f t s D).length) (k : ℕ), k < ((stepLevels f t s D)[i]).2.1.toNat →
            ans (opsBefore (stepLevels f t s D) i + k) =
              (t0 + (i : ℤ) * D + ((stepLevels f t s D)[i]).2.2 k, true)) ∧
        (∀ j : ℕ, totalOps (stepLevels f t s D) ≤ j → ans j = (t0 + ((stepLevels f t s D).length : ℤ) * D, false))) ∧
    (∀ (l l2 : Level) (rest : List Level) (now : ℤ), (∀ x ∈ l :: l2 :: rest, 0 ≤ x.2.1) →
      ∃ c, Model.C02.newComposite doAtOps t0 ((l :: l2 :: rest).map fresh) = .ok (.inr c) ∧
        ∃ c', Model.C02.compLeft doAtOps c now = .ok (c', opsAfter (l :: l2 :: rest))) := by
  refine ⟨c02Run_eq_chainRun levels t0 nows, ?_, ?_⟩
  · intro f t s D h hne
    obtain ⟨_, ans, h1, h2, h3⟩ := C01_step_chain f t s D h hne t0 nows
    exact ⟨ans, by rw [c02Run_eq_chainRun]; exact h1, h2, h3⟩
  · intro l l2 rest now hpos
    exact c02Left_before_start l l2 rest t0 now hpos

open Pandora.Model.C04 Pandora.Proofs.C04 Pandora.Proofs.C01R6Wait in
/-- **end to end: accepted profile → schedule → Waiter → instance loop** (G, composition with C04's model of
`coreutil.Waiter` and of the loop of `instance.Run`, both tied to the source by `Bridge.Waiter`; C04 proves "no early
shot" for an ARBITRARY token sequence, here the tokens are what the regenerated schedule answers).  For every accepted
const or line configuration, the schedule started at `t0`, one instance, ANY world history `h` (context done or not at the
loop head and at `Wait`'s entry, ammo or not, clock readings, timers that fire or are cancelled — `feed` calls the
regenerated `Left()` / `Next()` exactly where `IsFinished` / `Wait` call them):
* nothing panics;
* the scheduled instants of the actions (Shoot, or Report of a discarded sample), in the order the actions happen, are a
  subsequence of `t0 + at 0, t0 + at 1, …, t0 + at (n−1)` with `n = ⌊∫rate⌋` and `at k` the ns-truncation of the earliest
  instant at which the integral of the configured rate reaches k: operations are acted on in profile order, each at most
  once, never more than the profile holds;
* under the clock hypotheses of C04 (`ClockOK`: readings do not go back, a timer does not fire early) every action happens
  at an instant ≥ its scheduled instant — no operation is fired before the profile's instant for it;
* when nothing interferes (`CalmIter`) and the history is long enough, EVERY operation of the profile is acted on and the
  loop then ends by itself. -/
theorem C01_engine_fires_profile (s : Sched) (c : ℝ → ℝ) (D : ℤ) (hs : Realises s c D) (d : Bool) (t0 : ℤ) :
    ∃ (n : ℤ) (at_ : ℤ → ℤ), s = Sched.doAt D n at_ ∧ n = ⌊c (secs D)⌋ ∧
      (∀ k : ℤ, 0 ≤ k → k < n → ∃ x : ℝ, EarliestAt c D k x ∧ at_ k = ⌊x * 1000000000⌋) ∧
      ∀ h : List Iter, ∃ h', feed (startedSt D n at_ t0 0) h = .ok h' ∧
        (∀ w : Waiter, (evToks (runLoop .fresh d w h').1).Sublist
            ((List.range n.toNat).map fun (k : ℕ) => t0 + at_ (k : ℤ))) ∧
        (∀ w : Waiter, ClockOK w h' →
            ∀ ev ∈ (runLoop .fresh d w h').1, ∃ next, ev.iter.env.tok = some next ∧ next ≤ ev.iter.env.ret) ∧
        ((∀ it ∈ h, CalmIter it) → n.toNat < h.length → ∀ w : Waiter,
            evToks (runLoop .fresh d w h').1 = (List.range n.toNat).map (fun (k : ℕ) => t0 + at_ (k : ℤ)) ∧
            (runLoop .fresh d w h').2 = Exit.loopEnd) := by
  obtain ⟨n, at_, rfl, hn, hk⟩ := hs
  refine ⟨n, at_, rfl, hn, fun k h0 h1 => ?_, fun h => ?_⟩
  · obtain ⟨x, hx, hat, _, _⟩ := hk k h0 h1
    exact ⟨x, hx, hat⟩
  · have hprof : profToks n at_ t0 0 = (List.range n.toNat).map (fun (k : ℕ) => t0 + at_ (k : ℤ)) := by
      unfold profToks
      simp only [Nat.sub_zero, List.range_eq_range']
    obtain ⟨h', hfeed, _, hsub⟩ := feed_started d D n at_ t0 h 0
    refine ⟨h', hfeed, fun w => hprof ▸ hsub w, fun w hc => no_early d h' w hc, ?_⟩
    intro hcalm hlen w
    obtain ⟨h'', hfeed', hall⟩ := feed_started_calm d D n at_ t0 h 0 hcalm (by omega)
    rw [hfeed] at hfeed'
    injection hfeed' with hEq
    subst hEq
    obtain ⟨e1, e2⟩ := hall w
    exact ⟨hprof ▸ e1, e2 (by omega)⟩

-- non-vacuity of the composition: const 2/s over 1 s started at 100: two passes in a calm world with the clock at
-- the token time fire both operations (at 100 and 500000100), the third pass ends the loop
example :
    let it : Model.C04.Iter := { finished := false, ammoOk := true, env := { now := 600000000, arm := 600000000, ret := 600000000 } }
    ∃ h', Proofs.C01R6Wait.feed (startedSt 1000000000 2 (fun k => k * 500000000) 100 0) [it, it, it] = .ok h' ∧
      Proofs.C01R6Wait.evToks (Model.C04.runLoop .fresh true {} h').1 = [100, 500000100] ∧
      (Model.C04.runLoop .fresh true {} h').2 = Model.C04.Exit.loopEnd ∧
      Proofs.C04.ClockOK {} h' ∧ (∀ x ∈ [it, it, it], Proofs.C01R6Wait.CalmIter x) := by
  refine ⟨_, rfl, by decide, by decide, by decide, ?_⟩
  intro x hx
  simp at hx
  subst hx
  exact ⟨rfl, rfl, rfl, rfl⟩

end Pandora.Props.C01
