/-
C17 — Config decoding: unknown keys rejected, defaults kept, values validated, placeholders substituted.

Property theorems over the model `Pandora.Model.C17` (tied to the source by `Pandora.Bridge.Config`, regenerated on
every run, and by the correspondence driver harness/cmd/c17 which runs the real decoder on every config type
reachable from the registered plugins) and the executable spec `Pandora.Spec.C17`.
No bound on schema size, nesting depth, number of fields, keys, pools, or string lengths.
-/
import Pandora.Bridge.Config
import Pandora.Proofs.C17
import Pandora.Proofs.C17Cast
import Pandora.Proofs.C17Struct
import Pandora.Proofs.C17Path
import Pandora.Proofs.C17Subst
import Pandora.Proofs.C17Seq
import Pandora.Proofs.C17Valid
import Pandora.Proofs.C17R6
import Pandora.Spec.C17

namespace Pandora.Props.C17
open Pandora.Model.C17 Pandora.Spec.C17 Pandora.Proofs.C17

/-! ## statement-level definitions

`Step`, `At` (a path from a position of a schema / configuration to a position below it), `FAt` (the same by Go field
names), `FieldIn`, `noField`, `placeholder`, `piecesText` … are defined next to their lemmas in `Pandora/Proofs/C17*.lean`. -/

/-- `Inserted k v p s cfg cfg'`: following path `p` from a position of schema `s` holding configuration `cfg` ends at a
mapping that is decoded into a struct none of whose fields has key `k` (not even case-insensitively), and `cfg'` is
`cfg` with the entry `k: v` added to that mapping (anywhere in it).  At a plugin position the `type` key may stand
anywhere in the mapping; a schedule may be given as a list. -/
inductive Inserted (k : Str) (v : Val) : List Step → Schema → Val → Val → Prop
  | here (fs : Fields) (pre post : List (Str × Val)) :
      noField fs k = true → Inserted k v [] (.struct fs) (.map (pre ++ post)) (.map (pre ++ (k, v) :: post))
  | field (fs : Fields) (kvs : List (Str × Val)) (f : FInfo) (s : Schema) (key : Str) (c c' : Val) (p : List Step) :
      FieldIn f s fs → f.settable = true → findKey kvs f.key = some (key, c) →
      Inserted k v p s c c' → Inserted k v (.key key :: p) (.struct fs) (.map kvs) (.map (setKey kvs key c'))
  | elem (e : Schema) (d : DVal) (xs : List Val) (i : Nat) (c c' : Val) (p : List Step) :
      xs[i]? = some c → Inserted k v p e c c' → Inserted k v (.idx i :: p) (.slice e d) (.list xs) (.list (xs.set i c'))
  | entry (e : Schema) (d : Option (List (Str × DVal))) (kvs : List (Str × Val)) (key : Str) (c c' : Val) (p : List Step) :
      (key, c) ∈ kvs → Inserted k v p e c c' →
      Inserted k v (.key key :: p) (.map e d) (.map kvs) (.map (setKey kvs key c'))
  | deref (n : Bool) (s : Schema) (c c' : Val) (p : List Step) :
      Inserted k v p s c c' → Inserted k v (.deref :: p) (.ptr n s) c c'
  | plugin (pi : PInfo) (alts : Alts) (m m' : List (Str × Val)) (name : Str) (lzy : Bool) (s : Schema) (p : List Step) :
      typeEntries m = [.str name] → typeEntries m' = [.str name] → pi.names.contains name = true →
      altOf alts name = some (lzy, s) →
      Inserted k v p s (.map (dropType m)) (.map (dropType m')) →
      Inserted k v (.plugin :: p) (.plugin pi alts) (.map m) (.map m')
  | schedList (pi : PInfo) (alts : Alts) (xs xs' : List Val) (p : List Step) :
      pi.hook = .sched → Inserted k v p (.plugin pi alts) (.map (schedMap xs)) (.map (schedMap xs')) →
      Inserted k v (.shortcut :: p) (.plugin pi alts) (.list xs) (.list xs')

/-! ## unknown keys -/

/-- the configuration with the inserted key is a mapping or a list -/
theorem C17_inserted_shape {k : Str} {v : Val} {p : List Step} {s : Schema} {cfg cfg' : Val}
    (h : Inserted k v p s cfg cfg') : cfg' ≠ .null := by
  induction h with
  | here => intro h; cases h
  | field => intro h; cases h
  | elem => intro h; cases h
  | entry => intro h; cases h
  | deref _ _ _ _ _ _ ih => exact ih
  | plugin => intro h; cases h
  | schedList => intro h; cases h

/-- the path of an insertion leads, in the configuration WITH the inserted key, to the mapping that now holds it -/
theorem C17_inserted_at {k : Str} {v : Val} {p : List Step} {s : Schema} {cfg cfg' : Val}
    (h : Inserted k v p s cfg cfg') :
    ∃ fs kvs', At false p s cfg' (.struct fs) (.map kvs') ∧ (k, v) ∈ kvs' ∧ noField fs k = true := by
  induction h with
  | here fs pre post hno => exact ⟨fs, _, .here _ _, by simp, hno⟩
  | field fs kvs f s key c c' p hin hset hfind _ ih =>
    rcases ih with ⟨fs', kvs', hat, hmem, hno⟩
    exact ⟨fs', kvs', .field fs _ f s key c' p _ _ hin hset (findKey_setKey kvs f.key key c c' hfind) (by simp) hat, hmem, hno⟩
  | elem e d xs i c c' p hget _ ih =>
    rcases ih with ⟨fs', kvs', hat, hmem, hno⟩
    have hi : i < xs.length := by
      rcases List.getElem?_eq_some_iff.mp hget with ⟨hi, _⟩; exact hi
    exact ⟨fs', kvs', .elem e d _ i c' p _ _ (by simp [hi]) hat, hmem, hno⟩
  | entry e d kvs key c c' p hmem0 _ ih =>
    rcases ih with ⟨fs', kvs', hat, hmem, hno⟩
    refine ⟨fs', kvs', .entry e d _ key c' p _ _ ?_ hat, hmem, hno⟩
    unfold setKey
    exact List.mem_map.mpr ⟨(key, c), hmem0, by simp⟩
  | deref n s c c' p hins ih =>
    rcases ih with ⟨fs', kvs', hat, hmem, hno⟩
    exact ⟨fs', kvs', .deref n s c' p _ _ (C17_inserted_shape hins) hat, hmem, hno⟩
  | plugin pi alts m m' name lzy s p _ hte' hname halt _ ih =>
    rcases ih with ⟨fs', kvs', hat, hmem, hno⟩
    exact ⟨fs', kvs', .plugin pi alts m' name lzy s p _ _ hte' hname halt hat, hmem, hno⟩
  | schedList pi alts xs xs' p hh _ ih =>
    rcases ih with ⟨fs', kvs', hat, hmem, hno⟩
    exact ⟨fs', kvs', .schedList pi alts xs' p _ _ hh hat, hmem, hno⟩

/-- **An error anywhere is an error of the whole configuration.** If following a path (struct fields, pointers, list
elements, map entries, plugin positions dispatching on `type`, schedule lists; any depth) arrives at a position whose
decoding fails — an unknown key, a wrongly typed value, a placeholder that cannot be resolved, a bad plugin name … —
then decoding the whole configuration fails: at once, or (below a lazily filled factory) at the first factory call. -/
theorem C17_nested_error (fl : Flags) (env : Env) (p : List Step) (s : Schema) (cfg : Val) (s' : Schema) (c' : Val)
    (h : At false p s cfg s' c') (hf : R.failed (decode fl env s' c')) :
    R.failed (decode fl env s cfg) ∧ (decodeAndValidate fl env s cfg).rejected = true :=
  ⟨nested_failed fl env h hf, rejected_of_failed fl env s cfg (nested_failed fl env h hf)⟩

/-- **Unknown key, every nesting level.** With `ErrorUnused` set, for every schema, every configuration, every path
(through struct fields, pointers, list elements, map entries, plugin positions dispatching on `type` — the `type` key
anywhere in the mapping — and schedule lists, to any depth) and every key that is not a field of the struct decoded
at the end of that path: decoding the configuration with that key inserted (anywhere in that mapping, with any
value) fails — at once, or (below a factory made from a component constructor) at the first call of the factory. -/
theorem C17_unknown_key (fl : Flags) (env : Env) (hfl : fl.errorUnused = true) (k : Str) (v : Val) :
    ∀ (p : List Step) (s : Schema) (cfg cfg' : Val), Inserted k v p s cfg cfg' →
      R.failed (decode fl env s cfg') ∧ (decodeAndValidate fl env s cfg').rejected = true := by
  intro p s cfg cfg' h
  rcases C17_inserted_at h with ⟨fs, kvs', hat, hmem, hno⟩
  apply C17_nested_error fl env p s cfg' _ _ hat
  left
  intro he
  have := unknown_key_mem fl env hfl fs kvs' k v hmem hno
  rw [he] at this; cases this

/-- a second `type` key (or a `type` that is no string) in a plugin block is refused as well -/
theorem C17_plugin_type_key (fl : Flags) (env : Env) (pi : PInfo) (alts : Alts) (m : List (Str × Val))
    (h : ∀ name, typeEntries m ≠ [.str name]) :
    (decode fl env (.plugin pi alts) (.map m)).errs = [.plugintype] :=
  plugin_bad_type fl env pi alts m h

/-- Without `ErrorUnused` the same key is silently dropped (why the flag regenerated from `newDecoderConfig` matters). -/
theorem C17_unknown_key_needs_errorUnused :
    ∃ (env : Env) (s : Schema) (cfg' : Val),
      Inserted "zz".toList (.int 1) [] s (.map []) cfg' ∧
      (decodeAndValidate ⟨false, false, true, true, true⟩ env s cfg').rejected = false :=
  ⟨⟨[], []⟩, .struct (.cons ⟨"A".toList, "a".toList, true, false, []⟩ (.scalar .bool (.bool false)) .nil), _,
    .here _ [] [] (by decide), by decide⟩

/-! ## defaults -/

/-- **Defaults.** A decoded struct holds, field by field, the decoded option, or — when the configuration has no
(case-insensitively matching) key for the field — the default the schema carries (the component's registered default
config); an explicit `null` keeps the default as well when `ZeroFields` is off; defaults of nested structs are the
defaults of their fields; a scalar option that fails to decode leaves the default in place. -/
theorem C17_defaults (fl : Flags) (env : Env) :
    (∀ fs kvs, (decode fl env (.struct fs) (.map kvs)).val =
        .struct ((Fields.toList fs).map fun p => (p.1.name, (fieldResult fl env kvs p.1 p.2).val))) ∧
    (∀ kvs f s, findKey kvs f.key = none → fieldResult fl env kvs f s = keep false s) ∧
    (fl.zeroFields = false → ∀ s, decode fl env s .null = keep false s) ∧
    (∀ k d, (keep false (.scalar k d)).val = d) ∧
    (∀ fs, (keep false (.struct fs)).val = .struct ((Fields.toList fs).map fun p => (p.1.name, (keep false p.2).val))) := by
  refine ⟨?_, ?_, ?_, ?_, ?_⟩
  · intro fs kvs
    rw [decode_struct_map, decodeFlat_vals]
  · intro kvs f s h
    simp [fieldResult, h]
  · intro hz s
    cases s <;> simp [decode, hz]
  · intro k d
    simp [keep]
  · intro fs
    simp [keep, keepFields_vals]

/-- With `ZeroFields` on, an explicit `null` wipes the default (why that flag must stay off). -/
theorem C17_defaults_needs_zeroFields_off :
    ∃ (env : Env) (s : Schema),
      (decode ⟨true, true, true, true, true⟩ env s .null).val.isZero = true ∧ (keep false s).val.isZero = false :=
  ⟨⟨[], []⟩, .scalar (.int 64) (.int 1234), by decide⟩

/-! ## wrongly typed values -/

/-- **Type errors.** A value of the wrong shape is an error, for every target:
a non-string scalar the kind switch does not convert, (with `WholeNumberHook` in the chain) a number with a
fractional part given for an integer / duration field, and (with `NumberRangeHook`) a number the field's type cannot
hold; a string (without placeholder) for a bool / numeric field;
anything but a mapping for a struct, anything but a list for a slice, anything but a mapping for a map; a number or
boolean at a plugin position.  The failed field keeps its default. -/
theorem C17_type_error (fl : Flags) (env : Env) :
    (∀ k d v, (∀ s, v ≠ .str s) → v ≠ .null →
      (accepts k v = false ∨ (fl.wholeNumbers = true ∧ intKind k = true ∧ fractional v = true) ∨
        (fl.numberRange = true ∧ fitsKind k v = false)) →
      decode fl env (.scalar k d) v = R.fail d .type) ∧
    (∀ k d s, k ≠ .dur → k ≠ .str → resolve env s = .plain → decode fl env (.scalar k d) (.str s) = R.fail d .type) ∧
    (∀ fs v, v ≠ .null → (∀ kvs, v ≠ .map kvs) → (decode fl env (.struct fs) v).errs = [.type]) ∧
    (∀ e d v, v ≠ .null → (∀ xs, v ≠ .list xs) → (decode fl env (.slice e d) v).errs = [.type]) ∧
    (∀ e d v, v ≠ .null → (∀ kvs, v ≠ .map kvs) → (decode fl env (.map e d) v).errs = [.type]) ∧
    (∀ pi alts, (∀ b, (decode fl env (.plugin pi alts) (.bool b)).errs = [.type]) ∧
      (∀ i, (decode fl env (.plugin pi alts) (.int i)).errs = [.type]) ∧
      (∀ x, (decode fl env (.plugin pi alts) (.float x)).errs = [.type])) := by
  refine ⟨?_, ?_, ?_, ?_, ?_, ?_⟩
  · intro k d v hs hn ha
    have : decode fl env (.scalar k d) v = decodeScalar fl env k d v := by cases v <;> simp_all [decode]
    rw [this, decodeScalar, decodeScalar_nonstring castTo fl env k d v hs]
    rcases ha with ha | ⟨h1, h2, h3⟩ | ⟨h1, h2⟩
    · rw [decodeKind_rejects k d v ha]; simp
    · simp [h1, h2, h3]
    · simp [h1, h2]
  · intro k d s hd hs hp
    have : decode fl env (.scalar k d) (.str s) = decodeScalar fl env k d (.str s) := by simp [decode]
    rw [this, decodeScalar, decodeScalar_plain castTo fl env k d s hd hp]
    apply decodeKind_rejects
    cases k <;> simp_all [accepts]
  · intro fs v hn hm
    cases v <;> simp_all [decode, R.fail]
  · intro e d v hn hl
    cases v <;> simp_all [decode, R.fail]
  · intro e d v hn hm
    cases v <;> simp_all [decode, R.fail]
  · intro pi alts
    refine ⟨?_, ?_, ?_⟩ <;> intro x <;> simp [decode, R.fail]

/-- Without `WholeNumberHook` a fractional number for an integer option is silently truncated (`times: 2.7` → 2): why
the hook regenerated from `DefaultHooks()` matters. -/
theorem C17_type_error_needs_wholeNumbers :
    ∃ (env : Env) (k : Kind) (d : DVal) (x : Dec), intKind k = true ∧ fractional (.float x) = true ∧
      (decode ⟨true, false, true, false, true⟩ env (.scalar k d) (.float x)).errs = [] ∧
      (decode ⟨true, false, true, true, true⟩ env (.scalar k d) (.float x)).errs = [.type] :=
  ⟨⟨[], []⟩, .int 64, .int 0, ⟨false, 27, 1⟩, by decide, by decide, by decide, by decide⟩

/-- **A number is stored as that number, or refused.** For every numeric kind (every signed and unsigned width,
time.Duration, float32 / float64), every default and every number `v` a configuration can give (an integer of any size,
a decimal of any size): if the kind can hold `v` (`Spec.numberDemand`: a whole number within −2^(b−1) … 2^(b−1)−1 for a
signed width b / a duration (b = 64), within 0 … 2^b−1 for an unsigned one; any integer and any decimal for a float64, a
decimal of magnitude at most math.MaxFloat32 for a float32) the field holds exactly that number and nothing is reported;
otherwise — a fractional part, 300 for an int8, 2^63 or 1e19 for an int64 or a duration, 2^64 for a uint64, 1e39 for a
float32 — the field is an error and keeps its default: never another number. -/
theorem C17_number_range (env : Env) (k : Kind) (d : DVal) (v : Val) :
    (∀ w, numberDemand k v = some (some w) → decode repoFlags env (.scalar k d) v = { val := w }) ∧
    (numberDemand k v = some none → decode repoFlags env (.scalar k d) v = R.fail d .type) := by
  have hdec : ∀ w : Val, (∀ s, w ≠ .str s) → w ≠ .null →
      decode repoFlags env (.scalar k d) w =
        if repoFlags.wholeNumbers && intKind k && fractional w then R.fail d .type
        else if repoFlags.numberRange && !fitsKind k w then R.fail d .type else decodeKind k d w := by
    intro w hs hn
    have : decode repoFlags env (.scalar k d) w = decodeScalar repoFlags env k d w := by cases w <;> simp_all [decode]
    rw [this, decodeScalar, decodeScalar_nonstring castTo repoFlags env k d w hs]
  constructor
  · intro w hw
    cases v with
    | int i =>
      rw [hdec _ (by intro s h; cases h) (by intro h; cases h)]
      cases k <;> simp [numberDemand, wholeOf] at hw
      · next bits =>
        obtain ⟨h1, rfl⟩ := hw
        simp [repoFlags, intKind, fractional, fitsKind, decodeKind, h1]
      · next bits =>
        obtain ⟨⟨h0, h1⟩, rfl⟩ := hw
        have : ¬ (i < 0) := by omega
        simp [repoFlags, intKind, fractional, fitsKind, decodeKind, h1, this]
      · next bits =>
        subst hw
        simp [repoFlags, intKind, fractional, fitsKind, decodeKind]
      · obtain ⟨h1, rfl⟩ := hw
        simp [repoFlags, intKind, fractional, fitsKind, decodeKind, h1]
    | float x =>
      rw [hdec _ (by intro s h; cases h) (by intro h; cases h)]
      by_cases hwh : x.isWhole = true
      · cases k <;> simp [numberDemand, wholeOf, hwh] at hw
        · next bits =>
          obtain ⟨h1, rfl⟩ := hw
          simp [repoFlags, intKind, fractional, fitsKind, decodeKind, h1, hwh]
        · next bits =>
          obtain ⟨⟨h0, h1⟩, rfl⟩ := hw
          have hneg : (x.neg && !x.isZero) = false := Dec.trunc_nonneg_not_neg x hwh h0
          have hneg' : ¬ (x.neg = true ∧ x.isZero = false) := by simpa using hneg
          simp [repoFlags, intKind, fractional, fitsKind, decodeKind, h1, hwh, hneg']
        · next bits =>
          obtain ⟨h1, rfl⟩ := hw
          have h1' : (bits != 32 || x.absLeNat maxFloat32) = true := by simpa using h1
          simp [repoFlags, intKind, fractional, fitsKind, decodeKind, h1']
        · obtain ⟨h1, rfl⟩ := hw
          simp [repoFlags, intKind, fractional, fitsKind, decodeKind, h1, hwh]
      · cases k <;> simp [numberDemand, wholeOf, hwh] at hw
        · next bits =>
          obtain ⟨h1, rfl⟩ := hw
          have h1' : (bits != 32 || x.absLeNat maxFloat32) = true := by simpa using h1
          simp [repoFlags, intKind, fractional, fitsKind, decodeKind, h1']
    | null => cases k <;> simp [numberDemand, wholeOf] at hw
    | bool b => cases k <;> simp [numberDemand, wholeOf] at hw
    | str s => cases k <;> simp [numberDemand, wholeOf] at hw
    | list xs => cases k <;> simp [numberDemand, wholeOf] at hw
    | map kvs => cases k <;> simp [numberDemand, wholeOf] at hw
  · intro hw
    cases v with
    | int i =>
      rw [hdec _ (by intro s h; cases h) (by intro h; cases h)]
      cases k <;> simp [numberDemand, wholeOf] at hw
      · next bits => simp [repoFlags, intKind, fractional, fitsKind, hw]
      · next bits =>
        by_cases h0 : i < 0
        · simp [repoFlags, intKind, fractional, fitsKind, decodeKind, h0, R.fail]
        · have h0' : 0 ≤ i := by omega
          have := hw h0'
          simp [repoFlags, intKind, fractional, fitsKind, this, h0]
      · simp [repoFlags, intKind, fractional, fitsKind, hw]
    | float x =>
      rw [hdec _ (by intro s h; cases h) (by intro h; cases h)]
      by_cases hwh : x.isWhole = true
      · cases k <;> simp [numberDemand, wholeOf, hwh] at hw
        · next bits => simp [repoFlags, intKind, fractional, fitsKind, hwh, hw]
        · next bits =>
          by_cases hneg : x.neg = true ∧ x.isZero = false
          · simp [repoFlags, intKind, fractional, fitsKind, decodeKind, hwh, hneg.1, hneg.2, R.fail]
          · have h0 : 0 ≤ x.trunc := Dec.trunc_nonneg_of_not_neg x hneg
            have := hw h0
            simp [repoFlags, intKind, fractional, fitsKind, hwh, this, hneg]
        · next bits =>
          obtain ⟨hb, hle⟩ := hw
          simp [repoFlags, intKind, fractional, fitsKind, hb, hle]
        · simp [repoFlags, intKind, fractional, fitsKind, hwh, hw]
      · cases k <;> simp [numberDemand, wholeOf, hwh] at hw
        · simp [repoFlags, intKind, fractional, hwh]
        · simp [repoFlags, intKind, fractional, hwh]
        · next bits =>
          obtain ⟨hb, hle⟩ := hw
          simp [repoFlags, intKind, fractional, fitsKind, hb, hle]
        · simp [repoFlags, intKind, fractional, hwh]
    | null => cases k <;> simp [numberDemand, wholeOf] at hw
    | bool b => cases k <;> simp [numberDemand, wholeOf] at hw
    | str s => cases k <;> simp [numberDemand, wholeOf] at hw
    | list xs => cases k <;> simp [numberDemand, wholeOf] at hw
    | map kvs => cases k <;> simp [numberDemand, wholeOf] at hw

/-- Without `NumberRangeHook` such a number is accepted without any report and the field holds something else (Go's
conversions wrap, saturate or are implementation-specific: the model's `.opaque`): why the hook regenerated from
`DefaultHooks()` matters.  300 for an int8, 2^63 for an int64, 1e19 for a duration, 256 for a uint8, 1e39 for a float32. -/
theorem C17_number_range_needs_hook :
    ∀ kv ∈ [(Kind.int 8, Val.int 300), (Kind.int 64, Val.int 9223372036854775808), (Kind.dur, Val.float ⟨false, 10 ^ 19, 0⟩),
        (Kind.uint 8, Val.int 256), (Kind.uint 64, Val.float ⟨false, 2 ^ 64, 0⟩), (Kind.float 32, Val.float ⟨false, 10 ^ 39, 0⟩)],
      (decode ⟨true, false, true, true, false⟩ ⟨[], []⟩ (.scalar kv.1 (.int 7)) kv.2).errs = [] ∧
      scalarEq (decode ⟨true, false, true, true, false⟩ ⟨[], []⟩ (.scalar kv.1 (.int 7)) kv.2).val (.int 7) = false ∧
      (decode ⟨true, false, true, true, true⟩ ⟨[], []⟩ (.scalar kv.1 (.int 7)) kv.2).errs = [.type] ∧
      scalarEq (decode ⟨true, false, true, true, true⟩ ⟨[], []⟩ (.scalar kv.1 (.int 7)) kv.2).val (.int 7) = true := by
  decide

/-! ## constraints -/

/-- **Constraints.** If the value a field ends up with (given or default) violates one of the field's `validate`
tags, the configuration is rejected; the same holds when the violation sits in a nested struct (or, with `dive`, in
an element of a slice / map), and when it sits in the config of a plugin: the plugin position then fails. -/
theorem C17_constraint (fl : Flags) (env : Env) (fs : Fields) (kvs : List (Str × Val)) (f : FInfo) (s : Schema)
    (hin : FieldIn f s fs) :
    (tagsFail f.tags (fieldResult fl env kvs f s).val = true →
      (decodeAndValidate fl env (.struct fs) (.map kvs)).rejected = true) ∧
    (childVfail f s (fieldResult fl env kvs f s) = true →
      (decodeAndValidate fl env (.struct fs) (.map kvs)).rejected = true) ∧
    (∀ pi alts tk name pk lzy ps, isTypeKey tk = true → typeEntries pk = [] → pi.names.contains name = true →
      altOf alts name = some (lzy, ps) → (decode fl env ps (.map pk)).vfail = true →
      R.failed (decode fl env (.plugin pi alts) (.map ((tk, .str name) :: pk)))) := by
  refine ⟨?_, ?_, ?_⟩
  · intro h
    apply rejected_of_vfail
    rw [decode_struct_map]
    exact vfail_of_field fl env fs kvs f s hin (Or.inl h)
  · intro h
    apply rejected_of_vfail
    rw [decode_struct_map]
    exact vfail_of_field fl env fs kvs f s hin (Or.inr h)
  · intro pi alts tk name pk lzy ps htk hno hname halt hv
    apply plugin_rejects fl env pi alts tk name pk lzy ps htk hno hname halt
    left
    unfold settle
    cases he : (decode fl env ps (.map pk)).errs with
    | nil => simp [hv]
    | cons x xs => simp

/-- **A constraint violation anywhere rejects the configuration.** If following a path on which every slice / map
field carries `dive` (the validator descends into structs and pointers always, into containers only with `dive`)
arrives at a position that is rejected — a decoding error, or a value (given or default) violating a `validate` tag
there — the whole configuration is rejected; below a plugin position the plugin's own `DecodeAndValidate` reports it. -/
theorem C17_nested_constraint (fl : Flags) (env : Env) (p : List Step) (s : Schema) (cfg : Val) (s' : Schema) (c' : Val)
    (h : At true p s cfg s' c') (hr : (decode fl env s' c').rejected) :
    (decode fl env s cfg).rejected ∧ (decodeAndValidate fl env s cfg).rejected = true :=
  ⟨nested_rejected fl env h hr, rejected_of_R fl env s cfg (nested_rejected fl env h hr)⟩

/-- **A plugin block that only names the plugin** (`sink: {type: file}`): the plugin's registered default config is
decoded from the empty mapping and VALIDATED; if the defaults violate the config's own `validate` tags (a required
path / target / data that has no default) the block is refused, otherwise the plugin is created from the defaults. -/
theorem C17_plugin_defaults_validated (fl : Flags) (env : Env) (pi : PInfo) (alts : Alts) (m : List (Str × Val))
    (name : Str) (lzy : Bool) (fs : Fields)
    (hte : typeEntries m = [.str name]) (hd : dropType m = []) (hname : pi.names.contains name = true)
    (halt : altOf alts name = some (lzy, .struct fs)) :
    ((keep false (.struct fs)).vfail = true → R.failed (decode fl env (.plugin pi alts) (.map m))) ∧
    ((keep false (.struct fs)).vfail = false →
      decode fl env (.plugin pi alts) (.map m) =
        { val := if pi.factory then .factory (keep false (.struct fs)).val else .plugin (keep false (.struct fs)).val }) := by
  have he := decode_struct_empty fl env fs
  constructor
  · intro hv
    apply plugin_rejects_gen fl env pi alts m name lzy (.struct fs) hte hname halt
    rw [hd]
    left
    unfold settle
    simp [he.1, he.2.2.1, hv]
  · intro hv
    have hs : settle (decode fl env (.struct fs) (.map [])) = [] := by
      unfold settle
      simp [he.1, he.2.2.1, hv]
    rw [decode_plugin_map fl env pi alts m name lzy (.struct fs) hte hname halt _ (by rw [hd])]
    cases lzy <;> simp [hs, he.2.1, he.2.2.2]

/-- **What a plugin instance is built from.** At a plugin position whose block names the registered plugin `name` (the
`type` key anywhere in the block, in any letter case): every instance — the one `plugin.New` builds while the
configuration is decoded, or each one a factory from `plugin.NewFactory` builds at each of its calls — receives the
block without its `type` key decoded into the registered default config of THAT plugin, `r.val` with
`r = decode fl env s (dropType m)`: by `C17_defaults` the given options, the registered default for every option that is
not given, by `C17_value_at_path` field by field at any depth below it — a function of the block alone, not of any other
position of the configuration or of an earlier instance.  The instance exists when the block is accepted (eagerly built
plugins) resp. always (a lazily filled factory reports the block's errors at its calls: `later`). -/
theorem C17_plugin_instance_config (fl : Flags) (env : Env) (pi : PInfo) (alts : Alts) (m : List (Str × Val))
    (name : Str) (lzy : Bool) (s : Schema)
    (hte : typeEntries m = [.str name]) (hname : pi.names.contains name = true)
    (halt : altOf alts name = some (lzy, s))
    (hacc : lzy = true ∨ settle (decode fl env s (.map (dropType m))) = []) :
    instConf (decode fl env (.plugin pi alts) (.map m)).val = some (decode fl env s (.map (dropType m))).val ∧
    (decode fl env (.plugin pi alts) (.map m)).errs = [] ∧
    (∀ (q : List Str) (s' : Schema) (c' : Val), FAt q s (.map (dropType m)) s' c' →
      ∃ conf, instConf (decode fl env (.plugin pi alts) (.map m)).val = some conf ∧
        lookup q conf = some (decode fl env s' c').val) := by
  have hd := decode_plugin_map fl env pi alts m name lzy s hte hname halt _ rfl
  have h1 : instConf (decode fl env (.plugin pi alts) (.map m)).val = some (decode fl env s (.map (dropType m))).val ∧
      (decode fl env (.plugin pi alts) (.map m)).errs = [] := by
    rw [hd]
    rcases hacc with rfl | hs
    · cases pi.factory <;> simp [instConf]
    · cases lzy <;> cases pi.factory <;> simp [hs, instConf]
  refine ⟨h1.1, h1.2, ?_⟩
  intro q s' c' hq
  exact ⟨_, h1.1, value_at fl env hq⟩

/-- what each `validate` tag used in the repository demands of the field's value -/
theorem C17_constraint_tags :
    (∀ v, tagFail .required v = v.isZero) ∧
    (∀ n i, tagFail (.min n) (.int i) = decide (i < n)) ∧
    (∀ n u, tagFail (.min n) (.uint u) = decide ((u : Int) < n)) ∧
    (∀ n x, tagFail (.min n) (.float x) = !x.geInt n) ∧
    (∀ ns i, tagFail (.minTime ns) (.int i) = decide (i < ns)) ∧
    (∀ ns i, tagFail (.maxTime ns) (.int i) = decide (ns < i)) ∧
    (∀ s, tagFail .endpoint (.str s) = !endpointOk s) ∧
    (∀ s, tagFail .urlPath (.str s) = !urlPathOk s) ∧
    (∀ alts s, tagFail (.oneOf alts) (.str s) = !alts.contains s) ∧
    (∀ ts v, v.isZero = true → tagsFail (.omitempty :: ts) v = false) ∧
    (∀ t ts v, tagFail t v = true → tagsFail (t :: ts) v = true) := by
  refine ⟨fun _ => rfl, fun _ _ => rfl, fun _ _ => rfl, fun _ _ => rfl, ?_, ?_, fun _ => rfl, fun _ => rfl, fun _ _ => rfl, ?_, ?_⟩
  · intro ns i; simp only [tagFail, boundShape, Bool.true_and]; rw [decide_lt_not_le]
  · intro ns i; simp only [tagFail, boundShape, Bool.true_and]; rw [decide_lt_not_le]
  · intro ts v h; simp [tagsFail, h]
  · intro t ts v h
    cases t <;> simp_all [tagsFail, tagFail]

/-- **The `endpoint` constraint ("host:port" or ":port", port 1 … 65535).** For EVERY text: without a colon it is
refused; whatever stands in front of the last colon — nothing, a host name, brackets —, a port part that is empty,
has a character that is no digit, or is the number 0 or above 65535 is refused (`:99999`, `:0`, `:http`, `:80a`, `:`
are no endpoints: an empty host does not excuse the port); `:port` and `host:port` with a plain host name / dotted
quad and a decimal port 1 … 65535 are accepted. -/
theorem C17_endpoint_constraint :
    (∀ s, (∀ c ∈ s, c ≠ ':') → endpointOk s = false) ∧
    (∀ host port, (∀ c ∈ port, c ≠ ':') → portClass port = some false → endpointOk (host ++ ':' :: port) = false) ∧
    (∀ host port, portClass port = some true → (host = [] ∨ simpleHost host = true) →
      endpointOk (host ++ ':' :: port) = true) ∧
    (∀ s b, endpointDemand s = some b → tagFail .endpoint (.str s) = !b) := by
  refine ⟨?_, ?_, ?_, ?_⟩
  · intro s h
    apply endpoint_demand
    unfold endpointDemand
    rw [cutLastColon_none s h]
  · intro host port hp hc
    apply endpoint_demand
    unfold endpointDemand
    rw [cutLastColon_join host port hp]
    simp [hc]
  · intro host port hc hh
    apply endpoint_demand
    unfold endpointDemand
    rw [cutLastColon_join host port (fun c h => (digits_chars port (class_true_digits port hc) c h).1)]
    have : (host.isEmpty || simpleHost host) = true := by
      rcases hh with rfl | hs
      · rfl
      · simp [hs]
    simp [hc, this]
  · intro s b h
    simp [tagFail, endpoint_demand s b h]

/-- **The `url-path` constraint** is exactly the language of `^(/[a-zA-Z0-9._~!$&'()*+,;=:@%-]+)+$` (the regular
expression regenerated from the source and pinned by `Bridge.Config.url_path_validation`): a `/` followed by one or
more non-empty segments of those characters, separated by single slashes. -/
theorem C17_url_path_constraint (s : Str) :
    urlPathOk s = urlPathDemand s ∧ tagFail .urlPath (.str s) = !urlPathDemand s :=
  ⟨urlPath_demand s, by simp [tagFail, urlPath_demand]⟩

/-- **Documented constraints are enforced, with inclusive bounds.** Whenever the documentation's reading of a field's
constraints (`Spec.demandAll`: required, min, min-time / max-time with the bound itself allowed, endpoint, url-path,
one-of; `omitempty` excusing the zero value) says the value the field ends up with — given or default — violates one
of them, the configuration is rejected; when it says all are met, the field's own tags do not reject it. -/
theorem C17_documented_constraint (fl : Flags) (env : Env) (fs : Fields) (kvs : List (Str × Val)) (f : FInfo) (s : Schema)
    (hin : FieldIn f s fs) :
    (demandAll f.tags (fieldResult fl env kvs f s).val = some false →
      (decodeAndValidate fl env (.struct fs) (.map kvs)).rejected = true) ∧
    (demandAll f.tags (fieldResult fl env kvs f s).val = some true →
      tagsFail f.tags (fieldResult fl env kvs f s).val = false) ∧
    (∀ t v b, demand t v = some b → tagFail t v = !b) :=
  ⟨fun h => (C17_constraint fl env fs kvs f s hin).1 ((demandAll_tagsFail _ _).1 h),
    fun h => (demandAll_tagsFail _ _).2 h, demand_tagFail⟩

/-- **The literal grammar of the casts extends plain decimal.** Every text that is a decimal number without sign and
without leading zero is read by the casts (`strconv.ParseInt / ParseUint` with base 0, the model's `parseIntLit` /
`parseUintLit`, which also read `0x…`, `0o…`, `0b…`, a leading `0` as octal, and `_` between digits) as that number,
with either sign in front for the signed kinds. -/
theorem C17_literal_decimal (s : Str) (n : Nat) (h : decimalNat s = some n) :
    parseUintLit s = some n ∧ parseIntLit s = some (n : Int) ∧ parseIntLit ('-' :: s) = some (- (n : Int)) ∧
    parseIntLit ('+' :: s) = some (n : Int) := by
  have hu := parseUintLit_decimal s n h
  refine ⟨hu, ?_, by simp [parseIntLit, hu], by simp [parseIntLit, hu]⟩
  cases s with
  | nil => simp [decimalNat] at h
  | cons c r =>
    have hc : isDigitC c = true := by
      unfold decimalNat at h
      split at h
      · simp at h
      · next heq => cases heq; decide
      · next c' r' _ heq =>
        cases heq
        by_cases h0 : (c == '0') = true
        · simp [h0] at h
        · simp only [h0, Bool.false_eq_true, if_false] at h
          by_cases ha : allDigits (c :: r) = true
          · exact allDigits_head c r ha
          · simp [ha] at h
    have h1 : c ≠ '-' := by intro e; subst e; revert hc; decide
    have h2 : c ≠ '+' := by intro e; subst e; revert hc; decide
    unfold parseIntLit
    split
    · next heq => cases heq; exact absurd rfl h1
    · next heq => cases heq; exact absurd rfl h2
    · simp [hu]

/-! ## placeholders -/

/-- the statement about a field that is exactly one placeholder, for a given cast function -/
def CastStatement (cast : Kind → Str → Option Val) : Prop :=
  ∀ (env : Env) (ty name raw : Str) (k : Kind) (d : DVal), PlainType ty → PlainName name →
    resolveTag env (placeholder ty name) ty name = some raw →
    (∀ w, castExpect k raw = some w →
      decodeScalarWith cast repoFlags env k d (.str (placeholder ty name)) = { val := w }) ∧
    (castExpect k raw = none →
      (decodeScalarWith cast repoFlags env k d (.str (placeholder ty name))).errs ≠ [] ∧
      (decodeScalarWith cast repoFlags env k d (.str (placeholder ty name))).val = d)

/-- **Placeholder cast.** For every environment / property files, every tag type with a registered resolver, every
name, every field kind (string, bool, every signed and unsigned integer width, float, duration) and every text `raw`
the resolver returns: a field that is exactly `${type:name}` is decoded to `raw` converted to the field's kind
(`Spec.castExpect`: the literal of that kind; for unsigned kinds an UNSIGNED literal in range) and nothing else
changes; if `raw` is not a literal of the kind the field is an error and keeps its default. -/
theorem C17_placeholder_cast : CastStatement castTo := by
  intro env ty name raw k d ht hn hr
  have hres : resolve env (placeholder ty name) = .text raw true := by
    rw [resolve_placeholder env ty name ht hn, hr]
  exact cast_agrees env k d _ raw hres

/-- `${env:NAME}` and `${property:file#key}`: what `raw` is -/
theorem C17_placeholder_sources (env : Env) (name text : Str) :
    resolveTag env text "env".toList name = lookupEnv env name ∧
    resolveTag env text [] name = lookupEnv env name ∧
    resolveTag env text "property".toList name = lookupProp env name ∧
    PlainType "env".toList ∧ PlainType "property".toList :=
  ⟨resolveTag_env env text name, by simp [resolveTag, lower], resolveTag_property env text name,
    plainType_env, plainType_property⟩

/-- The cast in use before the repair (`castInt` for unsigned kinds) does NOT have the property: `${env:X}` with
`X=-1` in a `uint` field is accepted as 18446744073709551615. -/
theorem C17_placeholder_cast_prefix_counterexample : ¬ CastStatement castToOld := by
  intro h
  have := (h ⟨[("X".toList, "-1".toList)], []⟩ "env".toList "X".toList "-1".toList (.uint 64) (.uint 0)
    plainType_env ⟨by decide, by decide⟩ (by decide)).2 (by decide)
  exact this.1 (by decide)

/-- **Missing variable / property.** A placeholder whose resolver reports an error (environment variable not set;
property argument without `#`, unreadable file, key not in the file) makes the field an error — in every scalar
field, in an `interface{}` field, and at a plugin position. -/
theorem C17_placeholder_missing (cast : Kind → Str → Option Val) (fl : Flags) (env : Env) (ty name : Str)
    (ht : PlainType ty) (hn : PlainName name) (h : resolveTag env (placeholder ty name) ty name = none) :
    (∀ k d, fl.resolveFirst = true ∨ k ≠ .dur →
      decodeScalarWith cast fl env k d (.str (placeholder ty name)) = R.fail d .resolve) ∧
    (∀ d, decode fl env (.any d) (.str (placeholder ty name)) = R.fail d .resolve) ∧
    (∀ pi alts, (decode fl env (.plugin pi alts) (.str (placeholder ty name))).errs = [.resolve]) ∧
    (lookupEnv env name = none → resolveTag env (placeholder "env".toList name) "env".toList name = none) ∧
    (lookupProp env name = none → resolveTag env (placeholder "property".toList name) "property".toList name = none) := by
  have hf := resolve_placeholder_failed env ty name ht hn h
  refine ⟨?_, ?_, ?_, ?_, ?_⟩
  · intro k d hfl
    exact decodeScalar_failed cast fl env k d _ hfl hf
  · intro d
    simp [decode, injectOther_failed env _ hf]
  · intro pi alts
    simp [decode, injectOther_failed env _ hf, R.fail]
  · intro hl; rw [resolveTag_env, hl]
  · intro hl; rw [resolveTag_property, hl]

/-- when the property lookup fails -/
theorem C17_property_missing (env : Env) (file key : Str) (hf : ∀ c ∈ file, c ≠ '#') :
    (assoc env.files file = none → lookupProp env (file ++ '#' :: key) = none) ∧
    (∀ lines, assoc env.files file = some lines → findProp (scanLines lines) key = none →
      lookupProp env (file ++ '#' :: key) = none) ∧
    (∀ arg, (∀ c ∈ arg, c ≠ '#') → lookupProp env arg = none) := by
  have hcut : ∀ (xs acc : Str), (∀ c ∈ xs, c ≠ '#') → cutHash (xs ++ '#' :: key) acc = some (acc.reverse ++ xs, key) := by
    intro xs
    induction xs with
    | nil => intro acc _; simp [cutHash]
    | cons c cs ih =>
      intro acc h
      have hc : (c == '#') = false := by simp [h c (by simp)]
      simp only [List.cons_append, cutHash, hc, Bool.false_eq_true, if_false]
      rw [ih (c :: acc) (fun c hm => h c (by simp [hm]))]
      simp
  have hnone : ∀ (xs acc : Str), (∀ c ∈ xs, c ≠ '#') → cutHash xs acc = none := by
    intro xs
    induction xs with
    | nil => intro acc _; rfl
    | cons c cs ih =>
      intro acc h
      have hc : (c == '#') = false := by simp [h c (by simp)]
      simp only [cutHash, hc, Bool.false_eq_true, if_false]
      exact ih _ (fun c hm => h c (by simp [hm]))
  refine ⟨?_, ?_, ?_⟩
  · intro h; simp [lookupProp, hcut file [] hf, h]
  · intro lines h1 h2; simp [lookupProp, hcut file [] hf, h1, h2]
  · intro arg h; simp [lookupProp, hnone arg [] h]

/-- **The properties-file lookup is exact.** `${property:file#key}` is the text after the first `=` of the FIRST line
whose text before its first `=` IS `key` (no trimming, no prefix / suffix / case-insensitive match); a line without
`=` is no entry; a line whose key only starts with `key` (`instances_max=…` for `instances`) is not an entry of
`key`; if no line is an entry of `key` the lookup fails (and `C17_property_missing` / `C17_placeholder_missing` make
that an error of the configuration). -/
theorem C17_property_exact (lines : List Str) (key : Str) :
    (∀ v, findProp lines key = some v ↔
      ∃ pre l post, lines = pre ++ l :: post ∧ lineKV l = some (key, v) ∧ ∀ l' ∈ pre, ∀ w, lineKV l' ≠ some (key, w)) ∧
    (findProp lines key = none ↔ ∀ l ∈ lines, ∀ v, lineKV l ≠ some (key, v)) ∧
    (∀ line v, lineKV line = some (key, v) ↔ (line = key ++ '=' :: v ∧ ∀ c ∈ key, c ≠ '=')) ∧
    (∀ line, (∀ c ∈ line, c ≠ '=') → lineKV line = none) ∧
    (∀ more v w, more ≠ [] → (∀ c ∈ more, c ≠ '=') → lineKV (key ++ more ++ '=' :: v) ≠ some (key, w)) :=
  ⟨fun v => findProp_some_iff lines key v, findProp_none_iff lines key, fun line v => lineKV_iff line key v,
    fun line h => lineKV_no_eq line h, fun more v w hm hno => lineKV_longer_key key more v w hm hno⟩

/-- **A properties file saved with CRLF line ends reads like the same file saved with LF** (round 4; `bufio.ScanLines`
drops ONE trailing `\r` of every line before the loop of `propertyTokenResolver` sees it): for every list of line texts
none of which ends in `\r` itself, every key yields the same text — in particular a number, a duration or a boolean
stays a literal of its kind (`port=8080\r\n` is the number 8080) and a key that is missing stays missing.  Only one
`\r` is dropped: a text that itself ends in `\r` keeps it. -/
theorem C17_property_crlf (lines : List Str) (key : Str) :
    findProp (scanLines (lines.map (· ++ ['\r']))) key = findProp lines key ∧
    ((∀ l ∈ lines, l.getLast? ≠ some '\r') → findProp (scanLines lines) key = findProp lines key) ∧
    (∀ env file, (∀ c ∈ file, c ≠ '#') → assoc env.files file = some (lines.map (· ++ ['\r'])) →
      lookupProp env (file ++ '#' :: key) = findProp lines key) := by
  have h1 : ∀ l : Str, dropCR (l ++ ['\r']) = l := by
    intro l; simp [dropCR, List.reverse_append]
  have hmap : scanLines (lines.map (· ++ ['\r'])) = lines := by
    simp only [scanLines, List.map_map]
    conv => rhs; rw [← List.map_id lines]
    apply List.map_congr_left
    intro l _; simp [h1]
  have h2 : ∀ l : Str, l.getLast? ≠ some '\r' → dropCR l = l := by
    intro l hl
    unfold dropCR
    rw [List.getLast?_eq_head?_reverse] at hl
    cases hr : l.reverse with
    | nil => rfl
    | cons c cs =>
      rw [hr] at hl
      have : c ≠ '\r' := by intro hc; apply hl; simp [hc]
      split
      · rename_i r heq; injection heq with hc _; exact absurd hc.symm (by simpa using this.symm)
      · rfl
  refine ⟨by rw [hmap], ?_, ?_⟩
  · intro h
    have : scanLines lines = lines := by
      simp only [scanLines]
      conv => rhs; rw [← List.map_id lines]
      apply List.map_congr_left
      intro l hl; simp [h2 l (h l hl)]
    rw [this]
  · intro env file hf hfile
    have hcut : ∀ (xs acc : Str), (∀ c ∈ xs, c ≠ '#') → cutHash (xs ++ '#' :: key) acc = some (acc.reverse ++ xs, key) := by
      intro xs
      induction xs with
      | nil => intro acc _; simp [cutHash]
      | cons c cs ih =>
        intro acc h
        have hc : (c == '#') = false := by simp [h c (by simp)]
        simp only [List.cons_append, cutHash, hc, Bool.false_eq_true, if_false]
        rw [ih (c :: acc) (fun c hm => h c (by simp [hm]))]
        simp
    simp [lookupProp, hcut file [] hf, hfile, hmap]


/-- the full-strength claim about placeholders inside a string: for EVERY environment the field decodes to the text
with every placeholder replaced, all at once, by what its resolver returns -/
def C17_placeholder_substituted_statement : Prop :=
  ∀ (env : Env) (d : DVal) (ps : List (Str × Str × Str)) (post : Str), PiecesOk ps post → ps ≠ [] →
    decodeScalarWith castTo repoFlags env .str d (.str (piecesText ps post)) =
      match piecesValue env ps post with
      | some t => { val := .str t }
      | none => R.fail d .resolve

/-- **Placeholders inside a string.** A string field whose text is literal text with ANY NUMBER of placeholders
(`pre₁ ${t₁:n₁} pre₂ ${t₂:n₂} … post`, the literal parts, tag types and names free of `$`) decodes to that text with
every placeholder replaced by what its resolver returns — provided no resolved value itself contains a `$` —; if one
of them cannot be resolved the field is an error and keeps its default.  (`ResolveCustomTags` substitutes tag by
tag with `strings.ReplaceAll` on the string built so far: `Model.renderSeq`; `Proofs.renderSeq_pieces` shows that
this is the all-at-once substitution under the proviso.) -/
theorem C17_placeholder_substituted_partial (env : Env) (d : DVal) (ps : List (Str × Str × Str)) (post : Str)
    (hok : PiecesOk ps post) (hne : ps ≠ []) (hcl : PiecesClean ps) (hv : CleanValues env ps) :
    decodeScalarWith castTo repoFlags env .str d (.str (piecesText ps post)) =
      match piecesValue env ps post with
      | some t => { val := .str t }
      | none => R.fail d .resolve := by
  have hres := resolve_pieces env ps post hok hne hcl hv
  simp only [decodeScalarWith, repoFlags, Bool.not_true, Bool.false_and, Bool.false_eq_true, if_false, hres]
  cases piecesValue env ps post with
  | none => rfl
  | some t =>
    cases loneTag (piecesSegs ps post) <;> simp [castTo, decodeKind]

/-- Without the proviso the claim is false of the code: with `A=${env:B}` and `B=x` the string `${env:A}-${env:B}`
becomes `x-x`, not `${env:B}-x` — the value of `A` is substituted AGAIN because it contains the text of a later
placeholder of the same string (sequential `strings.ReplaceAll`). -/
theorem C17_placeholder_substituted_counterexample : ¬ C17_placeholder_substituted_statement := by
  intro h
  have h1 := h ⟨[("A".toList, "${env:B}".toList), ("B".toList, "x".toList)], []⟩ (.str [])
    [([], "env".toList, "A".toList), ("-".toList, "env".toList, "B".toList)] []
    ⟨by
      intro p hp
      simp only [List.mem_cons, List.mem_nil_iff, or_false] at hp
      rcases hp with rfl | rfl
      · exact ⟨by decide, plainType_env, ⟨by decide, by decide⟩⟩
      · exact ⟨by decide, plainType_env, ⟨by decide, by decide⟩⟩, by decide⟩ (by decide)
  have h2 := congrArg (fun r : R => scalarEq r.val (.str "x-x".toList)) h1
  exact absurd h2 (by decide)

/-- **The decoded value at a Go field path.** Following Go field names from the root (through structs and pointers
to structs), the value found in the decoded root is the decoded value of the sub-configuration at that position:
options and defaults of nested structs are those of their own decoding (with `C17_defaults`: the given option, else
the registered default). -/
theorem C17_value_at_path (fl : Flags) (env : Env) (p : List Str) (s : Schema) (cfg : Val) (s' : Schema) (c' : Val)
    (h : FAt p s cfg s' c') : lookup p (decode fl env s cfg).val = some (decode fl env s' c').val :=
  value_at fl env h

/-- **Placeholders in every field position.** A scalar field (string, bool, any integer width, float, duration)
anywhere below the root that is exactly `${type:name}` holds, in the decoded root, the resolved text converted to
the field's kind. -/
theorem C17_placeholder_at_path (env : Env) (p : List Str) (s : Schema) (cfg : Val) (k : Kind) (d : DVal)
    (ty name raw : Str) (w : DVal) (ht : PlainType ty) (hn : PlainName name)
    (hp : FAt p s cfg (.scalar k d) (.str (placeholder ty name)))
    (hr : resolveTag env (placeholder ty name) ty name = some raw) (hw : castExpect k raw = some w) :
    lookup p (decode repoFlags env s cfg).val = some w := by
  rw [value_at repoFlags env hp]
  have : decode repoFlags env (.scalar k d) (.str (placeholder ty name)) =
      decodeScalarWith castTo repoFlags env k d (.str (placeholder ty name)) := by simp [decode, decodeScalar]
  rw [this, (C17_placeholder_cast env ty name raw k d ht hn hr).1 w hw]

/-! ## discard_overflow -/

/-- **discard_overflow defaults to on.** `readConfig` gives every pool mapping that lacks the key the entry
`discard_overflow: true` (and leaves a pool that has the key alone); the struct field with that key then decodes to
`true`, whatever else the pool contains; the keys of the file are lower-cased first (viper), so `Pools:` /
`Discard_Overflow:` in any letter case are these keys. -/
theorem C17_discard_default (fl : Flags) (env : Env) (pk : List (Str × Val)) :
    ((∀ e ∈ pk, e.1 ≠ "discard_overflow".toList) →
      defaultDiscard (.map [("pools".toList, .list [.map pk])]) =
        .map [("pools".toList, .list [.map (pk ++ [("discard_overflow".toList, .bool true)])])] ∧
      ∀ (f : FInfo) (d : DVal), f.key = "discard_overflow".toList → f.settable = true →
        fieldResult fl env (pk ++ [("discard_overflow".toList, .bool true)]) f (.scalar .bool d) = { val := .bool true }) ∧
    ((∃ e ∈ pk, e.1 = "discard_overflow".toList) →
      defaultDiscard (.map [("pools".toList, .list [.map pk])]) = .map [("pools".toList, .list [.map pk])]) ∧
    (∀ (K : Str), lower K = "pools".toList →
      lowerKeys (.map [(K, .list [.map pk])]) = .map [("pools".toList, .list [.map (lowerKeysKVs pk)])] ∧
      ((∀ e ∈ pk, lower e.1 ≠ "discard_overflow".toList) → ∀ e ∈ lowerKeysKVs pk, e.1 ≠ "discard_overflow".toList) ∧
      ∀ s cfg, cliRead fl env s cfg = decodeAndValidate fl env s (defaultDiscard (lowerKeys cfg))) ∧
    (∀ (pools : List Val), defaultDiscard (.map [("pools".toList, .list pools)]) =
      .map [("pools".toList, .list (pools.map fun p =>
        match p with
        | .map pk =>
          if (pk.any fun e => e.1 == "discard_overflow".toList) then .map pk
          else .map (pk ++ [("discard_overflow".toList, .bool true)])
        | other => other))]) := by
  refine ⟨?_, ?_, ?_, ?_⟩
  · intro habs
    have hany : (pk.any fun e => e.1 == "discard_overflow".toList) = false := by
      rw [List.any_eq_false]
      intro e he
      simpa using habs e he
    refine ⟨?_, ?_⟩
    · simp only [defaultDiscard, defaultDiscardWith, discardDefault, List.map_cons, List.map_nil, beq_self_eq_true,
        if_true, hany]
      simp
    · intro f d hk hs
      have := findKey_defaulted pk "discard_overflow".toList (.bool true) habs
      simp only [fieldResult, hs, hk, this, if_true]
      simp [decode, decodeScalar, decodeScalarWith, decodeKind, intKind, fitsKind]
  · intro ⟨e, he, hk⟩
    have hany : (pk.any fun e => e.1 == "discard_overflow".toList) = true := by
      rw [List.any_eq_true]
      exact ⟨e, he, by simp [hk]⟩
    simp only [defaultDiscard, defaultDiscardWith, discardDefault, List.map_cons, List.map_nil, beq_self_eq_true,
      if_true, hany]
  · intro K hK
    refine ⟨?_, ?_, fun _ _ => rfl⟩
    · simp [lowerKeys, lowerKeysKVs, lowerKeysList, hK]
    · intro h e he
      have aux : ∀ (l : List (Str × Val)), (∀ e ∈ l, lower e.1 ≠ "discard_overflow".toList) →
          ∀ e ∈ lowerKeysKVs l, e.1 ≠ "discard_overflow".toList := by
        intro l
        induction l with
        | nil => intro _ e he; simp [lowerKeysKVs] at he
        | cons x xs ih =>
          intro hl e he
          obtain ⟨k, v⟩ := x
          simp only [lowerKeysKVs, List.mem_cons] at he
          rcases he with rfl | he
          · exact hl (k, v) (by simp)
          · exact ih (fun e he => hl e (by simp [he])) e he
      exact aux pk h e he
  · intro pools
    simp only [defaultDiscard, defaultDiscardWith, discardDefault, List.map_cons, List.map_nil, beq_self_eq_true, if_true]
    rfl

/-! ## non-vacuity: concrete inputs meeting the hypotheses of every theorem above -/

section Examples

private def fld (n k : String) (tags : List VTag := []) : FInfo := ⟨n.toList, k.toList, true, false, tags⟩

/-- a miniature of `grpc.GunConfig` -/
private def gunFields : Fields :=
  .cons (fld "Target" "Target" [.required]) (.scalar .str (.str "default target".toList))
    (.cons (fld "Timeout" "timeout") (.scalar .dur (.int 0))
    (.cons (fld "ReflectPort" "reflect_port" [.min 0]) (.scalar (.int 64) (.int 0))
    (.cons (fld "Workers" "workers") (.scalar (.uint 64) (.uint 4)) .nil)))

private def gunCfg : Schema := .struct gunFields

private def gunPos : Schema :=
  .plugin ⟨true, .none, false, ["grpc".toList, "http".toList]⟩ (.cons "grpc".toList true gunCfg .nil)

/-- a miniature of `engine.InstancePoolConfig` and `cli.CliConfig` -/
private def poolCfg : Fields :=
  .cons (fld "ID" "ID") (.scalar .str (.str []))
    (.cons (fld "NewGun" "gun" [.required]) gunPos
    (.cons (fld "DiscardOverflow" "discard_overflow") (.scalar .bool (.bool false)) .nil))

private def rootFields : Fields :=
  .cons (fld "Pools" "pools" [.required, .dive]) (.slice (.struct poolCfg) .nil) .nil

private def rootCfg : Schema := .struct rootFields

private def gunMap : List (Str × Val) := [("target".toList, .str "127.0.0.1:80".toList)]
private def poolMap : List (Str × Val) := [("gun".toList, .map (("type".toList, .str "grpc".toList) :: gunMap))]
private def cfg0 : Val := .map [("pools".toList, .list [.map poolMap])]

private def env0 : Env :=
  ⟨[("X".toList, "-1".toList), ("N".toList, "42".toList), ("D".toList, "1m30s".toList), ("B".toList, "true".toList),
    ("F".toList, "2.5".toList), ("S".toList, "hello".toList)],
   [("/etc/p.properties".toList, ["# ports".toList, "port_max=9090".toList, "port=8080".toList, "port=1".toList])]⟩

/-- the gun block with the `type` key in the middle of the mapping -/
private def gunBlock : List (Str × Val) :=
  [("target".toList, .str "127.0.0.1:80".toList), ("TYPE".toList, .str "grpc".toList), ("workers".toList, .int 2)]
private def gunRest : List (Str × Val) := [("target".toList, .str "127.0.0.1:80".toList), ("workers".toList, .int 2)]
private def poolMap2 : List (Str × Val) := [("id".toList, .str "p".toList), ("gun".toList, .map gunBlock)]
private def cfg2 : Val := .map [("pools".toList, .list [.map poolMap2])]

/-- C17_unknown_key: a misspelled key four levels down (root → pools → [0] → gun → plugin config), below a lazily
filled factory, the `type` key in the middle of the block, the misspelled key inserted in the middle as well; the
theorem's conclusion is computed independently by evaluation -/
example : ∃ cfg', Inserted "tagret".toList (.int 1) [.key "pools".toList, .idx 0, .key "gun".toList, .plugin] rootCfg cfg2 cfg' ∧
    (decodeAndValidate repoFlags env0 rootCfg cfg').rejected = true ∧
    (decode repoFlags env0 rootCfg cfg').later = [.unused] ∧
    (decodeAndValidate repoFlags env0 rootCfg cfg2).rejected = false :=
  ⟨_, .field rootFields [("pools".toList, .list [.map poolMap2])] (fld "Pools" "pools" [.required, .dive])
        (.slice (.struct poolCfg) .nil) "pools".toList (.list [.map poolMap2]) _ _ (.head _ _ _) rfl rfl
        (.elem (.struct poolCfg) .nil [.map poolMap2] 0 (.map poolMap2) _ _ rfl
          (.field poolCfg poolMap2 (fld "NewGun" "gun" [.required]) gunPos "gun".toList
            (.map gunBlock) _ _ (.tail _ _ _ _ _ (.head _ _ _)) rfl rfl
            (.plugin ⟨true, .none, false, ["grpc".toList, "http".toList]⟩ (.cons "grpc".toList true gunCfg .nil)
              gunBlock
              [("target".toList, .str "127.0.0.1:80".toList), ("TYPE".toList, .str "grpc".toList),
                ("tagret".toList, .int 1), ("workers".toList, .int 2)]
              "grpc".toList true gunCfg _ rfl rfl (by decide) rfl
              (.here gunFields [("target".toList, .str "127.0.0.1:80".toList)] [("workers".toList, .int 2)] (by decide))))),
    by decide, by decide, by decide⟩

/-- C17_unknown_key through the list shortcut of a schedule: `rps: [{type: once, tiems: 2, times: 1}]` is the composite
schedule of that list; the misspelled key sits in the `once` block of its first element -/
private def onceFields : Fields := .cons (fld "Times" "times" [.min 1]) (.scalar (.int 64) (.int 0)) .nil
private def schedNames : List Str := ["once".toList, "composite".toList]
private def oncePos : Schema := .plugin ⟨false, .sched, false, schedNames⟩ (.cons "once".toList false (.struct onceFields) .nil)
private def compFields : Fields := .cons (fld "Nested" "nested") (.slice oncePos .nil) .nil
private def schedPos : Schema := .plugin ⟨false, .sched, false, schedNames⟩ (.cons "composite".toList false (.struct compFields) .nil)
private def onceBlock : List (Str × Val) := [("type".toList, .str "once".toList), ("times".toList, .int 1)]
private def onceBlock' : List (Str × Val) := [("type".toList, .str "once".toList), ("tiems".toList, .int 2), ("times".toList, .int 1)]

example : Inserted "tiems".toList (.int 2) [.shortcut, .plugin, .key "nested".toList, .idx 0, .plugin] schedPos
      (.list [.map onceBlock]) (.list [.map onceBlock']) ∧
    (decodeAndValidate repoFlags env0 schedPos (.list [.map onceBlock'])).rejected = true ∧
    (decodeAndValidate repoFlags env0 schedPos (.list [.map onceBlock])).rejected = false := by
  refine ⟨?_, by decide, by decide⟩
  refine .schedList _ _ [.map onceBlock] [.map onceBlock'] _ rfl ?_
  refine .plugin _ _ (schedMap [.map onceBlock]) (schedMap [.map onceBlock']) "composite".toList false (.struct compFields) _
    rfl rfl (by decide) rfl ?_
  have h := Inserted.field (k := "tiems".toList) (v := .int 2) compFields [("nested".toList, .list [.map onceBlock])]
    (fld "Nested" "nested") (.slice oncePos .nil) "nested".toList (.list [.map onceBlock]) (.list [.map onceBlock'])
    [.idx 0, .plugin] (.head _ _ _) rfl rfl
    (.elem oncePos .nil [.map onceBlock] 0 (.map onceBlock) (.map onceBlock') [.plugin] rfl
      (.plugin _ _ onceBlock onceBlock' "once".toList false (.struct onceFields) [] rfl rfl (by decide) rfl
        (.here onceFields [] [("times".toList, .int 1)] (by decide))))
  exact h

/-- C17_nested_error / C17_nested_constraint / C17_plugin_type_key: a wrongly typed value, a bad placeholder, a
violated constraint and a second `type` key inside the gun block of a pool are errors of the root configuration -/
example :
    let withGun := fun (g : List (Str × Val)) => (Val.map [("pools".toList, .list [.map [("gun".toList, .map g)]])])
    let pth : List Step := [.key "pools".toList, .idx 0, .key "gun".toList, .plugin, .key "workers".toList]
    At true pth rootCfg (withGun (("type".toList, .str "grpc".toList) :: [("workers".toList, .str "many".toList)]))
      (.scalar (.uint 64) (.uint 4)) (.str "many".toList) ∧
    R.failed (decode repoFlags env0 (.scalar (.uint 64) (.uint 4)) (.str "many".toList)) ∧
    (decodeAndValidate repoFlags env0 rootCfg (withGun [("type".toList, .str "grpc".toList), ("workers".toList, .str "many".toList)])).rejected = true ∧
    (decodeAndValidate repoFlags env0 rootCfg (withGun [("type".toList, .str "grpc".toList), ("workers".toList, .str "${env:UNSET}".toList)])).rejected = true ∧
    (decodeAndValidate repoFlags env0 rootCfg (withGun [("type".toList, .str "grpc".toList), ("reflect_port".toList, .int (-1))])).rejected = true ∧
    (decodeAndValidate repoFlags env0 rootCfg (withGun [("type".toList, .str "grpc".toList), ("Type".toList, .str "grpc".toList)])).rejected = true ∧
    (decodeAndValidate repoFlags env0 rootCfg (withGun [("type".toList, .str "grpc".toList)])).rejected = false := by
  refine ⟨?_, Or.inl (by decide), by decide, by decide, by decide, by decide, by decide⟩
  exact .field rootFields _ (fld "Pools" "pools" [.required, .dive]) (.slice (.struct poolCfg) .nil) "pools".toList _ _ _ _
    (.head _ _ _) rfl rfl (by intro _ _; decide)
    (.elem (.struct poolCfg) .nil _ 0 _ _ _ _ rfl
      (.field poolCfg _ (fld "NewGun" "gun" [.required]) gunPos "gun".toList _ _ _ _ (.tail _ _ _ _ _ (.head _ _ _)) rfl rfl
        (by intro _ h; cases h)
        (.plugin _ _ _ "grpc".toList true gunCfg _ _ _ rfl (by decide) rfl
          (.field gunFields _ (fld "Workers" "workers") (.scalar (.uint 64) (.uint 4)) "workers".toList _ _ _ _
            (.tail _ _ _ _ _ (.tail _ _ _ _ _ (.tail _ _ _ _ _ (.head _ _ _)))) rfl rfl (by intro _ h; cases h) (.here _ _)))))

/-- C17_plugin_defaults_validated: a sink-like plugin whose default config has a required path without default is
refused when the block only names it; one whose defaults are valid is created -/
example :
    let fileCfg : Fields := .cons (fld "Path" "path" [.required]) (.scalar .str (.str [])) .nil
    let okCfg : Fields := .cons (fld "Path" "path" [.required]) (.scalar .str (.str "out.log".toList)) .nil
    let pos := fun (fs : Fields) => Schema.plugin ⟨false, .sink, false, ["file".toList]⟩ (.cons "file".toList false (.struct fs) .nil)
    (keep false (.struct fileCfg)).vfail = true ∧ (keep false (.struct okCfg)).vfail = false ∧
    (decode repoFlags env0 (pos fileCfg) (.map [("type".toList, .str "file".toList)])).errs = [.validate] ∧
    (decode repoFlags env0 (pos okCfg) (.map [("type".toList, .str "file".toList)])).errs = [] ∧
    (decode repoFlags env0 (pos fileCfg) (.map [("type".toList, .str "file".toList), ("path".toList, .str "x".toList)])).errs = [] := by
  decide

/-- C17_defaults: `timeout` given, everything else keeps the registered default -/
example :
    let r := decode repoFlags env0 gunCfg (.map [("TIMEOUT".toList, .str "5s".toList)])
    r.errs = [] ∧
    ((lookup ["Timeout".toList] r.val).map fun v => sameValue v (.int 5000000000)) = some true ∧
    ((lookup ["Target".toList] r.val).map fun v => sameValue v (.str "default target".toList)) = some true ∧
    ((lookup ["Workers".toList] r.val).map fun v => sameValue v (.uint 4)) = some true := by decide

/-- C17_type_error / C17_constraint: a list for a struct, text for a number, a negative port -/
example :
    (decode repoFlags env0 gunCfg (.list [])).errs = [.type] ∧
    (decode repoFlags env0 gunCfg (.map [("reflect_port".toList, .str "abc".toList)])).errs = [.type] ∧
    (decode repoFlags env0 gunCfg (.map [("reflect_port".toList, .int (-1))])).errs = [] ∧
    (decodeAndValidate repoFlags env0 gunCfg (.map [("reflect_port".toList, .int (-1))])).rejected = true ∧
    (decodeAndValidate repoFlags env0 gunCfg (.map [("target".toList, .str [])])).rejected = true := by decide

/-- C17_placeholder_cast: every kind, environment and property file -/
example :
    let f := fun (k : Kind) (d : DVal) (s : String) => decodeScalar repoFlags env0 k d (.str s.toList)
    (f (.int 64) (.int 0) "${env:N}").errs = [] ∧ scalarEq (f (.int 64) (.int 0) "${env:N}").val (.int 42) = true ∧
    scalarEq (f (.int 64) (.int 0) "${env:X}").val (.int (-1)) = true ∧
    scalarEq (f (.uint 16) (.uint 0) "${property:/etc/p.properties#port}").val (.uint 8080) = true ∧
    scalarEq (f .dur (.int 0) "${env:D}").val (.int 90000000000) = true ∧
    scalarEq (f .bool (.bool false) "${env:B}").val (.bool true) = true ∧
    scalarEq (f (.float 64) (.float ⟨false, 0, 0⟩) "${env:F}").val (.float ⟨false, 25, 1⟩) = true ∧
    scalarEq (f .str (.str []) "${env:S}").val (.str "hello".toList) = true ∧
    scalarEq (f .str (.str []) "[Host: ${env:S}]").val (.str "[Host: hello]".toList) = true ∧
    -- the repaired behaviour: -1 is no unsigned literal
    (f (.uint 64) (.uint 7) "${env:X}").errs = [.type] ∧ scalarEq (f (.uint 64) (.uint 7) "${env:X}").val (.uint 7) = true ∧
    -- … which the pre-repair cast accepted
    (decodeScalarWith castToOld repoFlags env0 (.uint 64) (.uint 7) (.str "${env:X}".toList)).errs = [] := by decide

/-- C17_placeholder_missing: unset variable, missing key, missing file, no `#` -/
example :
    let f := fun (s : String) => (decodeScalar repoFlags env0 .str (.str []) (.str s.toList)).errs
    f "${env:UNSET}" = [.resolve] ∧ f "${property:/etc/p.properties#nokey}" = [.resolve] ∧
    f "${property:/nofile#port}" = [.resolve] ∧ f "${property:/etc/p.properties}" = [.resolve] ∧
    PlainName "UNSET".toList ∧ lookupEnv env0 "UNSET".toList = none := by
  refine ⟨by decide, by decide, by decide, by decide, ⟨by decide, by decide⟩, by decide⟩

/-- C17_discard_default through `cliRead`: absent ⇒ true, `false` stays false; the mutant default loses it -/
example :
    let dOf := fun (cfg : Val) (dflt : Bool) =>
      ((lookup ["Pools".toList] (decode repoFlags env0 rootCfg (defaultDiscardWith dflt cfg)).val).map fun v =>
        match v with
        | .slice [p] => (lookup ["DiscardOverflow".toList] p).map fun b => scalarEq b (.bool true)
        | _ => none)
    dOf cfg0 discardDefault = some (some true) ∧
    dOf (.map [("pools".toList, .list [.map (("discard_overflow".toList, .bool false) :: poolMap)])]) discardDefault = some (some false) ∧
    dOf cfg0 false = some (some false) := by decide

/-- C17_property_crlf: a file saved with CRLF line ends -/
example :
    let env : Env := { vars := [], files := [("/etc/w.properties".toList, ["# dos\r".toList, "port=8080\r".toList, "name=x\r\r".toList, "last=1".toList])] }
    lookupProp env "/etc/w.properties#port".toList = some "8080".toList ∧
    lookupProp env "/etc/w.properties#name".toList = some "x\r".toList ∧
    lookupProp env "/etc/w.properties#last".toList = some "1".toList ∧
    scalarEq (decodeScalar repoFlags env (.uint 16) (.uint 0) (.str "${property:/etc/w.properties#port}".toList)).val (.uint 8080) = true := by
  decide

/-- C17_property_exact: keys that are prefixes of one another, comments, a later duplicate -/
example :
    let f := fun (s : String) => decodeScalar repoFlags env0 (.uint 16) (.uint 0) (.str s.toList)
    scalarEq (f "${property:/etc/p.properties#port}").val (.uint 8080) = true ∧
    scalarEq (f "${property:/etc/p.properties#port_max}").val (.uint 9090) = true ∧
    (f "${property:/etc/p.properties#por}").errs = [.resolve] ∧
    (f "${property:/etc/p.properties#port_}").errs = [.resolve] ∧
    (f "${property:/etc/p.properties#PORT}").errs = [.resolve] ∧
    (f "${property:/etc/p.properties## ports}").errs = [.resolve] ∧
    findProp ["timeout_ms=250".toList, "timeout=3s".toList] "timeout".toList = some "3s".toList ∧
    findProp ["instances_max=1000".toList] "instances".toList = none ∧
    lineKV "a=b=c".toList = some ("a".toList, "b=c".toList) := by decide

/-- C17_placeholder_substituted_partial: two placeholders and literal text in one string; one of them unset -/
example :
    let ps : List (Str × Str × Str) := [("[Host: ".toList, "env".toList, "S".toList), (":".toList, "property".toList, "/etc/p.properties#port".toList)]
    PiecesOk ps "]".toList ∧ ps ≠ [] ∧ PiecesClean ps ∧ CleanValues env0 ps ∧
    piecesText ps "]".toList = "[Host: ${env:S}:${property:/etc/p.properties#port}]".toList ∧
    piecesValue env0 ps "]".toList = some "[Host: hello:8080]".toList ∧
    piecesValue env0 [([], "env".toList, "UNSET".toList)] [] = none := by
  refine ⟨⟨?_, by decide⟩, by decide, ?_, ?_, by decide, by decide, by decide⟩
  · intro p hp
    simp only [List.mem_cons, List.mem_nil_iff, or_false] at hp
    rcases hp with rfl | rfl
    · exact ⟨by decide, plainType_env, ⟨by decide, by decide⟩⟩
    · exact ⟨by decide, plainType_property, ⟨by decide, by decide⟩⟩
  · intro p hp
    simp only [List.mem_cons, List.mem_nil_iff, or_false] at hp
    rcases hp with rfl | rfl <;> exact ⟨by decide, by decide⟩
  · intro p hp v hv
    simp only [List.mem_cons, List.mem_nil_iff, or_false] at hp
    rcases hp with rfl | rfl
    · have : v = "hello".toList := by
        have e : resolveTag env0 (placeholder "env".toList "S".toList) "env".toList "S".toList = some "hello".toList := by decide
        rw [e] at hv; exact (Option.some.inj hv).symm
      subst this; decide
    · have : v = "8080".toList := by
        have e : resolveTag env0 (placeholder "property".toList "/etc/p.properties#port".toList) "property".toList
          "/etc/p.properties#port".toList = some "8080".toList := by decide
        rw [e] at hv; exact (Option.some.inj hv).symm
      subst this; decide

/-- C17_value_at_path / C17_placeholder_at_path: `Monitoring.Expvar.Port` given as `${env:N}` below a pointer; the
sibling keeps its default -/
example :
    let expvar : Fields := .cons (fld "Enabled" "enabled") (.scalar .bool (.bool false))
      (.cons (fld "Port" "port" [.required]) (.scalar (.int 64) (.int 1234)) .nil)
    let mon : Fields := .cons (fld "Expvar" "expvar") (.ptr false (.struct expvar)) .nil
    let root : Schema := .struct (.cons (fld "Monitoring" "monitoring") (.struct mon) .nil)
    let cfg : Val := .map [("monitoring".toList, .map [("EXPVAR".toList, .map [("port".toList, .str "${env:N}".toList)])])]
    FAt ["Monitoring".toList, "Expvar".toList, "Port".toList] root cfg (.scalar (.int 64) (.int 1234)) (.str (placeholder "env".toList "N".toList)) ∧
    ((castExpect (.int 64) "42".toList).map fun w => scalarEq w (.int 42)) = some true ∧ PlainName "N".toList ∧
    ((lookup ["Monitoring".toList, "Expvar".toList, "Port".toList] (decode repoFlags env0 root cfg).val).map fun v => scalarEq v (.int 42)) = some true ∧
    ((lookup ["Monitoring".toList, "Expvar".toList, "Enabled".toList] (decode repoFlags env0 root cfg).val).map fun v => scalarEq v (.bool false)) = some true := by
  refine ⟨?_, by decide, ⟨by decide, by decide⟩, by decide, by decide⟩
  exact .field _ [("monitoring".toList, .map [("EXPVAR".toList, .map [("port".toList, .str "${env:N}".toList)])])]
    (fld "Monitoring" "monitoring") _ "monitoring".toList _ _ _ _ (.head _ _ _) rfl rfl
    (.field _ [("EXPVAR".toList, .map [("port".toList, .str "${env:N}".toList)])]
      (fld "Expvar" "expvar") _ "EXPVAR".toList _ _ _ _ (.head _ _ _) rfl rfl
      (.deref false _ [("port".toList, .str "${env:N}".toList)] "Port".toList [] _ _
        (.field _ [("port".toList, .str "${env:N}".toList)] (fld "Port" "port" [.required]) _ "port".toList _ _ _ _
          (.tail _ _ _ _ _ (by decide) (.head _ _ _)) rfl rfl
          (.here _ _))))

/-- C17_discard_default, keys in other letter cases (`POOLS:`, `Discard_Overflow: false`): folded by `cliRead` -/
example :
    let cfg : Val := .map [("POOLS".toList, .list [.map (("Discard_Overflow".toList, .bool false) :: poolMap), .map poolMap])]
    let r := decode repoFlags env0 rootCfg (defaultDiscard (lowerKeys cfg))
    r.errs = [] ∧
    ((lookup ["Pools".toList] r.val).map fun v =>
      match v with
      | .slice [p, q] =>
        ((lookup ["DiscardOverflow".toList] p).map fun b => scalarEq b (.bool false),
         (lookup ["DiscardOverflow".toList] q).map fun b => scalarEq b (.bool true))
      | _ => (none, none)) = some (some true, some true) := by decide

/-- C17_endpoint_constraint / C17_documented_constraint: host-less forms with a bad port are refused, the bound of
`min-time` is allowed, one nanosecond less is not -/
example :
    let bad := [":99999", ":0", ":http", ":80a", ":", "no-port", "localhost:65536", "a:b:80", "[::1]:0", ":-1", ": 80"]
    let good := [":8080", ":1", ":65535", "localhost:80", "127.0.0.1:8080", "example.org:443", "[localhost]:80", ":080", ":+80"]
    (bad.all fun e => !endpointOk e.toList) = true ∧ (good.all fun e => endpointOk e.toList) = true ∧
    portClass "99999".toList = some false ∧ portClass "".toList = some false ∧ portClass "80a".toList = some false ∧
    portClass "8080".toList = some true ∧ simpleHost "example.org".toList = true ∧
    endpointDemand ":99999".toList = some false ∧ endpointDemand "example.org:443".toList = some true ∧
    endpointDemand ":+80".toList = none ∧ endpointDemand "[::1]:80".toList = none ∧
    demandAll [.endpoint, .required] (.str ":0".toList) = some false ∧
    demandAll [.minTime 1000000] (.int 1000000) = some true ∧ demandAll [.minTime 1000000] (.int 999999) = some false ∧
    demandAll [.maxTime 1000000] (.int 1000000) = some true ∧ demandAll [.maxTime 1000000] (.int 1000001) = some false ∧
    demandAll [.omitempty, .oneOf ["a".toList]] (.str []) = some true := by decide

/-- C17_url_path_constraint -/
example :
    (["/a", "/a/b", "/~user/:x@y;z=1", "/%41"].all fun e => urlPathOk e.toList) = true ∧
    (["", "/", "a", "/a/", "//a", "/a//b", "/a b", "/a?x", "/a#"].all fun e => !urlPathOk e.toList) = true := by decide

/-- the literal grammar of the casts (strconv with base 0): prefixes, octal, underscores, exponents -/
example :
    parseIntLit "0x10".toList = some 16 ∧ parseIntLit "-0X80".toList = some (-128) ∧ parseIntLit "0b101".toList = some 5 ∧
    parseIntLit "0o17".toList = some 15 ∧ parseIntLit "017".toList = some 15 ∧ parseIntLit "1_000".toList = some 1000 ∧
    parseIntLit "0_7".toList = some 7 ∧ parseIntLit "0x_1".toList = some 1 ∧ parseIntLit "00".toList = some 0 ∧
    parseIntLit "_1".toList = none ∧ parseIntLit "1_".toList = none ∧ parseIntLit "1__0".toList = none ∧
    parseIntLit "08".toList = none ∧ parseIntLit "0x".toList = none ∧ parseIntLit "0b2".toList = none ∧
    parseIntLit "0_x1".toList = none ∧ parseUintLit "+1".toList = none ∧
    ((parseDecLit "1.5E-2".toList).map fun d => scalarEq (.float d) (.float ⟨false, 15, 3⟩)) = some true ∧
    ((parseDecLit "-.5e1".toList).map fun d => scalarEq (.float d) (.float ⟨true, 5, 0⟩)) = some true ∧
    ((parseDecLit "5.".toList).map fun d => scalarEq (.float d) (.float ⟨false, 5, 0⟩)) = some true ∧
    parseDecLit "1e".toList = none ∧ parseDecLit "e3".toList = none ∧ parseDecLit ".".toList = none := by decide

/-- round 3: hexadecimal floats, `_` in floats, durations with fractions / both micro signs / at the edge of int64 -/
example :
    ((parseDecLit "0x1.8p1".toList).map fun d => scalarEq (.float d) (.float ⟨false, 3, 0⟩)) = some true ∧
    ((parseDecLit "0x1p-2".toList).map fun d => scalarEq (.float d) (.float ⟨false, 25, 2⟩)) = some true ∧
    ((parseDecLit "1_000.5".toList).map fun d => scalarEq (.float d) (.float ⟨false, 10005, 1⟩)) = some true ∧
    parseDecLit "0x1".toList = none ∧ parseDecLit "1_.5".toList = none ∧ parseDecLit "1e_1".toList = none ∧
    parseDuration "1.5s".toList = some 1500000000 ∧ parseDuration ".5m".toList = some 30000000000 ∧
    parseDuration "1.s".toList = some 1000000000 ∧ parseDuration ".s".toList = none ∧ parseDuration "1.5".toList = none ∧
    parseDuration [ '1', Char.ofNat 0xC2, Char.ofNat 0xB5, 's'] = some 1000 ∧
    parseDuration "2562047h47m16.854775807s".toList = some 9223372036854775807 ∧
    parseDuration "2562047h47m16.854775808s".toList = none ∧
    parseDuration "-2562047h47m16.854775808s".toList = some (-9223372036854775808) ∧
    parseDuration "2562048h".toList = none := by decide

private def numHolds (k : Kind) (v : Val) (w : DVal) : Bool :=
  match numberDemand k v with
  | some (some x) => scalarEq x w
  | _ => false

private def numRefused (k : Kind) (v : Val) : Bool :=
  match numberDemand k v with
  | some none => true
  | _ => false

/-- the `endpoint` validation on IPv6 literals in brackets (`net.ParseIP`: `parseIPv6Ok`) -/
example :
    (["[::1]:80", "[::]:1", "[2001:db8::1]:8080", "[1:2:3:4:5:6:7:8]:80", "[1:2:3:4:5:6:7::]:80", "[::ffff:1.2.3.4]:443",
      "[1:2:3:4:5:6:1.2.3.4]:80"].all fun e => endpointOk e.toList) = true ∧
    (["[1:2:3:4:5:6:7:8:9]:80", "[1:2:3:4:5:6:7::8]:80", "[::1.2.3.04]:80", "[::1.2.3]:80", "[12345::]:80", "[g::]:80",
      "[fe80::1%eth0]:80", "[1:::2]:80", "[:1]:80", "[1:]:80", "[1::2::3]:80", "[::1]:0", "[::1]:65536", "[::1]:", "[::1]",
      "::1:80"].all fun e => !endpointOk e.toList) = true := by decide

/-- C17_number_range: numbers at the edge of what a kind holds — stored as they are, or refused -/
example :
    numHolds (.int 8) (.int 127) (.int 127) = true ∧ numRefused (.int 8) (.int 128) = true ∧
    numHolds (.int 8) (.int (-128)) (.int (-128)) = true ∧ numRefused (.int 8) (.int (-129)) = true ∧
    numRefused (.int 64) (.int 9223372036854775808) = true ∧
    numRefused (.int 64) (.float ⟨false, 10 ^ 19, 0⟩) = true ∧
    numHolds .dur (.int 9223372036854775807) (.int 9223372036854775807) = true ∧
    numHolds (.uint 64) (.int 18446744073709551615) (.uint 18446744073709551615) = true ∧
    numRefused (.uint 64) (.float ⟨false, 2 ^ 64, 0⟩) = true ∧
    numRefused (.uint 8) (.float ⟨false, 2560, 1⟩) = true ∧
    numRefused (.float 32) (.float ⟨false, 35 * 10 ^ 37, 0⟩) = true ∧
    numHolds (.float 32) (.float ⟨false, 34 * 10 ^ 37, 0⟩) (.float ⟨false, 34 * 10 ^ 37, 0⟩) = true ∧
    numRefused (.int 16) (.float ⟨false, 25, 1⟩) = true ∧
    (decode repoFlags env0 (.scalar (.int 8) (.int 1)) (.int 128)).errs = [.type] ∧
    scalarEq (decode repoFlags env0 (.scalar (.int 8) (.int 1)) (.int 128)).val (.int 1) = true ∧
    scalarEq (decode repoFlags env0 (.scalar (.int 8) (.int 1)) (.int 127)).val (.int 127) = true := by decide

/-- C17_plugin_instance_config: two blocks of the same plugin in one configuration — the second, which names the plugin and
nothing else, is built from the registered defaults whatever the first was given; the value is found inside the instance -/
example :
    let two : Schema := .struct (.cons (fld "One" "one") gunPos (.cons (fld "Two" "two") gunPos .nil))
    let cfg : Val := .map [("one".toList, .map (("type".toList, .str "grpc".toList) :: gunRest)),
      ("two".toList, .map [("type".toList, .str "grpc".toList), ("target".toList, .str "h:1".toList)])]
    (lookup ["One".toList, "#0".toList, "Workers".toList] (decode repoFlags env0 two cfg).val).map (scalarEq (.uint 2)) = some true ∧
    (lookup ["Two".toList, "#0".toList, "Workers".toList] (decode repoFlags env0 two cfg).val).map (scalarEq (.uint 4)) = some true ∧
    (lookup ["Two".toList, "#1".toList, "Target".toList] (decode repoFlags env0 two cfg).val).map (scalarEq (.str "h:1".toList)) = some true := by
  decide

end Examples

/-! ## round 6 -/

/-- **Variable names are case-sensitive: a case twin is not the variable.** `${env:NAME}` is the value of the variable
whose name IS `NAME` (the first such entry of the environment): the lookup fails exactly when no variable has that very
name — whatever else is set, in particular a variable whose name differs from `NAME` in letter case only (`TARGET` for
`${env:target}`, `http_proxy` / `HTTP_PROXY`) — and the placeholder is then an error in every scalar field (and, by
`C17_placeholder_missing`, at `interface{}` and plugin positions; by `C17_nested_error` of the whole configuration). -/
theorem C17_env_exact (env : Env) (name : Str) :
    (lookupEnv env name = none ↔ ∀ e ∈ env.vars, e.1 ≠ name) ∧
    (∀ v, lookupEnv env name = some v ↔
      ∃ pre post, env.vars = pre ++ (name, v) :: post ∧ ∀ e ∈ pre, e.1 ≠ name) ∧
    (PlainName name → (∀ e ∈ env.vars, e.1 ≠ name) →
      ∀ (cast : Kind → Str → Option Val) (fl : Flags) (k : Kind) (d : DVal), (fl.resolveFirst = true ∨ k ≠ .dur) →
        decodeScalarWith cast fl env k d (.str (placeholder "env".toList name)) = R.fail d .resolve) := by
  refine ⟨assoc_none_iff env.vars name, fun v => assoc_some_iff env.vars name v, ?_⟩
  intro hn hno cast fl k d hfl
  have hnone : lookupEnv env name = none := (assoc_none_iff env.vars name).2 hno
  have hr : resolveTag env (placeholder "env".toList name) "env".toList name = none := by
    rw [resolveTag_env, hnone]
  exact (C17_placeholder_missing cast fl env "env".toList name plainType_env hn hr).1 k d hfl

/-- **A lone placeholder where no scalar is decoded is an error, never a silently different value.** The statement names
string, numeric, boolean and duration fields; at every OTHER position — an `interface{}` field, a pointer (also a pointer
to a scalar: the hooks see the pointer type first), a plugin position (`sink: ${env:OUT}`), a struct, a list, a mapping —
a string that is exactly one resolvable placeholder is refused (`confutil.cast`: "unsupported kind", resp. a type error):
the configuration is rejected (`C17_nested_error`), nothing is decoded from the resolved text. -/
theorem C17_placeholder_nonscalar (fl : Flags) (env : Env) (ty name raw : Str) (ht : PlainType ty) (hn : PlainName name)
    (hr : resolveTag env (placeholder ty name) ty name = some raw) :
    (∀ d, decode fl env (.any d) (.str (placeholder ty name)) = R.fail d .castkind) ∧
    (∀ pi alts, (decode fl env (.plugin pi alts) (.str (placeholder ty name))).errs = [.castkind]) ∧
    (∀ n s, (decode fl env (.ptr n s) (.str (placeholder ty name))).errs = [.castkind]) ∧
    (∀ fs, (decode fl env (.struct fs) (.str (placeholder ty name))).errs = [.type]) ∧
    (∀ e d, (decode fl env (.slice e d) (.str (placeholder ty name))).errs = [.type]) ∧
    (∀ e d, (decode fl env (.map e d) (.str (placeholder ty name))).errs = [.type]) := by
  have hi := injectOther_lone env ty name raw ht hn hr
  refine ⟨?_, ?_, ?_, ?_, ?_, ?_⟩
  · intro d; simp [decode, hi]
  · intro pi alts; simp [decode, hi, R.fail]
  · intro n s; rw [decode_ptr_str]; simp [hi, R.fail]
  · intro fs; simp [decode, R.fail]
  · intro e d; simp [decode, R.fail]
  · intro e d; simp [decode, R.fail]

/-- **The decoded value at ANY position of the configuration tree.** Following Go field names, list elements (`#i`) and
plugin positions — the config a constructed instance was built from, the config the i-th call of a factory hands out —
from the root, the value found in the decoded root is the decoded value of the sub-configuration at that position
(`C17_value_at_path` for paths that leave the root struct: `Pools #0 Gun #0 Target`). -/
theorem C17_value_at_any_path (fl : Flags) (env : Env) (p : List Str) (s : Schema) (cfg : Val) (s' : Schema) (c' : Val)
    (h : GAt fl env p s cfg s' c') : lookup p (decode fl env s cfg).val = some (decode fl env s' c').val :=
  value_at_g fl env h

/-- **Placeholders in every field position of every component.** A scalar option (string, bool, any integer width,
float, duration) that is exactly `${type:name}` — at the root, inside a pool of the pools list, inside the block of a gun /
provider / aggregator / schedule at any nesting depth — holds, in the config the component is built from, the resolved
text converted to the option's kind. -/
theorem C17_placeholder_in_component (env : Env) (p : List Str) (s : Schema) (cfg : Val) (k : Kind) (d : DVal)
    (ty name raw : Str) (w : DVal) (ht : PlainType ty) (hn : PlainName name)
    (hp : GAt repoFlags env p s cfg (.scalar k d) (.str (placeholder ty name)))
    (hr : resolveTag env (placeholder ty name) ty name = some raw) (hw : castExpect k raw = some w) :
    lookup p (decode repoFlags env s cfg).val = some w := by
  rw [value_at_g repoFlags env hp]
  have : decode repoFlags env (.scalar k d) (.str (placeholder ty name)) =
      decodeScalarWith castTo repoFlags env k d (.str (placeholder ty name)) := by simp [decode, decodeScalar]
  rw [this, (C17_placeholder_cast env ty name raw k d ht hn hr).1 w hw]

/-- … and a placeholder there that names an unset variable / a missing property rejects the whole configuration
(composition of `C17_placeholder_missing` with `C17_nested_error`). -/
theorem C17_placeholder_missing_anywhere (env : Env) (p : List Step) (s : Schema) (cfg : Val) (k : Kind) (d : DVal)
    (ty name : Str) (ht : PlainType ty) (hn : PlainName name)
    (hp : At false p s cfg (.scalar k d) (.str (placeholder ty name)))
    (hr : resolveTag env (placeholder ty name) ty name = none) :
    (decodeAndValidate repoFlags env s cfg).rejected = true := by
  apply (C17_nested_error repoFlags env p s cfg _ _ hp _).2
  left
  have h := (C17_placeholder_missing castTo repoFlags env ty name ht hn hr).1 k d (Or.inl rfl)
  have : decode repoFlags env (.scalar k d) (.str (placeholder ty name)) = R.fail d .resolve := by
    simpa [decode, decodeScalar] using h
  rw [this]; simp [R.fail]



section ExamplesR6

private def fld6 (n k : String) (tags : List VTag := []) : FInfo := ⟨n.toList, k.toList, true, false, tags⟩

private def gunFields6 : Fields :=
  .cons (fld6 "Target" "Target" [.required]) (.scalar .str (.str "default target".toList))
    (.cons (fld6 "Timeout" "timeout") (.scalar .dur (.int 0))
    (.cons (fld6 "Workers" "workers") (.scalar (.uint 64) (.uint 4)) .nil))
private def gunInfo6 : PInfo := ⟨true, .none, false, ["grpc".toList, "http".toList]⟩
private def gunAlts6 : Alts := .cons "grpc".toList true (.struct gunFields6) .nil
private def gunPos6 : Schema := .plugin gunInfo6 gunAlts6
private def poolCfg6 : Fields :=
  .cons (fld6 "ID" "ID") (.scalar .str (.str []))
    (.cons (fld6 "NewGun" "gun" [.required]) gunPos6
    (.cons (fld6 "DiscardOverflow" "discard_overflow") (.scalar .bool (.bool false)) .nil))
private def rootFields6 : Fields := .cons (fld6 "Pools" "pools" [.required, .dive]) (.slice (.struct poolCfg6) .nil) .nil
private def gunBlock6 : List (Str × Val) :=
  [("target".toList, .str "h:1".toList), ("TYPE".toList, .str "grpc".toList), ("timeout".toList, .str "${env:D}".toList)]
private def poolMap6 : List (Str × Val) := [("id".toList, .str "p".toList), ("gun".toList, .map gunBlock6)]
private def cfg6 : Val := .map [("pools".toList, .list [.map poolMap6])]
private def env6 : Env :=
  ⟨[("TARGET".toList, "h:80".toList), ("Target".toList, "h:81".toList), ("D".toList, "1m30s".toList), ("N".toList, "42".toList),
    ("S".toList, "hello".toList)], []⟩

/-- C17_env_exact: `TARGET` and `Target` are set, `target` is not: `${env:target}` is an error in a string and in a number
field, `${env:TARGET}` is `h:80` -/
example :
    (∀ e ∈ env6.vars, e.1 ≠ "target".toList) ∧ PlainName "target".toList ∧
    lookupEnv env6 "target".toList = none ∧ lookupEnv env6 "TARGET".toList = some "h:80".toList ∧
    (decodeScalar repoFlags env6 .str (.str []) (.str "${env:target}".toList)).errs = [.resolve] ∧
    (decodeScalar repoFlags env6 (.int 64) (.int 7) (.str "${env:n}".toList)).errs = [.resolve] ∧
    scalarEq (decodeScalar repoFlags env6 .str (.str []) (.str "${env:TARGET}".toList)).val (.str "h:80".toList) = true := by
  refine ⟨by decide, ⟨by decide, by decide⟩, by decide, by decide, by decide, by decide, by decide⟩

/-- C17_placeholder_nonscalar: `${env:N}` (set) at an interface{} field, a sink position, a pointer to an int; a text
with the placeholder inside it is substituted at the interface{} field and below the pointer -/
example :
    resolveTag env6 (placeholder "env".toList "N".toList) "env".toList "N".toList = some "42".toList ∧
    (decode repoFlags env6 (.any .nil) (.str "${env:N}".toList)).errs = [.castkind] ∧
    (decode repoFlags env6 (.plugin ⟨false, .sink, false, ["file".toList, "stdout".toList]⟩ .nil) (.str "${env:S}".toList)).errs = [.castkind] ∧
    (decode repoFlags env6 (.ptr true (.scalar (.int 64) (.int 0))) (.str "${env:N}".toList)).errs = [.castkind] ∧
    (decode repoFlags env6 (.ptr true (.scalar (.int 64) (.int 0))) (.int 42)).errs = [] ∧
    (decode repoFlags env6 (.ptr true (.scalar .str (.str []))) (.str "x-${env:S}".toList)).errs = [] ∧
    (decode repoFlags env6 (.ptr true (.scalar .str (.str []))) (.str "${env:UNSET}".toList)).errs = [.resolve] ∧
    (decode repoFlags env6 (.any .nil) (.str "x-${env:S}".toList)).errs = [] := by decide

/-- C17_value_at_any_path / C17_placeholder_in_component: `pools[0].gun.timeout: ${env:D}` — the config every gun of that
pool is built from holds 90 s; the sibling option keeps its registered default -/
example :
    GAt repoFlags env6 ["Pools".toList, "#0".toList, "NewGun".toList, "#2".toList, "Timeout".toList] (.struct rootFields6) cfg6
      (.scalar .dur (.int 0)) (.str (placeholder "env".toList "D".toList)) ∧
    ((castExpect .dur "1m30s".toList).map fun w => scalarEq w (.int 90000000000)) = some true ∧
    ((lookup ["Pools".toList, "#0".toList, "NewGun".toList, "#2".toList, "Timeout".toList]
      (decode repoFlags env6 (.struct rootFields6) cfg6).val).map fun v => scalarEq v (.int 90000000000)) = some true ∧
    ((lookup ["Pools".toList, "#0".toList, "NewGun".toList, "#0".toList, "Workers".toList]
      (decode repoFlags env6 (.struct rootFields6) cfg6).val).map fun v => scalarEq v (.uint 4)) = some true := by
  refine ⟨?_, by decide, by decide, by decide⟩
  exact .field rootFields6 [("pools".toList, .list [.map poolMap6])] (fld6 "Pools" "pools" [.required, .dive])
    (.slice (.struct poolCfg6) .nil) "pools".toList (.list [.map poolMap6]) _ _ _ (.head _ _ _) rfl rfl
    (.elem (.struct poolCfg6) .nil [.map poolMap6] "0".toList (.map poolMap6) _ _ _ rfl
      (.field poolCfg6 poolMap6 (fld6 "NewGun" "gun" [.required]) gunPos6 "gun".toList (.map gunBlock6) _ _ _
        (.tail _ _ _ _ _ (by decide) (.head _ _ _)) rfl rfl
        (.call gunInfo6 gunAlts6 gunBlock6 "grpc".toList true gunFields6 "2".toList _ _ _ rfl rfl (by decide) rfl (Or.inl rfl)
          (.field gunFields6 (dropType gunBlock6) (fld6 "Timeout" "timeout") (.scalar .dur (.int 0)) "timeout".toList
            (.str "${env:D}".toList) _ _ _ (.tail _ _ _ _ _ (by decide) (.head _ _ _)) rfl rfl (.here _ _)))))

/-- C17_placeholder_missing_anywhere: the same option naming an unset variable rejects the root configuration -/
example :
    let bad : Val := .map [("pools".toList, .list [.map [("gun".toList,
      .map [("type".toList, .str "grpc".toList), ("target".toList, .str "h:1".toList), ("timeout".toList, .str "${env:d}".toList)])]])]
    (decodeAndValidate repoFlags env6 (.struct rootFields6) bad).rejected = true ∧
    (decodeAndValidate repoFlags env6 (.struct rootFields6) cfg6).rejected = false := by decide

end ExamplesR6

end Pandora.Props.C17
