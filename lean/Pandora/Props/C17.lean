/-
C17 — Config decoding: unknown keys rejected, defaults kept, values validated, placeholders substituted.

Property theorems over the model `Pandora.Model.C17` (tied to the source by `Pandora.Bridge.Config`, regenerated on
every run, and by the correspondence driver harness/cmd/c17 which runs the real decoder on every config type
reachable from the registered plugins) and the executable spec `Pandora.Spec.C17`.
No bound on schema size, nesting depth, number of fields, keys, pools, or string lengths.
-/
import Pandora.Bridge.Config
import Pandora.Proofs.C17
import Pandora.Proofs.C17Cast
import Pandora.Proofs.C17Struct
import Pandora.Spec.C17

namespace Pandora.Props.C17
open Pandora.Model.C17 Pandora.Spec.C17 Pandora.Proofs.C17

/-! ## statement-level definitions -/

/-- one step of a path into a configuration -/
inductive Step
  | key (k : Str)      -- the value under a key of a struct-decoded mapping, or of a map
  | idx (i : Nat)      -- an element of a list
  | deref              -- through a pointer field
  | plugin             -- from a plugin position into the config of the plugin named by `type`

/-- `Inserted k v p s cfg cfg'`: following path `p` from a position of schema `s` holding configuration `cfg` ends at a
mapping that is decoded into a struct none of whose fields has key `k` (not even case-insensitively), and `cfg'` is
`cfg` with the entry `k: v` added to that mapping. -/
inductive Inserted (k : Str) (v : Val) : List Step → Schema → Val → Val → Prop
  | here (fs : Fields) (kvs : List (Str × Val)) :
      noField fs k = true → Inserted k v [] (.struct fs) (.map kvs) (.map ((k, v) :: kvs))
  | field (fs : Fields) (kvs : List (Str × Val)) (f : FInfo) (s : Schema) (key : Str) (c c' : Val) (p : List Step) :
      FieldIn f s fs → f.settable = true → findKey kvs f.key = some (key, c) →
      Inserted k v p s c c' → Inserted k v (.key key :: p) (.struct fs) (.map kvs) (.map (setKey kvs key c'))
  | elem (e : Schema) (d : DVal) (xs : List Val) (i : Nat) (c c' : Val) (p : List Step) :
      xs[i]? = some c → Inserted k v p e c c' → Inserted k v (.idx i :: p) (.slice e d) (.list xs) (.list (xs.set i c'))
  | entry (e : Schema) (d : Option (List (Str × DVal))) (kvs : List (Str × Val)) (key : Str) (c c' : Val) (p : List Step) :
      (key, c) ∈ kvs → Inserted k v p e c c' →
      Inserted k v (.key key :: p) (.map e d) (.map kvs) (.map (setKey kvs key c'))
  | deref (n : Bool) (s : Schema) (c c' : Val) (p : List Step) :
      Inserted k v p s c c' → Inserted k v (.deref :: p) (.ptr n s) c c'
  | plugin (pi : PInfo) (alts : Alts) (tk name : Str) (kvs kvs' : List (Str × Val)) (lzy : Bool) (s : Schema) (p : List Step) :
      isTypeKey tk = true → typeEntries kvs = [] → pi.names.contains name = true → altOf alts name = some (lzy, s) →
      Inserted k v p s (.map kvs) (.map kvs') →
      Inserted k v (.plugin :: p) (.plugin pi alts) (.map ((tk, .str name) :: kvs)) (.map ((tk, .str name) :: kvs'))

/-! ## unknown keys -/

/-- **Unknown key, every nesting level.** With `ErrorUnused` set, for every schema, every configuration, every path
(through struct fields, pointers, list elements, map entries and plugin positions dispatching on `type`, to any
depth) and every key that is not a field of the struct decoded at the end of that path: decoding the configuration
with that key inserted fails — at once, or (below a factory made from a component constructor) at the first call of
the factory. By induction on the path. -/
theorem C17_unknown_key (fl : Flags) (env : Env) (hfl : fl.errorUnused = true) (k : Str) (v : Val)
    (hk : isTypeKey k = false) :
    ∀ (p : List Step) (s : Schema) (cfg cfg' : Val), Inserted k v p s cfg cfg' →
      R.failed (decode fl env s cfg') ∧ (decodeAndValidate fl env s cfg').rejected = true := by
  have main : ∀ (p : List Step) (s : Schema) (cfg cfg' : Val), Inserted k v p s cfg cfg' →
      R.failed (decode fl env s cfg') ∧ (∃ m, cfg' = .map m ∧ (∀ m0, cfg = .map m0 → typeEntries m0 = [] → typeEntries m = [])) ∨
      R.failed (decode fl env s cfg') ∧ (∃ l, cfg' = .list l) := by
    intro p s cfg cfg' h
    induction h with
    | here fs kvs hno =>
      left
      refine ⟨Or.inl ?_, _, rfl, ?_⟩
      · intro he
        have := unknown_key_here fl env hfl fs kvs k v hno
        rw [he] at this; cases this
      · intro m0 hm0 hte
        cases hm0
        unfold typeEntries at hte ⊢
        simp only [List.filter, hk]
        exact hte
    | field fs kvs f s key c c' p hin hset hfind _ ih =>
      left
      have hf : R.failed (decode fl env s c') := by rcases ih with h | h <;> exact h.1
      refine ⟨struct_failed_of_flat fl env fs _ (failed_of_field fl env fs _ f s key c' hin hset
        (findKey_setKey kvs f.key key c c' hfind) hf), _, rfl, ?_⟩
      intro m0 hm0 hte
      cases hm0
      unfold typeEntries at hte ⊢
      have hf0 := filter_eq_nil_of_map hte
      have : (setKey kvs key c').filter (fun kv => isTypeKey kv.1) = [] := by
        rw [List.filter_eq_nil_iff] at hf0 ⊢
        intro kv hkv
        unfold setKey at hkv
        rcases List.mem_map.mp hkv with ⟨kv0, hkv0, heq⟩
        have h0 := hf0 kv0 hkv0
        split at heq <;> (subst heq; simpa using h0)
      rw [this]; rfl
    | elem e d xs i c c' p hget _ ih =>
      right
      have hf : R.failed (decode fl env e c') := by rcases ih with h | h <;> exact h.1
      refine ⟨slice_failed fl env e d _ c' ?_ hf, _, rfl⟩
      have hi : i < xs.length := by
        rcases List.getElem?_eq_some_iff.mp hget with ⟨hi, _⟩; exact hi
      exact List.mem_iff_getElem.mpr ⟨i, by simpa using hi, by simp⟩
    | entry e d kvs key c c' p hmem _ ih =>
      left
      have hf : R.failed (decode fl env e c') := by rcases ih with h | h <;> exact h.1
      refine ⟨map_failed fl env e d _ key c' ?_ hf, _, rfl, ?_⟩
      · unfold setKey
        exact List.mem_map.mpr ⟨(key, c), hmem, by simp⟩
      · intro m0 hm0 hte
        cases hm0
        unfold typeEntries at hte ⊢
        have hf0 := filter_eq_nil_of_map hte
        have : (setKey kvs key c').filter (fun kv => isTypeKey kv.1) = [] := by
          rw [List.filter_eq_nil_iff] at hf0 ⊢
          intro kv hkv
          unfold setKey at hkv
          rcases List.mem_map.mp hkv with ⟨kv0, hkv0, heq⟩
          have h0 := hf0 kv0 hkv0
          split at heq <;> (subst heq; simpa using h0)
        rw [this]; rfl
    | deref n s c c' p _ ih =>
      rcases ih with ⟨hf, m, hm, hte⟩ | ⟨hf, l, hl⟩
      · left
        refine ⟨?_, m, hm, hte⟩
        rw [decode_ptr fl env n s c' (by rw [hm]; intro h; cases h)]
        exact hf
      · right
        refine ⟨?_, l, hl⟩
        rw [decode_ptr fl env n s c' (by rw [hl]; intro h; cases h)]
        exact hf
    | plugin pi alts tk name kvs kvs' lzy s p htk hno hname halt _ ih =>
      left
      rcases ih with ⟨hf, m, hm, hte⟩ | ⟨_, l, hl⟩
      · cases hm
        have hno' := hte kvs rfl hno
        refine ⟨plugin_failed fl env pi alts tk name kvs' lzy s htk hno' hname halt hf, _, rfl, ?_⟩
        intro m0 hm0 hte0
        cases hm0
        rw [typeEntries_cons_type tk name kvs htk hno] at hte0
        cases hte0
      · cases hl
  intro p s cfg cfg' h
  have hf : R.failed (decode fl env s cfg') := by rcases main p s cfg cfg' h with h | h <;> exact h.1
  exact ⟨hf, rejected_of_failed fl env s cfg' hf⟩

/-- Without `ErrorUnused` the same key is silently dropped (why the flag regenerated from `newDecoderConfig` matters). -/
theorem C17_unknown_key_needs_errorUnused :
    ∃ (env : Env) (s : Schema) (cfg' : Val),
      Inserted "zz".toList (.int 1) [] s (.map []) cfg' ∧
      (decodeAndValidate ⟨false, false, true⟩ env s cfg').rejected = false :=
  ⟨⟨[], []⟩, .struct (.cons ⟨"A".toList, "a".toList, true, false, []⟩ (.scalar .bool (.bool false)) .nil), _,
    .here _ _ (by decide), by decide⟩

/-! ## defaults -/

/-- **Defaults.** A decoded struct holds, field by field, the decoded option, or — when the configuration has no
(case-insensitively matching) key for the field — the default the schema carries (the component's registered default
config); an explicit `null` keeps the default as well when `ZeroFields` is off; defaults of nested structs are the
defaults of their fields; a scalar option that fails to decode leaves the default in place. -/
theorem C17_defaults (fl : Flags) (env : Env) :
    (∀ fs kvs, (decode fl env (.struct fs) (.map kvs)).val =
        .struct ((Fields.toList fs).map fun p => (p.1.name, (fieldResult fl env kvs p.1 p.2).val))) ∧
    (∀ kvs f s, findKey kvs f.key = none → fieldResult fl env kvs f s = keep false s) ∧
    (fl.zeroFields = false → ∀ s, decode fl env s .null = keep false s) ∧
    (∀ k d, (keep false (.scalar k d)).val = d) ∧
    (∀ fs, (keep false (.struct fs)).val = .struct ((Fields.toList fs).map fun p => (p.1.name, (keep false p.2).val))) := by
  refine ⟨?_, ?_, ?_, ?_, ?_⟩
  · intro fs kvs
    rw [decode_struct_map, decodeFlat_vals]
  · intro kvs f s h
    simp [fieldResult, h]
  · intro hz s
    cases s <;> simp [decode, hz]
  · intro k d
    simp [keep]
  · intro fs
    simp [keep, keepFields_vals]

/-- With `ZeroFields` on, an explicit `null` wipes the default (why that flag must stay off). -/
theorem C17_defaults_needs_zeroFields_off :
    ∃ (env : Env) (s : Schema),
      (decode ⟨true, true, true⟩ env s .null).val.isZero = true ∧ (keep false s).val.isZero = false :=
  ⟨⟨[], []⟩, .scalar (.int 64) (.int 1234), by decide⟩

/-! ## wrongly typed values -/

/-- **Type errors.** A value of the wrong shape is an error, for every target:
a non-string scalar the kind switch does not convert; a string (without placeholder) for a bool / numeric field; anything but a
mapping for a struct, anything but a list for a slice, anything but a mapping for a map; a number or boolean at a
plugin position.  The failed field keeps its default. -/
theorem C17_type_error (fl : Flags) (env : Env) :
    (∀ k d v, (∀ s, v ≠ .str s) → v ≠ .null → accepts k v = false → decode fl env (.scalar k d) v = R.fail d .type) ∧
    (∀ k d s, k ≠ .dur → k ≠ .str → resolve env s = .plain → decode fl env (.scalar k d) (.str s) = R.fail d .type) ∧
    (∀ fs v, v ≠ .null → (∀ kvs, v ≠ .map kvs) → (decode fl env (.struct fs) v).errs = [.type]) ∧
    (∀ e d v, v ≠ .null → (∀ xs, v ≠ .list xs) → (decode fl env (.slice e d) v).errs = [.type]) ∧
    (∀ e d v, v ≠ .null → (∀ kvs, v ≠ .map kvs) → (decode fl env (.map e d) v).errs = [.type]) ∧
    (∀ pi alts, (∀ b, (decode fl env (.plugin pi alts) (.bool b)).errs = [.type]) ∧
      (∀ i, (decode fl env (.plugin pi alts) (.int i)).errs = [.type]) ∧
      (∀ x, (decode fl env (.plugin pi alts) (.float x)).errs = [.type])) := by
  refine ⟨?_, ?_, ?_, ?_, ?_, ?_⟩
  · intro k d v hs hn ha
    have : decode fl env (.scalar k d) v = decodeScalar fl env k d v := by cases v <;> simp_all [decode]
    rw [this, decodeScalar, decodeScalar_nonstring castTo fl env k d v hs, decodeKind_rejects k d v ha]
  · intro k d s hd hs hp
    have : decode fl env (.scalar k d) (.str s) = decodeScalar fl env k d (.str s) := by simp [decode]
    rw [this, decodeScalar, decodeScalar_plain castTo fl env k d s hd hp]
    apply decodeKind_rejects
    cases k <;> simp_all [accepts]
  · intro fs v hn hm
    cases v <;> simp_all [decode, R.fail]
  · intro e d v hn hl
    cases v <;> simp_all [decode, R.fail]
  · intro e d v hn hm
    cases v <;> simp_all [decode, R.fail]
  · intro pi alts
    refine ⟨?_, ?_, ?_⟩ <;> intro x <;> simp [decode, R.fail]

/-! ## constraints -/

/-- **Constraints.** If the value a field ends up with (given or default) violates one of the field's `validate`
tags, the configuration is rejected; the same holds when the violation sits in a nested struct (or, with `dive`, in
an element of a slice / map), and when it sits in the config of a plugin: the plugin position then fails. -/
theorem C17_constraint (fl : Flags) (env : Env) (fs : Fields) (kvs : List (Str × Val)) (f : FInfo) (s : Schema)
    (hin : FieldIn f s fs) :
    (tagsFail f.tags (fieldResult fl env kvs f s).val = true →
      (decodeAndValidate fl env (.struct fs) (.map kvs)).rejected = true) ∧
    (childVfail f s (fieldResult fl env kvs f s) = true →
      (decodeAndValidate fl env (.struct fs) (.map kvs)).rejected = true) ∧
    (∀ pi alts tk name pk lzy ps, isTypeKey tk = true → typeEntries pk = [] → pi.names.contains name = true →
      altOf alts name = some (lzy, ps) → (decode fl env ps (.map pk)).vfail = true →
      R.failed (decode fl env (.plugin pi alts) (.map ((tk, .str name) :: pk)))) := by
  refine ⟨?_, ?_, ?_⟩
  · intro h
    apply rejected_of_vfail
    rw [decode_struct_map]
    exact vfail_of_field fl env fs kvs f s hin (Or.inl h)
  · intro h
    apply rejected_of_vfail
    rw [decode_struct_map]
    exact vfail_of_field fl env fs kvs f s hin (Or.inr h)
  · intro pi alts tk name pk lzy ps htk hno hname halt hv
    apply plugin_rejects fl env pi alts tk name pk lzy ps htk hno hname halt
    left
    unfold settle
    cases he : (decode fl env ps (.map pk)).errs with
    | nil => simp [hv]
    | cons x xs => simp

/-- what each `validate` tag used in the repository demands of the field's value -/
theorem C17_constraint_tags :
    (∀ v, tagFail .required v = v.isZero) ∧
    (∀ n i, tagFail (.min n) (.int i) = decide (i < n)) ∧
    (∀ n u, tagFail (.min n) (.uint u) = decide ((u : Int) < n)) ∧
    (∀ n x, tagFail (.min n) (.float x) = !x.geInt n) ∧
    (∀ ns i, tagFail (.minTime ns) (.int i) = decide (i < ns)) ∧
    (∀ s, tagFail .endpoint (.str s) = !endpointOk s) ∧
    (∀ alts s, tagFail (.oneOf alts) (.str s) = !alts.contains s) ∧
    (∀ ts v, v.isZero = true → tagsFail (.omitempty :: ts) v = false) ∧
    (∀ t ts v, tagFail t v = true → (∀ h : t = .omitempty, False) → tagsFail (t :: ts) v = true) := by
  refine ⟨fun _ => rfl, fun _ _ => rfl, fun _ _ => rfl, fun _ _ => rfl, fun _ _ => rfl, fun _ => rfl, fun _ _ => rfl, ?_, ?_⟩
  · intro ts v h; simp [tagsFail, h]
  · intro t ts v h hne
    cases t <;> simp_all [tagsFail]

/-! ## placeholders -/

/-- the statement about a field that is exactly one placeholder, for a given cast function -/
def CastStatement (cast : Kind → Str → Option Val) : Prop :=
  ∀ (env : Env) (ty name raw : Str) (k : Kind) (d : DVal), PlainType ty → PlainName name →
    resolveTag env (placeholder ty name) ty name = some raw →
    (∀ w, castExpect k raw = some w →
      decodeScalarWith cast repoFlags env k d (.str (placeholder ty name)) = { val := w }) ∧
    (castExpect k raw = none →
      (decodeScalarWith cast repoFlags env k d (.str (placeholder ty name))).errs ≠ [] ∧
      (decodeScalarWith cast repoFlags env k d (.str (placeholder ty name))).val = d)

/-- **Placeholder cast.** For every environment / property files, every tag type with a registered resolver, every
name, every field kind (string, bool, every signed and unsigned integer width, float, duration) and every text `raw`
the resolver returns: a field that is exactly `${type:name}` is decoded to `raw` converted to the field's kind
(`Spec.castExpect`: the literal of that kind; for unsigned kinds an UNSIGNED literal in range) and nothing else
changes; if `raw` is not a literal of the kind the field is an error and keeps its default. -/
theorem C17_placeholder_cast : CastStatement castTo := by
  intro env ty name raw k d ht hn hr
  have hres : resolve env (placeholder ty name) = .text raw true := by
    rw [resolve_placeholder env ty name ht hn, hr]
  exact cast_agrees env k d _ raw hres

/-- `${env:NAME}` and `${property:file#key}`: what `raw` is -/
theorem C17_placeholder_sources (env : Env) (name text : Str) :
    resolveTag env text "env".toList name = lookupEnv env name ∧
    resolveTag env text [] name = lookupEnv env name ∧
    resolveTag env text "property".toList name = lookupProp env name ∧
    PlainType "env".toList ∧ PlainType "property".toList :=
  ⟨resolveTag_env env text name, by simp [resolveTag, lower], resolveTag_property env text name,
    plainType_env, plainType_property⟩

/-- The cast in use before the repair (`castInt` for unsigned kinds) does NOT have the property: `${env:X}` with
`X=-1` in a `uint` field is accepted as 18446744073709551615. -/
theorem C17_placeholder_cast_prefix_counterexample : ¬ CastStatement castToOld := by
  intro h
  have := (h ⟨[("X".toList, "-1".toList)], []⟩ "env".toList "X".toList "-1".toList (.uint 64) (.uint 0)
    plainType_env ⟨by decide, by decide⟩ (by decide)).2 (by decide)
  exact this.1 (by decide)

/-- **Missing variable / property.** A placeholder whose resolver reports an error (environment variable not set;
property argument without `#`, unreadable file, key not in the file) makes the field an error — in every scalar
field, in an `interface{}` field, and at a plugin position. -/
theorem C17_placeholder_missing (cast : Kind → Str → Option Val) (fl : Flags) (env : Env) (ty name : Str)
    (ht : PlainType ty) (hn : PlainName name) (h : resolveTag env (placeholder ty name) ty name = none) :
    (∀ k d, fl.resolveFirst = true ∨ k ≠ .dur →
      decodeScalarWith cast fl env k d (.str (placeholder ty name)) = R.fail d .resolve) ∧
    (∀ d, decode fl env (.any d) (.str (placeholder ty name)) = R.fail d .resolve) ∧
    (∀ pi alts, (decode fl env (.plugin pi alts) (.str (placeholder ty name))).errs = [.resolve]) ∧
    (lookupEnv env name = none → resolveTag env (placeholder "env".toList name) "env".toList name = none) ∧
    (lookupProp env name = none → resolveTag env (placeholder "property".toList name) "property".toList name = none) := by
  have hf := resolve_placeholder_failed env ty name ht hn h
  refine ⟨?_, ?_, ?_, ?_, ?_⟩
  · intro k d hfl
    exact decodeScalar_failed cast fl env k d _ hfl hf
  · intro d
    simp [decode, injectOther_failed env _ hf]
  · intro pi alts
    simp [decode, injectOther_failed env _ hf, R.fail]
  · intro hl; rw [resolveTag_env, hl]
  · intro hl; rw [resolveTag_property, hl]

/-- when the property lookup fails -/
theorem C17_property_missing (env : Env) (file key : Str) (hf : ∀ c ∈ file, c ≠ '#') :
    (assoc env.files file = none → lookupProp env (file ++ '#' :: key) = none) ∧
    (∀ entries, assoc env.files file = some entries → assoc entries key = none →
      lookupProp env (file ++ '#' :: key) = none) ∧
    (∀ arg, (∀ c ∈ arg, c ≠ '#') → lookupProp env arg = none) := by
  have hcut : ∀ (xs acc : Str), (∀ c ∈ xs, c ≠ '#') → cutHash (xs ++ '#' :: key) acc = some (acc.reverse ++ xs, key) := by
    intro xs
    induction xs with
    | nil => intro acc _; simp [cutHash]
    | cons c cs ih =>
      intro acc h
      have hc : (c == '#') = false := by simp [h c (by simp)]
      simp only [List.cons_append, cutHash, hc, Bool.false_eq_true, if_false]
      rw [ih (c :: acc) (fun c hm => h c (by simp [hm]))]
      simp
  have hnone : ∀ (xs acc : Str), (∀ c ∈ xs, c ≠ '#') → cutHash xs acc = none := by
    intro xs
    induction xs with
    | nil => intro acc _; rfl
    | cons c cs ih =>
      intro acc h
      have hc : (c == '#') = false := by simp [h c (by simp)]
      simp only [cutHash, hc, Bool.false_eq_true, if_false]
      exact ih _ (fun c hm => h c (by simp [hm]))
  refine ⟨?_, ?_, ?_⟩
  · intro h; simp [lookupProp, hcut file [] hf, h]
  · intro entries h1 h2; simp [lookupProp, hcut file [] hf, h1, h2]
  · intro arg h; simp [lookupProp, hnone arg [] h]

/-! ## discard_overflow -/

/-- **discard_overflow defaults to on.** `readConfig` gives every pool mapping that lacks the key the entry
`discard_overflow: true` (and leaves a pool that has the key alone); the struct field with that key then decodes to
`true`, whatever else the pool contains. -/
theorem C17_discard_default (fl : Flags) (env : Env) (pk : List (Str × Val)) :
    ((∀ e ∈ pk, e.1 ≠ "discard_overflow".toList) →
      defaultDiscard (.map [("pools".toList, .list [.map pk])]) =
        .map [("pools".toList, .list [.map (pk ++ [("discard_overflow".toList, .bool true)])])] ∧
      ∀ (f : FInfo) (d : DVal), f.key = "discard_overflow".toList → f.settable = true →
        fieldResult fl env (pk ++ [("discard_overflow".toList, .bool true)]) f (.scalar .bool d) = { val := .bool true }) ∧
    ((∃ e ∈ pk, e.1 = "discard_overflow".toList) →
      defaultDiscard (.map [("pools".toList, .list [.map pk])]) = .map [("pools".toList, .list [.map pk])]) ∧
    (∀ (pools : List Val), defaultDiscard (.map [("pools".toList, .list pools)]) =
      .map [("pools".toList, .list (pools.map fun p =>
        match p with
        | .map pk =>
          if (pk.any fun e => e.1 == "discard_overflow".toList) then .map pk
          else .map (pk ++ [("discard_overflow".toList, .bool true)])
        | other => other))]) := by
  refine ⟨?_, ?_, ?_⟩
  · intro habs
    have hany : (pk.any fun e => e.1 == "discard_overflow".toList) = false := by
      rw [List.any_eq_false]
      intro e he
      simpa using habs e he
    refine ⟨?_, ?_⟩
    · simp only [defaultDiscard, defaultDiscardWith, discardDefault, List.map_cons, List.map_nil, beq_self_eq_true,
        if_true, hany]
      simp
    · intro f d hk hs
      have := findKey_defaulted pk "discard_overflow".toList (.bool true) habs
      simp only [fieldResult, hs, hk, this, if_true]
      simp [decode, decodeScalar, decodeScalarWith, decodeKind]
  · intro ⟨e, he, hk⟩
    have hany : (pk.any fun e => e.1 == "discard_overflow".toList) = true := by
      rw [List.any_eq_true]
      exact ⟨e, he, by simp [hk]⟩
    simp only [defaultDiscard, defaultDiscardWith, discardDefault, List.map_cons, List.map_nil, beq_self_eq_true,
      if_true, hany]
  · intro pools
    simp only [defaultDiscard, defaultDiscardWith, discardDefault, List.map_cons, List.map_nil, beq_self_eq_true, if_true]
    rfl

/-! ## non-vacuity: concrete inputs meeting the hypotheses of every theorem above -/

section Examples

private def fld (n k : String) (tags : List VTag := []) : FInfo := ⟨n.toList, k.toList, true, false, tags⟩

/-- a miniature of `grpc.GunConfig` -/
private def gunFields : Fields :=
  .cons (fld "Target" "Target" [.required]) (.scalar .str (.str "default target".toList))
    (.cons (fld "Timeout" "timeout") (.scalar .dur (.int 0))
    (.cons (fld "ReflectPort" "reflect_port" [.min 0]) (.scalar (.int 64) (.int 0))
    (.cons (fld "Workers" "workers") (.scalar (.uint 64) (.uint 4)) .nil)))

private def gunCfg : Schema := .struct gunFields

private def gunPos : Schema :=
  .plugin ⟨true, .none, false, ["grpc".toList, "http".toList]⟩ (.cons "grpc".toList true gunCfg .nil)

/-- a miniature of `engine.InstancePoolConfig` and `cli.CliConfig` -/
private def poolCfg : Fields :=
  .cons (fld "ID" "ID") (.scalar .str (.str []))
    (.cons (fld "NewGun" "gun" [.required]) gunPos
    (.cons (fld "DiscardOverflow" "discard_overflow") (.scalar .bool (.bool false)) .nil))

private def rootFields : Fields :=
  .cons (fld "Pools" "pools" [.required, .dive]) (.slice (.struct poolCfg) .nil) .nil

private def rootCfg : Schema := .struct rootFields

private def gunMap : List (Str × Val) := [("target".toList, .str "127.0.0.1:80".toList)]
private def poolMap : List (Str × Val) := [("gun".toList, .map (("type".toList, .str "grpc".toList) :: gunMap))]
private def cfg0 : Val := .map [("pools".toList, .list [.map poolMap])]

private def env0 : Env :=
  ⟨[("X".toList, "-1".toList), ("N".toList, "42".toList), ("D".toList, "1m30s".toList), ("B".toList, "true".toList),
    ("F".toList, "2.5".toList), ("S".toList, "hello".toList)],
   [("/etc/p.properties".toList, [("port".toList, "8080".toList)])]⟩

/-- C17_unknown_key: a misspelled key four levels down (root → pools → [0] → gun → plugin config), below a lazily
filled factory; the theorem's conclusion is computed independently by evaluation -/
example : ∃ cfg', Inserted "tagret".toList (.int 1) [.key "pools".toList, .idx 0, .key "gun".toList, .plugin] rootCfg cfg0 cfg' ∧
    (decodeAndValidate repoFlags env0 rootCfg cfg').rejected = true ∧
    (decode repoFlags env0 rootCfg cfg').later = [.unused] ∧
    (decodeAndValidate repoFlags env0 rootCfg cfg0).rejected = false :=
  ⟨_, .field rootFields [("pools".toList, .list [.map poolMap])] (fld "Pools" "pools" [.required, .dive])
        (.slice (.struct poolCfg) .nil) "pools".toList (.list [.map poolMap]) _ _ (.head _ _ _) rfl rfl
        (.elem (.struct poolCfg) .nil [.map poolMap] 0 (.map poolMap) _ _ rfl
          (.field poolCfg poolMap (fld "NewGun" "gun" [.required]) gunPos "gun".toList
            (.map (("type".toList, .str "grpc".toList) :: gunMap)) _ _ (.tail _ _ _ _ _ (.head _ _ _)) rfl rfl
            (.plugin ⟨true, .none, false, ["grpc".toList, "http".toList]⟩ (.cons "grpc".toList true gunCfg .nil)
              "type".toList "grpc".toList gunMap _ true gunCfg _ (by decide) (by decide) (by decide) rfl
              (.here gunFields gunMap (by decide))))),
    by decide, by decide, by decide⟩

/-- C17_defaults: `timeout` given, everything else keeps the registered default -/
example :
    let r := decode repoFlags env0 gunCfg (.map [("TIMEOUT".toList, .str "5s".toList)])
    r.errs = [] ∧
    ((lookup ["Timeout".toList] r.val).map fun v => sameValue v (.int 5000000000)) = some true ∧
    ((lookup ["Target".toList] r.val).map fun v => sameValue v (.str "default target".toList)) = some true ∧
    ((lookup ["Workers".toList] r.val).map fun v => sameValue v (.uint 4)) = some true := by decide

/-- C17_type_error / C17_constraint: a list for a struct, text for a number, a negative port -/
example :
    (decode repoFlags env0 gunCfg (.list [])).errs = [.type] ∧
    (decode repoFlags env0 gunCfg (.map [("reflect_port".toList, .str "abc".toList)])).errs = [.type] ∧
    (decode repoFlags env0 gunCfg (.map [("reflect_port".toList, .int (-1))])).errs = [] ∧
    (decodeAndValidate repoFlags env0 gunCfg (.map [("reflect_port".toList, .int (-1))])).rejected = true ∧
    (decodeAndValidate repoFlags env0 gunCfg (.map [("target".toList, .str [])])).rejected = true := by decide

/-- C17_placeholder_cast: every kind, environment and property file -/
example :
    let f := fun (k : Kind) (d : DVal) (s : String) => decodeScalar repoFlags env0 k d (.str s.toList)
    (f (.int 64) (.int 0) "${env:N}").errs = [] ∧ scalarEq (f (.int 64) (.int 0) "${env:N}").val (.int 42) = true ∧
    scalarEq (f (.int 64) (.int 0) "${env:X}").val (.int (-1)) = true ∧
    scalarEq (f (.uint 16) (.uint 0) "${property:/etc/p.properties#port}").val (.uint 8080) = true ∧
    scalarEq (f .dur (.int 0) "${env:D}").val (.int 90000000000) = true ∧
    scalarEq (f .bool (.bool false) "${env:B}").val (.bool true) = true ∧
    scalarEq (f (.float 64) (.float ⟨false, 0, 0⟩) "${env:F}").val (.float ⟨false, 25, 1⟩) = true ∧
    scalarEq (f .str (.str []) "${env:S}").val (.str "hello".toList) = true ∧
    scalarEq (f .str (.str []) "[Host: ${env:S}]").val (.str "[Host: hello]".toList) = true ∧
    -- the repaired behaviour: -1 is no unsigned literal
    (f (.uint 64) (.uint 7) "${env:X}").errs = [.type] ∧ scalarEq (f (.uint 64) (.uint 7) "${env:X}").val (.uint 7) = true ∧
    -- … which the pre-repair cast accepted
    (decodeScalarWith castToOld repoFlags env0 (.uint 64) (.uint 7) (.str "${env:X}".toList)).errs = [] := by decide

/-- C17_placeholder_missing: unset variable, missing key, missing file, no `#` -/
example :
    let f := fun (s : String) => (decodeScalar repoFlags env0 .str (.str []) (.str s.toList)).errs
    f "${env:UNSET}" = [.resolve] ∧ f "${property:/etc/p.properties#nokey}" = [.resolve] ∧
    f "${property:/nofile#port}" = [.resolve] ∧ f "${property:/etc/p.properties}" = [.resolve] ∧
    PlainName "UNSET".toList ∧ lookupEnv env0 "UNSET".toList = none := by
  refine ⟨by decide, by decide, by decide, by decide, ⟨by decide, by decide⟩, by decide⟩

/-- C17_discard_default through `cliRead`: absent ⇒ true, `false` stays false; the mutant default loses it -/
example :
    let dOf := fun (cfg : Val) (dflt : Bool) =>
      ((lookup ["Pools".toList] (decode repoFlags env0 rootCfg (defaultDiscardWith dflt cfg)).val).map fun v =>
        match v with
        | .slice [p] => (lookup ["DiscardOverflow".toList] p).map fun b => scalarEq b (.bool true)
        | _ => none)
    dOf cfg0 discardDefault = some (some true) ∧
    dOf (.map [("pools".toList, .list [.map (("discard_overflow".toList, .bool false) :: poolMap)])]) discardDefault = some (some false) ∧
    dOf cfg0 false = some (some false) := by decide

end Examples

end Pandora.Props.C17
