/-
C03 — Engine shot accounting.

Model: `Pandora.Model.C03` — one instance pool of the engine as a labelled transition system over a shared or
per-instance finite schedule and a bounded/unbounded provider: instances are started at arbitrary moments of the run
(event `start`), each runs the loop of core/engine/instance.go `instance.Run` (IsFinished check via `Left()`, Acquire,
Wait/`Next()`, fire-or-discard decision, `Request.Add`, `Shoot`, `Response.Add`, deferred Release); ammo items carry
identities.  A trace `evs : List Ev` is ANY interleaving of ANY number of instances (events that are not enabled make
`run` return `none`); the theorems hold for every accepted trace, with no bound on instances, tokens, ammo or length.

The schedule's `Next()` / `Left()` are atomic events of that system; `Pandora.Model.C03Fine` splits each into its one
atomic access to the shared counter and its return, with arbitrary preemption in between, and `C03_fine_refines` shows
that nothing new becomes reachable — `C03_fine_*` restate the clauses for that finer system.

Tie: (1) the correspondence harness replays the event log of the REAL engine through `step` (every observed event
must be enabled, item identities included) and evaluates `Spec.C03.verdict` on the real counters; (2) the body of one
loop iteration, `IsFinished`, `Wait`, the schedule sharing of `buildNewInstanceSchedule` and `AmmoQueue` are
regenerated from the current source and `Pandora.Bridge.InstLoop` proves them to be paths/facts of this model.
-/
import Pandora.Proofs.C03Reach
import Pandora.Proofs.C03Fine
import Pandora.Spec.C03
import Pandora.Bridge.InstLoop
import Pandora.Bridge.C03DoAt
import Pandora.Proofs.C03Await
import Pandora.Bridge.C03Await
import Pandora.Proofs.C03Start
import Pandora.Bridge.C03Start
import Pandora.Proofs.C03Comp
import Pandora.Bridge.C03Comp
import Pandora.Proofs.C03Pool
import Pandora.Bridge.C03Pool
import Pandora.Proofs.C03Leaf
import Pandora.Bridge.C03Wiring
import Pandora.Proofs.C03Iter

namespace Pandora.Props.C03
open Pandora.Model.C03 Pandora.Proofs.C03

/-- **fired + discarded = min(tokens, ammo)** when the pool ends normally (every started instance has left its loop)
and at least one instance was started; tokens = the shared profile, or one full profile per STARTED instance.
For every number of instances started at any moments, both profile modes, every ammo bound and every interleaving. -/
theorem C03_total (c : Cfg) (evs : List Ev) (s : St) (hrun : run c (init c) evs = some s) (ht : s.terminal = true)
    (hN : 0 < s.started) : s.fired + s.discarded = minOpt (s.totalTokens c) c.ammo := by
  have hA := reach_invA hrun
  have cW := count_of_terminal ht .wait (by decide) (by decide)
  have cD := count_of_terminal ht .decide (by decide) (by decide)
  have cF := count_of_terminal ht .firing (by decide) (by decide)
  have hcls := hA.classified
  have hammo := hA.ammo
  cases hc : c.perInstance with
  | false =>
    have hS := reach_invS hc hrun
    have hd := hS.done 0 (started_done hA ht 0 hN)
    have htok := hS.tok
    have hunf := hS.unfPos
    simp only [St.totalTokens, hc, Bool.false_eq_true, if_false]
    cases ha : c.ammo with
    | none =>
      rw [ha] at hammo
      simp only [minOpt]
      rcases hd with h0 | h0
      · omega
      · rw [hammo] at h0; cases h0
    | some a0 =>
      rw [ha] at hammo
      obtain ⟨a, h1, h2⟩ := hammo
      simp only [minOpt]
      rcases hd with h0 | h0
      · omega
      · rw [h1] at h0
        have : a = 0 := by injection h0
        by_cases hsh : s.shared = 0
        · omega
        · have : s.unfired = 0 := by
            rcases Nat.eq_zero_or_pos s.unfired with h | h
            · exact h
            · exact absurd (hunf h).1 hsh
          omega
  | true =>
    have hP := reach_invP hc hrun
    have htok := hP.tok
    have hunf := hP.unf0
    simp only [St.totalTokens, hc, if_true]
    by_cases hz : s.ammoLeft = some 0
    · cases ha : c.ammo with
      | none => rw [ha] at hammo; rw [hammo] at hz; cases hz
      | some a0 =>
        rw [ha] at hammo
        obtain ⟨a, h1, h2⟩ := hammo
        rw [h1] at hz
        have : a = 0 := by injection hz
        simp only [minOpt]
        omega
    · have hsum : s.own.sum = 0 := by
        apply sum_zero_of_all
        intro i hi
        rw [hP.ownLen] at hi
        rcases Nat.lt_or_ge i s.started with hlt | hge
        · rcases hP.done i (started_done hA ht i hlt) with h | h
          · exact h
          · exact absurd h hz
        · exact hP.ownIdle i (hA.idleHi i hge hi)
      cases ha : c.ammo with
      | none => simp only [minOpt]; omega
      | some a0 =>
        rw [ha] at hammo
        obtain ⟨a, _, h2⟩ := hammo
        simp only [minOpt]
        omega

/-- the clause read without "at least one instance was started" -/
def C03_total_zero_instances_statement : Prop :=
  ∀ (c : Cfg) (evs : List Ev) (s : St), run c (init c) evs = some s → s.terminal = true →
    s.fired + s.discarded = minOpt (s.totalTokens c) c.ammo

/-- … is false for a shared profile when the startup schedule starts nothing: nothing is fired although tokens and
ammo exist (a degenerate configuration; the engine behaves the same way, see corpus/C03.txt `inst=0`) -/
theorem C03_total_zero_instances_counterexample : ¬ C03_total_zero_instances_statement := by
  intro h
  have := h ⟨false, 1, some 1, false, 0⟩ [] _ rfl (by decide)
  revert this
  decide

/-- every acquired item is released: acquisitions and releases pair up when the pool ends, and every acquired item is
accounted for as fired, discarded or unfired -/
theorem C03_release (c : Cfg) (evs : List Ev) (s : St)
    (hrun : run c (init c) evs = some s) (ht : s.terminal = true) :
    s.acquired = s.released ∧ s.acquired = s.fired + s.discarded + s.unfired := by
  have hA := reach_invA hrun
  have cW := count_of_terminal ht .wait (by decide) (by decide)
  have cD := count_of_terminal ht .decide (by decide) (by decide)
  have cF := count_of_terminal ht .firing (by decide) (by decide)
  have cS := count_of_terminal ht .shot (by decide) (by decide)
  have cR := count_of_terminal ht .release (by decide) (by decide)
  have h1 := hA.held
  have h2 := hA.classified
  constructor <;> omega

/-- **released exactly once**: when the pool ends, each single item `k` that was acquired has been passed to
`Release` exactly one time -/
theorem C03_release_exactly_once (c : Cfg) (evs : List Ev) (s : St)
    (hrun : run c (init c) evs = some s) (ht : s.terminal = true) (k : Nat) (hk : k < s.acquired) :
    s.rels[k]? = some 1 :=
  all_released (reach_invI hrun) ht k hk

/-- no item is ever released twice or more, at any moment of any run -/
theorem C03_release_at_most_once (c : Cfg) (evs : List Ev) (s : St) (hrun : run c (init c) evs = some s)
    (k v : Nat) (hk : s.rels[k]? = some v) : v ≤ 1 := by
  rcases (reach_invI hrun).relsOk k v hk with ⟨h, _⟩ | h <;> omega

/-- **not used after release**: whenever `gun.Shoot` is called (event `shoot i k` enabled after any run), the item
passed is the one instance `i` acquired in this iteration and it has not been released; likewise `Release` is only
ever called on an item that is held.  (`step` does not check this: `badUse` would record it.) -/
theorem C03_no_use_after_release (c : Cfg) (pre : List Ev) (s s' : St) (i k : Nat)
    (hrun : run c (init c) pre = some s) (hstep : step c s (.shoot i k) = some s' ∨ step c s (.rel i k) = some s') :
    s.cur[i]? = some (some k) ∧ s.heldItem k = true ∧ s'.badUse = false := by
  have hI := reach_invI hrun
  have hcur : s.cur[i]? = some (some k) := by
    rcases hstep with h | h <;> (simp only [step] at h; split at h)
    · rename_i hg; exact hg.2
    · cases h
    · rename_i hg; exact hg.2
    · cases h
  have hheld : s.heldItem k = true := by simp [St.heldItem, cur_held hI hcur]
  refine ⟨hcur, hheld, ?_⟩
  rcases hstep with h | h <;> exact (step_invI hI h).good

/-- the flag that records a Shoot or Release of a not-held item is never set -/
theorem C03_never_bad_use (c : Cfg) (evs : List Ev) (s : St) (hrun : run c (init c) evs = some s) :
    s.badUse = false := (reach_invI hrun).good

/-- in every reachable state: held items = acquired − released = instances between Acquire and Release -/
theorem C03_held_count (c : Cfg) (evs : List Ev) (s : St) (hrun : run c (init c) evs = some s) :
    s.acquired = s.released + s.pcs.count .wait + s.pcs.count .decide + s.pcs.count .firing + s.pcs.count .shot
      + s.pcs.count .release :=
  (reach_invA hrun).held

/-- shared finite profile: at most (started instances − 1) ≤ (instances − 1) acquired items go unfired -/
theorem C03_unfired_shared (c : Cfg) (evs : List Ev) (s : St) (hc : c.perInstance = false)
    (hrun : run c (init c) evs = some s) (ht : s.terminal = true) :
    s.acquired - (s.fired + s.discarded) ≤ s.started - 1 ∧ s.started - 1 ≤ c.instances - 1 := by
  have hS := reach_invS hc hrun
  have hA := reach_invA hrun
  have hrel := (C03_release c evs s hrun ht).2
  refine ⟨?_, by have := hA.startedLe; omega⟩
  rcases Nat.eq_zero_or_pos s.unfired with h0 | hpos
  · omega
  · obtain ⟨hsh, htok⟩ := hS.unfPos hpos
    obtain ⟨j, _, hj, hjpc⟩ := hS.last hsh htok
    have hjlt : j < s.started := by
      rcases Nat.lt_or_ge j s.started with h | h
      · exact h
      · have hjl : j < c.instances := by have := lt_of_get hj; rw [hS.unfLen] at this; exact this
        have := hA.idleHi j h hjl
        rw [this] at hjpc
        simp [drawn_some] at hjpc
    have hbeyond : ∀ i : Nat, s.started ≤ i → s.unf[i]? ≠ some true := by
      intro i hi hf
      have hil : i < c.instances := by have := lt_of_get hf; rw [hS.unfLen] at this; exact this
      have hp := (hS.unfPc i hf).2
      rw [hA.idleHi i hi hil] at hp
      simp [Parked] at hp
    have := count_true_lt_beyond s.unf s.started j hjlt hj hbeyond
    have h1 := hS.unfCnt
    omega

/-- the unfired clause without truncating subtractions: every acquired item is fired, discarded or unfired, and with a shared
profile fewer items go unfired than instances were started (so none when one instance was started) -/
theorem C03_unfired_shared_exact (c : Cfg) (evs : List Ev) (s : St) (hc : c.perInstance = false)
    (hrun : run c (init c) evs = some s) (ht : s.terminal = true) :
    s.acquired = s.fired + s.discarded + s.unfired ∧ (0 < s.started → s.unfired + 1 ≤ s.started) ∧
    s.started ≤ c.instances := by
  have h1 := (C03_release c evs s hrun ht).2
  have h2 := (C03_unfired_shared c evs s hc hrun ht).1
  have h3 := (reach_invA hrun).startedLe
  refine ⟨h1, ?_, h3⟩
  intro hpos
  omega

/-- one full profile per instance: no acquired item ever goes unfired -/
theorem C03_unfired_per_instance (c : Cfg) (evs : List Ev) (s : St) (hc : c.perInstance = true)
    (hrun : run c (init c) evs = some s) (ht : s.terminal = true) :
    s.acquired = s.fired + s.discarded := by
  have := (reach_invP hc hrun).unf0
  have := (C03_release c evs s hrun ht).2
  omega

/-- the engine's request and response counters equal the number of fired requests when the pool ends … -/
theorem C03_metrics (c : Cfg) (evs : List Ev) (s : St) (hrun : run c (init c) evs = some s) (ht : s.terminal = true) :
    s.request = s.fired ∧ s.response = s.fired := by
  have h := (reach_invA hrun).metrics
  have cF := count_of_terminal ht .firing (by decide) (by decide)
  have cS := count_of_terminal ht .shot (by decide) (by decide)
  omega

/-- … and during the run they differ from it exactly by the shots in progress: Request runs ahead by the instances
between `Request.Add` and `Shoot`, Response lags by those between `Shoot` and `Response.Add` -/
theorem C03_metrics_running (c : Cfg) (evs : List Ev) (s : St) (hrun : run c (init c) evs = some s) :
    s.request = s.fired + s.pcs.count .firing ∧ s.response + s.pcs.count .shot = s.fired :=
  (reach_invA hrun).metrics

/-- an engine with several pools: its Request / Response counters are shared by the pools and only ever incremented
(atomically) by them, so their values are the sums over the pools — and equal the shots fired by all pools together
once every pool has ended -/
theorem C03_metrics_engine (pools : List (Cfg × List Ev × St))
    (h : ∀ p ∈ pools, run p.1 (init p.1) p.2.1 = some p.2.2 ∧ p.2.2.terminal = true) :
    (pools.map fun p => p.2.2.request).sum = (pools.map fun p => p.2.2.fired).sum ∧
    (pools.map fun p => p.2.2.response).sum = (pools.map fun p => p.2.2.fired).sum := by
  induction pools with
  | nil => simp
  | cons p ps ih =>
    have hp := h p (List.mem_cons_self ..)
    have := C03_metrics p.1 p.2.1 p.2.2 hp.1 hp.2
    have ih' := ih (fun q hq => h q (List.mem_cons_of_mem _ hq))
    simp only [List.map_cons, List.sum_cons]
    omega

/-- with discard_overflow off nothing is ever discarded -/
theorem C03_discard_off (c : Cfg) (evs : List Ev) (s : St) (hoff : c.discardOn = false)
    (hrun : run c (init c) evs = some s) : s.discarded = 0 := (reach_invA hrun).discOff hoff

/-- the number of started instances never exceeds what the startup schedule allows -/
theorem C03_started_le (c : Cfg) (evs : List Ev) (s : St) (hrun : run c (init c) evs = some s) :
    s.started ≤ c.instances := (reach_invA hrun).startedLe

/-- the loop iteration REGENERATED from the current source of `instance.Run` is, for every answer of the environment,
a path of the model that ends where the model says, with the item released once (see `Pandora.Bridge.InstLoop`) -/
theorem C03_source_iteration_is_model_path :
    Pandora.Model.C03Loop.bodyAccepted Pandora.Gen.InstLoop.iterBody = true := Pandora.Bridge.InstLoop.iterBody_accepted

/-- the regenerated `IsFinished` leaves the loop exactly when `Left() = 0` — the model's `chk` event -/
theorem C03_source_isFinished (left : Nat) : Pandora.Gen.InstLoop.isFinished false (left : Int) = true ↔ left = 0 :=
  Pandora.Bridge.InstLoop.isFinished_iff left

/-! ### the pool at the granularity of the schedule's atomic operations (`Pandora.Model.C03Fine`) -/

section Fine
open Pandora.Model.C03Fine Pandora.Proofs.C03Fine

/-- **refinement**: however the instances are preempted between the atomic access of a `Next()` / `Left()` on the
profile and the return of that call, the pool ends up in a state the coarse system (atomic `Next` / `Left`) reaches too,
by a run that is not longer -/
theorem C03_fine_refines (c : Cfg) (fevs : List FEv) (s : FSt) (h : frun c (finit c) fevs = some s) :
    ∃ evs : List Ev, run c (init c) evs = some s.base ∧ evs.length ≤ fevs.length :=
  fine_refines fevs (finit c) s h

/-- … and the coarse system is the fine one without preemption inside schedule calls: nothing is lost either -/
theorem C03_coarse_is_fine (c : Cfg) (evs : List Ev) (b : St) (h : run c (init c) evs = some b) :
    frun c (finit c) (evs.flatMap refine) = some { base := b, pend := List.replicate c.instances .idle } :=
  coarse_is_fine evs (finit c) b rfl (init_invA c) h

/-- fired + discarded = min(tokens, ammo) at the granularity of the atomic operations -/
theorem C03_fine_total (c : Cfg) (fevs : List FEv) (s : FSt) (h : frun c (finit c) fevs = some s)
    (ht : s.base.terminal = true) (hN : 0 < s.base.started) :
    s.base.fired + s.base.discarded = minOpt (s.base.totalTokens c) c.ammo :=
  let ⟨evs, hr⟩ := fine_reaches h
  C03_total c evs s.base hr ht hN

/-- every acquired item released exactly once, never used while not held, at the granularity of the atomic operations -/
theorem C03_fine_release (c : Cfg) (fevs : List FEv) (s : FSt) (h : frun c (finit c) fevs = some s)
    (ht : s.base.terminal = true) :
    s.base.acquired = s.base.released ∧ (∀ k, k < s.base.acquired → s.base.rels[k]? = some 1) ∧ s.base.badUse = false :=
  let ⟨evs, hr⟩ := fine_reaches h
  ⟨(C03_release c evs s.base hr ht).1, fun k hk => C03_release_exactly_once c evs s.base hr ht k hk,
   C03_never_bad_use c evs s.base hr⟩

/-- the unfired bounds at the granularity of the atomic operations: ≤ started − 1 ≤ instances − 1 for a shared profile,
0 for per-instance profiles -/
theorem C03_fine_unfired (c : Cfg) (fevs : List FEv) (s : FSt) (h : frun c (finit c) fevs = some s)
    (ht : s.base.terminal = true) :
    (c.perInstance = false → s.base.acquired - (s.base.fired + s.base.discarded) ≤ s.base.started - 1 ∧
        s.base.started - 1 ≤ c.instances - 1) ∧
    (c.perInstance = true → s.base.acquired = s.base.fired + s.base.discarded) :=
  let ⟨evs, hr⟩ := fine_reaches h
  ⟨fun hc => C03_unfired_shared c evs s.base hc hr ht, fun hc => C03_unfired_per_instance c evs s.base hc hr ht⟩

/-- Request = Response = fired at the granularity of the atomic operations -/
theorem C03_fine_metrics (c : Cfg) (fevs : List FEv) (s : FSt) (h : frun c (finit c) fevs = some s)
    (ht : s.base.terminal = true) : s.base.request = s.base.fired ∧ s.base.response = s.base.fired :=
  let ⟨evs, hr⟩ := fine_reaches h
  C03_metrics c evs s.base hr ht

end Fine

/-- the leaf profile's `Next()` / `Left()` REGENERATED from the current source each perform exactly one operation on
the schedule's shared state, an atomic one (`i.Inc`, `i.Load`): the premise of `Model.C03Fine` -/
theorem C03_source_schedule_accesses :
    Pandora.Gen.InstLoop.schedNextAccesses = ["i.Inc"] ∧ Pandora.Gen.InstLoop.schedLeftAccesses = ["i.Load"] :=
  Pandora.Bridge.InstLoop.sched_accesses

/-- the regenerated `Left()` of a leaf profile returns the tokens left (never a negative number) and changes nothing —
the model's `chk i left` -/
theorem C03_source_leaf_left (s : Pandora.Gen.Schedule.DoAtSt) :
    Pandora.Gen.Schedule.doAtSchedule_Left s = .ok ((Pandora.Bridge.C03DoAt.tokensLeft s : Int), s) :=
  Pandora.Bridge.C03DoAt.left_eq s

/-- the regenerated `Next()` of a leaf profile succeeds iff a token is left, moves the counter by exactly one in both
cases and leaves one token fewer (none at 0) — the model's `tokOk` / `tokEnd` -/
theorem C03_source_leaf_next (s : Pandora.Gen.Schedule.DoAtSt) (hf : Pandora.Bridge.C03DoAt.Flags s) (now : Int) :
    ∃ tx s', Pandora.Gen.Schedule.doAtSchedule_Next now s = .ok ((tx, decide (0 < Pandora.Bridge.C03DoAt.tokensLeft s)), s') ∧
      s'.i = s.i + 1 ∧ s'.n = s.n ∧ Pandora.Bridge.C03DoAt.Flags s' ∧
      Pandora.Bridge.C03DoAt.tokensLeft s' = Pandora.Bridge.C03DoAt.tokensLeft s - 1 :=
  Pandora.Bridge.C03DoAt.next_draws s hf now

/-- a new regenerated leaf of `n` tokens hands out exactly `n`: call number `k+1` of `Next` succeeds iff `k < n` -/
theorem C03_source_leaf_drain (duration n : Int) (doAt : Int → Int) (now : Int) (k : Nat) :
    ∃ s tx s', Pandora.Bridge.C03DoAt.afterNexts now k (Pandora.Gen.Schedule.NewDoAtSchedule duration n doAt) = some s ∧
      Pandora.Gen.Schedule.doAtSchedule_Next now s = .ok ((tx, decide (k < n.toNat)), s') :=
  Pandora.Bridge.C03DoAt.drain duration n doAt now k

/-! ### the pool's own bookkeeping: when is a pool over (`awaitRun`, `Pandora.Model.C03Await`) -/

section Await
open Pandora.Model.C03Await Pandora.Proofs.C03Await

/-- **a pool ends only when every started instance has returned**: after ANY sequence of results (provider,
aggregator, start, run results of instances, in any order, any number, with or without errors) — the run context of the
instances has been cancelled by the bookkeeping at most once, and only with the start result in and at least as many
run results awaited as instances were started; the loop is over exactly when all four kinds of results are in, and then
`awaited ≥ started` -/
theorem C03_await_no_early_end (rs : List Res) (s : ASt) (h : arun ainit rs = some s) :
    s.runCancels ≤ 1 ∧
    (s.runCancels = 1 → s.startOpen = false ∧ s.started ≤ (s.awaited : Int)) ∧
    (s.over = true ↔ (s.provOpen = false ∧ s.aggrOpen = false ∧ s.startOpen = false ∧ s.runOpen = false)) ∧
    (s.over = true → s.started ≤ (s.awaited : Int)) := by
  have hi := reach_inv h
  have hc := hi.cancels
  refine ⟨by split at hc <;> omega, ?_, over_iff hi, ?_⟩
  · intro h1
    have hro : s.runOpen = false := by
      cases hr : s.runOpen with
      | false => rfl
      | true => rw [hr] at hc; simp at hc; omega
    exact hi.closed.mp hro
  · intro ho
    exact (hi.closed.mp ((over_iff hi).mp ho).2.2.2).2

/-- **… and it does end then**: for every number `n` of started instances and every ORDER of a complete set of results
(one of the provider, one of the aggregator, the start result announcing `n`, one run result per instance) no result is
refused (no "send on closed channel"), the loop ends, exactly `n` instances have been awaited -/
theorem C03_await_ends (n : Nat) (rs : List Res) (h : Complete n rs) :
    ∃ s, arun ainit rs = some s ∧ s.over = true ∧ s.awaited = n ∧ s.started = (n : Int) :=
  complete_from_init h

/-- the start of further instances is cancelled by the bookkeeping only for out-of-ammo results (never the run context:
`C03_await_no_early_end`) -/
theorem C03_await_start_cancel (rs : List Res) (s : ASt) (h : arun ainit rs = some s) :
    s.startCancels ≤ rs.countP (fun r => r.chan == .run && r.outOfAmmo) := by
  have := startCancels_le rs ainit s h
  simpa [ainit] using this

/-- the `case` bodies of `awaitRun`, the body and test of `checkAllInstancesAreFinished` and the initial counters
REGENERATED from the current source do what `astep` does, for every state and every result -/
theorem C03_source_await (s : ASt) (r : Res) :
    stepBy Pandora.Gen.InstLoop.awaitCase Pandora.Gen.InstLoop.awaitCheckCond Pandora.Gen.InstLoop.awaitCheckBody s r =
      (astep s r).map (fun s' => (s', false)) ∧
    Pandora.Gen.InstLoop.awaitInitToWait = (ainit.toWait : Int) ∧ Pandora.Gen.InstLoop.awaitInitStarted = ainit.started ∧
    Pandora.Gen.InstLoop.awaitLoop = "for $.toWait > 0 { select }" ∧
    Pandora.Gen.InstLoop.awaitStartFinished = "$.startRes == nil" :=
  ⟨Pandora.Bridge.C03Await.await_step_eq s r, Pandora.Bridge.C03Await.await_init_eq.1, Pandora.Bridge.C03Await.await_init_eq.2,
   Pandora.Bridge.C03Await.await_loop_eq, Pandora.Bridge.C03Await.await_startFinished_eq⟩

end Await

/-! ### who is started: `startInstances`, and "pool over" = every started instance has left `Run` -/

section Start
open Pandora.Model.C03Start Pandora.Proofs.C03Start Pandora.Model.C03Await Pandora.Proofs.C03Await

/-- **one run result per started instance**: for EVERY sequence of answers of the startup schedule / start context
(`waiter.Wait(startCtx)`: true any number of times, then false or exhausted) and both outcomes of the creation of the
first instance, `startInstances` returns, the goroutines it has launched — each sends exactly one run result, after `Run`
of its instance has returned — are exactly one per id `0 … started-1`, `started` is the number of leading `true` answers
(0 if the first instance could not be created), and its error is the start context's unless that creation failed -/
theorem C03_start_one_result_per_started (answers : List Bool) (firstOk : Bool) :
    let o := starter answers firstOk
    o.bad = false ∧ o.returned = true ∧ o.launched = List.range o.started ∧
    o.started = (if firstOk then allowed answers else 0) ∧
    o.err = (if 0 < allowed answers ∧ firstOk = false then SErr.newInstance else SErr.ctx) :=
  starter_spec answers firstOk

/-- **"the pool is over" means "every started instance has left `Run`"**: let the instances be started by
`startInstances` (any answers of the startup schedule), let the bookkeeping receive ANY sequence of results in any order
in which the start result carries what `startInstances` returned and the run results are sent by the goroutines it
launched (each at most once, so at most one per launched goroutine).  If the loop of `awaitRun` is over then the number of
run results awaited EQUALS the number of goroutines launched: every launched instance has sent its result, i.e. its `Run`
has returned (`C03_source_start`: the value sent is computed by `Run`) — the state the accounting theorems call
`terminal`; and the run context was cancelled exactly once, not before that -/
theorem C03_pool_over_all_returned (answers : List Bool) (firstOk : Bool) (rs : List Res) (s : ASt)
    (h : arun ainit rs = some s)
    (hstart : ∀ r ∈ rs, r.chan = .start → r.started = (starter answers firstOk).started)
    (hruns : cnt .run rs ≤ (starter answers firstOk).launched.length)
    (hover : s.over = true) :
    s.awaited = (starter answers firstOk).launched.length ∧ s.awaited = (starter answers firstOk).started ∧
    cnt .run rs = (starter answers firstOk).started ∧ s.runCancels = 1 := by
  have hspec := starter_spec answers firstOk
  simp only at hspec
  obtain ⟨_, _, hl, _, _⟩ := hspec
  have hlen : (starter answers firstOk).launched.length = (starter answers firstOk).started := by
    rw [hl, List.length_range]
  have hi := reach_inv h
  have hclosed := (over_iff hi).mp hover
  have haw : s.awaited = cnt .run rs := by
    have := awaited_count rs ainit s h
    simpa [ainit] using this
  have hst : s.started = ((starter answers firstOk).started : Int) :=
    started_from_start_result _ rs ainit s h hstart (fun hh => by simp [ainit] at hh) hclosed.2.2.1
  have hge : s.started ≤ (s.awaited : Int) := (hi.closed.mp hclosed.2.2.2).2
  have hc := hi.cancels
  rw [hclosed.2.2.2] at hc
  refine ⟨by omega, by omega, by omega, by simpa using hc⟩

/-- `startInstances`, `runNewInstance`, what `runAsync` launches and the factory the plugin registry builds,
REGENERATED from the current source: executing the regenerated statements of `startInstances` is the model's `starter` for
every sequence of answers; an instance's run result is what its `Run` returned; the pool launches the provider, the
aggregator and the starter, each sending exactly one result on its own channel, the start context is a child of
the run context; a factory built for a registered constructor decodes the config and calls the constructor at every call;
the finish-callback wrapper around the shared profile passes `Left()` / `Next()` on unchanged; `Engine.Run` returns nil only
after the loop that awaits one result per pool -/
theorem C03_source_start (answers : List Bool) (firstOk : Bool) :
    execStart Pandora.Gen.InstLoop.startPre Pandora.Gen.InstLoop.startLoop Pandora.Gen.InstLoop.startPost answers firstOk =
      starter answers firstOk ∧
    Pandora.Gen.InstLoop.runNewInstanceRunsThenCloses = true ∧
    Pandora.Gen.InstLoop.runAsyncGoroutines =
      ["chan:aggregatorErr <- Aggregator.Run(ctx:run)",
       "chan:providerErr <- Provider.Run(ctx:run)",
       "chan:startRes <- startResult{startInstances(ctx:instanceStart, ctx:run, chan:runRes)}"] ∧
    Pandora.Gen.InstLoop.runAsyncContexts = ["instanceStart = WithCancel(ctx:run)", "run = WithCancel(ctx:pool)"] ∧
    Pandora.Gen.InstLoop.factoryPerCall = ["getMaybeConf", "newPlugin.Call"] ∧
    (∀ left : Int, 0 ≤ left → Pandora.Gen.InstLoop.callbackLeft left = (left, decide (left = 0))) ∧
    (∀ ok : Bool, Pandora.Gen.InstLoop.callbackNext ok = (ok, !ok)) ∧
    (Pandora.Gen.InstLoop.engineRunLoop = "for $i := 0; $i < len($.config.Pools); $i++" ∧
     Pandora.Gen.InstLoop.engineRunReturnsInLoop.all (fun r => r != "return nil") = true ∧
     Pandora.Gen.InstLoop.engineRunAfterLoop = "return nil") :=
  ⟨Pandora.Bridge.C03Start.start_exec_eq answers firstOk, Pandora.Bridge.C03Start.run_result_after_run,
   Pandora.Bridge.C03Start.runAsync_eq.1, Pandora.Bridge.C03Start.runAsync_eq.2, Pandora.Bridge.C03Start.factory_per_call,
   Pandora.Bridge.C03Start.callback_left, Pandora.Bridge.C03Start.callback_next, Pandora.Bridge.C03Start.engineRun_eq⟩

end Start

/-! ### "the pool ends normally": `(*instancePool).Run` returns nil (`Pandora.Model.C03Pool`) -/

section Pool
open Pandora.Model.C03Start Pandora.Proofs.C03Start Pandora.Model.C03Await Pandora.Proofs.C03Await
open Pandora.Model.C03Pool Pandora.Proofs.C03Pool

/-- **when does a pool end normally**: for every answer of the environment (warm-up fails or not, `runAsync` fails or not, the
caller's context is done first or not) and every sequence of results the bookkeeping receives, `(*instancePool).Run` returns
nil EXACTLY when nothing failed before the start, the caller did not cancel, the loop of `awaitRun` is over and it never
called `onErrAwaited` (no provider / aggregator / start / instance error that is not the cancellation of its context) — the
first thing that happens on the channel `awaitErr` is its `close`, which the await goroutine performs only after
`awaitRun()` has returned.  Whenever `Run` returns its own context is cancelled on the way out -/
theorem C03_pool_run_nil (e : PEnv) (rs : List Res) :
    ((outcome e rs).ret = some .nil ↔
      e.warmErr = false ∧ e.asyncErr = false ∧ e.ctxFirst = false ∧
      ∃ s, arun ainit rs = some s ∧ s.errs = 0 ∧ s.over = true) ∧
    (outcome e rs).bad = false ∧ (outcome e rs).cancelDeferred = true ∧
    (outcome e rs).waitDoneByRun = (if (outcome e rs).awaiting then 0 else 1) :=
  ⟨outcome_nil_iff e rs, outcome_cancel e rs⟩

/-- **a pool that ends normally has seen every started instance leave `Run`**: instances started by `startInstances` (any
answers of the startup schedule), results in any order (the start result carries what `startInstances` returned, at most
one run result per launched goroutine).  If `(*instancePool).Run` returns nil then the run results awaited equal the
goroutines launched = the instances started — every started instance's `Run` has returned, the `terminal` state of the
accounting theorems (`C03_total`, `C03_release`, `C03_unfired_*`, `C03_metrics`) —, no error was reported and the run context
was cancelled exactly once -/
theorem C03_pool_nil_all_returned (e : PEnv) (answers : List Bool) (firstOk : Bool) (rs : List Res)
    (hstart : ∀ r ∈ rs, r.chan = .start → r.started = (starter answers firstOk).started)
    (hruns : cnt .run rs ≤ (starter answers firstOk).launched.length)
    (hnil : (outcome e rs).ret = some .nil) :
    ∃ s, arun ainit rs = some s ∧ s.errs = 0 ∧
      s.awaited = (starter answers firstOk).launched.length ∧ s.awaited = (starter answers firstOk).started ∧
      cnt .run rs = (starter answers firstOk).started ∧ s.runCancels = 1 := by
  obtain ⟨_, _, _, s, hs, he, ho⟩ := (outcome_nil_iff e rs).mp hnil
  have h := C03_pool_over_all_returned answers firstOk rs s hs hstart hruns ho
  exact ⟨s, hs, he, h.1, h.2.1, h.2.2.1, h.2.2.2⟩

/-- `(*instancePool).Run`, the goroutine of `awaitRunAsync`, the channel between them and the registry's "get the config"
function REGENERATED from the current source: executing the regenerated statements of `Run` (with the regenerated decisions
of its select cases) against what the regenerated goroutine does on `awaitErr` is the model's `outcome`, for every
environment and every sequence of results; `onErrAwaited` sends the error on `awaitErr` and gives up only when the pool's
context is done (a receive sees buffered values before the `close`, so the buffer size does not matter); the plugin registry decodes a fresh config at every call of the factory -/
theorem C03_source_pool (e : PEnv) (rs : List Res) :
    exec Pandora.Gen.InstLoop.poolRunOnAwait Pandora.Gen.InstLoop.poolRunCtxCase e
      (goroutine rs Pandora.Gen.InstLoop.poolAwaitGoBody Pandora.Gen.InstLoop.poolAwaitGoDeferred)
      Pandora.Gen.InstLoop.poolRun {} = outcome e rs ∧
    Pandora.Gen.InstLoop.poolOnErrSelect = ["recv $.poolCtx.Done()", "send $.awaitErr"] ∧
    Pandora.Gen.InstLoop.registryGetConf = [["return v0.defaultConfig.Get(v1)"]] :=
  ⟨Pandora.Bridge.C03Pool.run_eq e rs, Pandora.Bridge.C03Pool.on_err_select,
   Pandora.Bridge.C03Pool.registry_get_conf⟩

end Pool

/-! ### the pool over a COMPOSITE profile, at the granularity of the composite's lock sections (`Pandora.Model.C03Comp`) -/

section Comp
open Pandora.Model.C03Fine Pandora.Model.C03Comp Pandora.Proofs.C03Comp

/-- **refinement**: a profile written as a list of parts (`compositeSchedule`; zero-token parts anywhere) whose `Next()` is a
succession of critical sections — reader section, the point before `Lock` at which no lock is held, writer section,
retries — interleaved in ANY way among any number of instances (and with everything else the instances do): the pool ends
up in a state the pool over an atomic token counter reaches too, by a run that is not longer; at every moment that
counter IS the number of tokens left in the parts (shared profile, and each instance's own with rps-per-instance) -/
theorem C03_comp_refines (c : Cfg) (parts : List Nat) (hp : tot parts = c.tokens) (evs : List CEv) (s : CSt)
    (h : crun c parts (cinitWith c parts) evs = some s) :
    (∃ fevs : List FEv, frun c (finit c) fevs = some s.f ∧ fevs.length ≤ evs.length) ∧
    s.f.base.shared = tot s.sp ∧ s.f.base.own = s.op.map tot :=
  let ⟨hr, hI⟩ := comp_refines hp evs _ s (cinit_inv c parts hp) h
  ⟨hr, hI.shared, hI.own⟩

/-- **no premature "finished", no token lost**: a section of `Next()` — the reader section, or the writer section of a
caller that found the part drained and may meanwhile have been overtaken by others that started the next part(s) — either
does not conclude (it goes on to the writer section / starts again, and the pool's counters do not move) or hands the loop
`ok = true` exactly when some part still has a token (and then takes exactly one, `C03_comp_refines`), `ok = false` exactly
when every part is drained -/
theorem C03_comp_section_answer (c : Cfg) (parts : List Nat) (hp : tot parts = c.tokens) (evs : List CEv) (s s' : CSt)
    (h : crun c parts (cinitWith c parts) evs = some s) (i : Nat) (e : CEv) (he : e = .rsec i ∨ e = .wsec i)
    (hs : cstep c parts s e = some s') :
    s'.f = s.f ∨ s'.f.pend[i]? = some (.drew (decide (0 < tot (s.prof c i)))) :=
  section_answer hp (comp_inv hp h) he hs

/-- the writer section of a caller between its sections never panics (no `scheds[0]` / `scheds[1:]` of an empty slice, however
many parts the others have dropped meanwhile) and is never followed by another writer section without a reader section -/
theorem C03_comp_writer_never_panics (c : Cfg) (parts : List Nat) (hp : tot parts = c.tokens) (evs : List CEv) (s : CSt)
    (h : crun c parts (cinitWith c parts) evs = some s) (i seen : Nat) (hw : s.w[i]? = some (some seen)) :
    ∃ p o, wsec (s.prof c i) seen = (p, o) ∧ (o = .ret true ∨ o = .ret false ∨ o = .retry) :=
  wsec_total ((comp_inv hp h).wait i seen hw)

/-- fired + discarded = min(tokens, ammo) over composite profiles, every interleaving of the lock sections -/
theorem C03_comp_total (c : Cfg) (parts : List Nat) (hp : tot parts = c.tokens) (evs : List CEv) (s : CSt)
    (h : crun c parts (cinitWith c parts) evs = some s) (ht : s.f.base.terminal = true) (hN : 0 < s.f.base.started) :
    s.f.base.fired + s.f.base.discarded = minOpt (s.f.base.totalTokens c) c.ammo :=
  let ⟨fevs, hr⟩ := comp_reaches hp h
  C03_fine_total c fevs s.f hr ht hN

/-- every acquired item released exactly once and never used while not held; the unfired bounds; Request = Response = fired —
over composite profiles, every interleaving of the lock sections -/
theorem C03_comp_release_unfired_metrics (c : Cfg) (parts : List Nat) (hp : tot parts = c.tokens) (evs : List CEv) (s : CSt)
    (h : crun c parts (cinitWith c parts) evs = some s) (ht : s.f.base.terminal = true) :
    (s.f.base.acquired = s.f.base.released ∧ (∀ k, k < s.f.base.acquired → s.f.base.rels[k]? = some 1) ∧ s.f.base.badUse = false) ∧
    (c.perInstance = false → s.f.base.acquired - (s.f.base.fired + s.f.base.discarded) ≤ s.f.base.started - 1 ∧
        s.f.base.started - 1 ≤ c.instances - 1) ∧
    (c.perInstance = true → s.f.base.acquired = s.f.base.fired + s.f.base.discarded) ∧
    s.f.base.request = s.f.base.fired ∧ s.f.base.response = s.f.base.fired :=
  let ⟨fevs, hr⟩ := comp_reaches hp h
  ⟨C03_fine_release c fevs s.f hr ht, (C03_fine_unfired c fevs s.f hr ht).1, (C03_fine_unfired c fevs s.f hr ht).2,
   C03_fine_metrics c fevs s.f hr ht⟩

/-- the composite REGENERATED from the current core/schedule/composite.go is the one of `Model.C03Comp`: the reader and
the writer section of `Next` (for every list of parts and every `seen`, panics included), `Left()` = one reader section
that returns the tokens of the current part plus those of the parts after it, `startNext` drops the heads of `scheds` and
`leftAfter` together, `NewComposite` fills `leftAfter[k]` with the tokens of the parts after `k` -/
theorem C03_source_composite :
    (∀ s, Pandora.Gen.InstLoop.compNextReader s = rsec s) ∧
    (∀ s seen, Pandora.Gen.InstLoop.compNextWriter s seen = wsec s seen) ∧
    Pandora.Gen.InstLoop.compNextPrologue = ["$.started.Store(true)"] ∧
    Pandora.Gen.InstLoop.compLeftReads = ["left", "leftAfter", "schedsLeft"] ∧
    (∀ (a : Nat) (r : List Nat) (st : Bool),
      Pandora.Gen.InstLoop.compLeftDecide ((a :: r).length : Nat) (tot r : Nat) (a : Nat) st = .ret ((compLeft (a :: r) : Nat) : Int)) ∧
    Pandora.Gen.InstLoop.compStartNext = ["$.leftAfter = $.leftAfter[1:]", "$.scheds = $.scheds[1:]", "$.scheds[0].Start($t)"] ∧
    Pandora.Gen.InstLoop.compBuildLoop = "for $i := len($parts) - 1; $i >= 0; $i--" ∧
    (∀ parts, buildWith Pandora.Gen.InstLoop.compBuildStep parts = ((mkLeftAfter parts).map Int.ofNat, false, Int.ofNat (tot parts))) :=
  ⟨Pandora.Bridge.C03Comp.reader_eq, Pandora.Bridge.C03Comp.writer_eq, Pandora.Bridge.C03Comp.prologue_eq,
   Pandora.Bridge.C03Comp.left_reads_eq, Pandora.Bridge.C03Comp.left_is_tot, Pandora.Bridge.C03Comp.startNext_eq,
   Pandora.Bridge.C03Comp.build_loop_eq, Pandora.Bridge.C03Comp.build_finite⟩

end Comp

/-! ### non-vacuity: each hypothesis is met by a concrete non-trivial run -/

-- shared once(1), 2 ammo, two instances started one after the other; the second acquires an item that goes unfired;
-- the first discards.  terminal, started = 2 > 0, unfired = 1 = started − 1
example : ∃ s, run ⟨false, 1, some 2, true, 3⟩ (init ⟨false, 1, some 2, true, 3⟩)
    [.start 0, .chk 0 1, .start 1, .chk 1 1, .acq 0, .acq 1, .tokOk 0, .tokEnd 1, .discard 0, .rel 1 1, .rel 0 0,
     .chk 0 0, .chk 1 0] = some s ∧
    s.terminal = true ∧ s.started = 2 ∧ s.fired + s.discarded = 1 ∧ s.unfired = 1 ∧ s.rels = [1, 1] := by
  refine ⟨_, rfl, by decide, by decide, by decide, by decide, by decide⟩

-- per-instance once(1) × 2 started instances, 3 ammo: both fire with the counters moving one at a time;
-- the second instance is started after the first has finished
example : ∃ s, run ⟨true, 1, some 3, false, 2⟩ (init ⟨true, 1, some 3, false, 2⟩)
    [.start 0, .chk 0 1, .acq 0, .tokOk 0, .reqAdd 0, .shoot 0 0, .respAdd 0, .rel 0 0, .chk 0 0,
     .start 1, .chk 1 1, .acq 1, .tokOk 1, .reqAdd 1, .shoot 1 1, .respAdd 1, .rel 1 1, .chk 1 0] = some s ∧
    s.terminal = true ∧ s.started = 2 ∧ s.fired = 2 ∧ s.request = 2 ∧ s.response = 2 ∧ s.acquired = 2 := by
  refine ⟨_, rfl, by decide, by decide, by decide, by decide, by decide, by decide⟩

-- out of ammo: 1 item, 5 shared tokens
example : ∃ s, run ⟨false, 5, some 1, false, 1⟩ (init ⟨false, 5, some 1, false, 1⟩)
    [.start 0, .chk 0 5, .acq 0, .tokOk 0, .reqAdd 0, .shoot 0 0, .respAdd 0, .rel 0 0, .chk 0 4, .empty 0] = some s ∧
    s.terminal = true ∧ s.fired = 1 ∧ minOpt (s.totalTokens ⟨false, 5, some 1, false, 1⟩) (some 1) = 1 := by
  refine ⟨_, rfl, by decide, by decide, by decide⟩

-- `C03_no_use_after_release`: a Shoot and a Release that are enabled after a run
example : ∃ s s', run ⟨false, 1, none, false, 1⟩ (init ⟨false, 1, none, false, 1⟩)
    [.start 0, .chk 0 1, .acq 0, .tokOk 0, .reqAdd 0] = some s ∧ step ⟨false, 1, none, false, 1⟩ s (.shoot 0 0) = some s' :=
  ⟨_, _, rfl, rfl⟩

-- `C03_no_use_after_release`, second disjunct: a Release that is enabled after a run
example : ∃ s s', run ⟨false, 1, none, true, 1⟩ (init ⟨false, 1, none, true, 1⟩)
    [.start 0, .chk 0 1, .acq 0, .tokOk 0, .discard 0] = some s ∧ step ⟨false, 1, none, true, 1⟩ s (.rel 0 0) = some s' :=
  ⟨_, _, rfl, rfl⟩

-- `C03_metrics_engine`: an engine with two pools (one fires once, one discards once): 1 request, 1 response, 1 fired
example : ∃ s1 s2,
    run ⟨false, 1, none, false, 1⟩ (init ⟨false, 1, none, false, 1⟩)
      [.start 0, .chk 0 1, .acq 0, .tokOk 0, .reqAdd 0, .shoot 0 0, .respAdd 0, .rel 0 0, .chk 0 0] = some s1 ∧
    run ⟨true, 1, some 1, true, 1⟩ (init ⟨true, 1, some 1, true, 1⟩)
      [.start 0, .chk 0 1, .acq 0, .tokOk 0, .discard 0, .rel 0 0, .chk 0 0] = some s2 ∧
    s1.terminal = true ∧ s2.terminal = true ∧ s1.request + s2.request = 1 ∧ s1.fired + s2.fired = 1 := by
  refine ⟨_, _, rfl, rfl, by decide, by decide, by decide, by decide⟩

-- the transition system itself does not forbid a Shoot of a released item: from a (non-reachable) state where the
-- local variable still names a released item the event is enabled and `badUse` is set — so `C03_never_bad_use` is
-- a statement about reachable states, not about the shape of `step`
example : (step ⟨false, 1, none, false, 1⟩
    { pcs := [.firing], started := 1, shared := 0, own := [0], ammoLeft := none, unf := [false],
      cur := [some 0], rels := [1], acquired := 1, released := 1 } (.shoot 0 0)).map (·.badUse) = some true := by decide

-- `C03_fine_*`: two instances on a shared once(1); instance 1 increments the counter and is told "finished" while
-- instance 0 is still between ITS increment (which drew the token) and the return of its `Next()`; instance 1 even
-- re-checks `Left()` in that window.  Terminal, one fired, one unfired = started − 1
example : ∃ s, Pandora.Model.C03Fine.frun ⟨false, 1, none, false, 2⟩ (Pandora.Model.C03Fine.finit ⟨false, 1, none, false, 2⟩)
    [.other (.start 0), .load 0, .other (.start 1), .load 1, .leftRet 1 1, .leftRet 0 1, .other (.acq 0), .other (.acq 1),
     .inc 0, .inc 1, .nextRet 1 false, .other (.rel 1 1), .load 1, .nextRet 0 true, .leftRet 1 0, .other (.reqAdd 0),
     .other (.shoot 0 0), .other (.respAdd 0), .other (.rel 0 0), .load 0, .leftRet 0 0] = some s ∧
    s.terminal = true ∧ s.base.started = 2 ∧ s.base.fired = 1 ∧ s.base.unfired = 1 := by
  refine ⟨_, rfl, by decide, by decide, by decide, by decide⟩

-- an instance inside a schedule call does nothing else: `acq` is not enabled between `load` and `leftRet`
example : Pandora.Model.C03Fine.frun ⟨false, 1, none, false, 1⟩ (Pandora.Model.C03Fine.finit ⟨false, 1, none, false, 1⟩)
    [.other (.start 0), .load 0, .other (.acq 0)] = none := by decide

-- `C03_source_leaf_next`: a new regenerated leaf has consistent flags
example : Pandora.Bridge.C03DoAt.Flags (Pandora.Gen.Schedule.NewDoAtSchedule 0 3 (fun _ => 0)) :=
  (Pandora.Bridge.C03DoAt.new_tokens 0 3 (fun _ => 0)).2

-- `C03_await_ends`: two instances; the first runs out of ammo BEFORE the start result (the start is cancelled), the
-- provider ends early, the start result comes after both run results: complete, over, 2 awaited, 1 start cancel
example : Pandora.Proofs.C03Await.Complete 2
    [{ chan := .run, outOfAmmo := true }, { chan := .provider }, { chan := .run }, { chan := .start, started := 2 },
     { chan := .aggregator }] := by
  refine ⟨by decide, by decide, by decide, ?_, by decide⟩
  intro r hr hc
  simp only [List.mem_cons, List.not_mem_nil, or_false] at hr
  rcases hr with h | h | h | h | h <;> subst h <;> first | rfl | cases hc

example : (Pandora.Model.C03Await.arun Pandora.Model.C03Await.ainit
    [{ chan := .run, outOfAmmo := true }, { chan := .provider }, { chan := .run }, { chan := .start, started := 2 },
     { chan := .aggregator }]).map (fun s => (s.over, s.awaited, s.startCancels, s.runCancels)) = some (true, 2, 1, 1) := by decide

-- a run result after the run results were closed is refused (an instance more than the start result announced)
example : Pandora.Model.C03Await.arun Pandora.Model.C03Await.ainit
    [{ chan := .start, started := 1 }, { chan := .run }, { chan := .run }] = none := by decide

-- the statement language can tell a wrong body: `runCancel()` where the source has `instanceStartCancel()`
-- (out of ammo cancelling the whole run) is not `astep`
example : Pandora.Model.C03Await.stepBy
    (fun c => if c = .run then [.incAwaited, .ifOutOfAmmo, .ifStartOpen, .runCancel, .endIf, .elseIfBad .run, .onErr, .endIf, .checkAll]
              else Pandora.Gen.InstLoop.awaitCase c)
    Pandora.Gen.InstLoop.awaitCheckCond Pandora.Gen.InstLoop.awaitCheckBody Pandora.Model.C03Await.ainit
    { chan := .run, outOfAmmo := true } ≠
    (Pandora.Model.C03Await.astep Pandora.Model.C03Await.ainit { chan := .run, outOfAmmo := true }).map (fun s' => (s', false)) := by
  decide

-- `C03_start_one_result_per_started`: the startup schedule gives three tokens, then the start is over: 3 started,
-- goroutines for ids 0, 1, 2, the start context's error
example : (Pandora.Model.C03Start.starter [true, true, true, false] true).started = 3 ∧
    (Pandora.Model.C03Start.starter [true, true, true, false] true).launched = [0, 1, 2] ∧
    (Pandora.Model.C03Start.starter [true, true, true, false] true).err = .ctx := by decide

-- … the first instance cannot be created: nothing started, nothing launched, that error
example : (Pandora.Model.C03Start.starter [true, true] false).started = 0 ∧
    (Pandora.Model.C03Start.starter [true, true] false).launched = [] ∧
    (Pandora.Model.C03Start.starter [true, true] false).err = .newInstance := by decide

-- `C03_pool_over_all_returned`: its hypotheses are met by 2 started instances whose results arrive around the start result
example : ∃ s, Pandora.Model.C03Await.arun Pandora.Model.C03Await.ainit
      [{ chan := .run }, { chan := .start, started := 2 }, { chan := .provider }, { chan := .run }, { chan := .aggregator }] = some s ∧
    s.over = true ∧ (Pandora.Model.C03Start.starter [true, true] true).started = 2 ∧
    Pandora.Proofs.C03Await.cnt .run
      [{ chan := .run }, { chan := .start, started := 2 }, { chan := .provider }, { chan := .run }, { chan := .aggregator }] ≤
      (Pandora.Model.C03Start.starter [true, true] true).launched.length := by
  refine ⟨_, rfl, by decide, by decide, by decide⟩

-- the statement language can tell a wrong starter: a loop that launches a goroutine without counting it reports
-- fewer instances than it has launched (the pool would be "over" while an instance still runs)
example : (Pandora.Model.C03Start.execStart Pandora.Model.C03Start.startPre [.bindId, .goRunNew] Pandora.Model.C03Start.startPost
    [true, true, false] true).started = 1 ∧
    (Pandora.Model.C03Start.execStart Pandora.Model.C03Start.startPre [.bindId, .goRunNew] Pandora.Model.C03Start.startPost
    [true, true, false] true).launched = [0, 1] := by decide

-- a mutated iteration body (Wait before Acquire) is NOT accepted: the bridge obligation is falsifiable
example : Pandora.Model.C03Loop.bodyAccepted
    [.waitOrReturn, .acquireOrReturn "ammo", .deferRelease "ammo", .ifFire, .metricAdd "Request" 1, .shoot "ammo",
     .metricAdd "Response" 1, .orElse, .reportDiscard, .endIf, .returnNil] = false := by decide

-- `C03_comp_*`: two instances on a shared profile [no tokens, a pause, 1 token] (`rps: [{const 0}, {const 0}, {once 1}]`).
-- Both find the first part drained (reader sections, `len = 3` seen); instance 0 drops it under the write lock, finds the
-- pause empty and starts again; instance 1 then gets the write lock, sees that somebody has started the next part, finds
-- it empty and — parts remain — STARTS AGAIN instead of reporting "finished"; instance 0 drops the pause and takes the
-- token; instance 1 is told "finished" only now, by a reader section over the last, drained part.  Terminal, 1 fired.
example : ∃ s, Pandora.Model.C03Comp.crun ⟨false, 1, none, false, 2⟩ [0, 0, 1]
      (Pandora.Model.C03Comp.cinitWith ⟨false, 1, none, false, 2⟩ [0, 0, 1])
    [.other (.start 0), .lsec 0, .leftRet 0 1, .other (.acq 0), .other (.start 1), .lsec 1, .leftRet 1 1, .other (.acq 1),
     .rsec 0, .rsec 1, .wsec 0, .wsec 1, .rsec 0, .wsec 0, .nextRet 0 true, .rsec 1, .nextRet 1 false,
     .other (.reqAdd 0), .other (.shoot 0 0), .other (.respAdd 0), .other (.rel 0 0), .other (.rel 1 1),
     .lsec 0, .leftRet 0 0, .lsec 1, .leftRet 1 0] = some s ∧
    s.terminal = true ∧ s.f.base.started = 2 ∧ s.f.base.fired = 1 ∧ s.f.base.unfired = 1 ∧ s.sp = [0] := by
  refine ⟨_, rfl, by decide, by decide, by decide, by decide, by decide⟩

-- falsifiability: the writer section WITHOUT the retry (`wsecNoRetry`: "somebody has started the next part" returns that
-- part's answer as it is) says "finished" in exactly that situation — two parts left, 1 token in them — where `wsec` starts
-- again; so `C03_comp_section_answer` is a statement about this retry, not a triviality
example : Pandora.Model.C03Comp.wsecNoRetry [0, 1] 3 = ([0, 1], .ret false) ∧ Pandora.Model.C03Comp.tot [0, 1] = 1 ∧
    Pandora.Model.C03Comp.wsec [0, 1] 3 = ([0, 1], .retry) := by decide

-- … and the model rejects a log in which an instance is told "finished" while a part still has a token
example : Pandora.Model.C03Comp.crun ⟨false, 1, none, false, 2⟩ [0, 0, 1]
      (Pandora.Model.C03Comp.cinitWith ⟨false, 1, none, false, 2⟩ [0, 0, 1])
    [.other (.start 0), .lsec 0, .leftRet 0 1, .other (.acq 0), .other (.start 1), .lsec 1, .leftRet 1 1, .other (.acq 1),
     .rsec 0, .rsec 1, .wsec 0, .wsec 1, .nextRet 1 false] = none := by decide

-- `C03_comp_writer_never_panics`: a caller between its sections
example : ∃ s, Pandora.Model.C03Comp.crun ⟨false, 1, none, false, 1⟩ [0, 1]
      (Pandora.Model.C03Comp.cinitWith ⟨false, 1, none, false, 1⟩ [0, 1])
    [.other (.start 0), .lsec 0, .leftRet 0 1, .other (.acq 0), .rsec 0] = some s ∧ s.w[0]? = some (some 2) :=
  ⟨_, rfl, by decide⟩

-- `C03_source_composite`: `NewComposite` over the parts [2, 0, 3]
example : Pandora.Model.C03Comp.mkLeftAfter [2, 0, 3] = [3, 3, 0] ∧ Pandora.Model.C03Comp.tot [2, 0, 3] = 5 := by decide

-- `C03_pool_run_nil` / `C03_pool_nil_all_returned`: two instances, results around the start result, nothing fails: nil
example : (Pandora.Model.C03Pool.outcome {}
    [{ chan := .run }, { chan := .start, started := 2 }, { chan := .provider }, { chan := .run }, { chan := .aggregator }]).ret
    = some .nil := by decide

-- … the aggregator fails (not the cancellation of the run context): `Run` returns that error, not nil, although the loop
-- of `awaitRun` gets over too
example : (Pandora.Model.C03Pool.outcome {}
    [{ chan := .run }, { chan := .start, started := 1 }, { chan := .provider }, { chan := .aggregator, badRun := true }]).ret
    = some .awaitErr := by decide

-- … a run result is missing (an instance never returns): `Run` does not return
example : (Pandora.Model.C03Pool.outcome {}
    [{ chan := .start, started := 2 }, { chan := .provider }, { chan := .run }, { chan := .aggregator }]).ret = none := by decide

-- falsifiability: a goroutine that closes `awaitErr` BEFORE `awaitRun()` lets `Run` return nil with nothing awaited
example : (Pandora.Model.C03Pool.exec Pandora.Model.C03Pool.onAwait .ctxErr {}
    (Pandora.Model.C03Pool.goroutine [] [.closeAwaitErr, .awaitRun] [.waitDone]) Pandora.Model.C03Pool.poolRun {}).ret
    = some .nil := by decide


/-! ### composition with the REGENERATED schedule leaf of area `schedule` (`Pandora.Proofs.C03Leaf`) -/

section Leaf
open Pandora.Proofs.C03Leaf Pandora.Gen.Schedule Pandora.Bridge.C03DoAt

/-- **the pool over the regenerated leaf IS the pool over a token counter**: let every `Left()` / `Next()` answer be COMPUTED
by the functions regenerated from core/schedule/do_at.go on the leaf object the instance draws from (the shared one, or the
one the factory made at its start; profile `NewDoAtSchedule duration n doAt` = `once`, `const`, `line`, a step of `step`).
Every run of that product, for every interleaving and every reading of the clock, is a run of `Model.C03` with
`tokens = n` (clamped at 0), and at every moment the model's counters are the tokens left in the leaf objects -/
theorem C03_leaf_composed (c : Cfg) (p : Leaf) (hn : c.tokens = p.n.toNat) (es : List (Int × Ev)) (l : LSt)
    (h : lrun c p (linit c p) es = some l) :
    run c (init c) (es.map (·.2)) = some l.pool ∧ l.pool.shared = tokensLeft l.sh ∧
    l.pool.own = l.own.map tokensLeft :=
  let ⟨hr, ha⟩ := lrun_is_run hn h
  ⟨hr, ha.shared, ha.own⟩

/-- … and the product is no artificial restriction: an instance standing at `Wait` can always go on, with exactly the event
the regenerated `Next()` of its leaf dictates (`tokOk` iff it answers ok, and it answers ok iff the model has a token
left); an instance standing at `IsFinished` goes on with the value the regenerated `Left()` returns, which is the model's -/
theorem C03_leaf_never_blocks (c : Cfg) (p : Leaf) (hn : c.tokens = p.n.toNat) (es : List (Int × Ev)) (l : LSt)
    (h : lrun c p (linit c p) es = some l) (i : Nat) (now : Int) :
    (l.pool.pcs[i]? = some .wait →
      ∃ d tx ok d' l', l.prof c i = some d ∧ doAtSchedule_Next now d = .ok ((tx, ok), d') ∧
        ok = decide (0 < l.pool.left c i) ∧ lstep c p l now (if ok then .tokOk i else .tokEnd i) = some l') ∧
    (l.pool.pcs[i]? = some .check →
      ∃ d l', l.prof c i = some d ∧ doAtSchedule_Left d = .ok ((l.pool.left c i : Int), d) ∧
        lstep c p l now (.chk i (l.pool.left c i)) = some l') :=
  ⟨fun hw => next_never_blocks hn h i hw now, fun hw => left_never_blocks hn h i hw now⟩

/-- **fired + discarded = min(tokens of the regenerated profile, ammo)** — the main clause stated over the schedule code
itself: the tokens are the `n` of the regenerated leaf, one leaf shared or one fresh leaf per started instance -/
theorem C03_leaf_total (c : Cfg) (p : Leaf) (hn : c.tokens = p.n.toNat) (es : List (Int × Ev)) (l : LSt)
    (h : lrun c p (linit c p) es = some l) (ht : l.pool.terminal = true) (hN : 0 < l.pool.started) :
    l.pool.fired + l.pool.discarded =
      minOpt (if c.perInstance then l.pool.started * p.n.toNat else p.n.toNat) c.ammo := by
  have := C03_total c _ l.pool (lrun_is_run hn h).1 ht hN
  simpa [St.totalTokens, hn] using this

/-- the other clauses over the regenerated leaf: released exactly once, never used while not held, the unfired bounds,
Request = Response = fired; and when the pool has ended no leaf has a token left unless the ammo ran out -/
theorem C03_leaf_release_unfired_metrics (c : Cfg) (p : Leaf) (hn : c.tokens = p.n.toNat) (es : List (Int × Ev)) (l : LSt)
    (h : lrun c p (linit c p) es = some l) (ht : l.pool.terminal = true) :
    (l.pool.acquired = l.pool.released ∧ (∀ k, k < l.pool.acquired → l.pool.rels[k]? = some 1) ∧ l.pool.badUse = false) ∧
    (c.perInstance = false → l.pool.acquired - (l.pool.fired + l.pool.discarded) ≤ l.pool.started - 1) ∧
    (c.perInstance = true → l.pool.acquired = l.pool.fired + l.pool.discarded) ∧
    l.pool.request = l.pool.fired ∧ l.pool.response = l.pool.fired :=
  let hr := (lrun_is_run hn h).1
  ⟨⟨(C03_release c _ l.pool hr ht).1, fun k hk => C03_release_exactly_once c _ l.pool hr ht k hk, C03_never_bad_use c _ l.pool hr⟩,
   fun hc => (C03_unfired_shared c _ l.pool hc hr ht).1, fun hc => C03_unfired_per_instance c _ l.pool hc hr ht,
   C03_metrics c _ l.pool hr ht⟩

end Leaf

-- `C03_leaf_*`: two instances on ONE regenerated `once(1)` leaf (duration 0, n = 1), unbounded ammo; the clock reads 7, 8, 9 …;
-- instance 1 is told "finished" by the leaf's second `Next()`: terminal, started = 2, 1 fired, 1 unfired, the leaf's counter at 2
example : ∃ l, Pandora.Proofs.C03Leaf.lrun ⟨false, 1, none, false, 2⟩ ⟨0, 1, fun _ => 0⟩
      (Pandora.Proofs.C03Leaf.linit ⟨false, 1, none, false, 2⟩ ⟨0, 1, fun _ => 0⟩)
    [(7, .start 0), (7, .chk 0 1), (7, .start 1), (7, .chk 1 1), (8, .acq 0), (8, .acq 1), (9, .tokOk 0), (9, .tokEnd 1),
     (9, .reqAdd 0), (9, .shoot 0 0), (9, .respAdd 0), (9, .rel 1 1), (9, .rel 0 0), (9, .chk 0 0), (9, .chk 1 0)] = some l ∧
    l.pool.terminal = true ∧ l.pool.started = 2 ∧ l.pool.fired = 1 ∧ l.pool.unfired = 1 ∧ l.sh.i = 2 := by
  refine ⟨_, rfl, by decide, by decide, by decide, by decide, by decide⟩

-- … the product refuses an answer the leaf does not give: a second token from `once(1)`
example : Pandora.Proofs.C03Leaf.lrun ⟨false, 1, none, false, 2⟩ ⟨0, 1, fun _ => 0⟩
      (Pandora.Proofs.C03Leaf.linit ⟨false, 1, none, false, 2⟩ ⟨0, 1, fun _ => 0⟩)
    [(7, .start 0), (7, .chk 0 1), (7, .start 1), (7, .chk 1 1), (8, .acq 0), (8, .acq 1), (9, .tokOk 0), (9, .tokOk 1)] = none := by
  decide

-- … rps-per-instance: each started instance gets a fresh leaf of its own (2 started × once(1) = 2 fired)
example : ∃ l, Pandora.Proofs.C03Leaf.lrun ⟨true, 1, none, false, 2⟩ ⟨0, 1, fun _ => 0⟩
      (Pandora.Proofs.C03Leaf.linit ⟨true, 1, none, false, 2⟩ ⟨0, 1, fun _ => 0⟩)
    [(1, .start 0), (1, .chk 0 1), (1, .acq 0), (2, .tokOk 0), (2, .reqAdd 0), (2, .shoot 0 0), (2, .respAdd 0), (2, .rel 0 0),
     (3, .chk 0 0), (3, .start 1), (3, .chk 1 1), (3, .acq 1), (4, .tokOk 1), (4, .reqAdd 1), (4, .shoot 1 1), (4, .respAdd 1),
     (4, .rel 1 1), (5, .chk 1 0)] = some l ∧
    l.pool.terminal = true ∧ l.pool.fired = 2 ∧ (l.own.map (·.i)) = [1, 1] := by
  refine ⟨_, rfl, by decide, by decide, by decide⟩

/-! ### the glue around the loop, REGENERATED (round 6: `Pandora.Model.C03Wiring`, `Pandora.Bridge.C03Wiring`) -/

/-- what the accounting model takes for granted about the code around the loop, re-read from the current source on every run:
the instances of a pool are handed the POOL's provider, aggregator, metrics and `discard_overflow` flag and the schedule factory
`buildNewInstanceSchedule` chose (`startInstances`; whatever the order of the fields or the number of steps the literal is built
in); `newPool` keeps the metrics and the configuration it is given and `Engine.Run` gives every pool the engine's metrics (one
Request / Response pair for all pools: `C03_metrics_engine`); the end of the ammo is reported by returning the package-level
error value itself and recognised by comparing with it; `Counter.Add` is ONE atomic addition of the delta it is given and `Get`
one atomic load (`reqAdd` / `respAdd` are atomic steps of the model); the sample reported for a discarded request carries the
tag `DiscardedShootTag`; the built-in `dummy` provider hands out the untyped nil as a VALID item -/
theorem C03_source_wiring :
    Pandora.Model.C03Wiring.restrict Pandora.Gen.InstLoop.depsWiring Pandora.Model.C03Wiring.deps = Pandora.Model.C03Wiring.deps ∧
    Pandora.Model.C03Wiring.restrict Pandora.Gen.InstLoop.poolWiring Pandora.Model.C03Wiring.pool = Pandora.Model.C03Wiring.pool ∧
    Pandora.Gen.InstLoop.engineNewPoolCalls = Pandora.Model.C03Wiring.engineNewPool ∧
    (Pandora.Gen.InstLoop.outOfAmmoReturns = ["return outOfAmmoErr"] ∧
     Pandora.Gen.InstLoop.outOfAmmoTests = ["<run result>.Err == outOfAmmoErr"]) ∧
    (Pandora.Gen.InstLoop.counterAddAccesses = ["i.Add"] ∧ Pandora.Gen.InstLoop.counterAddPassesDelta = true ∧
     Pandora.Gen.InstLoop.counterGetAccesses = ["i.Load"]) ∧
    Pandora.Gen.InstLoop.discardedSampleTag.1 = Pandora.Gen.InstLoop.discardedSampleTag.2 ∧
    Pandora.Gen.InstLoop.dummyAcquireReturns = ["nil, true"] :=
  ⟨Pandora.Bridge.C03Wiring.deps_eq, Pandora.Bridge.C03Wiring.pool_eq, Pandora.Bridge.C03Wiring.engine_newPool_eq,
   Pandora.Bridge.C03Wiring.out_of_ammo_sentinel, Pandora.Bridge.C03Wiring.counter_atomic,
   Pandora.Bridge.C03Wiring.discarded_tag.1, Pandora.Bridge.C03Wiring.dummy_acquire⟩

-- falsifiability of `C03_source_iteration_is_model_path` in the new dimension (the VALUE of an item): a body that also leaves
-- the iteration when the item is nil (`if !ok || ammo == nil { return outOfAmmoErr }`) is accepted for every non-nil item
-- but NOT for a nil one — the item was handed out (`ok = true`), is neither fired nor released, the instance leaves `Run`
example : Pandora.Model.C03Loop.bodyAccepted
    [.acquireOrReturnIf "ammo" ["nil"] false, .deferRelease "ammo", .waitOrReturn, .ifFire, .metricAdd "Request" 1, .shoot "ammo",
     .metricAdd "Response" 1, .orElse, .reportDiscard, .endIf, .returnNil] = false ∧
    Pandora.Model.C03Loop.allOracles.all (fun o => Pandora.Model.C03Loop.pathAccepted
      [.acquireOrReturnIf "ammo" ["nil"] false, .deferRelease "ammo", .waitOrReturn, .ifFire, .metricAdd "Request" 1, .shoot "ammo",
       .metricAdd "Response" 1, .orElse, .reportDiscard, .endIf, .returnNil] false o) = true := by decide

-- … while the same statement without a value test (`if !ok || false`-like: no tests) is the plain acquire
example : Pandora.Model.C03Loop.bodyAccepted
    [.acquireOrReturnIf "ammo" [] false, .deferRelease "ammo", .waitOrReturn, .ifFire, .metricAdd "Request" 1, .shoot "ammo",
     .metricAdd "Response" 1, .orElse, .reportDiscard, .endIf, .returnNil] = true := by decide

-- falsifiability of `C03_source_wiring`: instances wired to a constant `discardOverflow` do not pass
example : Pandora.Model.C03Wiring.restrict
    [("aggregator", "$.Aggregator"), ("discardOverflow", "false"), ("metrics", "$.metrics"), ("newSchedule", "param#2"),
     ("provider", "$.Provider")] Pandora.Model.C03Wiring.deps ≠ Pandora.Model.C03Wiring.deps := by decide


/-- **the loop iteration regenerated from the source is a path of the model from EVERY reachable state** (not only from the
canonical one-instance state `C03_source_iteration_is_model_path` checks): whatever the other instances are doing, for every
instance `i` that stands at `Acquire` and the answers the state dictates — an item iff the provider is not exhausted, a token iff
`i`'s profile has one, fire or discard freely unless discard_overflow is off — the operations the regenerated body performs, in
source order with the deferred `Release` last, are enabled one after the other for instance `i` and the item just acquired
(number `s.acquired`), and lead back to the `IsFinished` check (out of the loop when the ammo is finished); the iteration
function returns nil resp. the out-of-ammo error accordingly -/
theorem C03_iteration_from_any_state (c : Cfg) (pre : List Ev) (s : St) (hrun : run c (init c) pre = some s) (i : Nat)
    (hpc : s.pcs[i]? = some .acquire) (o : Pandora.Model.C03Loop.Oracle)
    (hacq : o.acqOk = decide (s.ammoLeft ≠ some 0)) (hwait : o.waitOk = decide (0 < s.left c i))
    (hfire : o.fire = false → c.discardOn = true) :
    ∃ evs s', (Pandora.Model.C03Loop.exec Pandora.Gen.InstLoop.iterBody o .run none []).1.mapM
        (Pandora.Proofs.C03Iter.toEvAt i s.acquired) = some evs ∧
      run c s evs = some s' ∧
      s'.pcs[i]? = some (if o.acqOk then .check else .done) ∧
      (Pandora.Model.C03Loop.exec Pandora.Gen.InstLoop.iterBody o .run none []).2 = (if o.acqOk then .retNil else .retErr) ∧
      (o.acqOk = true → evs.getLast? = some (.rel i s.acquired)) :=
  Pandora.Proofs.C03Iter.iteration_from_any_state c pre s hrun i hpc o hacq hwait hfire

-- `C03_iteration_from_any_state`: its hypotheses are met in the middle of a run of three instances — instance 1 holds an item and
-- a token, instance 2 has finished, instance 0 stands at `Acquire` with one item and one shared token left (3 items, 3 tokens at the start)
example : ∃ s, run ⟨false, 3, some 3, true, 3⟩ (init ⟨false, 3, some 3, true, 3⟩)
    [.start 0, .start 1, .start 2, .chk 1 3, .acq 1, .tokOk 1, .chk 2 2, .acq 2, .tokOk 2, .discard 2, .rel 2 1, .chk 0 1] = some s ∧
    s.pcs[0]? = some .acquire ∧ s.ammoLeft ≠ some 0 ∧ 0 < s.left ⟨false, 3, some 3, true, 3⟩ 0 := by
  refine ⟨_, rfl, by decide, by decide, by decide⟩

section LeafCallback
open Pandora.Proofs.C03Leaf Pandora.Gen.Schedule Pandora.Bridge.C03DoAt

/-- **the start of further instances is cut by the shared profile only when it is drained** — three regenerated pieces composed:
the shared profile object is the regenerated leaf (`Gen.Schedule`), wrapped by the regenerated finish-callback wrapper
(`Gen.InstLoop.callbackLeft` / `callbackNext`, core/coreutil/schedule.go; its callback is `instanceStartCancel`,
`buildNewInstanceSchedule`), used by the pool model.  In every reachable state of the product, for every reading of the clock:
what the wrapper hands to `IsFinished` / `Wait` is the leaf's own answer, unchanged, and it fires the callback exactly when the
model's shared counter is 0 — never while a token is left, always when an instance is told "finished" -/
theorem C03_leaf_callback_only_when_drained (c : Cfg) (p : Leaf) (hn : c.tokens = p.n.toNat) (es : List (Int × Ev)) (l : LSt)
    (h : lrun c p (linit c p) es = some l) (now : Int) :
    (∃ v, doAtSchedule_Left l.sh = .ok (v, l.sh) ∧ v = (l.pool.shared : Int) ∧
      Pandora.Gen.InstLoop.callbackLeft v = (v, decide (l.pool.shared = 0))) ∧
    (∃ tx ok d', doAtSchedule_Next now l.sh = .ok ((tx, ok), d') ∧ ok = decide (0 < l.pool.shared) ∧
      Pandora.Gen.InstLoop.callbackNext ok = (ok, decide (l.pool.shared = 0))) := by
  obtain ⟨_, ha⟩ := lrun_is_run hn h
  constructor
  · refine ⟨(tokensLeft l.sh : Int), left_eq l.sh, by rw [ha.shared], ?_⟩
    rw [Pandora.Bridge.C03Start.callback_left _ (by omega), ha.shared]
    congr 1
    simp
  · obtain ⟨tx, d', hnx, _⟩ := next_draws l.sh ha.shFlags now
    refine ⟨tx, _, d', hnx, by rw [ha.shared], ?_⟩
    rw [Pandora.Bridge.C03Start.callback_next, ha.shared]
    congr 1
    by_cases hz : tokensLeft l.sh = 0 <;> simp [hz]
    omega

end LeafCallback
end Pandora.Props.C03
