/-
C03 — Engine shot accounting.

Model: `Pandora.Model.C03` — the instance loop of core/engine/instance.go as a labelled transition system over
a shared or per-instance finite schedule and a bounded/unbounded provider.  A trace `evs : List Ev` is ANY
interleaving of ANY number of instances (events that are not enabled make `run` return `none`); the theorems
hold for every accepted trace.  Tie: the correspondence harness replays the event log of the REAL engine
through `step` (every observed event must be enabled) and evaluates `Spec.C03.verdict` on the real counters.
-/
import Pandora.Proofs.C03
import Pandora.Spec.C03

namespace Pandora.Props.C03
open Pandora.Model.C03 Pandora.Proofs.C03

theorem reach_invA {c : Cfg} {evs : List Ev} {s : St} (h : run c (init c) evs = some s) : InvA c s :=
  run_inv (P := InvA c) (fun _ _ _ hp hs => step_invA hp hs) evs _ _ (init_invA c) h

theorem reach_invS {c : Cfg} (hc : c.perInstance = false) {evs : List Ev} {s : St}
    (h : run c (init c) evs = some s) : InvS c s :=
  run_inv (P := InvS c) (fun _ _ _ hp hs => step_invS hc hp hs) evs _ _ (init_invS c) h

theorem reach_invP {c : Cfg} (hc : c.perInstance = true) {evs : List Ev} {s : St}
    (h : run c (init c) evs = some s) : InvP c s :=
  run_inv (P := InvP c) (fun _ _ _ hp hs => step_invP hc hp hs) evs _ _ (init_invP c) h

theorem all_done {s : St} (ht : s.terminal = true) (i : Nat) (hi : i < s.pcs.length) : s.pcs[i]? = some Pc.done := by
  unfold St.terminal at ht
  rw [List.all_eq_true] at ht
  rw [List.getElem?_eq_getElem hi]
  have := ht s.pcs[i] (List.getElem_mem hi)
  simp at this
  rw [this]

/-- **fired + discarded = min(tokens, ammo)** when the pool ends normally (every instance left its loop),
for every instance count ≥ 1, both profile modes, every ammo bound and every interleaving. -/
theorem C03_total (c : Cfg) (evs : List Ev) (s : St) (hN : 0 < c.instances)
    (hrun : run c (init c) evs = some s) (ht : s.terminal = true) :
    s.fired + s.discarded = minOpt c.totalTokens c.ammo := by
  have hA := reach_invA hrun
  have cW := count_of_terminal ht .wait (by decide)
  have cD := count_of_terminal ht .decide (by decide)
  have hcls := hA.classified
  have hammo := hA.ammo
  cases hc : c.perInstance with
  | false =>
    have hS := reach_invS hc hrun
    have hd := hS.done 0 (all_done ht 0 (by rw [hA.len]; exact hN))
    have htok := hS.tok
    have hunf := hS.unfPos
    simp only [Cfg.totalTokens, hc, Bool.false_eq_true, if_false]
    cases ha : c.ammo with
    | none =>
      rw [ha] at hammo
      simp only [minOpt]
      rcases hd with h0 | h0
      · omega
      · rw [hammo] at h0; cases h0
    | some a0 =>
      rw [ha] at hammo
      obtain ⟨a, h1, h2⟩ := hammo
      simp only [minOpt]
      rcases hd with h0 | h0
      · omega
      · rw [h1] at h0
        have : a = 0 := by injection h0
        by_cases hsh : s.shared = 0
        · omega
        · have : s.unfired = 0 := by
            rcases Nat.eq_zero_or_pos s.unfired with h | h
            · exact h
            · exact absurd (hunf h).1 hsh
          omega
  | true =>
    have hP := reach_invP hc hrun
    have htok := hP.tok
    have hunf := hP.unf0
    simp only [Cfg.totalTokens, hc, if_true]
    by_cases hz : s.ammoLeft = some 0
    · cases ha : c.ammo with
      | none => rw [ha] at hammo; rw [hammo] at hz; cases hz
      | some a0 =>
        rw [ha] at hammo
        obtain ⟨a, h1, h2⟩ := hammo
        rw [h1] at hz
        have : a = 0 := by injection hz
        simp only [minOpt]
        omega
    · have hsum : s.own.sum = 0 := by
        apply sum_zero_of_all
        intro i hi
        have hi' : i < s.pcs.length := by rw [hP.pcsLen, ← hP.ownLen]; exact hi
        rcases hP.done i (all_done ht i hi') with h | h
        · exact h
        · exact absurd h hz
      cases ha : c.ammo with
      | none => simp only [minOpt]; omega
      | some a0 =>
        rw [ha] at hammo
        obtain ⟨a, _, h2⟩ := hammo
        simp only [minOpt]
        omega

/-- every acquired item is released exactly once: acquisitions and releases pair up when the pool ends
(an item is released only from the `release` state, which is entered once per acquisition) -/
theorem C03_release (c : Cfg) (evs : List Ev) (s : St)
    (hrun : run c (init c) evs = some s) (ht : s.terminal = true) :
    s.acquired = s.released ∧ s.acquired = s.fired + s.discarded + s.unfired := by
  have hA := reach_invA hrun
  have cW := count_of_terminal ht .wait (by decide)
  have cD := count_of_terminal ht .decide (by decide)
  have cR := count_of_terminal ht .release (by decide)
  have h1 := hA.held
  have h2 := hA.classified
  constructor <;> omega

/-- in every reachable state: held items = acquired − released = instances between Acquire and Release;
an item is shot or discarded only while held (events `shoot`/`discard` are enabled only in state `decide`) -/
theorem C03_no_use_after_release (c : Cfg) (evs : List Ev) (s : St) (hrun : run c (init c) evs = some s) :
    s.acquired = s.released + s.pcs.count .wait + s.pcs.count .decide + s.pcs.count .release :=
  (reach_invA hrun).held

theorem count_true_lt {l : List Bool} {j : Nat} (h : l[j]? = some false) : l.count true + 1 ≤ l.length := by
  induction l generalizing j with
  | nil => simp at h
  | cons a l ih =>
    cases j with
    | zero =>
      simp at h; subst h
      have := List.count_le_length (a := true) (l := l)
      simp; omega
    | succ j =>
      have := ih (j := j) (by simpa using h)
      cases a <;> simp <;> omega

/-- shared finite profile: at most (instances − 1) acquired items go unfired -/
theorem C03_unfired_shared (c : Cfg) (evs : List Ev) (s : St) (hc : c.perInstance = false)
    (hrun : run c (init c) evs = some s) (ht : s.terminal = true) :
    s.acquired - (s.fired + s.discarded) ≤ c.instances - 1 := by
  have hS := reach_invS hc hrun
  have hrel := (C03_release c evs s hrun ht).2
  rcases Nat.eq_zero_or_pos s.unfired with h0 | hpos
  · omega
  · obtain ⟨hsh, htok⟩ := hS.unfPos hpos
    obtain ⟨j, _, hj, _⟩ := hS.last hsh htok
    have := count_true_lt hj
    have h1 := hS.unfCnt
    have h2 := hS.unfLen
    omega

/-- one full profile per instance: no acquired item ever goes unfired -/
theorem C03_unfired_per_instance (c : Cfg) (evs : List Ev) (s : St) (hc : c.perInstance = true)
    (hrun : run c (init c) evs = some s) (ht : s.terminal = true) :
    s.acquired = s.fired + s.discarded := by
  have := (reach_invP hc hrun).unf0
  have := (C03_release c evs s hrun ht).2
  omega

/-- the engine's request and response counters equal the number of fired requests, in every reachable state -/
theorem C03_metrics (c : Cfg) (evs : List Ev) (s : St) (hrun : run c (init c) evs = some s) :
    s.request = s.fired ∧ s.response = s.fired := (reach_invA hrun).metrics

/-- with discard_overflow off nothing is ever discarded -/
theorem C03_discard_off (c : Cfg) (evs : List Ev) (s : St) (hoff : c.discardOn = false)
    (hrun : run c (init c) evs = some s) : s.discarded = 0 := (reach_invA hrun).discOff hoff

-- non-vacuity: 2 instances, shared once(1), 2 ammo, the second instance acquires an item that goes unfired
example : ∃ s, run ⟨false, 1, some 2, true, 2⟩ (init ⟨false, 1, some 2, true, 2⟩)
    [.chk 0 1, .chk 1 1, .acq 0, .acq 1, .tokOk 0, .tokEnd 1, .discard 0, .rel 1, .rel 0, .chk 0 0, .chk 1 0] = some s ∧
    s.terminal = true ∧ s.fired + s.discarded = 1 ∧ s.unfired = 1 := by
  refine ⟨_, rfl, by decide, by decide, by decide⟩

end Pandora.Props.C03
