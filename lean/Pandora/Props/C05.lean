/-
C05 — run outcome and termination at every finish, failure and cancel point.

Model: `Pandora.Model.C05` (`instancePool.Run` + `runAwaitHandle.awaitRun` + the goroutines they start, as a
transition system whose every environment decision, Go `select` resolution and component return is a `Choice`;
`instance.Run`'s loop; the `Engine.Run` loop). `run cfg cs` is the state after the choice list `cs`; all theorems
quantify over EVERY choice list: every fault plan, every interleaving, every select order, any number of instances.

`Cfg` selects the code variant: `Cfg.repaired` is the tree with fixes/C05-*.diff, `Cfg.current` the tree as found.
The theorems hold for the repaired flags; each `…_counterexample` refutes the statement for the variant that
lacks the corresponding repair.
-/
import Pandora.Proofs.C05Eng
import Pandora.Proofs.C05Sys
import Pandora.Proofs.C05Ctx
import Pandora.Bridge.C05Engine
import Pandora.Proofs.C05Inst
import Pandora.Bridge.C05Wait
import Pandora.Proofs.C05R6
import Pandora.Bridge.C05Prov
import Pandora.Gen.ProvLoops

namespace Pandora.Props.C05
open Pandora.Model.C05 Pandora.Proofs.C05

/-! ### outcome -/

/-- A component error is never swallowed: if `Pool.Run` returned, the caller had not cancelled before that, and
some component (provider, aggregator, gun factory, `Bind`, schedule factory, warm-up, a shot panic) had returned an
error before that, then the result is a failure whose cause is one of the component errors returned so far. -/
def C05_no_swallow_statement (cfg : Cfg) : Prop :=
  ∀ cs : List Choice, let s := run cfg cs
    ∀ r, s.result = some r → s.extAtReturn = false → s.errsAtReturn ≠ [] →
      ∃ w e, r = .fail w (.err e) ∧ e ∈ s.errsAtReturn

theorem C05_no_swallow (cfg : Cfg) (hfix : cfg.fixSelect = true) : C05_no_swallow_statement cfg := by
  intro cs s r hr hext herr
  have hx := run_invX cfg hfix cs
  have hb := run_invB cfg cs
  have hm : s.main = .returned r := by
    simp only [State.result] at hr
    split at hr
    · rename_i r' hm; cases hr; exact hm
    · cases hr
  have hf := hx.atRet r hm hext herr
  cases r with
  | ok => simp [IsFail] at hf
  | ctx => simp [IsFail] at hf
  | fail w c =>
    obtain ⟨e, hc, he⟩ := hb.failVal w c hm
    exact ⟨w, e, by rw [hc], he⟩

/-- the tree as found: the provider fails after the last instance result was awaited (`runCancel()` has made
`runCtx.Done()` ready), `onErrAwaited` takes the suppress branch, and `Pool.Run` returns nil -/
def swallowWitness : List Choice :=
  [.warm (.ok true), .sched none, .startFirst (.ok true), .startEnd, .instRet 0 .ooa, .awaitRun, .awaitStart,
   .aggRet .ok, .awaitAgg, .provRet (.err 1), .awaitProv, .errSuppress, .mainClosed]

theorem C05_no_swallow_counterexample : ¬ C05_no_swallow_statement { Cfg.repaired with fixSelect := false } := by
  intro h
  have := h swallowWitness .ok (by decide) (by decide) (by decide)
  obtain ⟨w, e, h1, _⟩ := this
  cases h1

/-- success only if clean: `Pool.Run` returns nil (without a caller's cancel) only if no component had failed -/
theorem C05_success_only_if_clean (cfg : Cfg) (hfix : cfg.fixSelect = true) (cs : List Choice) :
    (run cfg cs).result = some .ok → (run cfg cs).extAtReturn = false → (run cfg cs).errsAtReturn = [] := by
  intro hr hext
  by_cases herr : (run cfg cs).errsAtReturn = []
  · exact herr
  · obtain ⟨w, e, h1, _⟩ := C05_no_swallow cfg hfix cs .ok hr hext herr
    cases h1

/-- at ANY moment (not only at the return): a component error that happened without a caller's cancel has either
made `Pool.Run` fail already, or `Pool.Run` is still running and the error is still on its way through
`onErrAwaited` (sitting in a result channel or blocked in the select) -/
theorem C05_error_pending_or_failed (cfg : Cfg) (hfix : cfg.fixSelect = true) (cs : List Choice) :
    let s := run cfg cs
    s.extC = false → s.compErrs ≠ [] → mainFailed s.main = true ∨ (mainRunning s.main = true ∧ PendingErr s) := by
  intro s hext herr
  rcases (run_invX cfg hfix cs).acc with h | h | h | h
  · rw [hext] at h; cases h
  · exact absurd h herr
  · exact Or.inl h
  · exact Or.inr h

/-- the cause of a failure is real, in every variant: a failure result carries an error some component returned -/
theorem C05_failure_cause (cfg : Cfg) (cs : List Choice) (w : Wrap) (c : Ret) :
    (run cfg cs).result = some (.fail w c) → ∃ e, c = .err e ∧ e ∈ (run cfg cs).compErrs := by
  intro hr
  have hb := run_invB cfg cs
  have hm : (run cfg cs).main = .returned (.fail w c) := by
    simp only [State.result] at hr
    split at hr
    · rename_i r' hm; cases hr; exact hm
    · cases hr
  obtain ⟨e, hc, he⟩ := hb.failVal w c hm
  exact ⟨e, hc, hb.atRet e he⟩

/-- a shot panic is an instance error, not a crash: `instance.Run` (total by construction) returns `shoot panic: e`
when the first iteration that does not complete a shot is a panicking `Shoot` -/
theorem C05_panic_is_error (ctxDone : Bool) (pre post : List Iter) (e : ErrId) (hpre : ∀ x ∈ pre, x = .shot) :
    instRun ctxDone (pre ++ .shotPanic e :: post) = .err e := by
  induction pre with
  | nil => rfl
  | cons x pre ih =>
    have hx : x = .shot := hpre x List.mem_cons_self
    subst hx
    simp only [List.cons_append, instRun]
    exact ih (fun y hy => hpre y (List.mem_cons_of_mem _ hy))

/-! ### cancellation -/

/-- the cancellation error is returned only if the caller cancelled (every variant) -/
theorem C05_ctx_only_if_cancelled (cfg : Cfg) (cs : List Choice) :
    (run cfg cs).result = some .ctx → (run cfg cs).extAtReturn = true ∧ (run cfg cs).extC = true := by
  intro hr
  have hb := run_invB cfg cs
  have hm : (run cfg cs).main = .returned .ctx := by
    simp only [State.result] at hr
    split at hr
    · rename_i r' hm; cases hr; exact hm
    · cases hr
  exact ⟨hb.retCtx hm, hb.retExt (hb.retCtx hm)⟩

/-- prompt: once the caller has cancelled a pool whose `Run` sits in its final select, the cancel case of that select
is ready, and taking it returns the cancellation error -/
theorem C05_cancel_prompt (cfg : Cfg) (cs : List Choice) :
    let s := run cfg cs
    s.extC = true → s.main = .selecting → (step cfg s .mainCancel).result = some .ctx := by
  intro s hext hm
  have hp : s.poolC = true := run_invE cfg cs hext
  simp [step, hm, hp, mainReturn, cancelAll, State.result]

/-- … and from ANY point of the run the goroutine of `Pool.Run` needs at most its own three steps (warm-up call,
`runAsync`, the select) to return after the caller's cancel: it never waits for a component -/
theorem C05_cancel_returns (cfg : Cfg) (cs : List Choice) (o1 : WarmOut) (o2 : Option ErrId) :
    (run cfg cs).extC = true → ∃ r, (run cfg (cs ++ [.warm o1, .sched o2, .mainCancel])).result = some r := by
  intro hext
  have hp : (run cfg cs).poolC = true := run_invE cfg cs hext
  have hrun : run cfg (cs ++ [.warm o1, .sched o2, .mainCancel]) =
      step cfg (step cfg (step cfg (run cfg cs) (.warm o1)) (.sched o2)) .mainCancel := by
    simp [run, List.foldl_append]
  rw [hrun]
  generalize run cfg cs = s at hp
  cases hm : s.main with
  | init =>
    cases o1 <;> cases o2 <;> simp [step, hm, hp, mainReturn, cancelAll, State.result]
  | warmed =>
    cases o2 <;> simp [step, hm, hp, mainReturn, cancelAll, State.result]
  | selecting => simp [step, hm, hp, mainReturn, cancelAll, State.result]
  | returned r => simp [step, hm, State.result]

/-! ### termination: background tasks stop, `Engine.Wait` returns, guns are closed -/

/-- `onWaitDone` is never called twice, and the engine never panics on its own channels (close of a nil channel,
send on the closed `runRes`, "Unexpected run result") — every variant -/
theorem C05_wait_done_at_most_once (cfg : Cfg) (cs : List Choice) :
    (run cfg cs).waitDone ≤ 1 ∧ (run cfg cs).panicked = false :=
  ⟨(run_invA cfg cs).1.wd2, (run_invA cfg cs).1.nopanic⟩

/-- Once the run context is cancelled (all instances were awaited, or `Pool.Run` returned, or the caller cancelled)
the pool's outstanding work is bounded: of ANY continuation at most `mu s` steps change the state. -/
theorem C05_background_terminates (cfg : Cfg) (cs ds : List Choice) :
    (run cfg cs).runC = true → effSteps cfg (run cfg cs) ds ≤ mu (run cfg cs) := by
  intro hr
  have := effSteps_le cfg ds (run cfg cs) (run_invA cfg cs) (run_invE cfg cs) hr
  omega

/-- `Pool.Run` returning cancels the run context (deferred `cancel()`), so the bound applies after every return -/
theorem C05_return_cancels (cfg : Cfg) (cs : List Choice) (r : PRes) :
    (run cfg cs).result = some r → (run cfg cs).runC = true := by
  intro hr
  have ha := (run_invA cfg cs).1
  have hm : (run cfg cs).main = .returned r := by
    simp only [State.result] at hr
    split at hr
    · rename_i r' hm; cases hr; exact hm
    · cases hr
  exact ha.ctx1 (ha.retCancel r hm)

/-- When nothing that is bound to happen (`Must`: engine steps, returning calls, returns of goroutines whose context
is cancelled) can change the state any more, the pool is finished (`Done`): `Pool.Run` has returned, `onWaitDone` has
been called exactly once (so `Engine.Wait` returns), no instance / provider / aggregator / start goroutine is left,
all results were consumed, and every gun is accounted for. With `C05_background_terminates` every fair execution
reaches such a state. -/
def C05_wait_returns_statement (cfg : Cfg) : Prop :=
  ∀ cs : List Choice, (run cfg cs).runC = true → Quiescent cfg (run cfg cs) → Done cfg (run cfg cs)

theorem C05_wait_returns (cfg : Cfg) (hfix : cfg.fixWaitDone = true) : C05_wait_returns_statement cfg := by
  intro cs hr hq
  exact progress cfg hfix _ (run_invA cfg cs) (run_invG cfg cs) hr hq

/-- the tree as found: the shared schedule factory fails in `runAsync`; `Pool.Run` returns without `onWaitDone` and
nothing is left that could call it: `Engine.Wait` blocks forever -/
def waitWitness : List Choice := [.warm (.ok true), .sched (some 6)]

theorem C05_wait_returns_counterexample : ¬ C05_wait_returns_statement { Cfg.repaired with fixWaitDone := false } := by
  intro h
  have hd := h waitWitness (by decide) (by
    intro c hm
    cases c <;> first | exact False.elim hm | rfl | (simp [step, run, waitWitness, init, mainReturn, cancelAll]))
  have := hd.waitDone
  revert this
  decide

/-- guns: in a finished pool every created gun that is an `io.Closer` has been closed exactly once, and no other
gun has been "closed" -/
def C05_guns_closed_statement (cfg : Cfg) : Prop :=
  ∀ cs : List Choice, (run cfg cs).runC = true → Quiescent cfg (run cfg cs) →
    ∀ g ∈ (run cfg cs).guns, g.closes = if g.closable then 1 else 0

theorem C05_guns_closed (cfg : Cfg) (hw : cfg.fixWaitDone = true) (hc : cfg.fixClose = true) :
    C05_guns_closed_statement cfg := by
  intro cs hr hq g hg
  have hd := (C05_wait_returns cfg hw cs hr hq).guns g hg
  obtain ⟨h1, h2, h3⟩ := hd
  cases hcl : g.closable with
  | true => simp [h3 hc hcl]
  | false => simp [h2 hcl]

/-- the tree as found: a clean run; the warm-up gun is never closed -/
def gunWitness : List Choice :=
  [.warm (.ok true), .sched none, .startEnd, .awaitStart, .provRet .ok, .awaitProv, .aggRet .ok, .awaitAgg, .mainClosed]

theorem C05_guns_closed_counterexample : ¬ C05_guns_closed_statement { Cfg.repaired with fixClose := false } := by
  intro h
  have := h gunWitness (by decide) (by
    intro c hm
    cases c <;> first | exact False.elim hm | rfl | (simp [step, run, gunWitness, init, mainReturn, cancelAll, handleRes, afterErr, checkAll, finish, Ret.isCtxError]))
    ⟨true, 0⟩ (by decide)
  revert this
  decide

/-- at any moment and in every variant: no gun is closed twice, a gun that is no `io.Closer` is never closed, and a
gun still owned by a running instance is not closed -/
theorem C05_guns_never_closed_twice (cfg : Cfg) (cs : List Choice) :
    ∀ g ∈ (run cfg cs).guns, g.closes ≤ 1 ∧ (g.closable = false → g.closes = 0) := by
  intro g hg
  have hi := run_invG cfg cs
  simp only [State.guns, List.mem_append, Option.mem_toList, List.mem_filterMap] at hg
  rcases hg with (hg | hg) | ⟨i, hi1, hi2⟩
  · exact ⟨(hi.warm1 g hg).1, (hi.warm1 g hg).2.1⟩
  · exact ⟨(hi.ret1 g hg).1, (hi.ret1 g hg).2.1⟩
  · have := hi.live0 i hi1 g hi2
    omega

/-- `Engine.Wait` does not return EARLY: `onWaitDone` is called only when nothing the pool has started is still at
work - no instance goroutine, no unread run result, the provider and the aggregator have returned and their results
were read (or they were never started), the start goroutine has ended - in every variant, with no assumption. -/
theorem C05_wait_not_early (cfg : Cfg) (cs : List Choice) :
    (run cfg cs).waitDone = 1 →
      (run cfg cs).live = [] ∧ (run cfg cs).buf = [] ∧
      ((run cfg cs).prov = .idle ∨ (run cfg cs).prov = .taken) ∧ ((run cfg cs).agg = .idle ∨ (run cfg cs).agg = .taken) ∧
      ((run cfg cs).startPc = .idle ∨ ((run cfg cs).startPc = .done ∧ (run cfg cs).startTaken = true)) := by
  intro hwd
  obtain ⟨hW, _, _⟩ := run_invA cfg cs
  generalize run cfg cs = s at *
  have hnb : ¬ AwBusy s := fun hb => by have := hW.wd0 hb; omega
  cases haw : s.aw with
  | off =>
    obtain ⟨h1, h2, h3, h4, h5, _⟩ := hW.pre haw
    exact ⟨h4, h5, Or.inl h1, Or.inl h2, Or.inl h3⟩
  | loop => exact absurd (Or.inl haw) hnb
  | onErr w r c => exact absurd (Or.inr ⟨w, r, c, haw⟩) hnb
  | finished =>
    have hne : s.aw ≠ .off := by simp [haw]
    have htw := hW.toWait hne
    rw [hW.fin haw] at htw
    have hc : (s.prov = .taken ∧ s.agg = .taken) ∧ s.startTaken = true ∧ s.runResOpen = false := by
      simp only [cnt] at htw
      refine ⟨⟨?_, ?_⟩, ?_, ?_⟩ <;> grind
    have hcl := hW.closedRun hne hc.2.2
    have hsd : s.startPc = .done := hW.startDone.2 (hW.taken hc.2.1).1
    exact ⟨hcl.2.1, hcl.2.2, Or.inr hc.1.1, Or.inr hc.1.2, Or.inr ⟨hsd, hc.2.1⟩⟩

-- non-vacuity: a failed run whose tasks have all been awaited in the background
example :
    (run Cfg.repaired [.warm (.ok true), .sched none, .provRet (.err 1), .awaitProv, .errDeliver,
      .aggRet .ctx, .awaitAgg, .startEnd, .awaitStart]).waitDone = 1 ∧
    (run Cfg.repaired [.warm (.ok true), .sched none, .provRet (.err 1), .awaitProv, .errDeliver,
      .aggRet .ctx, .awaitAgg]).waitDone = 0 := by decide

/-- A nil result of `Pool.Run` means the pool is completely finished — with NO fairness or contract assumption:
all four results were awaited (so every started instance has returned and its result was consumed, the provider and the
aggregator have returned, the start goroutine has ended), `onWaitDone` was called exactly once, and every gun created
(warm-up gun included) is accounted for: closed exactly once if it is an `io.Closer` (with `fixClose`). This is the
"successful run awaits all started tasks" the comment of `Engine.Wait` relies on. -/
theorem C05_success_is_done (cfg : Cfg) (cs : List Choice) :
    (run cfg cs).result = some .ok → Done cfg (run cfg cs) := by
  intro hr
  have hm : (run cfg cs).main = .returned .ok := by
    simp only [State.result] at hr
    split at hr
    · rename_i r' hm; cases hr; exact hm
    · cases hr
  exact done_of_ok cfg _ (run_invA cfg cs) (run_invB cfg cs) (run_invG cfg cs) hm

/-- A run ALWAYS terminates — also when nobody cancels it: under the finite-input contract `MustFin` (`Must`, and the
startup schedule ends, and every `instance.Run` returns because ammo and schedules are finite) a state in which no
step that is bound to happen can change anything is a finished pool. Unlike `C05_wait_returns` this does not assume
the run context cancelled: that the engine cancels it itself once the last instance result is awaited is part of the
proof (`runC_of_quiescentFin`). -/
def C05_run_terminates_statement (cfg : Cfg) : Prop :=
  ∀ cs : List Choice, QuiescentFin cfg (run cfg cs) → Done cfg (run cfg cs)

theorem C05_run_terminates (cfg : Cfg) (hfix : cfg.fixWaitDone = true) : C05_run_terminates_statement cfg := by
  intro cs hq
  exact progress_fin cfg hfix _ (run_invA cfg cs) (run_invG cfg cs) (run_invR cfg cs) hq

/-- … and in such a state the run context is cancelled, so `C05_background_terminates` bounds the way there from the
moment the last instance result was awaited -/
theorem C05_run_terminates_cancels (cfg : Cfg) (cs : List Choice) :
    QuiescentFin cfg (run cfg cs) → (run cfg cs).runC = true :=
  runC_of_quiescentFin cfg _ (run_invA cfg cs) (run_invG cfg cs) (run_invR cfg cs)

/-- "if the caller cancels a run that is still in progress it returns the cancellation error": as a statement about
`Pool.Run` alone this is FALSE for the code (every variant): when the cancel arrives while a component error is being
handed over, or while the await goroutine is closing `awaitErr`, the final `select` of `Pool.Run` has two ready cases and
Go picks one at random. -/
def C05_cancel_result_statement (cfg : Cfg) : Prop :=
  ∀ cs : List Choice, ∀ r, (run cfg cs).result = some r → (run cfg cs).extAtReturn = true → r = .ctx

/-- the caller cancels while the provider's error waits in `onErrAwaited`; the select takes the error -/
def cancelFailWitness : List Choice :=
  [.warm (.ok true), .sched none, .provRet (.err 1), .awaitProv, .extCancel, .errDeliver]

/-- the caller cancels at the moment the last result was awaited; the select takes the closed channel -/
def cancelOkWitness : List Choice :=
  [.warm (.ok true), .sched none, .startEnd, .awaitStart, .provRet .ok, .awaitProv, .aggRet .ok, .awaitAgg, .extCancel,
   .mainClosed]

theorem C05_cancel_result_counterexample (cfg : Cfg) : ¬ C05_cancel_result_statement cfg := by
  intro h
  have := h cancelFailWitness (.fail .provider (.err 1)) (by cases cfg; rfl) (by cases cfg; rfl)
  cases this

/-- what does hold after a caller's cancel, for `Pool.Run`: the result is the cancellation error, or a nil result of
a pool that is completely finished (`Done`: it was not "still in progress"), or a failure whose cause is a real
component error. `Engine.Run` turns the last kind into the cancellation error (`C05_engine_cancelled`). -/
theorem C05_cancel_result_partial (cfg : Cfg) (cs : List Choice) (r : PRes) :
    (run cfg cs).result = some r → (run cfg cs).extAtReturn = true →
      r = .ctx ∨ (r = .ok ∧ Done cfg (run cfg cs)) ∨ ∃ w e, r = .fail w (.err e) ∧ e ∈ (run cfg cs).compErrs := by
  intro hr _
  cases r with
  | ctx => exact Or.inl rfl
  | ok => exact Or.inr (Or.inl ⟨rfl, C05_success_is_done cfg cs hr⟩)
  | fail w c =>
    obtain ⟨e, hc, he⟩ := C05_failure_cause cfg cs w c hr
    exact Or.inr (Or.inr ⟨w, e, by rw [hc], he⟩)

/-! ### `Engine.Run` over several pools -/

/-- the engine succeeds only if it consumed a nil result from each of its `n` pools -/
theorem C05_engine_ok (n : Nat) (evs : List EEv) :
    engRun n evs = some .ok → n ≤ evs.length ∧ ∀ e ∈ evs.take n, ∃ id d, e = .pool id .ok d := by
  induction n generalizing evs with
  | zero => intro _; simp
  | succ n ih =>
    intro h
    cases evs with
    | nil => simp [engRun] at h
    | cons e rest =>
      cases e with
      | ctxDone => simp [engRun] at h
      | pool id r d =>
        simp only [engRun] at h
        split at h
        · rename_i hr
          obtain ⟨h1, h2⟩ := ih rest h
          refine ⟨by simp; omega, ?_⟩
          intro e he
          simp only [List.take_succ_cons, List.mem_cons] at he
          rcases he with he | he
          · exact ⟨id, d, by rw [he, hr]⟩
          · exact h2 e he
        · split at h <;> cases h

/-- an engine failure is the failure of one of its pools (first error wins), never invented -/
theorem C05_engine_fail (n : Nat) (evs : List EEv) (id : Nat) (r : PRes) :
    engRun n evs = some (.fail id r) → r ≠ .ok ∧ .pool id r false ∈ evs := by
  induction n generalizing evs with
  | zero => intro h; simp [engRun] at h
  | succ n ih =>
    intro h
    cases evs with
    | nil => simp [engRun] at h
    | cons e rest =>
      cases e with
      | ctxDone => simp [engRun] at h
      | pool id' r' d =>
        simp only [engRun] at h
        split at h
        · obtain ⟨h1, h2⟩ := ih rest h
          exact ⟨h1, List.mem_cons_of_mem _ h2⟩
        · rename_i hr
          split at h
          · cases h
          · rename_i hd
            cases h
            have : d = false := by simpa using hd
            subst this
            exact ⟨hr, List.mem_cons_self⟩

/-- the engine returns the cancellation error only if it saw its context done -/
theorem C05_engine_ctx (n : Nat) (evs : List EEv) :
    engRun n evs = some .ctx → .ctxDone ∈ evs ∨ ∃ id r, .pool id r true ∈ evs := by
  induction n generalizing evs with
  | zero => intro h; simp [engRun] at h
  | succ n ih =>
    intro h
    cases evs with
    | nil => simp [engRun] at h
    | cons e rest =>
      cases e with
      | ctxDone => exact Or.inl List.mem_cons_self
      | pool id' r' d =>
        simp only [engRun] at h
        split at h
        · rcases ih rest h with h1 | ⟨id, r, h1⟩
          · exact Or.inl (List.mem_cons_of_mem _ h1)
          · exact Or.inr ⟨id, r, List.mem_cons_of_mem _ h1⟩
        · split at h
          · rename_i hd
            subst hd
            exact Or.inr ⟨id', r', List.mem_cons_self⟩
          · cases h

/-- after a cancel of the engine's context `Engine.Run` never reports a pool failure: it returns the cancellation
error, or nil when every pool had already delivered a nil result (`EngCancelled`: whenever the non-blocking check after a
pool error looks at the context, it is done) -/
theorem C05_engine_cancelled (n : Nat) (evs : List EEv) (res : ERes) :
    EngCancelled evs → engRun n evs = some res → res = .ctx ∨ res = .ok :=
  fun hc h => engRun_cancelled n evs hc res h

/-- the whole engine: `n` pools, pool `i` executing `pools i`, each pool goroutine sending at most one result
(`Nodup`), every result event being the result of its pool. If `Engine.Run` returns nil then EVERY pool returned nil,
every pool is completely finished (`Done`: all instances, provider, aggregator stopped, `onWaitDone` called, guns
closed), and — unless the caller had cancelled that pool — no component of any pool had failed. -/
theorem C05_engine_success_all_pools (cfg : Cfg) (hfix : cfg.fixSelect = true) (n : Nat) (pools : Nat → List Choice)
    (evs : List EEv)
    (hid : ∀ id r d, EEv.pool id r d ∈ evs → id < n ∧ (run cfg (pools id)).result = some r)
    (hnd : (evs.filterMap EEv.poolId).Nodup) (hok : engRun n evs = some .ok) :
    ∀ i, i < n → (run cfg (pools i)).result = some .ok ∧ Done cfg (run cfg (pools i)) ∧
      ((run cfg (pools i)).extAtReturn = false → (run cfg (pools i)).errsAtReturn = []) := by
  intro i hi
  obtain ⟨d, hmem⟩ := engRun_ok_all n evs (fun id r d h => (hid id r d h).1) hnd hok i hi
  have hr := (hid i .ok d hmem).2
  exact ⟨hr, C05_success_is_done cfg _ hr, C05_success_only_if_clean cfg hfix _ hr⟩

/-- `Engine.Wait`: the engine adds one to its `WaitGroup` per pool and hands `Done` to the pool as `onWaitDone`
(`Bridge.C05Engine.engineRun_pool_start`, `newPool_waitDone`). The counter never goes negative (no "negative WaitGroup
counter" panic, every variant), and it is zero — `Engine.Wait` returns — once every pool is `Done`. -/
theorem C05_engine_wait (cfg : Cfg) (pools : List (List Choice)) :
    (wgCounter (pools.map (run cfg))).isSome = true ∧
    ((∀ cs ∈ pools, Done cfg (run cfg cs)) → wgCounter (pools.map (run cfg)) = some 0) := by
  have hle : waitDoneSum (pools.map (run cfg)) ≤ (pools.map (run cfg)).length :=
    waitDoneSum_le _ (by
      intro s hs
      obtain ⟨cs, _, rfl⟩ := List.mem_map.1 hs
      exact (C05_wait_done_at_most_once cfg cs).1)
  refine ⟨by unfold wgCounter; rw [if_pos hle]; rfl, ?_⟩
  intro hd
  have heq : waitDoneSum (pools.map (run cfg)) = (pools.map (run cfg)).length :=
    waitDoneSum_eq _ (by
      intro s hs
      obtain ⟨cs, hcs, rfl⟩ := List.mem_map.1 hs
      exact (hd cs hcs).waitDone)
  unfold wgCounter
  rw [if_pos (Nat.le_of_eq heq), heq, Nat.sub_self]

/-! ### the source as it is now (regenerated into `Pandora.Gen.C05Engine` on every run)

`Bridge.C05Engine.srcCfg` is the code variant read off the CURRENT source: which context the select of
`onErrAwaited` listens on, whether the `runAsync` failure path of `instancePool.Run` calls `onWaitDone`, whether the
warm-up gun and a gun whose `Bind` failed are closed. The theorems above are instantiated at it, so reverting one of the
repairs (or any change of the regenerated paths that makes a hypothesis false) breaks an obligation here. -/

/-- the current source is the repaired variant of the model -/
theorem C05_source_variant : Bridge.C05Engine.srcCfg = Cfg.repaired := Bridge.C05Engine.srcCfg_repaired

theorem C05_source_no_swallow : C05_no_swallow_statement Bridge.C05Engine.srcCfg :=
  C05_no_swallow _ (by decide)

theorem C05_source_wait_returns : C05_wait_returns_statement Bridge.C05Engine.srcCfg :=
  C05_wait_returns _ (by decide)

theorem C05_source_guns_closed : C05_guns_closed_statement Bridge.C05Engine.srcCfg :=
  C05_guns_closed _ (by decide) (by decide)

theorem C05_source_run_terminates : C05_run_terminates_statement Bridge.C05Engine.srcCfg :=
  C05_run_terminates _ (by decide)

/-- how the CLI reports the outcome (cli/cli.go, regenerated): `runEngine` forwards the result of `Engine.Run`; nil
ends the process normally; any error cancels the run context, waits for the engine's tasks (`Engine.Wait`) and then
exits through `log.Fatal` (status 1) — in that order -/
theorem C05_cli_reports_outcome :
    Gen.C05Engine.cliRunEngine.all (fun p => (p.after (.call "Run")).contains (.send "‹arg2›")) = true ∧
    Gen.C05Engine.cliEngineReturned.map (fun p => (p.head?, p.filter (fun e => match e with | .call _ => true | _ => false))) =
      [(some (.swc "‹rx:arg2@2›=nil"), []),
       (some (.swc "‹rx:arg2@2›=‹rx:arg2@2›"), [.call "‹arg1›", .call "Wait", .call "Fatal"]),
       (some (.swc "‹rx:arg2@2›=<none>"), [])] :=
  ⟨Bridge.C05Engine.cli_forwards, Bridge.C05Engine.cli_outcomes⟩

/-- `errutil.IsCtxError` as regenerated from the source: nil, or the error's cause is the `Err()` of THIS context —
never "some context-kind error" — and under the abstraction `absRet` of Go errors it is the predicate the model uses -/
theorem C05_is_ctx_error_exact (c : Option CtxKind) (e : Option GoErr) :
    Gen.C05Engine.isCtxError c e = isCtxErrorSpec c e ∧
    Gen.C05Engine.isCtxError c e = (absRet c e).isCtxError c.isSome :=
  ⟨Bridge.C05Engine.isCtxError_spec c e, Bridge.C05Engine.isCtxError_abs c e⟩

/-- a component failure whose cause is the component's own deadline is forwarded, also after the engine has cancelled
its run context (whose error is `context.Canceled`) -/
example : Gen.C05Engine.isCtxError (some .canceled) (some (.ctxKind .deadlineExceeded)) = false := by decide
example : absRet (some .canceled) (some (.ctxKind .deadlineExceeded)) = .err 1001 := by decide
example : absRet (some .canceled) (some (.ctxKind .canceled)) = .ctx := by decide

/-- Nobody but the caller, the return of `Pool.Run` and the await loop (after EVERY started instance was awaited)
cancels the run context. So an instance that is still running sees its context cancelled only after the caller's cancel
or after `Pool.Run` has returned something other than success: in a run nobody cancels that ends successfully no
instance is ever stopped by a cancelled context (every variant). -/
theorem C05_instance_cancelled_only_after (cfg : Cfg) (cs : List Choice) (i : Nat) (x : Inst) :
    (run cfg cs).live[i]? = some x → (run cfg cs).runC = true →
      (run cfg cs).extC = true ∨ ∃ r, (run cfg cs).main = .returned r ∧ r ≠ .ok := by
  intro hl hc
  rcases live_cancelled cfg cs i x hl hc with h | ⟨r, hr⟩
  · exact Or.inl h
  · refine Or.inr ⟨r, hr, ?_⟩
    intro hok
    subst hok
    have hd := C05_success_is_done cfg cs (by simp [State.result, hr])
    rw [hd.noInst] at hl
    simp at hl

-- non-vacuity: the caller cancels while an instance shoots: the instance may now return the context's error
example : (run Cfg.repaired [.warm (.ok true), .sched none, .startFirst (.ok true), .extCancel]).live[0]? = some ⟨0, some ⟨true, 0⟩⟩ ∧
    (run Cfg.repaired [.warm (.ok true), .sched none, .startFirst (.ok true), .extCancel]).runC = true := by decide
-- … whereas without a cancel `instRet 0 .ctx` is not enabled (the state does not change)
example : step Cfg.repaired (run Cfg.repaired [.warm (.ok true), .sched none, .startFirst (.ok true)]) (.instRet 0 .ctx) =
    run Cfg.repaired [.warm (.ok true), .sched none, .startFirst (.ok true)] := by decide

/-! ### the goroutines of `Engine.Run` (`Model.C05.Sys`): results in flight, the 1-slot channel, leaving through the
engine context — for ALL interleavings of any number of pools, whatever each `Pool.Run` returns and whenever -/

section Sys
open Pandora.Model.C05.Sys

/-- `Engine.Run` returns nil only if EVERY pool goroutine has delivered a nil result of its `Pool.Run` and has ended:
no pool is still running, none holds an undelivered result, none was suppressed -/
theorem C05_engine_sys_success_all_pools (cfg : EngCfg) (n : Nat) (cs : List EChoice) :
    (erun cfg n cs).result = some ERes.ok → ∀ p ∈ (erun cfg n cs).pools, p = PoolG.taken PRes.ok :=
  Proofs.C05.Sys.ok_all cfg n cs

/-- the cancellation error only after the caller's cancel; a pool failure is the real, non-nil result of that pool's
`Run`, and is reported only when the caller had not cancelled -/
theorem C05_engine_sys_outcome (cfg : EngCfg) (n : Nat) (cs : List EChoice) :
    ((erun cfg n cs).result = some ERes.ctx → (erun cfg n cs).extAtReturn = true ∧ (erun cfg n cs).extC = true) ∧
    (∀ i r, (erun cfg n cs).result = some (ERes.fail i r) →
      (erun cfg n cs).pools[i]? = some (PoolG.taken r) ∧ r ≠ PRes.ok ∧ (erun cfg n cs).extAtReturn = false) := by
  have hi := Proofs.C05.Sys.run_inv cfg n cs
  exact ⟨fun h => ⟨hi.retCtx h, hi.extMono (hi.retCtx h)⟩, hi.retFail⟩

/-- no pool goroutine is left behind: once `Engine.Run` has returned (its deferred `cancel()`), a goroutine whose
`Pool.Run` returns — now or later — can always leave through the engine context, whatever sits in the channel -/
def C05_engine_goroutines_exit_statement (cfg : EngCfg) : Prop :=
  ∀ (n : Nat) (cs : List EChoice) (i : Nat) (r : PRes),
    (erun cfg n cs).result.isSome = true → (erun cfg n cs).pools[i]? = some (PoolG.done r) →
      (estep cfg (erun cfg n cs) (.suppress i)).pools[i]? = some (PoolG.suppressed r)

theorem C05_engine_goroutines_exit (cfg : EngCfg) (h : cfg.sendSelects = true) : C05_engine_goroutines_exit_statement cfg :=
  fun n cs i r hres hp => Proofs.C05.Sys.suppress_enabled cfg h n cs i r hres hp

/-- three pools, the first fails and is consumed, the second's result fills the channel: the third goroutine -/
def leakWitness : List EChoice :=
  [.poolRet 0 (.fail .provider (.err 1)), .send 0, .recv, .poolRet 1 .ok, .send 1, .poolRet 2 .ok]

/-- a pool goroutine that sends unconditionally: with three pools one of them blocks forever on the full channel -/
theorem C05_engine_goroutines_exit_counterexample : ¬ C05_engine_goroutines_exit_statement ⟨false, true⟩ := by
  intro h
  have := h 3 leakWitness 2 .ok (by decide) (by decide)
  revert this
  decide

-- … and there neither the send nor the context case can fire: the goroutine is stuck
example : estep ⟨false, true⟩ (erun ⟨false, true⟩ 3 leakWitness) (.send 2) = erun ⟨false, true⟩ 3 leakWitness ∧
    estep ⟨false, true⟩ (erun ⟨false, true⟩ 3 leakWitness) (.suppress 2) = erun ⟨false, true⟩ 3 leakWitness := by decide
-- the code: the same execution, the third goroutine leaves
example : (estep EngCfg.code (erun EngCfg.code 3 leakWitness) (.suppress 2)).pools[2]? = some (PoolG.suppressed .ok) := by decide
-- two clean pools
example : (erun EngCfg.code 2 [.poolRet 1 .ok, .send 1, .recv, .poolRet 0 .ok, .send 0, .recv]).result = some ERes.ok := by decide
-- the caller cancels while a failure is in the channel: the cancellation error
example : (erun EngCfg.code 2 [.poolRet 1 (.fail .provider (.err 1)), .send 1, .extCancel, .recv]).result = some ERes.ctx := by decide

/-- "… it returns the cancellation error PROMPTLY": after the caller's cancel the goroutine of `Engine.Run` needs ONE
step of its own - the `ctx.Done()` case of the select of its result loop, which is ready - whatever the pools are
doing: a pool goroutine that is `running` may be anywhere inside `pool.Run`, also inside `warmUpGun`, the gun factory or
the shared schedule factory, i.e. before `Pool.Run` looks at its context for the first time, and nothing here waits for
it (`poolRet` is never needed). -/
def C05_engine_cancel_prompt_statement (cfg : EngCfg) : Prop :=
  ∀ (n : Nat) (cs : List EChoice), (erun cfg n cs).extC = true → (erun cfg n cs).result = none →
    (estep cfg (erun cfg n cs) .mainCtx).result = some ERes.ctx

theorem C05_engine_cancel_prompt (cfg : EngCfg) (h : cfg.mainSelects = true) : C05_engine_cancel_prompt_statement cfg :=
  fun n cs hext hres => Proofs.C05.Sys.mainCtx_enabled cfg h n cs hext hres

/-- a result loop that reads with a plain receive (and notices the cancel through the pool results only): one pool
that is still inside its warm-up when the caller cancels -/
theorem C05_engine_cancel_prompt_counterexample : ¬ C05_engine_cancel_prompt_statement ⟨true, false⟩ := by
  intro h
  have := h 1 [.extCancel] (by decide) (by decide)
  revert this
  decide

/-- … and in that variant `Engine.Run` has no step of its own at all while every pool is inside its `Run`: it returns
only when a component call it knows nothing about comes back -/
theorem C05_engine_plain_receive_waits (cfg : EngCfg) (h : cfg.mainSelects = false) (n : Nat) (cs : List EChoice)
    (hall : ∀ p ∈ (erun cfg n cs).pools, p = PoolG.running) (c : EChoice) (hc : c.isMain = true) :
    estep cfg (erun cfg n cs) c = erun cfg n cs :=
  Proofs.C05.Sys.plain_receive_stuck cfg h n cs hall c hc

-- non-vacuity: two pools, the caller cancels while both are inside `pool.Run` (say: one in its warm-up, one shooting)
example : (erun EngCfg.code 2 [.extCancel]).extC = true ∧ (erun EngCfg.code 2 [.extCancel]).result = none ∧
    (estep EngCfg.code (erun EngCfg.code 2 [.extCancel]) .mainCtx).result = some ERes.ctx := by decide
-- the plain-receive variant in the same state: neither step of the main loop is enabled; it goes on when a pool returns
example : estep ⟨true, false⟩ (erun ⟨true, false⟩ 2 [.extCancel]) .mainCtx = erun ⟨true, false⟩ 2 [.extCancel] ∧
    estep ⟨true, false⟩ (erun ⟨true, false⟩ 2 [.extCancel]) .recv = erun ⟨true, false⟩ 2 [.extCancel] ∧
    (erun ⟨true, false⟩ 2 [.extCancel, .poolRet 1 .ctx, .send 1, .recv]).result = some ERes.ctx := by decide

/-- `Pool.Run` ALONE is not prompt at every phase: "after the caller's cancel some step of the engine's own (a case of
one of its selects) makes `Pool.Run` return" is false - for every variant of the code - while `Pool.Run` is in
`warmUpGun` or in `runAsync` (gun factory, `WarmUp`, `Close` of the warm-up gun, the shared schedule factory): it
looks at its context for the first time in its final select.  There only the component's return (`warm`, `sched`)
moves it.  That is why the promptness of a run rests on `Engine.Run`'s own select (`C05_engine_cancel_prompt`). -/
def Choice.isEngine : Choice → Bool
  | .awaitProv | .awaitAgg | .awaitStart | .awaitRun | .errDeliver | .errSuppress | .mainCancel | .mainClosed => true
  | _ => false

def C05_pool_cancel_prompt_statement (cfg : Cfg) : Prop :=
  ∀ cs : List Choice, (run cfg cs).extC = true → (run cfg cs).result = none →
    ∃ c, Choice.isEngine c = true ∧ (step cfg (run cfg cs) c).result.isSome = true

theorem C05_pool_cancel_prompt_counterexample (cfg : Cfg) : ¬ C05_pool_cancel_prompt_statement cfg := by
  intro h
  obtain ⟨c, hc, hr⟩ := h [.extCancel] (by cases cfg; rfl) (by cases cfg; rfl)
  cases c <;> first | (simp [Choice.isEngine] at hc; done) | (revert hr; rcases cfg with ⟨_ | _, _ | _, _ | _⟩ <;> decide)

/-- what holds: once `Pool.Run` is in its final select the cancel case is ready (and before that it needs the
component calls of `warmUpGun` / `runAsync` to return, nothing else: `C05_cancel_returns`) -/
theorem C05_pool_cancel_prompt_partial (cfg : Cfg) (cs : List Choice) :
    (run cfg cs).extC = true → (run cfg cs).main = .selecting →
      ∃ c, Choice.isEngine c = true ∧ (step cfg (run cfg cs) c).result.isSome = true :=
  fun hext hm => ⟨.mainCancel, rfl, by rw [C05_cancel_prompt cfg cs hext hm]; rfl⟩

/-- the source as it is now selects (regenerated paths of `Engine.Run`) -/
theorem C05_source_engine_goroutines_exit : C05_engine_goroutines_exit_statement Bridge.C05Engine.srcEngCfg :=
  C05_engine_goroutines_exit _ (by decide)

/-- … in both places: the result loop of the source is a select with the engine context as its second case -/
theorem C05_source_engine_cancel_prompt : C05_engine_cancel_prompt_statement Bridge.C05Engine.srcEngCfg :=
  C05_engine_cancel_prompt _ (by decide)

end Sys

/-! ### the process: `cli.awaitPandoraTermination` (`Model.C05.Cli`), for every sequence of signals, results, timeouts -/

section Cli
open Pandora.Model.C05.Cli

/-- the process ends with status 0 exactly when the first thing it meets is a nil result of `Engine.Run`: never after
a failure of the run, never after a signal it has acted on -/
theorem C05_cli_exit_zero_iff (evs : List Cli.Ev) : Act.exit 0 ∈ run evs ↔ ∃ rest, evs = .err true :: rest :=
  Proofs.C05.Cli.exit_zero_iff evs

/-- every other exit comes after the run context was cancelled (`gracefulShutdown`) and after `Engine.Wait` has
returned — all started instances, providers, aggregators have stopped — unless a timeout fired (30 s / 3 s), a second
signal arrived, or the signal was neither SIGINT nor SIGTERM -/
theorem C05_cli_exit_after_shutdown_and_wait (evs : List Cli.Ev) (h : Act.exit 1 ∈ run evs) :
    (Act.shutdown ∈ run evs ∨ evs.head? = some (Cli.Ev.sig .other)) ∧
    (Act.waited ∈ run evs ∨ Cli.Ev.timeout ∈ evs ∨ 2 ≤ evs.countP isSig ∨ Cli.Ev.sig .other ∈ evs) :=
  ⟨Proofs.C05.Cli.exit_after_shutdown evs h, Proofs.C05.Cli.exit_waits evs h⟩

/-- the model is the reading of the regenerated paths of both cases of the outer select of `awaitPandoraTermination` -/
theorem C05_cli_model_is_source :
    (Gen.C05Engine.cliEngineReturned.filter (fun p => p.head? != some (.swc "‹rx:arg2@2›=<none>"))).all
      (fun p => run (Bridge.C05Engine.cliEvs p) == Bridge.C05Engine.cliActs p) = true ∧
    Gen.C05Engine.cliSignalled.all
      (fun p => (run (Bridge.C05Engine.cliEvs p)).filter (· != .rcv) == Bridge.C05Engine.cliActs p) = true :=
  ⟨Bridge.C05Engine.cli_returned_model, Bridge.C05Engine.cli_signalled_model⟩

-- a failed run: shutdown, wait, exit 1 after the tasks have stopped
example : run [.err false, .waitDone] = [.shutdown, .wait, .waited, .exit 1] := by decide
-- SIGINT while the run is in progress: acknowledged, the run is cancelled, its result and the tasks are awaited
example : run [.sig .int, .err false, .waitDone] = [.rcv, .shutdown, .wait, .waited, .exit 1] := by decide
-- the hypotheses of `C05_cli_exit_after_shutdown_and_wait` are met, with `waited`
example : Act.exit 1 ∈ run [.sig .term, .err false, .waitDone] ∧ Act.waited ∈ run [.sig .term, .err false, .waitDone] := by decide
-- a component that ignores the cancel past the timeout: the only way out without `waited`
example : run [.sig .term, .err false, .timeout] = [.rcv, .shutdown, .wait, .exit 1] := by decide

end Cli

/-! ### non-vacuity: concrete executions that meet the hypotheses -/

/-- repaired tree, the execution of `swallowWitness` up to the provider error: the awaiter is blocked in
`onErrAwaited` and can NOT take the suppress branch; delivering the error makes `Pool.Run` fail with it -/
def deliverWitness : List Choice :=
  [.warm (.ok true), .sched none, .startFirst (.ok true), .startEnd, .instRet 0 .ooa, .awaitRun, .awaitStart,
   .aggRet .ok, .awaitAgg, .provRet (.err 1), .awaitProv]

example : step Cfg.repaired (run Cfg.repaired deliverWitness) .errSuppress = run Cfg.repaired deliverWitness := by decide
example : (run Cfg.repaired (deliverWitness ++ [.errDeliver])).result = some (.fail .provider (.err 1)) ∧
    (run Cfg.repaired (deliverWitness ++ [.errDeliver])).extAtReturn = false ∧
    (run Cfg.repaired (deliverWitness ++ [.errDeliver])).errsAtReturn = [1] := by decide
-- the same choices on the tree as found: success with a failed provider
example : (run { Cfg.repaired with fixSelect := false } swallowWitness).result = some .ok ∧
    (run { Cfg.repaired with fixSelect := false } swallowWitness).errsAtReturn = [1] := by decide
-- clean run: success, `onWaitDone` once, all three guns (warm-up + 2 instances) closed once
def cleanWitness : List Choice :=
  [.warm (.ok true), .sched none, .startFirst (.ok true), .startTick, .startEnd, .instCreate 1 (.ok true),
   .instRet 0 .ooa, .instRet 0 .ok, .awaitRun, .awaitRun, .awaitStart, .aggRet .ok, .awaitAgg, .provRet .ok, .awaitProv,
   .mainClosed]
example : (run Cfg.repaired cleanWitness).result = some .ok ∧ (run Cfg.repaired cleanWitness).waitDone = 1 ∧
    (run Cfg.repaired cleanWitness).guns.map (·.closes) = [1, 1, 1] ∧ (run Cfg.repaired cleanWitness).runC = true := by
  decide
-- … and that final state is quiescent with the run context cancelled: the hypotheses of `C05_wait_returns` /
-- `C05_guns_closed` are met, and `mu` bounds what could still have happened
example : Quiescent Cfg.repaired (run Cfg.repaired cleanWitness) := by
  intro c hm
  cases c <;> first | exact False.elim hm | rfl | (simp [step, run, cleanWitness, init, mainReturn, cancelAll, handleRes, afterErr, checkAll, finish, Ret.isCtxError])
example : mu (run Cfg.repaired cleanWitness) = 1 := by decide
-- mid-run (two instances shooting, nothing returned yet) after the caller's cancel: 32 units of work are left
example : (run Cfg.repaired [.warm (.ok true), .sched none, .startFirst (.ok true), .startTick, .extCancel]).runC = true ∧
    mu (run Cfg.repaired [.warm (.ok true), .sched none, .startFirst (.ok true), .startTick, .extCancel]) = 32 := by decide
-- cancel while running: the select returns the cancellation error
example : (run Cfg.repaired [.warm (.ok true), .sched none, .startFirst (.ok true), .extCancel, .mainCancel]).result
    = some .ctx := by decide
-- schedule factory failure, repaired: `onWaitDone` is called on that path
example : (run Cfg.repaired waitWitness).waitDone = 1 ∧ (run Cfg.repaired waitWitness).runC = true := by decide
-- bind failure, repaired: the gun whose `Bind` failed is closed; tree as found: it is not
example : ((run Cfg.repaired [.warm (.ok true), .sched none, .startFirst (.bindFail 4 true)]).guns.map (·.closes)) = [1, 1] := by
  decide
example : ((run Cfg.current [.warm (.ok true), .sched none, .startFirst (.bindFail 4 true)]).guns.map (·.closes)) = [0, 0] := by
  decide
-- a panic at the third shot
example : instRun false [.shot, .shot, .shotPanic 7, .shot] = .err 7 := by decide
-- engine: two pools, the second fails first
example : engRun 2 [.pool 1 (.fail .provider (.err 1)) false, .pool 0 .ok false] = some (.fail 1 (.fail .provider (.err 1))) := by
  decide
example : engRun 2 [.pool 1 .ok false, .pool 0 .ok false] = some .ok := by decide
-- the hypotheses of `C05_engine_success_all_pools` are met by two clean pools whose results arrive in reverse order
example : ([EEv.pool 1 .ok false, EEv.pool 0 .ok false].filterMap EEv.poolId).Nodup := by decide
example : (run Cfg.repaired cleanWitness).result = some .ok := by decide
-- cancelled engine: a failed pool is reported as the cancellation
example : engRun 2 [.pool 1 (.fail .provider (.err 1)) true, .pool 0 .ok false] = some .ctx ∧
    EngCancelled [.pool 1 (.fail .provider (.err 1)) true, .pool 0 .ok false] := by
  refine ⟨by decide, ?_⟩
  intro id r d hm hr
  simp only [List.mem_cons, EEv.pool.injEq, List.not_mem_nil, or_false] at hm
  rcases hm with ⟨_, _, h⟩ | ⟨_, h, _⟩
  · exact h
  · exact absurd h hr
-- the two races of `C05_cancel_result_counterexample`, in the repaired variant
example : (run Cfg.repaired cancelFailWitness).result = some (.fail .provider (.err 1)) ∧
    (run Cfg.repaired cancelFailWitness).extAtReturn = true := by decide
example : (run Cfg.repaired cancelOkWitness).result = some .ok ∧ (run Cfg.repaired cancelOkWitness).extAtReturn = true := by
  decide
-- a run nobody cancels that is quiescent under the finite-input contract: the clean run above
example : QuiescentFin Cfg.repaired (run Cfg.repaired cleanWitness) := by
  intro c hm
  cases c <;> first | exact False.elim hm | rfl | (simp [step, run, cleanWitness, init, mainReturn, cancelAll, handleRes, afterErr, checkAll, finish, Ret.isCtxError])
-- … whereas mid-run (an instance still shooting, nobody cancelled) `instRet` is bound to happen and changes the state
example : ¬ QuiescentFin Cfg.repaired (run Cfg.repaired [.warm (.ok true), .sched none, .startFirst (.ok true)]) := by
  intro h
  have := h (.instRet 0 .ooa) trivial
  revert this
  decide
-- WaitGroup: two finished pools
example : wgCounter ([cleanWitness, waitWitness].map (run Cfg.repaired)) = some 0 := by decide


/-! ### how one instance ends (`Model.C05.Inst`: the loop of `instance.Run` over `coreutil.Waiter`) — for EVERY list of
passes: every moment of the cancel, every answer of the provider, any number of tokens other instances take from a
shared schedule in between, due / sleeping / overdue tokens, `discard_overflow` on or off, a panic in any shot -/

section Instance
open Pandora.Model.C05.Inst Pandora.Proofs.C05Inst

/-- "succeeds only if … ran out of ammo or schedule", instance level: `instance.Run` returns nil ONLY when its schedule
has no token left and the run context was not done when it was read last. -/
theorem C05_instance_ok_only_if_schedule_finished (discard : Bool) (s s' : St) (ps : List Pass) :
    loop discard s ps = (s', some .ok) → s'.left = 0 ∧ s'.ctx = false :=
  (run_spec discard ps s s').1

/-- … and it returns `outOfAmmoErr` ONLY when `provider.Acquire` said there is no ammo, while the context was live and
the schedule still had tokens. -/
theorem C05_instance_ooa_only_if_provider_dry (discard : Bool) (s s' : St) (ps : List Pass) :
    loop discard s ps = (s', some .ooa) → (∃ p ∈ ps, p.ammoOk = false) ∧ s'.ctx = false ∧ s'.left ≠ 0 :=
  (run_spec discard ps s s').2.1

/-- the context's error comes out only of a cancelled context -/
theorem C05_instance_ctx_only_if_cancelled (discard : Bool) (s s' : St) (ps : List Pass) :
    loop discard s ps = (s', some .ctx) → s'.ctx = true :=
  (run_spec discard ps s s').2.2.1

/-- any other error is the value of a shot's panic (the deferred `recover`) -/
theorem C05_instance_err_only_if_panic (discard : Bool) (s s' : St) (ps : List Pass) (e : ErrId) :
    loop discard s ps = (s', some (.err e)) → ∃ p ∈ ps, p.panics = some e :=
  (run_spec discard ps s s').2.2.2 e

/-- accounting, at every moment and however the loop ends (return, panic, cancel): every acquired ammo has been released;
shots fired and discarded never exceed the tokens taken, which never exceed what the schedule had; at most one ammo
is acquired beyond the tokens taken, and only in the pass that finds the schedule finished or the context done. -/
theorem C05_instance_accounting (discard : Bool) (n : Nat) (ps : List Pass) :
    let s' := (loop discard { left := n } ps).1
    s'.rel = s'.acq ∧ s'.shots + s'.disc ≤ s'.taken ∧ s'.taken + s'.left ≤ n ∧ s'.acq ≤ s'.taken + 1 := by
  have h := run_inv discard n ps { left := n } ⟨rfl, by simp, by simp, Or.inl (by simp)⟩
  refine ⟨h.balanced, h.fired, h.tokens, ?_⟩
  rcases h.ammo with h | h <;> omega

/-- an instance with a schedule of its own that nobody disturbs never acquires an ammo it has no token for
("not consume extra ammo on finish in case of per instance schedule"): acquired = tokens taken ≤ n. -/
theorem C05_instance_no_extra_ammo (discard : Bool) (n : Nat) (ps : List Pass) (hq : ∀ p ∈ ps, p.quiet) :
    (loop discard { left := n } ps).1.acq = (loop discard { left := n } ps).1.taken ∧
    (loop discard { left := n } ps).1.acq ≤ n := by
  have h1 := run_quiet discard ps { left := n } hq ⟨rfl, rfl⟩
  have h2 : (loop discard { left := n } ps).1.taken + (loop discard { left := n } ps).1.left ≤ n :=
    (C05_instance_accounting discard n ps).2.2.1
  exact ⟨h1, by omega⟩

/-- without the hypothesis the claim is false: with a SHARED schedule an instance may acquire an ammo for which the
others take the token between its `Left()` and its `Next()`; it releases that ammo unshot (true of the code: the comment in
instance.go promises "not consume extra ammo" only "in case of per instance schedule"); what holds in general is the bound
`acq ≤ taken + 1` of `C05_instance_accounting` -/
def C05_instance_no_extra_ammo_statement : Prop :=
  ∀ (discard : Bool) (n : Nat) (ps : List Pass),
    (loop discard { left := n } ps).1.acq ≤ (loop discard { left := n } ps).1.taken

theorem C05_instance_no_extra_ammo_counterexample : ¬ C05_instance_no_extra_ammo_statement := by
  intro h
  have := h false 3 [{}, { stolen2 := 2 }]
  revert this
  decide

theorem C05_instance_no_extra_ammo_partial (discard : Bool) (n : Nat) (ps : List Pass) :
    (loop discard { left := n } ps).1.acq ≤ (loop discard { left := n } ps).1.taken + 1 :=
  (C05_instance_accounting discard n ps).2.2.2

/-- termination: a loop over a schedule with `n` tokens returns within `n + 1` passes, whatever happens in them
(every pass that does not return takes a token or leaves nothing to come back for). -/
theorem C05_instance_terminates (discard : Bool) (n : Nat) (ps : List Pass) (h : n < ps.length) :
    (loop discard { left := n } ps).2.isSome = true := by
  apply run_terminates
  have : rank { left := n } ≤ n := by unfold rank; split <;> simp
  omega

/-- the instance theorems speak about the CURRENT source of `core/coreutil`: every regenerated path through
`Waiter.Wait` is one of the five ways of `waitOut` (and returns / takes a token as the model says: the context is
looked at before the schedule is asked), `IsFinished` is "context done, else `Left() == 0`", `IsSlowDown` is never true
under a done context, and the finish callback of the shared schedule fires exactly when the wrapped schedule says it is
finished; in the model a pass that reaches `Wait` takes a token, fires or discards exactly as `waitOut` says. -/
theorem C05_source_waiter_is_model (d : Bool) (s : St) (p : Pass)
    (h1 : Inst.isFinished (s.ctx || p.cancel1) (s.left - p.stolen) = false) (h2 : p.ammoOk = true) :
    (let w := waitOut (s.ctx || p.cancel1 || p.cancel2) (s.left - p.stolen - p.stolen2) p.due p.timerWins
     (pass d s p).1.taken = s.taken + (if w.takes then 1 else 0) ∧
     (pass d s p).1.shots + (pass d s p).1.disc = s.shots + s.disc + (if w.ok then 1 else 0) ∧
     (w.ok = false → (pass d s p).2 = none)) ∧
    [WaitOut.ctxAtEntry, .noToken, .due, .timer, .ctxAsleep].all
      (fun k => Pandora.Gen.C05Wait.wait.any (fun q => Pandora.Bridge.C05Wait.waitKind q == some k)) = true ∧
    Pandora.Gen.C05Wait.wait.all (fun q => match Pandora.Bridge.C05Wait.waitKind q with
      | some k => q.retText == Pandora.Bridge.C05Wait.boolText k.ok && (q.has (.cond "‹res0›") == k.takes)
      | none => false) = true := by
  have hw := pass_wait d s p h1 h2
  exact ⟨⟨hw.1, hw.2.1, hw.2.2.1⟩, Pandora.Bridge.C05Wait.wait_is_model.2, Pandora.Bridge.C05Wait.wait_is_model.1⟩

-- non-vacuity: a pass that reaches `Wait`
example : Inst.isFinished (({ left := 2 } : St).ctx || ({} : Pass).cancel1) (2 - 0) = false := by decide

-- non-vacuity: three tokens, plenty of ammo: three shots, then nil, nothing left
example : loop false { left := 3 } [{}, {}, {}, {}] =
    ({ left := 0, acq := 3, rel := 3, taken := 3, shots := 3 }, some .ok) := by decide
-- the provider runs dry at the third pass
example : (loop false { left := 3 } [{}, {}, { ammoOk := false }, {}]).2 = some .ooa := by decide
-- a shared schedule: the others take the last two tokens between `Left()` and `Next()`: ammo acquired, released, nil
example : loop false { left := 3 } [{}, { stolen2 := 2 }, {}] =
    ({ left := 0, acq := 2, rel := 2, taken := 1, shots := 1 }, some .ok) := by decide
-- the cancel arrives while the instance sleeps for its second token
example : (loop false { left := 5 } [{}, { due := false, timerWins := false }, {}]).2 = some .ctx := by decide
-- overdue tokens with discard_overflow: discarded instead of shot, the loop still ends by the schedule
example : loop true { left := 2 } [{ overdue := true }, { overdue := true }, {}] =
    ({ left := 0, acq := 2, rel := 2, taken := 2, disc := 2 }, some .ok) := by decide
-- a panic in the second shot: the ammo is released all the same
example : loop false { left := 5 } [{}, { panics := some 7 }, {}] =
    ({ left := 3, acq := 2, rel := 2, taken := 2, shots := 2 }, some (.err 7)) := by decide
-- `quiet` passes exist and the bound of `C05_instance_terminates` is sharp: n passes are not enough
example : ({} : Pass).quiet := by simp [Pass.quiet]
example : (loop false { left := 3 } [{}, {}, {}]).2 = none := by decide

end Instance

/-! ### round 6: what the return of `Engine.Run` does to the pools that are still running -/
section Sys2
open Pandora.Model.C05.Sys

/-- `Engine.Run` returning - with success, a pool failure or the cancellation error, after ANY interleaving - leaves the
engine context cancelled (its deferred `cancel()`); that context is the one every `pool.Run` was given and the one the
pool goroutines and the result loop select on (regenerated: `Bridge.C05Engine.engineRun_pool_start`, `engineRun_cancels`) -/
theorem C05_engine_return_cancels_context (ecfg : EngCfg) (n : Nat) (ecs : List EChoice)
    (h : (erun ecfg n ecs).result.isSome = true) : (erun ecfg n ecs).ctxDone = true :=
  (Proofs.C05.Sys.run_inv ecfg n ecs).ctxSome h

/-- COMPOSITION engine → pool: a pool that is still in progress - in ANY state `run cfg cs` - when `Engine.Run` returns
sees that cancel as the cancel of its parent context (`extCancel`): its run context is cancelled at once, of any
continuation at most `mu` steps change its state, and when nothing bound to happen is left the pool is `Done`
(`onWaitDone` called once, so `Engine.Wait` returns; no goroutine left; every gun accounted for) - nobody has to cancel
anything after `Engine.Run` returned -/
theorem C05_engine_return_stops_pools (ecfg : EngCfg) (n : Nat) (ecs : List EChoice) (cfg : Cfg)
    (hfix : cfg.fixWaitDone = true) (cs : List Choice) (hret : (erun ecfg n ecs).result.isSome = true) :
    (erun ecfg n ecs).ctxDone = true ∧
    (run cfg (cs ++ [.extCancel])).runC = true ∧
    (∀ ds, effSteps cfg (run cfg (cs ++ [.extCancel])) ds ≤ mu (run cfg (cs ++ [.extCancel]))) ∧
    (Quiescent cfg (run cfg (cs ++ [.extCancel])) → Done cfg (run cfg (cs ++ [.extCancel]))) := by
  have hr : (run cfg (cs ++ [.extCancel])).runC = true := by
    simp [run, List.foldl_append, step, cancelAll]
  exact ⟨C05_engine_return_cancels_context ecfg n ecs hret, hr,
    fun ds => C05_background_terminates cfg _ ds hr, fun hq => C05_wait_returns cfg hfix _ hr hq⟩

-- non-vacuity: two pools, the first fails, `Engine.Run` returns the failure while the second is still running
example : (erun EngCfg.code 2 [.poolRet 0 (.fail .provider (.err 1)), .send 0, .recv]).result =
    some (.fail 0 (.fail .provider (.err 1))) ∧
    (erun EngCfg.code 2 [.poolRet 0 (.fail .provider (.err 1)), .send 0, .recv]).pools[1]? = some .running := by decide
end Sys2

/-! ### round 6: the instance level composed with the pool level -/
section InstPool
open Pandora.Model.C05.Inst

/-- COMPOSITION instance → pool (the open point of round 4): the instance level says WHEN the loop of `instance.Run`
ends with an error - only through the panic of a shot (every list of passes, any schedule, any cancel) -, the pool
level says what that does to the run: once an instance that runs with its gun (`live[i] = ⟨id, some g⟩`) returns that
error, `Pool.Run` never returns success unless the caller cancelled, whatever happened before and happens afterwards -/
theorem C05_instance_panic_fails_pool (cfg : Cfg) (hfix : cfg.fixSelect = true) (pre post : List Choice)
    (discard : Bool) (st st' : St) (ps : List Pass) (e : ErrId) (i id : Nat) (g : Gun)
    (hloop : loop discard st ps = (st', some (.err e)))
    (hlive : (run cfg pre).live[i]? = some ⟨id, some g⟩) :
    (∃ p ∈ ps, p.panics = some e) ∧
    (let s := run cfg (pre ++ .instRet i (.err e) :: post)
     s.extC = false → s.result ≠ some .ok) := by
  refine ⟨C05_instance_err_only_if_panic discard st st' ps e hloop, ?_⟩
  intro s hext hres
  have h1 : (step cfg (run cfg pre) (.instRet i (.err e))).compErrs ≠ [] := by
    simp only [step, hlive]
    rw [if_neg (by simp)]
    rw [ce_sendRes]
    simp only [addErr]
    intro hh
    exact absurd (List.append_eq_nil_iff.1 hh).2 (by simp)
  have h2 : s.compErrs ≠ [] := by
    show (run cfg (pre ++ .instRet i (.err e) :: post)).compErrs ≠ []
    unfold run
    rw [List.foldl_append, List.foldl_cons]
    exact compErrs_run cfg post _ h1
  have hm : s.main = .returned .ok := by
    simp only [State.result] at hres
    split at hres
    · rename_i r hm; cases hres; exact hm
    · cases hres
  rcases C05_error_pending_or_failed cfg hfix _ hext h2 with h | ⟨h, _⟩
  · rw [hm] at h; cases h
  · rw [hm] at h; cases h

-- non-vacuity: the second shot of an instance panics; in the pool that instance is live with its gun
example : loop false { left := 5 } [{}, { panics := some 7 }, {}] =
    ({ left := 3, acq := 2, rel := 2, taken := 2, shots := 2 }, some (.err 7)) := by decide
example : (run Cfg.repaired [.warm (.ok true), .sched none, .startFirst (.ok true)]).live[0]? =
    some ⟨0, some ⟨true, 0⟩⟩ := by decide
example : (run Cfg.repaired ([.warm (.ok true), .sched none, .startFirst (.ok true)] ++ .instRet 0 (.err 7) ::
    [.awaitRun, .errDeliver])).result = some (.fail (.instance 0) (.err 7)) := by decide
end InstPool

/-! ### round 6: the ammo provider behind `Choice.provRet` (`Model/C05Prov.lean`), and its composition with the pool -/
section Provider
open Pandora.Model.C05.Prov

/-- `JSONAmmoDecoder.Decode` answers `io.EOF` itself - the only answer `DecodeProvider.Run` takes for the regular end of
the ammo - only when no value starts where it stands and the source has ended: at an ammo boundary, in EVERY situation
of the decoder -/
theorem C05_json_eof_only_at_boundary (d : DecIn) (h : jsonDecode d = .eof) :
    d.noValue = true ∧ d.readErr0 = some true := jsonDecode_eof d h

/-- an ammo that the end of the source cuts short is `ammo is truncated` (an error), never the end of the ammo -/
theorem C05_json_truncated_is_error (d : DecIn) (h0 : d.noValue = false) (hp : d.parseFails = true)
    (h1 : d.readErr1 = some true) : jsonDecode d = .unexpectedEof ∧ jsonDecode d ≠ .eof ∧ jsonDecode d ≠ .ok := by
  rw [jsonDecode_truncated d h0 hp h1]; exact ⟨rfl, by decide, by decide⟩

/-- `DecodeProvider.Run` returns nil ONLY at a regular end: source and decoder were there, every answer before was an
ammo, and then the limit was reached, or the decoder said `io.EOF` itself, or the context was done at a send - for
every list of decoder answers, every limit, every moment of the cancel -/
theorem C05_provider_nil_only_at_regular_end (s : Src) (ctxAt : Option Nat) (ds : List DecRes) (o : Out)
    (h : decodeRun s ctxAt ds = some o) (hn : o.res = .nil) :
    s.openOk = true ∧ s.decoderOk = true ∧ (∀ j, j < o.sent → ds[j]? = some .ok) ∧
    ((s.limit ≠ 0 ∧ s.limit ≤ o.sent) ∨ ds[o.sent]? = some .eof ∨ (ctxAt = some o.sent ∧ ds[o.sent]? = some .ok)) := by
  unfold decodeRun at h
  cases ho : s.openOk with
  | false => simp [ho] at h; subst h; cases hn
  | true =>
    cases hd : s.decoderOk with
    | false => simp [ho, hd] at h; subst h; cases hn
    | true =>
      simp only [ho, hd, Bool.not_true, Bool.false_eq_true, if_false, Option.map_eq_some_iff] at h
      obtain ⟨⟨r, n⟩, hl, rfl⟩ := h
      simp only at hn
      subst hn
      obtain ⟨_, h2, h3⟩ := runLoop_nil s.limit ctxAt ds 0 n hl
      exact ⟨rfl, rfl, by simpa using h2, by simpa using h3⟩

/-- … and when it fails in the loop, the error it returns IS the decoder's answer at that ammo (wrapped, never
dropped, never replaced), which was neither an ammo nor `io.EOF` -/
theorem C05_provider_error_is_cause (s : Src) (ctxAt : Option Nat) (ds : List DecRes) (o : Out) (i : Nat) (e : DecRes)
    (h : decodeRun s ctxAt ds = some o) (he : o.res = .decodeFailed i e) :
    ds[i]? = some e ∧ e ≠ .ok ∧ e ≠ .eof ∧ o.sent = i := by
  unfold decodeRun at h
  cases ho : s.openOk with
  | false => simp [ho] at h; subst h; cases he
  | true =>
    cases hd : s.decoderOk with
    | false => simp [ho, hd] at h; subst h; cases he
    | true =>
      simp only [ho, hd, Bool.not_true, Bool.false_eq_true, if_false, Option.map_eq_some_iff] at h
      obtain ⟨⟨r, n⟩, hl, rfl⟩ := h
      simp only at he
      subst he
      obtain ⟨h1, _, h3, h4, h5⟩ := runLoop_err s.limit ctxAt ds 0 n i e hl
      exact ⟨by simpa using h3, h4, h5, h1⟩

/-- a broken source fails the provider: `j` ammo, then an answer that is neither an ammo nor `io.EOF` (a truncated ammo,
a read error, malformed JSON), within the limit and not after a cancel: `Run` returns that error at ammo `j` -/
theorem C05_provider_broken_source_fails (s : Src) (ctxAt : Option Nat) (j : Nat) (e : DecRes) (rest : List DecRes)
    (ho : s.openOk = true) (hd : s.decoderOk = true) (he1 : e ≠ .ok) (he2 : e ≠ .eof)
    (hlim : s.limit = 0 ∨ j < s.limit) (hctx : ∀ c, ctxAt = some c → j ≤ c) :
    decodeRun s ctxAt (List.replicate j .ok ++ e :: rest) = some ⟨.decodeFailed j e, j, true⟩ := by
  unfold decodeRun
  have := runLoop_first_bad s.limit ctxAt e rest he1 he2 j 0 (by omega) (by intro c h; have := hctx c h; omega)
  simp only [Nat.zero_add] at this
  simp [ho, hd, this]

/-- whenever a provider's `Run` returns - failing to open its source included - the ammo queue is closed, and `Acquire`
on a closed queue never blocks: an instance parked in `Acquire` (which knows no context) is always let go.  The order
"deferred close first, then everything that can fail" is regenerated: `Bridge.C05Prov.decodeRun_closes_queue`,
`grpcRun_closes_sink`, `httpRun_closes_sink` (the http provider: regenerated order only, its `Run` is not modelled),
`acquire_is_receive` -/
theorem C05_provider_return_releases_acquirers :
    (∀ s ctxAt ds o, decodeRun s ctxAt ds = some o → o.queueClosed = true) ∧
    (∀ openOk start sent, (grpcRun openOk start sent).queueClosed = true ∧
      (openOk = false → (grpcRun openOk start sent).res = .openFailed)) ∧
    (∀ q, (acquire q true).isSome = true) ∧
    Pandora.Gen.C05Prov.srcDecodeRun.all (Pandora.Bridge.C05Prov.closesFirst "OutQueue") = true ∧
    Pandora.Gen.C05Prov.srcGrpcRun.all (Pandora.Bridge.C05Prov.closesFirst "Sink") = true ∧
    Pandora.Gen.C05Prov.srcHttpRun.all (Pandora.Bridge.C05Prov.closesFirst "Sink") = true := by
  refine ⟨?_, ?_, ?_, Pandora.Bridge.C05Prov.decodeRun_closes_queue.1, Pandora.Bridge.C05Prov.grpcRun_closes_sink.1,
    Pandora.Bridge.C05Prov.httpRun_closes_sink.1⟩
  · intro s ctxAt ds o h
    unfold decodeRun at h
    split at h
    · cases h; rfl
    · split at h
      · cases h; rfl
      · simp only [Option.map_eq_some_iff] at h
        obtain ⟨_, _, rfl⟩ := h; rfl
  · intro openOk start sent
    cases openOk <;> simp [grpcRun]
  · intro q; cases q <;> simp [acquire]

/-- COMPOSITION provider → pool (→ engine): whatever the pool did before (`pre`) and does afterwards (`post`), once its
provider - running at that moment - has returned an error of the provider model, `Pool.Run` never returns success
unless the caller cancelled; with `C05_no_swallow` the failure carries a recorded component error -/
theorem C05_provider_failure_fails_pool (cfg : Cfg) (hfix : cfg.fixSelect = true) (pre post : List Choice)
    (res : RunRes) (herr : res.isErr = true) (hrun : (run cfg pre).prov = .running) :
    let s := run cfg (pre ++ .provRet res.toRet :: post)
    s.extC = false → s.result ≠ some .ok := by
  intro s hext hres
  have hret : res.toRet = .err 1 := by cases res <;> simp_all [RunRes.toRet, RunRes.isErr]
  have h1 : (step cfg (run cfg pre) (.provRet res.toRet)).compErrs ≠ [] := by
    rw [hret]
    simp only [step, hrun, retAllowed, addErr, and_self, if_true]
    intro hh
    exact absurd (List.append_eq_nil_iff.1 hh).2 (by simp)
  have h2 : s.compErrs ≠ [] := by
    show (run cfg (pre ++ .provRet res.toRet :: post)).compErrs ≠ []
    unfold run
    rw [List.foldl_append, List.foldl_cons]
    exact compErrs_run cfg post _ h1
  have hm : s.main = .returned .ok := by
    simp only [State.result] at hres
    split at hres
    · rename_i r hm; cases hres; exact hm
    · cases hres
  rcases C05_error_pending_or_failed cfg hfix _ hext h2 with h | ⟨h, _⟩
  · rw [hm] at h; cases h
  · rw [hm] at h; cases h

/-- END TO END on the written sources of the harness (`rp:json.<k>.tr|bad|rderr`): `k` complete ammo and then a tail
that is cut short, malformed or unreadable make `DecodeProvider.Run` fail at ammo `k`, for every `k` -/
theorem C05_written_source_fails_provider (k : Nat) (t : Tail) (ht : t ≠ .clean) :
    ∃ e, e ≠ .ok ∧ e ≠ .eof ∧ decodeRun {} none (answers k t) = some ⟨.decodeFailed k e, k, true⟩ := by
  have hans : answers k t = List.replicate k .ok ++ [jsonDecode (decInAt k t k)] := by
    unfold answers
    rw [List.range_succ, List.map_append]
    congr 1
    apply List.ext_getElem
    · simp
    · intro i h1 h2
      simp only [List.length_map, List.length_range] at h1
      simp [decInAt, h1, jsonDecode]
  refine ⟨jsonDecode (decInAt k t k), ?_, ?_, ?_⟩
  · cases t <;> simp_all [decInAt, jsonDecode, errOfPtr]
  · cases t <;> simp_all [decInAt, jsonDecode, errOfPtr]
  · rw [hans]
    apply C05_provider_broken_source_fails {} none k _ [] rfl rfl
    · cases t <;> simp_all [decInAt, jsonDecode, errOfPtr]
    · cases t <;> simp_all [decInAt, jsonDecode, errOfPtr]
    · exact Or.inl rfl
    · intro c h; cases h

/-- … and a complete source ends regularly after exactly `k` ammo -/
theorem C05_written_source_clean_ends (k : Nat) :
    decodeRun {} none (answers k .clean) = some ⟨.nil, k, true⟩ := by
  have h := C05_provider_nil_only_at_regular_end
  have hans : answers k .clean = List.replicate k .ok ++ [.eof] := by
    unfold answers
    rw [List.range_succ, List.map_append]
    congr 1
    · apply List.ext_getElem
      · simp
      · intro i h1 h2
        simp only [List.length_map, List.length_range] at h1
        simp [decInAt, h1, jsonDecode]
    · simp [decInAt, jsonDecode, errOfPtr]
  rw [hans]
  unfold decodeRun
  have : ∀ j n, runLoop 0 none n (List.replicate j .ok ++ [.eof]) = some (.nil, n + j) := by
    intro j
    induction j with
    | zero => intro n; simp [runLoop]
    | succ j ih => intro n; simp only [List.replicate_succ, List.cons_append, runLoop]; simp [ih (n + 1)]; omega
  simp [this k 0]

-- non-vacuity
example : decodeRun {} none [.ok, .ok, .unexpectedEof] = some ⟨.decodeFailed 2 .unexpectedEof, 2, true⟩ := by decide
example : decodeRun { limit := 2 } none [.ok, .ok, .unexpectedEof] = some ⟨.nil, 2, true⟩ := by decide
example : decodeRun {} (some 1) [.ok, .ok, .unexpectedEof] = some ⟨.nil, 1, true⟩ := by decide
example : decodeRun { openOk := false } none [] = some ⟨.openFailed, 0, true⟩ := by decide
example : decodeRun {} none [.ok, .ok] = none := by decide   -- still in its loop
example : jsonDecode ⟨true, some true, true, some true⟩ = .eof := by decide
example : jsonDecode ⟨false, none, true, some true⟩ = .unexpectedEof := by decide
example : answers 2 .truncated = [.ok, .ok, .unexpectedEof] := by decide
-- the composition applies: a pool whose provider is running, then fails, then everything else happens
example : (run Cfg.repaired [.warm (.ok true), .sched none]).prov = .running := by decide
example : (run Cfg.repaired ([.warm (.ok true), .sched none] ++ .provRet (RunRes.decodeFailed 2 .unexpectedEof).toRet ::
    [.awaitProv, .errDeliver])).result = some (.fail .provider (.err 1)) := by decide

end Provider

/-! ### round 6: provider → pool → engine, end to end -/
section EndToEnd
open Pandora.Model.C05.Prov

/-- END TO END provider → pool → engine: `n` pools, pool `i` executing `pools i` (any choice lists), the results
`Engine.Run` consumes being the results of the pools.  If the provider of ONE pool `j` - running at that moment - returns
an error of the provider model and nobody cancels that pool from outside, `Engine.Run` does not return nil, whatever the
other pools do and in whatever order the results become ready -/
theorem C05_provider_failure_fails_engine (cfg : Cfg) (hfix : cfg.fixSelect = true) (n : Nat) (pools : Nat → List Choice)
    (evs : List EEv)
    (hid : ∀ id r d, EEv.pool id r d ∈ evs → id < n ∧ (run cfg (pools id)).result = some r)
    (hnd : (evs.filterMap EEv.poolId).Nodup)
    (j : Nat) (hj : j < n) (pre post : List Choice) (res : RunRes) (herr : res.isErr = true)
    (hpool : pools j = pre ++ .provRet res.toRet :: post) (hrun : (run cfg pre).prov = .running)
    (hext : (run cfg (pools j)).extC = false) :
    engRun n evs ≠ some .ok := by
  intro hok
  have h := (C05_engine_success_all_pools cfg hfix n pools evs hid hnd hok j hj).1
  rw [hpool] at h hext
  exact C05_provider_failure_fails_pool cfg hfix pre post res herr hrun hext h

/-- … in particular for the ammo sources the harness writes (`rp:json.<k>.tr|bad|rderr`): `k` complete ammo and a tail
that is cut short, malformed or unreadable, read by `DecodeProvider.Run` in one pass with no limit: whatever the
provider model returns for that source, fed to pool `j` while its provider runs, keeps `Engine.Run` from succeeding -
for every `k` -/
theorem C05_broken_ammo_source_fails_engine (cfg : Cfg) (hfix : cfg.fixSelect = true) (n : Nat) (pools : Nat → List Choice)
    (evs : List EEv)
    (hid : ∀ id r d, EEv.pool id r d ∈ evs → id < n ∧ (run cfg (pools id)).result = some r)
    (hnd : (evs.filterMap EEv.poolId).Nodup)
    (j : Nat) (hj : j < n) (pre post : List Choice) (k : Nat) (t : Tail) (ht : t ≠ .clean) (o : Out)
    (ho : decodeRun {} none (answers k t) = some o)
    (hpool : pools j = pre ++ .provRet o.res.toRet :: post) (hrun : (run cfg pre).prov = .running)
    (hext : (run cfg (pools j)).extC = false) :
    engRun n evs ≠ some .ok := by
  obtain ⟨e, _, _, he⟩ := C05_written_source_fails_provider k t ht
  rw [he] at ho
  cases ho
  exact C05_provider_failure_fails_engine cfg hfix n pools evs hid hnd j hj pre post _ rfl hpool hrun hext

-- non-vacuity: one pool whose provider reads two ammo and a truncated third; the engine reads that pool's failure
example : (run Cfg.repaired ([.warm (.ok true), .sched none] ++
      .provRet (RunRes.decodeFailed 2 .unexpectedEof).toRet :: [.awaitProv, .errDeliver])).extC = false ∧
    engRun 1 [.pool 0 (.fail .provider (.err 1)) false] = some (.fail 0 (.fail .provider (.err 1))) := by decide
end EndToEnd

/-! ### round 6: composition over another property's regenerated definitions (C08, the http provider's scan loop) -/
section HttpProvider

/-- the http provider's `Run` result (classes of C08's model) as the POOL model sees it -/
def C05_httpRet : Pandora.Model.C08.RunRes → Ret
  | .nil => .ok
  | .canceled => .ctx
  | _ => .err 1

/-- COMPOSITION over ANOTHER property's regenerated definitions (C08, area `provloops`: the loop body of the http
provider's `runFullScan`, re-extracted from `components/providers/http/provider/provider.go` on every run): a `Scan` that
fails with anything but the limit sentinels (a malformed, truncated or unreadable ammo) - the context live, the limit not
reached, not the "whole pass without ammo" case - makes the loop RETURN that error (it is not skipped, not turned into
nil); `Run` hands the result of `runFullScan` on unchanged, and that error, returned while the pool's provider runs,
never lets `Pool.Run` succeed unless the caller cancelled -/
theorem C05_http_scan_failure_fails_pool (cfg : Cfg) (hfix : cfg.fixSelect = true) (pre post : List Choice)
    (limit ammoNum passNum : Nat) (chosen : Bool)
    (hl : ¬(limit ≠ 0 ∧ ammoNum ≥ limit)) (hp : ¬(ammoNum = 0 ∧ passNum > 0))
    (hrun : (run cfg pre).prov = .running) :
    (match Pandora.Gen.ProvLoops.runFullScanStep limit false ammoNum passNum .unexpected chosen with
      | .ret r => r = .errOther
      | _ => False) ∧
    Pandora.Gen.ProvLoops.httpRunCloses = true ∧
    (let s := run cfg (pre ++ .provRet (C05_httpRet .errOther) :: post)
     s.extC = false → s.result ≠ some .ok) := by
  refine ⟨?_, rfl, ?_⟩
  · have hp' : ¬(ammoNum = 0 ∧ 0 < passNum) := hp
    simp [Pandora.Gen.ProvLoops.runFullScanStep, hl, hp']
  · exact C05_provider_failure_fails_pool cfg hfix pre post (.decodeFailed ammoNum .parseErr) rfl hrun

-- non-vacuity: the third ammo of the first pass is malformed
example : ¬((0 : Nat) ≠ 0 ∧ 2 ≥ 0) ∧ ¬((2 : Nat) = 0 ∧ 0 > 0) := by decide
end HttpProvider

end Pandora.Props.C05
