/-
C10 — Sample result coding: one sample per request with faithful codes, tags, ids.

Property theorems over the model `Pandora.Model.C10` (tied to the source by `Pandora.Bridge.GrpcStatus` and by the
correspondence driver harness/cmd/c10) and the executable spec `Pandora.Spec.C10`.
No bound on strings, codes, chain depths, step counts, instance counts or schedules.
-/
import Pandora.Bridge.GrpcStatus
import Pandora.Proofs.C10
import Pandora.Proofs.C10R2
import Pandora.Proofs.C10R3
import Pandora.Proofs.C10R4
import Pandora.Proofs.C10R6

namespace Pandora.Props.C10
open Pandora.Model.C10 Pandora.Spec.C10 Pandora.Proofs.C10

/-! ## statement-level definitions -/

/-- the error of a failed exchange, if the exchange failed -/
def failure : HttpOutcome → Option Err
  | .doErr e => some e
  | .response _ (some e) => some e
  | _ => none

/-- what is left of a chain after `getErrno` stripped everything it recognises -/
def innermost : Err → Err
  | .opError e => innermost e
  | .syscallError e => innermost e
  | .urlError e => innermost e
  | e => e

/-- `getErrno` sees a timeout: a `net.Error` whose `Timeout()` is true -/
def IsTimeout (e : Err) : Prop := isNetError e = true ∧ hasTimeout e = true

/-- tag the i-th reported sample of a scenario must carry -/
def stepTagOk (scn : String) (name : String) (tags : String) : Prop :=
  tags = scn ++ "." ++ name ∨ tags = scn ++ "." ++ name ++ "|" ++ Spec.C10.emptyTag

/-! ## gRPC status table -/

/-- Every gRPC status code (ALL naturals, also undefined ones) is mapped by the switch regenerated from
`ConvertGrpcStatus` exactly as documented in docs/eng/grpc-generator.md; anything not listed gives 500. -/
theorem C10_grpc_table : ∀ c : Nat, Gen.GrpcStatus.grpcToHttp c = docTable c := by
  intro c
  by_cases h : c < 17
  · have hfin : ∀ c, c < 17 → Gen.GrpcStatus.grpcToHttp c = docTable c := by decide
    exact hfin c h
  · obtain ⟨k, rfl⟩ : ∃ k, c = k + 17 := ⟨c - 17, by omega⟩
    simp [Gen.GrpcStatus.grpcToHttp, docTable]

/-- The same, against the table as it stands in docs/eng/grpc-generator.md NOW: both sides are regenerated on every
run (the switch of `ConvertGrpcStatus` and the rows of the markdown table), for ALL status codes. -/
theorem C10_grpc_table_documented :
    ∀ c : Nat, Gen.GrpcStatus.grpcToHttp c =
      Bridge.GrpcStatus.lookupRows Gen.GrpcStatus.docRows Gen.GrpcStatus.docDefault c :=
  fun c => (C10_grpc_table c).trans (Bridge.GrpcStatus.docTable_eq_doc c)

/-! ## exactly one sample per request -/

/-- On EVERY path of every gun exactly one sample is reported per request / per executed step:
* http gun (Connect hook unset, which `Bridge.no_connect_hook` establishes for the repo): ok, transport error,
  body-read error, invalid ammo, even a panicking `Do`;
* gRPC gun: ok, unknown method, unmarshalable payload, ill-typed payload, any call status;
* http scenario: one per executed step (steps up to and including the first failing one) as long as no
  postprocessor panics (that is C19);
* gRPC scenario: one per executed step, unconditionally. -/
theorem C10_one_sample_per_request :
    (∀ (cfg : AutoTagCfg) (s : HttpShot), s.connectHook = none → (shootHttp cfg s).reports.length = 1) ∧
    (∀ (tag : String) (o : GrpcOutcome), (shootGrpc tag o).reports.length = 1) ∧
    (∀ (scn : String) (steps : List Step), (∀ s ∈ steps, ∀ st, s.outcome ≠ .received st .panic) →
        (shootScenario scn steps).reports.length = executedSteps steps) ∧
    (∀ (scn : String) (steps : List GrpcStep),
        (shootGrpcScenario scn steps).reports.length = executedGrpcSteps steps) := by
  refine ⟨?_, ?_, shootScenario_length, shootGrpcScenario_length⟩
  · intro cfg s hc
    unfold shootHttp
    rw [hc]
    by_cases hi : s.invalid = true
    · simp [hi]
    · simp only [hi]
      cases s.outcome with
      | doErr e => simp
      | response st b => cases b <;> simp
      | doPanic => simp
  · intro tag o
    simp [shootGrpc]

/-- A set Connect hook that fails is the only way the http gun returns without a sample
(why the hypothesis above is needed; the repo never sets the hook). -/
theorem C10_connect_hook_drops_sample (cfg : AutoTagCfg) (s : HttpShot) (h : s.connectHook = some false) :
    (shootHttp cfg s).reports = [] := by
  simp [shootHttp, h]

/-- The other way a fired request goes unreported: a postprocessor of an http scenario step that PANICS (excluded by
`NoPanic` above; that postprocessors do not panic on any response is property C19). The shot aborts without the
step's sample. -/
theorem C10_postprocessor_panic_drops_sample (scn : String) (s : Step) (rest : List Step) (st : Nat)
    (h : s.outcome = .received st .panic) :
    (shootScenario scn (s :: rest)).reports = [] ∧ (shootScenario scn (s :: rest)).panicked = true := by
  simp [shootScenario, stepHttp, h]

/-- The documented fatal condition (http2 gun, target without HTTP/2: `Do` panics and the run is aborted): the deferred
`Report` still fires once; the sample carries proto 0 and net 0 although no response was received — the one failed
exchange whose net code is 0. -/
theorem C10_http2_fatal_sample (cfg : AutoTagCfg) (s : HttpShot) (hc : s.connectHook = none) (hv : s.invalid = false)
    (ho : s.outcome = .doPanic) :
    shootHttp cfg s = { reports := [{ tags := httpTag cfg s.ammoTag s.path, id := s.id, proto := 0, net := 0 }], panicked := true } := by
  simp [shootHttp, hc, hv, ho]

/-- A whole scenario shot in closed form: the samples are exactly the per-step samples of the executed steps (the steps
up to and including the first one that fails), in order; every executed step but the last one passed. This joins the
per-step statements below (`C10_proto`, `C10_netcode_scenario`) to whole shots of any length. -/
theorem C10_scenario_shot :
    (∀ (scn : String) (steps : List Step), NoPanic steps →
        (shootScenario scn steps).reports = (steps.take (executedSteps steps)).map (stepSample scn) ∧
        (shootScenario scn steps).panicked = false ∧
        executedSteps steps ≤ steps.length ∧
        (∀ i, i + 1 < executedSteps steps → ∃ s st, steps[i]? = some s ∧ s.outcome = .received st .ok)) ∧
    (∀ (scn : String) (steps : List GrpcStep),
        (shootGrpcScenario scn steps).reports = (steps.take (executedGrpcSteps steps)).map (grpcStepSample scn)) :=
  ⟨fun scn steps hp => ⟨(shootScenario_reports scn steps hp).1, (shootScenario_reports scn steps hp).2,
      executedSteps_le steps, executed_prefix_passed steps⟩,
   shootGrpcScenario_reports⟩

/-! ## net code -/

/-- Net code of the http gun's sample: 0 when a response was received and read; non-zero when the exchange failed
(for every error chain whose errno leaves are real error numbers); 110 when the error is a timeout; 999 when the chain
ends in something `getErrno` does not recognise. -/
theorem C10_netcode (cfg : AutoTagCfg) (s : HttpShot) (hc : s.connectHook = none) (hv : s.invalid = false)
    (r : Sample) (hr : r ∈ (shootHttp cfg s).reports) :
    (failure s.outcome = none → r.net = 0) ∧
    (∀ e, failure s.outcome = some e → ErrnoNonzero e → r.net ≠ 0) ∧
    (∀ e, failure s.outcome = some e → IsTimeout e → r.net = 110) ∧
    (∀ e, failure s.outcome = some e → ¬ IsTimeout e →
        (∀ n, innermost (cause (stripUnderlying e)) ≠ .errno n) → r.net = 999) := by
  have hget_to : ∀ e, IsTimeout e → getErrno e = 110 := by
    intro e h; simp [getErrno, h.1, h.2, timeoutErrno]
  have hunw : ∀ e, (∀ n, innermost e ≠ .errno n) → unwrapLoop e = 999 := by
    intro e
    induction e with
    | opError e ih => simpa [innermost, unwrapLoop] using ih
    | syscallError e ih => simpa [innermost, unwrapLoop] using ih
    | urlError e ih => simpa [innermost, unwrapLoop] using ih
    | errno n => intro h; exact absurd rfl (h n)
    | _ => intro _; simp [unwrapLoop, protoCodeError]
  have hget_un : ∀ e, ¬ IsTimeout e → (∀ n, innermost (cause (stripUnderlying e)) ≠ .errno n) → getErrno e = 999 := by
    intro e ht hi
    unfold getErrno
    split
    · rename_i h
      exact absurd (by simpa [IsTimeout] using h) ht
    · exact hunw _ hi
  unfold shootHttp at hr
  rw [hc] at hr
  simp only [hv] at hr
  cases ho : s.outcome with
  | doErr e =>
    simp [ho] at hr; subst hr
    refine ⟨by simp [failure], ?_, ?_, ?_⟩
    · intro e' he hz; simp [failure] at he; subst he; exact getErrno_ne_zero _ hz
    · intro e' he ht; simp [failure] at he; subst he; exact hget_to _ ht
    · intro e' he ht hi; simp [failure] at he; subst he; exact hget_un _ ht hi
  | response st b =>
    cases b with
    | none =>
      simp [ho] at hr; subst hr
      exact ⟨fun _ => rfl, by simp [failure], by simp [failure], by simp [failure]⟩
    | some e =>
      simp [ho] at hr; subst hr
      refine ⟨by simp [failure], ?_, ?_, ?_⟩
      · intro e' he hz; simp [failure] at he; subst he; exact getErrno_ne_zero _ hz
      · intro e' he ht; simp [failure] at he; subst he; exact hget_to _ ht
      · intro e' he ht hi; simp [failure] at he; subst he; exact hget_un _ ht hi
  | doPanic =>
    simp [ho] at hr; subst hr
    exact ⟨fun _ => rfl, by simp [failure], by simp [failure], by simp [failure]⟩

/-- http scenario: a step whose response passed every postprocessor reports net code 0; every failed step reports the
non-zero code 999 (the error handed to `SetErr` is an `fmt.Errorf` wrapper, which `getErrno` does not look into). -/
theorem C10_netcode_scenario (scn : String) (s : Step) :
    (∀ st, s.outcome = .received st .ok → ∀ r ∈ (stepHttp scn s).1, r.net = 0) ∧
    ((∀ st, s.outcome ≠ .received st .ok) → ∀ r ∈ (stepHttp scn s).1, r.net = 999 ∧ r.net ≠ 0) := by
  constructor
  · intro st h r hr
    simp [stepHttp, h, okSample] at hr; subst hr; rfl
  · intro h r hr
    cases ho : s.outcome with
    | prepErr => simp [stepHttp, ho, errSample] at hr; subst hr; exact ⟨(by decide : getErrno .other = 999), (by decide : getErrno .other ≠ 0)⟩
    | doErr e => simp [stepHttp, ho, errSample] at hr; subst hr; exact ⟨(by decide : getErrno .other = 999), (by decide : getErrno .other ≠ 0)⟩
    | bodyErr st e => simp [stepHttp, ho, errSample] at hr; subst hr; exact ⟨(by decide : getErrno .other = 999), (by decide : getErrno .other ≠ 0)⟩
    | received st post =>
      cases post with
      | ok => exact absurd ho (h st)
      | err => simp [stepHttp, ho, errSample] at hr; subst hr; exact ⟨(by decide : getErrno .other = 999), (by decide : getErrno .other ≠ 0)⟩
      | panic => simp [stepHttp, ho] at hr

/-! ## protocol code -/

/-- The protocol code is the status received: http gun (also when the body then fails), http scenario step,
and for gRPC the DOCUMENTED mapping of the call status (via `C10_grpc_table` and the bridge);
400 for a payload that does not fit the method, 0 when nothing was sent. -/
theorem C10_proto :
    (∀ (cfg : AutoTagCfg) (s : HttpShot) (st : Nat) (b : Option Err), s.connectHook = none → s.invalid = false →
        s.outcome = .response st b → ∀ r ∈ (shootHttp cfg s).reports, r.proto = st) ∧
    (∀ (scn : String) (s : Step) (st : Nat), s.outcome = .received st .ok →
        ∀ r ∈ (stepHttp scn s).1, r.proto = st) ∧
    (∀ (tag : String) (c : Nat), ∀ r ∈ (shootGrpc tag (.invoked c)).reports, r.proto = docTable c) ∧
    (∀ (scn : String) (s : GrpcStep) (c : Nat) (p : PostRes), s.outcome = .invoked c p →
        ∀ r ∈ (stepGrpc scn s).1, r.proto = docTable c) := by
  have htab : ∀ c, grpcToHttp c = docTable c := fun c =>
    (Bridge.GrpcStatus.grpcToHttp_eq c).symm.trans (C10_grpc_table c)
  refine ⟨?_, ?_, ?_, ?_⟩
  · intro cfg s st b hc hv ho r hr
    unfold shootHttp at hr
    rw [hc] at hr
    simp only [hv, ho] at hr
    cases b <;> (simp at hr; subst hr; rfl)
  · intro scn s st ho r hr
    simp [stepHttp, ho, okSample] at hr; subst hr; rfl
  · intro tag c r hr
    simp [shootGrpc, grpcProto] at hr; subst hr; exact htab c
  · intro scn s c p ho r hr
    cases p <;> (simp [stepGrpc, ho, grpcStepProto] at hr; subst hr; exact htab c)

/-- FULL reading of "one such sample per executed step" for the http scenario gun: whenever the target's response head
with status `st` was received for a step, the step's sample carries `st`. FALSE for the code as it is (and by design of
`reportErr`): a step whose response is rejected by an assertion, or whose body breaks off, is reported with proto 0. -/
def C10_scenario_proto_statement : Prop :=
  ∀ (scn : String) (s : Step) (st : Nat),
    (∃ p, s.outcome = .received st p ∧ p ≠ .panic) ∨ (∃ e, s.outcome = .bodyErr st e) →
    ∀ r ∈ (stepHttp scn s).1, r.proto = st

theorem C10_scenario_proto_partial (scn : String) (s : Step) (st : Nat) (h : s.outcome = .received st .ok) :
    ∀ r ∈ (stepHttp scn s).1, r.proto = st := by
  intro r hr
  simp [stepHttp, h, okSample] at hr; subst hr; rfl

theorem C10_scenario_proto_counterexample : ¬ C10_scenario_proto_statement := by
  intro h
  have := h "scn" ⟨"b", .received 500 .err⟩ 500 (Or.inl ⟨.err, rfl, by decide⟩)
    (errSample "scn" "b") (by simp [stepHttp])
  exact absurd this (by decide)

/-! ## tags -/

/-- Tags: the http gun's sample carries the ammo's tag, the auto-tag built from the first `uri-elements` path elements
(alone, or joined by `|` to the ammo's tag when `no-tag-only` is off), or `__EMPTY__` when there is none — for ALL
paths, tags and depths; an invalid ammo carries `__EMPTY__`; the gRPC gun carries the ammo's tag; scenario samples
carry `scenario.step` (http; `|__EMPTY__` appended on a failed step) / `scenario.tag` (gRPC), position by position. -/
theorem C10_tag :
    (∀ (cfg : AutoTagCfg) (s : HttpShot), s.connectHook = none → s.invalid = false →
        ∀ r ∈ (shootHttp cfg s).reports,
          r.tags = expectedTag cfg.enabled cfg.uriElements cfg.noTagOnly s.ammoTag s.path) ∧
    (∀ (cfg : AutoTagCfg) (s : HttpShot), s.connectHook = none → s.invalid = true →
        ∀ r ∈ (shootHttp cfg s).reports,
          r.tags = if s.ammoTag = "" then Spec.C10.emptyTag else s.ammoTag ++ "|" ++ Spec.C10.emptyTag) ∧
    (∀ (tag : String) (o : GrpcOutcome), ∀ r ∈ (shootGrpc tag o).reports, r.tags = tag) ∧
    (∀ (scn : String) (steps : List Step) (i : Nat) (r : Sample), (shootScenario scn steps).reports[i]? = some r →
        ∃ s, steps[i]? = some s ∧ stepTagOk scn s.name r.tags) ∧
    (∀ (scn : String) (steps : List GrpcStep) (i : Nat) (r : Sample),
        (shootGrpcScenario scn steps).reports[i]? = some r →
        ∃ s, steps[i]? = some s ∧ r.tags = scn ++ "." ++ s.tag) := by
  refine ⟨?_, ?_, ?_, ?_, ?_⟩
  · intro cfg s hc hv r hr
    rw [← httpTag_eq_expected]
    unfold shootHttp at hr
    rw [hc] at hr
    simp only [hv] at hr
    cases ho : s.outcome with
    | doErr e => simp [ho] at hr; subst hr; rfl
    | response st b => cases b <;> (simp [ho] at hr; subst hr; rfl)
    | doPanic => simp [ho] at hr; subst hr; rfl
  · intro cfg s hc hv r hr
    unfold shootHttp at hr
    rw [hc] at hr
    simp [hv] at hr; subst hr
    by_cases h : s.ammoTag = "" <;> simp [addTag, h, Model.C10.emptyTag, Spec.C10.emptyTag]
  · intro tag o r hr
    simp [shootGrpc] at hr; subst hr; rfl
  · intro scn steps
    induction steps with
    | nil => intro i r h; simp [shootScenario] at h
    | cons s rest ih =>
      intro i r h
      have hok : stepTagOk scn s.name (okSample scn s.name 0).tags := Or.inl (by simp [okSample, stepTag])
      have herr : stepTagOk scn s.name (errSample scn s.name).tags := by
        refine Or.inr ?_
        simp [errSample, addTag, stepTag, Model.C10.emptyTag, Spec.C10.emptyTag]
      unfold shootScenario at h
      cases ho : s.outcome with
      | prepErr =>
        simp [stepHttp, ho] at h
        cases i with
        | zero => simp at h; subst h; exact ⟨s, by simp, herr⟩
        | succ j => simp at h
      | doErr e =>
        simp [stepHttp, ho] at h
        cases i with
        | zero => simp at h; subst h; exact ⟨s, by simp, herr⟩
        | succ j => simp at h
      | bodyErr st e =>
        simp [stepHttp, ho] at h
        cases i with
        | zero => simp at h; subst h; exact ⟨s, by simp, herr⟩
        | succ j => simp at h
      | received st post =>
        cases post with
        | err =>
          simp [stepHttp, ho] at h
          cases i with
          | zero => simp at h; subst h; exact ⟨s, by simp, herr⟩
          | succ j => simp at h
        | panic => simp [stepHttp, ho] at h
        | ok =>
          simp [stepHttp, ho] at h
          cases i with
          | zero =>
            simp at h; subst h
            exact ⟨s, by simp, Or.inl (by simp [okSample, stepTag])⟩
          | succ j =>
            simp at h
            obtain ⟨s', hs', ht⟩ := ih j r h
            exact ⟨s', by simpa using hs', ht⟩
  · intro scn steps
    induction steps with
    | nil => intro i r h; simp [shootGrpcScenario] at h
    | cons s rest ih =>
      intro i r h
      unfold shootGrpcScenario at h
      cases ho : s.outcome with
      | prepErr =>
        simp [stepGrpc, ho] at h
        cases i with
        | zero => simp at h; subst h; exact ⟨s, by simp, by simp [stepTag]⟩
        | succ j => simp at h
      | unknownMethod =>
        simp [stepGrpc, ho] at h
        cases i with
        | zero => simp at h; subst h; exact ⟨s, by simp, by simp [stepTag]⟩
        | succ j => simp at h
      | badPayload =>
        simp [stepGrpc, ho] at h
        cases i with
        | zero => simp at h; subst h; exact ⟨s, by simp, by simp [stepTag]⟩
        | succ j => simp at h
      | invoked c post =>
        cases post with
        | err =>
          simp [stepGrpc, ho] at h
          cases i with
          | zero => simp at h; subst h; exact ⟨s, by simp, by simp [stepTag]⟩
          | succ j => simp at h
        | panic =>
          simp [stepGrpc, ho] at h
          cases i with
          | zero => simp at h; subst h; exact ⟨s, by simp, by simp [stepTag]⟩
          | succ j => simp at h
        | ok =>
          simp [stepGrpc, ho] at h
          cases i with
          | zero => simp at h; subst h; exact ⟨s, by simp, by simp [stepTag]⟩
          | succ j =>
            simp at h
            obtain ⟨s', hs', ht⟩ := ih j r h
            exact ⟨s', by simpa using hs', ht⟩

/-- No sample of an http gun has an empty tag: plain guns (valid or invalid ammo, every outcome) and scenario steps. -/
theorem C10_tag_nonempty :
    (∀ (cfg : AutoTagCfg) (s : HttpShot), ∀ r ∈ (shootHttp cfg s).reports, r.tags ≠ "") ∧
    (∀ (scn : String) (s : Step), ∀ r ∈ (stepHttp scn s).1, r.tags ≠ "") := by
  constructor
  · intro cfg s r hr
    unfold shootHttp at hr
    cases hc : s.connectHook with
    | some b =>
      cases b with
      | false => simp [hc] at hr
      | true =>
        simp only [hc] at hr
        by_cases hi : s.invalid = true
        · simp [hi] at hr; subst hr; exact addTag_ne_empty _ _ emptyTag_ne
        · simp only [hi] at hr
          cases ho : s.outcome with
          | doErr e => simp [ho] at hr; subst hr; exact httpTag_ne_empty _ _ _
          | response st b => cases b <;> (simp [ho] at hr; subst hr; exact httpTag_ne_empty _ _ _)
          | doPanic => simp [ho] at hr; subst hr; exact httpTag_ne_empty _ _ _
    | none =>
      simp only [hc] at hr
      by_cases hi : s.invalid = true
      · simp [hi] at hr; subst hr; exact addTag_ne_empty _ _ emptyTag_ne
      · simp only [hi] at hr
        cases ho : s.outcome with
        | doErr e => simp [ho] at hr; subst hr; exact httpTag_ne_empty _ _ _
        | response st b => cases b <;> (simp [ho] at hr; subst hr; exact httpTag_ne_empty _ _ _)
        | doPanic => simp [ho] at hr; subst hr; exact httpTag_ne_empty _ _ _
  · intro scn s r hr
    have herr : (errSample scn s.name).tags ≠ "" := addTag_ne_empty _ _ emptyTag_ne
    cases ho : s.outcome with
    | prepErr => simp [stepHttp, ho] at hr; subst hr; exact herr
    | doErr e => simp [stepHttp, ho] at hr; subst hr; exact herr
    | bodyErr st e => simp [stepHttp, ho] at hr; subst hr; exact herr
    | received st post =>
      cases post with
      | ok => simp [stepHttp, ho] at hr; subst hr; exact stepTag_ne_empty _ _
      | err => simp [stepHttp, ho] at hr; subst hr; exact herr
      | panic => simp [stepHttp, ho] at hr

/-- The gRPC guns do NOT substitute `__EMPTY__`: an ammo without a tag gives a sample with the empty tag (the tag is "the
ammo's tag" verbatim; the `__EMPTY__` clause of the property is anchored at, and holds for, the http guns). -/
theorem C10_grpc_tag_may_be_empty : ∃ o, ∃ r ∈ (shootGrpc "" o).reports, r.tags = "" :=
  ⟨.invoked 0, _, List.mem_singleton.mpr rfl, rfl⟩

/-! ## ids -/

/-- Ids handed out by the atomic 64-bit counter are pairwise distinct under EVERY schedule (any number of instances, any
interleaving of their `Acquire` calls) of up to 2^64 acquisitions; every scheduled instance gets one; and as long as the
counter does not wrap they are exactly `c+1 … c+n`. -/
theorem C10_ids_unique {ι : Type} (c : Nat) (sched : List ι) (h : sched.length ≤ idModulus) :
    ((runIds c sched).map Prod.snd).Nodup ∧
    (runIds c sched).map Prod.fst = sched ∧
    (c + sched.length < idModulus → (runIds c sched).map Prod.snd = List.range' (c + 1) sched.length) := by
  refine ⟨?_, runIds_fst c sched, ?_⟩
  · rw [runIds_snd]; exact ids_nodup c _ h
  · intro hs; rw [runIds_snd]; exact ids_small c _ hs

/-- Without the bound the statement is false: the counter is a `uint64`. -/
def C10_ids_unique_unbounded_statement : Prop :=
  ∀ (sched : List Unit), ((runIds 0 sched).map Prod.snd).Nodup

theorem C10_ids_unique_unbounded_counterexample : ¬ C10_ids_unique_unbounded_statement := fun h =>
  ids_wrap (List.replicate (idModulus + 1) ()) (List.length_replicate ..) (h _)

/-- A whole pool run of a plain http gun (http, http2, connect): instances acquire ammo in any interleaving (each
acquisition takes the next id), every acquired ammo is either fired once — with ANY outcome (response, transport error,
broken body, invalid ammo, fatal panic) under any auto-tag setting — or dropped unfired (schedule over, run cancelled,
shot discarded), and the samples reach the aggregator in ANY order (`reported` is a permutation of the run's samples):
exactly one sample per FIRED ammo, and pairwise distinct ids. -/
theorem C10_run_ids_unique {ι : Type} (cfg : AutoTagCfg) (c : Nat) (plans : List (ι × ShotPlan))
    (h : plans.length ≤ idModulus) (reported : List Sample) (hperm : reported.Perm (runPool cfg c plans)) :
    reported.length = (plans.filter (·.2.fired)).length ∧ (reported.map (·.id)).Nodup := by
  have hids := runPool_ids cfg c plans
  constructor
  · rw [hperm.length_eq]; exact hids.2
  · rw [(hperm.map (·.id)).nodup_iff]
    exact (ids_nodup c _ h).sublist hids.1

/-- The id carried by the http gun's sample is the ammo's id: distinct ammo ids give distinct sample ids. -/
theorem C10_sample_id (cfg : AutoTagCfg) (s : HttpShot) (hc : s.connectHook = none) :
    ∀ r ∈ (shootHttp cfg s).reports, r.id = s.id := by
  intro r hr
  unfold shootHttp at hr
  rw [hc] at hr
  by_cases hi : s.invalid = true
  · simp [hi] at hr; subst hr; rfl
  · simp only [hi] at hr
    cases ho : s.outcome with
    | doErr e => simp [ho] at hr; subst hr; rfl
    | response st b => cases b <;> (simp [ho] at hr; subst hr; rfl)
    | doPanic => simp [ho] at hr; subst hr; rfl

/-! ## the sample pool, setter level -/

/-- `BaseGun.Shoot` (with `GunAmmo.Request`) is a sequence of setter calls — `SetID`, `AddTag`, `SetProtoCode`, `SetErr` —
on a freshly acquired sample; the decision tree `shootHttp` is what those calls leave on it. -/
theorem C10_shoot_as_setters (cfg : AutoTagCfg) (s : HttpShot) (hc : s.connectHook = none) :
    (shootHttp cfg s).reports = [applyOps (fresh s.ammoTag) (httpOps cfg s)] :=
  shootHttp_as_ops cfg s hc

/-- Samples are RECYCLED: an aggregator that releases them (phout) puts every reported sample back into the process-wide
pool, and a later `Acquire` may hand out any of them (`choose`: any policy, `pool`: any initial contents, also samples of
an earlier run). Because `Acquire` overwrites the whole struct, every line is what the setter calls of ITS request leave
on a fresh sample: nothing a recycled sample carried (net code of a failed exchange, status, id, tags) shows.
Second part: for the http gun these lines are exactly the samples of `shootHttp` — what a non-releasing (recording)
aggregator sees, and what all the theorems above speak about. -/
theorem C10_pool_reuse (choose : List Sample → Option Nat) (pool : List Sample) :
    (∀ reqs : List (String × List SampleOp),
        runRecycling acquire choose pool reqs = reqs.map fun r => applyOps (fresh r.1) r.2) ∧
    (∀ (cfg : AutoTagCfg) (shots : List HttpShot), (∀ s ∈ shots, s.connectHook = none) →
        runRecycling acquire choose pool (shots.map fun s => (s.ammoTag, httpOps cfg s)) =
          shots.flatMap fun s => (shootHttp cfg s).reports) := by
  refine ⟨runRecycling_acquire choose pool, ?_⟩
  intro cfg shots h
  rw [runRecycling_acquire]
  induction shots with
  | nil => simp
  | cons s rest ih =>
    have hs := shootHttp_as_ops cfg s (h s (List.mem_cons_self ..))
    have ih' := ih (fun t ht => h t (List.mem_cons_of_mem _ ht))
    simp only [List.map_cons, List.flatMap_cons, hs, List.cons_append, List.nil_append]
    simp only [List.map_map] at ih' ⊢
    rw [← ih']

/-- The same claim for an `Acquire` that only re-tags a recycled sample is FALSE: the net code of a failed exchange shows
on the next request's line (why the whole-struct assignment in `Acquire`, regenerated as `srcAcquire`, matters). -/
def C10_pool_reuse_keeping_statement : Prop :=
  ∀ (choose : List Sample → Option Nat) (pool : List Sample) (reqs : List (String × List SampleOp)),
    runRecycling acquireKeeping choose pool reqs = reqs.map fun r => applyOps (fresh r.1) r.2

theorem C10_pool_reuse_keeping_counterexample : ¬ C10_pool_reuse_keeping_statement := by
  intro h
  have := h (fun p => if p.isEmpty then none else some 0) [] [("a", [.setErr .other]), ("b", [.setProto 200])]
  revert this
  decide

/-! ## a gRPC target that goes away in the middle of a run -/

/-- The target goes away while a call is in flight (`kill` on a request whose call is made): still exactly one sample per
request; that call and every later call that is made are reported with the documented code of the client-side status
Unavailable (503); requests that are never sent (unknown method, unmarshalable or ill-typed payload) keep their code;
requests before that moment are not affected. -/
theorem C10_grpc_target_gone :
    (∀ gone reqs, (runGrpcGone gone reqs).length = reqs.length) ∧
    (∀ reqs, runGrpcGone true reqs =
        reqs.map fun r => ({ tags := r.1, id := 0, proto := grpcProto (afterGone r.2.1), net := 0 } : Sample)) ∧
    (∀ o, grpcProto (afterGone o) = if isInvoked o then docTable 14 else grpcProto o) ∧
    (∀ tag o rest, isInvoked o = true →
        runGrpcGone false ((tag, o, true) :: rest) = runGrpcGone true ((tag, o, true) :: rest)) ∧
    (∀ tag o rest, runGrpcGone false ((tag, o, false) :: rest) = (shootGrpc tag o).reports ++ runGrpcGone false rest) := by
  refine ⟨?_, ?_, ?_, ?_, ?_⟩
  · intro gone reqs
    rw [runGrpcGone_eq, ← effectiveOutcomes_length gone reqs]
    generalize effectiveOutcomes gone reqs = l
    induction l with
    | nil => simp
    | cons r rest ih => rw [List.flatMap_cons, List.length_append, ih]; simp [shootGrpc]; omega
  · intro reqs
    rw [runGrpcGone_eq, effectiveOutcomes_gone]
    induction reqs with
    | nil => simp
    | cons r rest ih => simp [shootGrpc] at ih ⊢; exact ih
  · intro o
    have h14 : grpcToHttp 14 = docTable 14 := by decide
    cases o <;> simp [afterGone, isInvoked, grpcProto, h14]
  · intro tag o rest ho
    simp [runGrpcGone, ho]
  · intro tag o rest
    simp [runGrpcGone]

/-- A request that was never sent is never reported with the code of an answered call with status OK (what the Spec
demands of such a request: there is no call status to map). -/
theorem C10_never_sent_not_ok :
    (∀ (tag : String) (o : GrpcOutcome), isInvoked o = false → ∀ r ∈ (shootGrpc tag o).reports, r.proto ≠ docTable 0) ∧
    (∀ (scn : String) (s : GrpcStep), (∀ c p, s.outcome ≠ .invoked c p) → ∀ r ∈ (stepGrpc scn s).1, r.proto ≠ docTable 0) := by
  constructor
  · intro tag o ho r hr
    cases o <;> simp [isInvoked] at ho <;> (simp [shootGrpc, grpcProto] at hr; subst hr; simp [docTable])
  · intro scn s ho r hr
    cases h : s.outcome with
    | invoked c p => exact absurd h (ho c p)
    | prepErr => simp [stepGrpc, h, grpcStepProto] at hr; subst hr; simp [docTable]
    | unknownMethod => simp [stepGrpc, h, grpcStepProto] at hr; subst hr; simp [docTable]
    | badPayload => simp [stepGrpc, h, grpcStepProto] at hr; subst hr; simp [docTable]

/-! ## the executable Spec accepts the model -/

/-- the ground truth the harness hands to the Spec for an outcome of the http gun -/
inductive TruthFor : HttpOutcome → Truth → Prop
  | received (st : Nat) : TruthFor (.response st none) (.received st)
  | broken (st : Nat) (e : Err) : ErrnoNonzero e → TruthFor (.response st (some e)) (.bodyBroken st)
  | failed (e : Err) : ErrnoNonzero e → TruthFor (.doErr e) .failed
  | timedOut (e : Err) : IsTimeout e → TruthFor (.doErr e) .timedOut

/-- The predicates that judge the REAL guns' samples in the correspondence run (`Spec.C10.judgeHttp`, `judgeGrpc`,
`judgeShots`) accept what the model reports, for every input: the http gun under every setting and outcome (given the
ground truth of that outcome); the gRPC gun on any list of requests, also when the target goes away in the middle; a
gRPC scenario shot; `n` shots of an http scenario. So "the Spec fails on an observation" and "the observation differs
from the model" never disagree about a behaviour the model exhibits. -/
theorem C10_spec_accepts_model :
    (∀ (cfg : AutoTagCfg) (s : HttpShot) (t : Truth), s.connectHook = none → s.invalid = false → TruthFor s.outcome t →
        judgeHttp (expectedTag cfg.enabled cfg.uriElements cfg.noTagOnly s.ammoTag s.path) t
          ((shootHttp cfg s).reports.map toObs) = "ok") ∧
    (∀ (gone : Bool) (reqs : List (String × GrpcOutcome × Bool)),
        judgeGrpc ((effectiveOutcomes gone reqs).map fun r => (r.1, grpcTruth r.2))
          ((runGrpcGone gone reqs).map toObs) = "ok") ∧
    (∀ (scn : String) (steps : List GrpcStep),
        judgeGrpc ((steps.take (executedGrpcSteps steps)).map (grpcStepTruth scn))
          ((shootGrpcScenario scn steps).reports.map toObs) = "ok") ∧
    (∀ (scn : String) (steps : List Step) (n : Nat), NoPanic steps →
        judgeShots scn (steps.map stepTruthOf) n
          ((List.replicate n (shootScenario scn steps).reports).flatten.map toObs) = "ok") := by
  have htab : ∀ c, grpcToHttp c = docTable c := fun c =>
    (Bridge.GrpcStatus.grpcToHttp_eq c).symm.trans (C10_grpc_table c)
  refine ⟨?_, ?_, ?_, ?_⟩
  · intro cfg s t hc hv ht
    have htag := httpTag_eq_expected cfg s.ammoTag s.path
    unfold shootHttp
    rw [hc]
    simp only [hv]
    generalize ho : s.outcome = o at ht
    cases ht with
    | received st => simp [judgeHttp, toObs, htag]
    | broken st e hz => simp [judgeHttp, toObs, htag, getErrno_ne_zero e hz]
    | failed e hz => simp [judgeHttp, toObs, htag, getErrno_ne_zero e hz]
    | timedOut e hto =>
      have h110 : getErrno e = 110 := by simp [getErrno, hto.1, hto.2, timeoutErrno]
      simp [judgeHttp, toObs, htag, h110]
  · intro gone reqs
    rw [runGrpcGone_eq]
    exact judgeGrpc_accepts htab _
  · intro scn steps
    rw [shootGrpcScenario_reports]
    exact judgeGrpc_accepts_steps htab scn _
  · intro scn steps n hp
    apply judgeShots_of_seq
    have hrep := (shootScenario_reports scn steps hp).1
    have hflat : (List.replicate n (shootScenario scn steps).reports).flatten.map toObs
        = (List.replicate n ((shootScenario scn steps).reports.map toObs)).flatten := by
      simp [List.map_flatten, List.map_replicate]
    rw [hflat, hrep]
    apply judgeShotsSeq_accepts
    · rw [executed_map]; simp
    · rw [executed_map]; exact judgeShot_accepts scn _


/-! ## redirects: which client does the exchange, and which answer is "the response received" -/

def toSpecLoc : Model.C10.Loc → Spec.C10.Loc
  | .absent => .absent
  | .leadsOn => .leadsOn
  | .unparsable => .unparsable
  | .loops => .loops

/-- the model's chain and the Spec's chain describe the same exchanges: answers agree, and the exchange a chain ends with
has the ground truth of its outcome -/
inductive HopTruth : Hop → ChainHop → Prop
  | answer (st : Nat) (loc : Model.C10.Loc) : HopTruth (.answer st loc) (.answer st (toSpecLoc loc))
  | last (o : HttpOutcome) (t : Truth) : TruthFor o t → HopTruth (.last o) (.last t)

/-- hop by hop, for chains of any length -/
inductive ChainsAgree : List Hop → List ChainHop → Prop
  | nil : ChainsAgree [] []
  | cons {m : Hop} {c : ChainHop} {ms : List Hop} {cs : List ChainHop} :
      HopTruth m c → ChainsAgree ms cs → ChainsAgree (m :: ms) (c :: cs)

/-- Whatever chain of answers the target leads a client through — any statuses, any `Location` headers (absent, leading
on, unparsable, looping), any last exchange, any length — the outcome `NewRedirectingClient(tr, redirect).Do` hands to
`Shoot` has exactly the ground truth the Spec assigns to that chain: with `redirect: false` the first answer, with
`redirect: true` the last answer of the chain, or a failed exchange when the chain cannot be followed. -/
theorem C10_redirect_truth (redirect : Bool) (mh : List Hop) (sh : List ChainHop) (h : ChainsAgree mh sh) :
    TruthFor (clientDo redirect mh) (chainTruth redirect sh) := by
  have hgave : TruthFor clientGaveUp .failed := .failed _ (by simp [ErrnoNonzero])
  have hnone : TruthFor (.doErr .other) .failed := .failed _ (by simp [ErrnoNonzero])
  unfold clientDo chainTruth
  cases redirect with
  | false =>
    simp only [Bool.false_eq_true, if_false]
    cases h with
    | nil => simpa [bareDo, chainTruthN] using hnone
    | cons hd _ =>
      cases hd with
      | answer st loc => simpa [bareDo, chainTruthN] using TruthFor.received st
      | last o t ht => simpa [bareDo, chainTruthN] using ht
  | true =>
    simp only [if_true]
    have hmax : Model.C10.maxRequests = Spec.C10.maxRequests := rfl
    rw [hmax]
    generalize Spec.C10.maxRequests = n
    induction h generalizing n with
    | nil => simpa [followDo, chainTruthN] using hnone
    | cons hd _ ih =>
      cases hd with
      | last o t ht => simpa [followDo, chainTruthN] using ht
      | answer st loc =>
        unfold followDo chainTruthN
        rw [isRedirectStatus_eq]
        by_cases hr : Spec.C10.isRedirectStatus st = true
        · simp only [hr, if_true]
          cases loc with
          | absent => exact TruthFor.received st
          | unparsable => exact hgave
          | loops => exact hgave
          | leadsOn =>
            simp only [toSpecLoc]
            by_cases hn : n ≤ 1
            · simpa [hn] using hgave
            · simpa [hn] using ih (n - 1)
        · simp only [hr]
          exact TruthFor.received st

/-- Redirects and the samples.
1. `redirect: false` (the default): the FIRST answer is the response received — the sample carries its status and net
   code 0 whatever the `Location` header says (nothing, a reference, something no URL parser accepts) and whatever would
   follow.
2. Either setting, any chain: the executable Spec, judging by the ground truth it assigns to the chain, accepts the
   gun's sample.
3. The client's limit: `k` redirects and then an exchange `o` are followed to `o` for `k < 10` (ten requests) and end in
   the client's own error (a failed exchange, net code 999) from `k = 10` on. -/
theorem C10_redirect :
    (∀ (cfg : AutoTagCfg) (s : HttpShot) (st : Nat) (loc : Model.C10.Loc) (rest : List Hop), s.connectHook = none →
        s.invalid = false → s.outcome = clientDo false (.answer st loc :: rest) →
        (shootHttp cfg s).reports = [{ tags := httpTag cfg s.ammoTag s.path, id := s.id, proto := st, net := 0 }]) ∧
    (∀ (redirect : Bool) (cfg : AutoTagCfg) (s : HttpShot) (mh : List Hop) (sh : List ChainHop), s.connectHook = none →
        s.invalid = false → ChainsAgree mh sh → s.outcome = clientDo redirect mh →
        judgeHttp (expectedTag cfg.enabled cfg.uriElements cfg.noTagOnly s.ammoTag s.path) (chainTruth redirect sh)
          ((shootHttp cfg s).reports.map toObs) = "ok") ∧
    (∀ (o : HttpOutcome) (k : Nat),
        clientDo true (List.replicate k (.answer 302 .leadsOn) ++ [.last o]) = if k < 10 then o else clientGaveUp) := by
  refine ⟨?_, ?_, ?_⟩
  · intro cfg s st loc rest hc hv ho
    simp [shootHttp, hc, hv, ho, clientDo, bareDo]
  · intro redirect cfg s mh sh hc hv hh ho
    exact C10_spec_accepts_model.1 cfg s _ hc hv (ho ▸ C10_redirect_truth redirect mh sh hh)
  · intro o k
    simpa [clientDo, Model.C10.maxRequests] using followDo_replicate o k 10 (by decide)

/-- The same statement for a client that serves `redirect: false` by an `*http.Client` whose `CheckRedirect` refuses to
follow (`http.ErrUseLastResponse`) is FALSE: that client parses the `Location` of a redirecting answer before it asks
`CheckRedirect`, and a 302 whose `Location` cannot be parsed is reported as a failed exchange (proto 0, net 999)
although the target answered. Why `noRedirectClient` (regenerated: `pathsNewRedirectingClient`, `srcNoRedirectClientDo`)
is a bare `RoundTrip`. -/
def C10_redirect_off_via_checkredirect_statement : Prop :=
  ∀ (cfg : AutoTagCfg) (s : HttpShot) (mh : List Hop) (sh : List ChainHop), s.connectHook = none → s.invalid = false →
    ChainsAgree mh sh → s.outcome = checkRedirectDo mh →
    judgeHttp (expectedTag cfg.enabled cfg.uriElements cfg.noTagOnly s.ammoTag s.path) (chainTruth false sh)
      ((shootHttp cfg s).reports.map toObs) = "ok"

theorem C10_redirect_off_via_checkredirect_counterexample : ¬ C10_redirect_off_via_checkredirect_statement := by
  intro h
  have := h ⟨false, 1, false⟩ { ammoTag := "t", id := 1, path := "/a", outcome := checkRedirectDo [.answer 302 .unparsable] }
    [.answer 302 .unparsable] [.answer 302 .unparsable] rfl rfl (.cons (.answer 302 .unparsable) .nil) rfl
  revert this
  decide

/-! ## pauses of a scenario step, and an instance cancelled during one -/

/-- A scenario step may be followed by a pause, and the instance may be cancelled while the gun is inside it (`c`: the
number of the step after which that happens, `none`: never). The code's pause is `time.Sleep` and its step loop never
looks at the context: the shot is EXACTLY the shot without a cancellation, so every statement about `shootScenario`
holds under any cancellation — in particular one sample per executed step, in order. The same "one sample per executed
step" holds for a pause that ends the shot quietly when cancelled (fewer steps are executed, each still has its one
sample). -/
theorem C10_cancel_during_pause :
    (∀ (scn : String) (c : Option Nat) (steps : List Step),
        shootScenarioPaused .sleeps scn c steps = shootScenario scn steps) ∧
    (∀ (scn : String) (c : Option Nat) (steps : List Step), NoPanic steps →
        OnePerExecutedStep scn steps (shootScenarioPaused .sleeps scn c steps)) ∧
    (∀ (scn : String) (c : Option Nat) (steps : List Step), NoPanic steps →
        OnePerExecutedStep scn steps (shootScenarioPaused .stopsQuietly scn c steps)) := by
  refine ⟨fun scn c steps => paused_sleeps scn steps c, ?_, fun scn c steps hp => paused_stopsQuietly scn steps c hp⟩
  intro scn c steps hp
  rw [paused_sleeps]
  exact ⟨executedSteps steps, executedSteps_le steps, (shootScenario_reports scn steps hp).1⟩

/-- For a pause that makes `shootStep` return an error when the instance is cancelled the statement is FALSE: the step
loop hands every error of `shootStep` to `reportErr`, and the step's sample — already reported before the pause — is
reported a second time (as a failed step). One answered request, two samples. -/
def C10_pause_returning_error_statement : Prop :=
  ∀ (scn : String) (c : Option Nat) (steps : List Step), NoPanic steps →
    OnePerExecutedStep scn steps (shootScenarioPaused .returnsError scn c steps)

theorem C10_pause_returning_error_counterexample : ¬ C10_pause_returning_error_statement := by
  intro h
  obtain ⟨k, hk, hr⟩ := h "scn" (some 0) [⟨"login", .received 200 .ok⟩]
    (by intro s hs st; simp at hs; subst hs; simp)
  have hlen := congrArg List.length hr
  have h2 : (shootScenarioPaused .returnsError "scn" (some 0) [⟨"login", .received 200 .ok⟩]).reports.length = 2 := by decide
  rw [h2] at hlen
  simp at hlen hk
  omega

/-! ## the model's paths are the code's paths -/

/-- The decision trees of the model and the functions of the repo take the SAME PATHS, in the vocabulary of the path
summaries regenerated from the source on every run (`Gen.GrpcStatus.paths…`: per path the exit and the setter calls,
`Report` calls and exchange results along it; `Bridge.GrpcStatus.paths…_model`):
1. every shot of the http gun — any setting, tag, path and outcome but the fatal panic — takes a path of `BaseGun.Shoot`,
   and reports as often along it as `shootHttp` says;
2. conversely every path of `BaseGun.Shoot` that does not panic is the path of some shot of the model: the code has no
   way through `Shoot` the model does not know;
3. the same for the gRPC gun;
4. every step outcome of the scenario guns (with or without a pause) takes a path of the respective `shootStep`. -/
theorem C10_paths :
    (∀ (cfg : AutoTagCfg) (s : HttpShot), s.connectHook = none → s.outcome ≠ .doPanic →
        httpPath cfg s ∈ Gen.GrpcStatus.pathsBaseShoot ∧
        reportCount (httpPath cfg s).2 = (shootHttp cfg s).reports.length) ∧
    (∀ p ∈ Gen.GrpcStatus.pathsBaseShoot, p.1 ≠ "panic" → ∃ cfg s, s.connectHook = none ∧ httpPath cfg s = p) ∧
    (∀ (tag : String) (o : GrpcOutcome), grpcPath o ∈ Gen.GrpcStatus.pathsGrpcShoot ∧
        reportCount (grpcPath o).2 = (shootGrpc tag o).reports.length) ∧
    (∀ p ∈ Gen.GrpcStatus.pathsGrpcShoot, ∃ o, grpcPath o = p) ∧
    (∀ (pause : Bool) (o : StepOutcome) (p : Path), stepPath pause o = some p → p ∈ Gen.GrpcStatus.pathsScenarioShootStep) ∧
    (∀ (pause : Bool) (o : GrpcStepOutcome) (p : Path), grpcStepPath pause o = some p →
        p ∈ Gen.GrpcStatus.pathsGrpcScenarioShootStep) := by
  have hb := sameSet_spec Bridge.GrpcStatus.pathsBaseShoot_model
  have hg := sameSet_spec Bridge.GrpcStatus.pathsGrpcShoot_model
  have hs := sameSet_spec Bridge.GrpcStatus.pathsScenarioShootStep_model
  have hgs := sameSet_spec Bridge.GrpcStatus.pathsGrpcScenarioShootStep_model
  refine ⟨?_, ?_, ?_, ?_, ?_, ?_⟩
  · intro cfg s hc hp
    refine ⟨(List.mem_filter.mp (hb.2 _ (httpPath_mem cfg s hp))).1, ?_⟩
    rw [(C10_one_sample_per_request.1 cfg s hc)]
    have hmem := httpPath_mem cfg s hp
    have : ∀ q ∈ httpPaths, reportCount q.2 = 1 := by decide
    exact this _ hmem
  · intro p hp hne
    have hm : p ∈ httpPaths := hb.1 p (List.mem_filter.mpr ⟨hp, by simpa using hne⟩)
    simp only [httpPaths, List.mem_map] at hm
    obtain ⟨⟨cfg, s⟩, hk, rfl⟩ := hm
    refine ⟨cfg, s, ?_, rfl⟩
    have : ∀ k ∈ httpShotKinds, k.2.connectHook = none := by decide
    exact this _ hk
  · intro tag o
    constructor
    · apply hg.2
      cases o <;> simp [grpcPaths, grpcPath]
    · cases o <;> simp [grpcPath, reportCount, shootGrpc]
  · intro p hp
    have hm := hg.1 p hp
    simp only [grpcPaths, List.mem_map] at hm
    obtain ⟨o, _, rfl⟩ := hm
    exact ⟨o, rfl⟩
  · intro pause o p h
    apply hs.2
    cases pause <;> cases o with
    | prepErr => simp [stepPath] at h; subst h; decide
    | doErr e => simp [stepPath] at h; subst h; decide
    | bodyErr st e => simp [stepPath] at h; subst h; decide
    | received st post => cases post <;> simp [stepPath] at h <;> (subst h; decide)
  · intro pause o p h
    apply hgs.2
    cases pause <;> cases o with
    | prepErr => simp [grpcStepPath] at h; subst h; decide
    | unknownMethod => simp [grpcStepPath] at h; subst h; decide
    | badPayload => simp [grpcStepPath] at h; subst h; decide
    | invoked c post => cases post <;> simp [grpcStepPath] at h <;> (subst h; decide)

/-! ## round 4: pooled ammo objects, counters far into a run, failed dials -/

/-- The grpc/json provider decodes every line into an ammo object it takes from a `sync.Pool` the instances release
their ammo into. For EVERY pool policy (`choose`), EVERY initial pool contents (objects in any state: tagged, with
metadata and payload keys of their own, flagged invalid) and every file (any mix of lines with and without the optional
keys `tag` / `metadata` / `payload`, undecodable lines in between): (1) the ammo delivered is what each line decodes to in
a NEW object; (2) one sample per line, carrying the tag of ITS line — nothing when the line has none; (3) an ammo is
flagged invalid iff its own line cannot be decoded (the flag does not stick to the object); (4) the Spec's judge accepts
the run's samples against the truth read off the LINES. -/
theorem C10_ammo_pool_reuse (choose : List AmmoObj → Option Nat) (pool : List AmmoObj) (ents : List Entry) :
    runAmmoPool deliver choose pool ents = ents.map (deliver {}) ∧
    (shootAmmo (runAmmoPool deliver choose pool ents)).map (·.tags) = ents.map entryTag ∧
    (runAmmoPool deliver choose pool ents).map (·.invalid) = ents.map (fun e => !e.decodable) ∧
    judgeGrpc (ents.map fun e => (entryTag e, grpcTruth (scriptedOutcome (deliver {} e))))
      ((shootAmmo (runAmmoPool deliver choose pool ents)).map toObs) = "ok" := by
  have htab : ∀ c, grpcToHttp c = docTable c := fun c =>
    (Bridge.GrpcStatus.grpcToHttp_eq c).symm.trans (C10_grpc_table c)
  rw [runAmmoPool_deliver]
  refine ⟨rfl, ?_, ?_, ?_⟩
  · rw [shootAmmo_tags]; simp [List.map_map, Function.comp_def, deliver_tag]
  · simp [List.map_map, Function.comp_def, deliver_invalid]
  · have h := judgeGrpc_accepts_ammo htab (ents.map (deliver {}))
    simpa [List.map_map, Function.comp_def, deliver_tag] using h

/-- The same claim for a provider that decodes the line straight INTO the pooled object (no fresh value, no `Reset`). -/
def C10_ammo_pool_decoding_into_pooled_statement : Prop :=
  ∀ (choose : List AmmoObj → Option Nat) (pool : List AmmoObj) (ents : List Entry),
    (shootAmmo (runAmmoPool deliverInto choose pool ents)).map (·.tags) = ents.map entryTag

/-- It is false: a line without `tag` decoded into the object a tagged line was released in is reported under that tag. -/
theorem C10_ammo_pool_decoding_into_pooled_counterexample : ¬ C10_ammo_pool_decoding_into_pooled_statement := by
  intro h
  have := h (fun p => if p.isEmpty then none else some 0) []
    [{ tag := some "T", call := some "target.TargetService.Hello" }, { call := some "target.TargetService.Hello" }]
  revert this
  decide

/-- Ids far into a run: the counter stands at `start` (that many ammo were acquired, carrying the ids `1 … start`) and
the run goes on under ANY schedule of any number of instances. As long as the 64-bit counter does not wrap, the ids of
the stretch are pairwise distinct, every one of them is larger than `start` — none is an id an earlier ammo of the run
carried — and the Spec's judge of a stretch accepts them. -/
theorem C10_ids_far_into_a_run {ι : Type} (start : Nat) (sched : List ι) (h : start + sched.length < idModulus) :
    ((runIds start sched).map Prod.snd).Nodup ∧
    (∀ id ∈ (runIds start sched).map Prod.snd, start < id ∧ id ≤ start + sched.length) ∧
    judgeIdsFrom start sched.length ((runIds start sched).map Prod.snd).length
      (((runIds start sched).map Prod.snd).filter (· ≤ start)).length = "ok" := by
  have hlen : sched.length ≤ idModulus := by omega
  have hafter := ids_after_start start sched h
  refine ⟨(C10_ids_unique start sched hlen).1, hafter, ?_⟩
  have hnone : ((runIds start sched).map Prod.snd).filter (· ≤ start) = [] := by
    rw [List.filter_eq_nil_iff]
    intro id hid
    have := (hafter id hid).1
    simp; omega
  have hl : ((runIds start sched).map Prod.snd).length = sched.length := by
    rw [runIds_snd]; simp
  simp [judgeIdsFrom, hnone, hl]

/-- The same for a counter of `bits` bits whose value `NextID` widens to the 64-bit id. -/
def C10_ids_narrow_counter_statement (bits : Nat) : Prop :=
  ∀ (start : Nat) (sched : List Unit), start < 2 ^ bits → start + sched.length < idModulus →
    ∀ id ∈ (runIdsW bits start sched).map Prod.snd, start < id

/-- True of the code's 64-bit counter … -/
theorem C10_ids_narrow_counter_64 : C10_ids_narrow_counter_statement 64 := by
  intro start sched _ h id hid
  rw [runIdsW_64] at hid
  exact (ids_after_start start sched h id hid).1

/-- … false of a 32-bit one: after 2^32 − 1 ammo the next id is 0, then 1 — the id of the run's first ammo. -/
theorem C10_ids_narrow_counter_counterexample : ¬ C10_ids_narrow_counter_statement 32 := by
  intro h
  have := h 4294967295 [()] (by decide) (by decide) 0 (by decide)
  omega

/-- A failed dial, for every gun (http, http2, connect), with `dial.dns-cache` on or off, the target's address cached or
not, redirects off or on, refused with any errno or timed out: (1) the error `Shoot` hands to the sample does not depend
on `dns-cache` — `NewDNSCachingDialer` returns a dial error as it is; (2) the http / http2 guns code a refused dial with
its errno and a dial timeout with 110, redirects on or off; (3) the CONNECT gun (whose dial function wraps every error
with `errors.WithStack`) codes a refused dial with its errno when `Shoot` gets the error directly and with the 999
fallback behind `redirect: true` (`*url.Error` outside, the wrapper below it), and a dial timeout with 999; (4) the code
is never 0; (5) the Spec's relational judge accepts any list of failed dials coded with `dns-cache` on against the same
coded with it off. -/
theorem C10_dial_failure :
    (∀ g cached redirect d, dialFailure g true cached redirect d = dialFailure g false cached redirect d) ∧
    (∀ g dc cached redirect n, g ≠ .connect → n ≠ 11 →
        getErrno (dialFailure g dc cached redirect (.refused n)) = n) ∧
    (∀ g dc cached redirect, g ≠ .connect → getErrno (dialFailure g dc cached redirect .timedOut) = 110) ∧
    (∀ dc cached n, getErrno (dialFailure .connect dc cached false (.refused n)) = n ∧
        getErrno (dialFailure .connect dc cached true (.refused n)) = 999 ∧
        ∀ redirect, getErrno (dialFailure .connect dc cached redirect .timedOut) = 999) ∧
    (∀ g dc cached redirect d, (∀ n, d = .refused n → n ≠ 0) → getErrno (dialFailure g dc cached redirect d) ≠ 0) ∧
    (∀ l : List (GunKind × Bool × Bool × DialFail),
        judgeDialerIndependent (l.map fun x => getErrno (dialFailure x.1 true x.2.1 x.2.2.1 x.2.2.2))
          (l.map fun x => getErrno (dialFailure x.1 false x.2.1 x.2.2.1 x.2.2.2)) = "ok") := by
  have h1 : ∀ g cached redirect d, dialFailure g true cached redirect d = dialFailure g false cached redirect d := by
    intro g cached redirect d
    simp [dialFailure, transportDialErr, cachingDial]
  refine ⟨h1, ?_, ?_, ?_, ?_, ?_⟩
  · intro g dc cached redirect n hg hn
    cases g <;> cases dc <;> cases redirect <;>
      simp_all [dialFailure, transportDialErr, cachingDial, clientErr, dialErr, getErrno, isNetError, hasTimeout,
        stripUnderlying, cause, unwrapLoop, timeoutErrno] <;> omega
  · intro g dc cached redirect hg
    cases g <;> cases dc <;> cases redirect <;>
      simp_all [dialFailure, transportDialErr, cachingDial, clientErr, dialErr, getErrno, isNetError, hasTimeout,
        timeoutErrno]
  · intro dc cached n
    refine ⟨?_, ?_, ?_⟩
    · cases dc <;> simp [dialFailure, transportDialErr, cachingDial, connectDial, clientErr, dialErr, getErrno,
        isNetError, hasTimeout, stripUnderlying, cause, unwrapLoop]
    · cases dc <;> simp [dialFailure, transportDialErr, cachingDial, connectDial, clientErr, dialErr, getErrno,
        isNetError, hasTimeout, stripUnderlying, cause, unwrapLoop, protoCodeError]
    · intro redirect
      cases dc <;> cases redirect <;> simp [dialFailure, transportDialErr, cachingDial, connectDial, clientErr, dialErr,
        getErrno, isNetError, hasTimeout, stripUnderlying, cause, unwrapLoop, protoCodeError]
  · intro g dc cached redirect d hd
    cases d with
    | timedOut =>
      cases g <;> cases dc <;> cases redirect <;>
        simp [dialFailure, transportDialErr, cachingDial, connectDial, clientErr, dialErr, getErrno, isNetError,
          hasTimeout, stripUnderlying, cause, unwrapLoop, protoCodeError, timeoutErrno]
    | refused n =>
      have hn := hd n rfl
      cases g <;> cases dc <;> cases redirect <;>
        simp [dialFailure, transportDialErr, cachingDial, connectDial, clientErr, dialErr, getErrno, isNetError,
          hasTimeout, stripUnderlying, cause, unwrapLoop, protoCodeError, timeoutErrno] <;>
        (try split) <;> omega
  · intro l
    have : (l.map fun x => getErrno (dialFailure x.1 true x.2.1 x.2.2.1 x.2.2.2))
        = (l.map fun x => getErrno (dialFailure x.1 false x.2.1 x.2.2.1 x.2.2.2)) := by
      apply List.map_congr_left
      intro x _
      rw [h1]
    rw [this]
    exact judgeDialerIndependent_refl _

/-- The same independence claim for a caching dialer that decorates the error of the first dial of an address it has
not cached yet (`errors.Wrapf`). -/
def C10_dial_wrapping_dialer_statement : Prop :=
  ∀ (g : GunKind) (redirect : Bool) (d : DialFail),
    getErrno (clientErr redirect (transportDialErr cachingDialWrapping g true false d))
      = getErrno (clientErr redirect (transportDialErr cachingDialWrapping g false false d))

/-- It is false: a dial timeout of the http gun is coded 999 through that dialer and 110 without it. -/
theorem C10_dial_wrapping_dialer_counterexample : ¬ C10_dial_wrapping_dialer_statement := by
  intro h
  have := h .http false .timedOut
  revert this
  decide

/-! ## round 6: between the schedule and the gun — the loop of `instance.Run`

The loop body is C03's: `Gen.InstLoop.iterBody`, regenerated from core/engine/instance.go on every run, executed by C03's
interpreter `Model.C03Loop.exec` (both imported read-only). The theorems below compose it with the guns of this property. -/

open Pandora.Model.C03Loop (Oracle) in
/-- "Each fired request produces exactly one sample", at the aggregator, for ONE iteration of the loop body as it stands in
the source now, under every answer of the environment (`Acquire` ok?, `Wait` ok?, fire or discard?) and for ANY gun
(`gun` = what `Shoot` reports for the ammo): the iteration hands the aggregator exactly the gun's samples when the request
is fired — no `discarded` sample accompanies a fired request —, exactly one `discarded` sample when the shot is not sent
although its time had come, nothing when there was no ammo or no token; and `Shoot` is called once when the request is
fired and not at all otherwise. Composed with `C10_one_sample_per_request`: a fired request of the http gun (any outcome)
or of the gRPC gun reaches the aggregator as exactly one sample. -/
theorem C10_instance_iteration :
    (∀ (o : Oracle) (gun : List Sample), iterReports Gen.InstLoop.iterBody o gun =
        if o.acqOk && o.waitOk then (if o.fire then gun else [discardedSample]) else []) ∧
    (∀ o : Oracle, iterShots Gen.InstLoop.iterBody o = if o.acqOk && o.waitOk && o.fire then 1 else 0) ∧
    (∀ (o : Oracle) (cfg : AutoTagCfg) (s : HttpShot), s.connectHook = none → o.acqOk = true → o.waitOk = true →
        o.fire = true → iterReports Gen.InstLoop.iterBody o (shootHttp cfg s).reports = (shootHttp cfg s).reports ∧
          (iterReports Gen.InstLoop.iterBody o (shootHttp cfg s).reports).length = 1) ∧
    (∀ (o : Oracle) (tag : String) (g : GrpcOutcome), o.acqOk = true → o.waitOk = true → o.fire = true →
        (iterReports Gen.InstLoop.iterBody o (shootGrpc tag g).reports).length = 1) ∧
    (∀ (o : Oracle) (gun : List Sample), o.fire = false →
        iterShots Gen.InstLoop.iterBody o = 0 ∧ ∀ r ∈ iterReports Gen.InstLoop.iterBody o gun, r = discardedSample) := by
  refine ⟨iterReports_gen, iterShots_gen, ?_, ?_, ?_⟩
  · intro o cfg s hc ha hw hf
    rw [iterReports_gen]
    simp [ha, hw, hf, C10_one_sample_per_request.1 cfg s hc]
  · intro o tag g ha hw hf
    rw [iterReports_gen]
    simp [ha, hw, hf, shootGrpc]
  · intro o gun hf
    rw [iterShots_gen, iterReports_gen]
    simp only [hf, Bool.and_false, Bool.false_eq_true, if_false, true_and]
    intro r hr
    split at hr <;> simp_all

/-- the same claim about an arbitrary loop body -/
def C10_instance_iteration_statement (body : List Pandora.Model.C03Loop.Instr) : Prop :=
  ∀ (o : Pandora.Model.C03Loop.Oracle) (gun : List Sample), iterReports body o gun =
    if o.acqOk && o.waitOk then (if o.fire then gun else [discardedSample]) else []

/-- It is FALSE for the body in which the discard branch became a guard clause that does not return (the `else` flattened
away): a shot the instance decides to discard is reported as `discarded` AND fired — two samples for one request. -/
theorem C10_discard_then_fire_counterexample : ¬ C10_instance_iteration_statement
    [.acquireOrReturn "ammo", .deferRelease "ammo", .waitOrReturn, .ifFire, .orElse, .reportDiscard, .endIf,
     .metricAdd "Request" 1, .shoot "ammo", .metricAdd "Response" 1, .returnNil] := by
  intro h
  have := h ⟨true, true, false⟩ [{ tags := "t", id := 1, proto := 200, net := 0 }]
  revert this
  decide

/-- The decision itself (`!i.discardOverflow || !waiter.IsSlowDown(ctx)` — the condition C03's translator reads as `.ifFire` —,
`IsSlowDown` = overdue ≥ 2 s unless the context is done: regenerated `isSlowDownFacts`, `maxOverdueNanos`): a request whose token was drawn is fired unless `discard_overflow` is on AND the instance is at least two seconds
behind AND its context is alive. In particular with `discard_overflow` off every such request is fired. -/
theorem C10_fire_decision (it : Iter) :
    (it.fire = true ↔ (it.discardOverflow = false ∨ it.ctxDone = true ∨ it.overdueNanos < 2000000000)) ∧
    (it.discardOverflow = false → it.fire = true) ∧
    Gen.GrpcStatus.isSlowDownFacts = ["done:false", "live:recv.overdueDuration >= MaxOverdueDuration"] ∧
    maxOverdueNanos = Gen.GrpcStatus.maxOverdueNanos := by
  have h : it.fire = true ↔ (it.discardOverflow = false ∨ it.ctxDone = true ∨ it.overdueNanos < 2000000000) := by
    unfold Iter.fire fireDecision isSlowDown maxOverdueNanos
    cases it.discardOverflow <;> cases it.ctxDone <;> simp
  exact ⟨h, fun hd => h.mpr (Or.inl hd), Bridge.GrpcStatus.isSlowDown_eq.1, Bridge.GrpcStatus.isSlowDown_eq.2.symm⟩

/-- OPTION DEFAULTS of the tag: every registered http-family gun (`http`, `http2`, `connect`, `http/scenario`,
`http2/scenario`: regenerated `register.Gun` calls) decodes its config over a defaults function whose `auto-tag` section is
`{enabled: false, uri-elements: 2, no-tag-only: true}` (regenerated literals) — the values docs/eng/http-generator.md
documents (regenerated remarks). So for a section written only in part (`none`: key absent) the sample carries the tag the
Spec derives from what is written and the DOCUMENTED defaults, for all tags, paths and outcomes. -/
theorem C10_autotag_defaults :
    (∀ g ∈ Gen.GrpcStatus.gunDefaultConfig, Gen.GrpcStatus.autoTagDefaults.lookup g.2 =
        some (defaultAutoTag.enabled, defaultAutoTag.uriElements, defaultAutoTag.noTagOnly)) ∧
    (defaultAutoTag.enabled = false ∧ defaultAutoTag.uriElements = docUriElements ∧ defaultAutoTag.noTagOnly = docNoTagOnly) ∧
    (∀ (en : Option Bool) (el : Option Nat) (nto : Option Bool) (s : HttpShot), s.connectHook = none → s.invalid = false →
        ∀ r ∈ (shootHttp (decodeAutoTag en el nto) s).reports, r.tags = expectedTagWritten en el nto s.ammoTag s.path) := by
  refine ⟨Bridge.GrpcStatus.registered_guns_autoTag_default, Bridge.GrpcStatus.defaultAutoTag_documented, ?_⟩
  intro en el nto s hc hv r hr
  have := C10_tag.1 (decodeAutoTag en el nto) s hc hv r hr
  rw [this]
  rfl

/-- A whole run of one instance through the regenerated loop body: iteration after iteration until `Acquire` fails, any
guns' samples, any answers of the environment. What reaches the aggregator is, iteration by iteration, what the property
allows (`iterSpec`); when every `Shoot` reports exactly one sample (`C10_one_sample_per_request`) the aggregator gets exactly
one sample per iteration that held an ammo and a token. -/
theorem C10_instance_run (its : List Iter) :
    runInstance Gen.InstLoop.iterBody its = (ranIters its).flatMap iterSpec ∧
    ((∀ it ∈ its, it.gun.length = 1) →
      (runInstance Gen.InstLoop.iterBody its).length = ((ranIters its).filter fun it => it.acqOk && it.waitOk).length) := by
  refine ⟨runInstance_gen its, fun hg => ?_⟩
  rw [runInstance_gen]
  have hsub : ∀ it ∈ ranIters its, it ∈ its := by
    intro it
    induction its with
    | nil => simp [ranIters]
    | cons x rest ih =>
      unfold ranIters
      split
      · intro h
        rcases List.mem_cons.mp h with rfl | h
        · exact List.mem_cons_self ..
        · exact List.mem_cons_of_mem _ (ih (fun it hit => hg it (List.mem_cons_of_mem _ hit)) h)
      · intro h
        simp at h; subst h; exact List.mem_cons_self ..
  generalize ranIters its = l at hsub
  induction l with
  | nil => rfl
  | cons it rest ih =>
    have h1 := hg it (hsub it (List.mem_cons_self ..))
    have ih' := ih (fun x hx => hsub x (List.mem_cons_of_mem _ hx))
    simp only [List.flatMap_cons, List.length_append, ih', List.filter_cons]
    unfold iterSpec
    by_cases hc : (it.acqOk && it.waitOk) = true
    · simp only [hc, if_true, List.length_cons]
      by_cases hf : it.fire = true <;> simp [hf, h1, discardedSample] <;> omega
    · simp [hc]

/-- A whole POOL run through the regenerated loop body: any number of instances, their iterations interleaved in any way
(the list is in acquisition order; every acquired ammo takes the next id), every iteration with any answers of the
environment and any outcome of its exchange, the samples reaching the aggregator in ANY order. As long as the id counter
does not wrap: the samples are the gun's samples — exactly one per FIRED ammo, with pairwise distinct non-zero ids — plus
exactly one `discarded` sample (id 0) per shot the instance did not send although its time had come; the Spec's judges of
such a run accept these numbers. -/
theorem C10_pool_run_with_discards {ι : Type} (cfg : AutoTagCfg) (c : Nat)
    (its : List (ι × ShotPlan × Pandora.Model.C03Loop.Oracle)) (h : c + its.length < idModulus)
    (reported : List Sample) (hperm : reported.Perm (runPoolLoop Gen.InstLoop.iterBody cfg c its)) :
    ∃ guns : List Sample,
      reported.Perm (guns ++ List.replicate
        (its.filter fun x => x.2.2.acqOk && x.2.2.waitOk && !x.2.2.fire).length discardedSample) ∧
      guns.length = (its.filter fun x => x.2.2.acqOk && x.2.2.waitOk && x.2.2.fire).length ∧
      (guns.map (·.id)).Nodup ∧ (∀ s ∈ guns, s.id ≠ discardedSample.id) ∧
      judgeDiscards its.length (its.filter fun x => !(x.2.2.acqOk && x.2.2.waitOk && x.2.2.fire)).length
        (its.filter fun x => x.2.2.acqOk && x.2.2.waitOk && !x.2.2.fire).length = "ok" := by
  let plans : List (ι × ShotPlan × Fate) := (its.filter (·.2.2.acqOk)).map fun x => (x.1, x.2.1, fateOf x.2.2)
  have hlen : plans.length ≤ its.length := by
    simp only [plans, List.length_map]; exact List.length_filter_le _ _
  have hcount : ∀ f : Fate, countFate f plans = (its.filter fun x => x.2.2.acqOk && (fateOf x.2.2 == f)).length := by
    intro f
    simp only [plans, countFate, List.filter_map, List.length_map, List.filter_filter, Function.comp_def]
    congr 1
    apply List.filter_congr
    intro x _
    simp [Bool.and_comm]
  have hfd : ∀ o : Pandora.Model.C03Loop.Oracle, (o.acqOk && (fateOf o == .discarded)) = (o.acqOk && o.waitOk && !o.fire) := by
    intro o; obtain ⟨a, w, f⟩ := o; cases a <;> cases w <;> cases f <;> decide
  have hff : ∀ o : Pandora.Model.C03Loop.Oracle, (o.acqOk && (fateOf o == .fired)) = (o.acqOk && o.waitOk && o.fire) := by
    intro o; obtain ⟨a, w, f⟩ := o; cases a <;> cases w <;> cases f <;> decide
  refine ⟨runPool cfg c (firedOnly plans), ?_, ?_, ?_, ?_, ?_⟩
  · have h2 : (runPoolLoop Gen.InstLoop.iterBody cfg c its).Perm
        (runPool cfg c (firedOnly plans) ++ List.replicate (countFate .discarded plans) discardedSample) := by
      rw [runPoolLoop_gen]; exact runPoolD_perm cfg c plans
    have h3 := hperm.trans h2
    rw [hcount .discarded] at h3
    simpa only [hfd] using h3
  · rw [(runPool_ids cfg c (firedOnly plans)).2, firedOnly_fired, hcount .fired]
    simp only [hff]
  · have hn : (firedOnly plans).length ≤ idModulus := by rw [firedOnly_length]; omega
    exact (ids_nodup c _ hn).sublist (runPool_ids cfg c (firedOnly plans)).1
  · intro s hs
    have := (runPool_ids_pos cfg c (firedOnly plans) (by rw [firedOnly_length]; omega) s hs).1
    simp only [discardedSample]; omega
  · unfold judgeDiscards
    have hle : (its.filter fun x => x.2.2.acqOk && x.2.2.waitOk && !x.2.2.fire).length
        ≤ (its.filter fun x => !(x.2.2.acqOk && x.2.2.waitOk && x.2.2.fire)).length := by
      rw [← List.countP_eq_length_filter, ← List.countP_eq_length_filter]
      apply List.countP_mono_left
      intro x _ hx
      obtain ⟨i, p, ⟨a, w, f⟩⟩ := x
      cases a <;> cases w <;> cases f <;> simp_all
    exact if_neg (Nat.not_lt.mpr hle)

/-! ## non-vacuity: concrete non-trivial inputs meeting the hypotheses -/

-- the documented example: /my/very/deep/page with uri-elements 2 gives /my/very
example : httpTag ⟨true, 2, true⟩ "" "/my/very/deep/page" = "/my/very" := by decide
example : expectedTag true 2 true "" "/my/very/deep/page" = "/my/very" := by decide
-- connection refused as the OS reports it: url.Error(OpError(SyscallError(ECONNREFUSED)))
example : getErrno (.urlError (.opError (.syscallError (.errno 111)))) = 111 := by decide
example : ErrnoNonzero (.urlError (.opError (.syscallError (.errno 111)))) := by simp [ErrnoNonzero]
-- the connect gun wraps dial errors with errors.WithStack inside the url.Error: unrecognised
example : getErrno (.urlError (.causer (.opError (.syscallError (.errno 111))))) = 999 := by decide
-- client timeout
example : IsTimeout (.urlError .timeout) := by simp [IsTimeout, isNetError, hasTimeout]
example : (shootHttp ⟨true, 1, false⟩ { ammoTag := "t", id := 7, path := "/a/b", outcome := .response 503 (some .other) }).reports
    = [{ tags := "t|/a", id := 7, proto := 503, net := 999 }] := by decide
-- a scenario whose second step fails an assertion: two samples, third step not executed
example : (shootScenario "scn" [⟨"a", .received 200 .ok⟩, ⟨"b", .received 500 .err⟩, ⟨"c", .received 200 .ok⟩]).reports
    = [{ tags := "scn.a", id := 0, proto := 200, net := 0 }, { tags := "scn.b|__EMPTY__", id := 0, proto := 0, net := 999 }] := by decide
example : executedSteps [⟨"a", .received 200 .ok⟩, ⟨"b", .received 500 .err⟩, ⟨"c", .received 200 .ok⟩] = 2 := by decide
-- a run of four acquisitions by two instances, one of them never fired: one sample per fired ammo, ids 1 2 4
example : (runPool ⟨false, 2, true⟩ 0 [("i1", ⟨"a", "/x", .response 200 none, false, true⟩), ("i2", ⟨"", "/y", .doErr .timeout, false, true⟩),
    ("i2", ⟨"", "/w", .response 200 none, false, false⟩),
    ("i1", ⟨"", "/z", .response 503 (some .other), false, true⟩)]).map (fun r => (r.id, r.proto, r.net))
    = [(1, 200, 0), (2, 0, 110), (4, 503, 999)] := by decide
example : NoPanic [⟨"a", .received 200 .ok⟩, ⟨"b", .received 500 .err⟩] := by
  intro s hs st; simp at hs; rcases hs with rfl | rfl <;> simp
example : (3 : Nat) ≤ idModulus := by decide
-- hypotheses of the "drops the sample" / fatal theorems are satisfiable
example : ({ connectHook := some false, ammoTag := "", id := 1, path := "/", outcome := .response 200 none } : HttpShot).connectHook = some false := rfl
example : (shootScenario "s" [⟨"a", .received 200 .panic⟩, ⟨"b", .received 200 .ok⟩]) = { reports := [], panicked := true } := by decide
example : shootHttp ⟨true, 1, false⟩ { ammoTag := "t", id := 3, path := "/a/b", outcome := .doPanic }
    = { reports := [{ tags := "t|/a", id := 3, proto := 0, net := 0 }], panicked := true } := by decide
-- C10_netcode, last clause: an unrecognised chain that is neither a timeout nor ends in an errno (the connect gun's dial error)
example : ¬ IsTimeout (.urlError (.causer (.opError (.syscallError (.errno 111))))) := by simp [IsTimeout, isNetError, hasTimeout]
example : ∀ n, innermost (cause (stripUnderlying (.urlError (.causer (.opError (.syscallError (.errno 111))))))) ≠ .errno n := by
  intro n; simp [stripUnderlying, cause, innermost]
-- C10_run_ids_unique: any arrival order, e.g. the reversed one
example : ([3, 2, 1] : List Nat).Perm [1, 2, 3] := by decide
-- three instances interleaved
example : runIds 0 ["i1", "i2", "i1", "i3", "i2"] = [("i1", 1), ("i2", 2), ("i1", 3), ("i3", 4), ("i2", 5)] := by decide
example : (shootGrpc "tg" (.invoked 14)).reports = [{ tags := "tg", id := 0, proto := 503, net := 0 }] := by decide
-- round 2: a recycled sample that carried a failed exchange and an id; the line of the next request shows none of it
example : runRecycling acquire (fun p => if p.isEmpty then none else some 0) [{ tags := "old", id := 9, proto := 503, net := 999 }]
    [("", [.setID 1, .addTagIfEmpty "__EMPTY__", .setProto 200])] = [{ tags := "__EMPTY__", id := 1, proto := 200, net := 0 }] := by decide
example : runRecycling acquireKeeping (fun p => if p.isEmpty then none else some 0) [{ tags := "old", id := 9, proto := 503, net := 999 }]
    [("", [.setID 1, .addTagIfEmpty "__EMPTY__", .setProto 200])] = [{ tags := "__EMPTY__", id := 1, proto := 200, net := 999 }] := by decide
example : httpOps ⟨true, 1, false⟩ { ammoTag := "t", id := 7, path := "/a/b", outcome := .response 503 (some .other) }
    = [.setID 7, .addTag "/a", .addTagIfEmpty "__EMPTY__", .setProto 503, .setErr .other] := by decide
-- the target goes away during the second call: 200, then 503 for every call that is made, 0 / 400 for requests never sent
example : (runGrpcGone false [("a", .invoked 0, false), ("b", .invoked 0, true), ("c", .invoked 5, false),
    ("d", .unknownMethod, false), ("e", .badPayload, false)]).map (·.proto) = [200, 503, 503, 0, 400] := by decide
example : isInvoked (.invoked 5) = true := rfl
example : TruthFor (.doErr (.urlError .timeout)) .timedOut := .timedOut _ (by simp [IsTimeout, isNetError, hasTimeout])
example : TruthFor (.response 503 (some (.opError (.errno 104)))) (.bodyBroken 503) := .broken _ _ (by simp [ErrnoNonzero])
example : judgeShots "scn" ([⟨"a", .received 200 .ok⟩, ⟨"b", .received 500 .err⟩, ⟨"c", .received 200 .ok⟩].map stepTruthOf) 2
    ((List.replicate 2 (shootScenario "scn" [⟨"a", .received 200 .ok⟩, ⟨"b", .received 500 .err⟩, ⟨"c", .received 200 .ok⟩]).reports).flatten.map toObs) = "ok" := by decide
-- ... and the doubled sample of a step is named as a COUNT failure
example : judgeShots "s" [("a", .passed 200), ("b", .failedStep)] 1
    [⟨"s.a", 0, 200, 0⟩, ⟨"s.b", 0, 500, 0⟩, ⟨"s.b|__EMPTY__", 0, 0, 999⟩]
    = "fail:count:step s.b executed 1 time(s) but 2 sample(s) carry its tag" := by decide
example : judgeGrpc [("m", none)] [⟨"m", 0, 200, 0⟩] ≠ "ok" := by decide
-- round 3: redirects. A 302 with an unparsable Location: the first answer with redirects off, a failed exchange when following
example : clientDo false [.answer 302 .unparsable] = .response 302 none := by decide
example : clientDo true [.answer 302 .unparsable] = .doErr (.urlError .other) := by decide
example : chainTruth false [.answer 302 .unparsable] = .received 302 ∧ chainTruth true [.answer 302 .unparsable] = .failed := by decide
-- a chain: 301 -> 307 -> 404; the other host is dead; a 3xx no client follows
example : clientDo true [.answer 301 .leadsOn, .answer 307 .leadsOn, .last (.response 404 none)] = .response 404 none := by decide
example : clientDo true [.answer 302 .leadsOn, .last (.doErr (.urlError (.opError (.syscallError (.errno 111)))))]
    = .doErr (.urlError (.opError (.syscallError (.errno 111)))) := by decide
example : clientDo true [.answer 300 .leadsOn, .last (.response 200 none)] = .response 300 none := by decide
example : ChainsAgree [.answer 302 .leadsOn, .last (.response 404 none)] [.answer 302 .leadsOn, .last (.received 404)] :=
  .cons (.answer 302 .leadsOn) (.cons (.last _ _ (.received 404)) .nil)
-- nine redirects are followed (ten requests), ten are not
example : clientDo true (List.replicate 9 (.answer 302 .leadsOn) ++ [.last (.response 201 none)]) = .response 201 none := by decide
example : clientDo true (List.replicate 10 (.answer 302 .leadsOn) ++ [.last (.response 201 none)]) = clientGaveUp := by decide
-- round 3: a cancellation during the pause after the first step: nothing changes for the code's pause, the shot ends for a
-- quiet one, the step is reported twice when the pause returns an error
example : (shootScenarioPaused .sleeps "scn" (some 0) [⟨"login", .received 200 .ok⟩, ⟨"next", .received 404 .ok⟩]).reports.map (·.tags)
    = ["scn.login", "scn.next"] := by decide
example : (shootScenarioPaused .stopsQuietly "scn" (some 0) [⟨"login", .received 200 .ok⟩, ⟨"next", .received 404 .ok⟩]).reports.map (·.tags)
    = ["scn.login"] := by decide
example : (shootScenarioPaused .returnsError "scn" (some 0) [⟨"login", .received 200 .ok⟩, ⟨"next", .received 404 .ok⟩]).reports.map (·.tags)
    = ["scn.login", "scn.login|__EMPTY__"] := by decide
example : hitsMismatch "scn" [⟨"scn.login", 0, 200, 0⟩, ⟨"scn.login|__EMPTY__", 0, 0, 999⟩] [("login", 1), ("next", 0)]
    = some "fail:count:the target saw 1 request(s) of step scn.login but 2 sample(s) carry its tag" := by decide
-- round 3: paths
example : httpPath ⟨true, 1, false⟩ { ammoTag := "t", id := 7, path := "/a/b", outcome := .response 503 (some .other) }
    = ("void", ["IsInvalid=false", "AddTag", "Do=ok", "SetProtoCode", "Body=err", "SetErr", "Report"]) := by decide
example : stepPath true (.received 200 .ok) = some ("nil", ["Do=ok", "Body=ok", "SetProtoCode", "Report", "Sleep"]) := by decide

-- round 4
example : runAmmoPool deliver (fun p => if p.isEmpty then none else some 0) [{ tag := "stale", invalid := true }]
    [{ tag := some "T", call := some "c", metadata := some [("x-code", "5")] }, { call := some "c" }, { decodable := false }]
    = [{ tag := "T", call := "c", metadata := [("x-code", "5")] }, { call := "c" }, { invalid := true }] := by decide
example : (runAmmoPool deliverInto (fun p => if p.isEmpty then none else some 0) []
    [{ tag := some "T", call := some "c" }, { call := some "c" }]).map (·.tag) = ["T", "T"] := by decide
example : (4294967295 : Nat) + [(), ()].length < idModulus := by decide
example : (runIds 4294967295 [(), ()]).map Prod.snd = [4294967296, 4294967297] := by decide
example : (runIdsW 32 4294967295 [(), ()]).map Prod.snd = [0, 1] := by decide
example : getErrno (dialFailure .http true false true (.refused 111)) = 111 := by decide
example : getErrno (dialFailure .connect true false true (.refused 111)) = 999 := by decide
example : getErrno (clientErr false (transportDialErr cachingDialWrapping .http true false .timedOut)) = 999 := by decide
example : (GunKind.http2 ≠ .connect) ∧ (111 ≠ 11) := by decide

-- round 6: the regenerated loop body under the three kinds of answers; a fired request, a discarded shot, no token
example : iterReports Gen.InstLoop.iterBody ⟨true, true, true⟩ [{ tags := "t", id := 1, proto := 200, net := 0 }]
    = [{ tags := "t", id := 1, proto := 200, net := 0 }] := by decide
example : iterReports Gen.InstLoop.iterBody ⟨true, true, false⟩ [{ tags := "t", id := 1, proto := 200, net := 0 }]
    = [{ tags := "discarded", id := 0, proto := 0, net := 777 }] := by decide
example : iterReports Gen.InstLoop.iterBody ⟨true, false, true⟩ [{ tags := "t", id := 1, proto := 200, net := 0 }] = [] := by decide
-- the body of the counterexample: discarded AND fired
example : iterReports [.acquireOrReturn "ammo", .deferRelease "ammo", .waitOrReturn, .ifFire, .orElse, .reportDiscard, .endIf,
     .metricAdd "Request" 1, .shoot "ammo", .metricAdd "Response" 1, .returnNil] ⟨true, true, false⟩
    [{ tags := "t", id := 1, proto := 200, net := 0 }]
    = [{ tags := "discarded", id := 0, proto := 0, net := 777 }, { tags := "t", id := 1, proto := 200, net := 0 }] := by decide
-- an instance 2.3 s behind with discard_overflow on discards; with it off, or 1.9 s behind, or cancelled, it fires
example : ({ discardOverflow := true, overdueNanos := 2300000000 } : Iter).fire = false := by decide
example : ({ discardOverflow := false, overdueNanos := 2300000000 } : Iter).fire = true := by decide
example : ({ discardOverflow := true, overdueNanos := 1900000000 } : Iter).fire = true := by decide
example : ({ discardOverflow := true, ctxDone := true, overdueNanos := 2300000000 } : Iter).fire = true := by decide
-- a run of one instance: fired, slow, two discarded shots, out of ammo
example : runInstance Gen.InstLoop.iterBody
    [{ gun := [⟨"a", 1, 200, 0⟩] }, { discardOverflow := true, overdueNanos := 2300000000, gun := [⟨"b", 2, 200, 0⟩] },
     { discardOverflow := true, overdueNanos := 2300000001, gun := [⟨"c", 3, 200, 0⟩] }, { acqOk := false }, { gun := [⟨"never", 9, 0, 0⟩] }]
    = [⟨"a", 1, 200, 0⟩, ⟨"discarded", 0, 0, 777⟩, ⟨"discarded", 0, 0, 777⟩] := by decide
-- a pool run of two instances through the loop: ids 1 and 4 are fired, 2 is discarded, 3 gets no token
example : runPoolLoop Gen.InstLoop.iterBody ⟨false, 2, true⟩ 0
    [("i1", ⟨"a", "/x", .response 200 none, false, true⟩, ⟨true, true, true⟩), ("i2", ⟨"b", "/y", .response 200 none, false, true⟩, ⟨true, true, false⟩),
     ("i2", ⟨"c", "/z", .response 200 none, false, true⟩, ⟨true, false, true⟩), ("i1", ⟨"d", "/w", .doErr .timeout, false, true⟩, ⟨true, true, true⟩)]
    = [⟨"a", 1, 200, 0⟩, ⟨"discarded", 0, 0, 777⟩, ⟨"d", 4, 0, 110⟩] := by decide
example : (0 : Nat) + [(), (), (), ()].length < idModulus := by decide
example : judgeDiscards 4 1 2 = "fail:count:2 sample(s) say a shot was discarded (not sent) but only 1 of the 4 request(s) were not fired" := by decide
example : judgeFiredOrNot false "t" (.received 200) [⟨"t", 3, 200, 0⟩] ≠ "ok" := by decide

-- round 6: `auto-tag: {enabled: true}` alone tags like the documented example; uri-elements 3 written, the rest default
example : (shootHttp (decodeAutoTag (some true) none none) { ammoTag := "", id := 1, path := "/my/very/deep/page", outcome := .response 200 none }).reports
    = [{ tags := "/my/very", id := 1, proto := 200, net := 0 }] := by decide
example : expectedTagWritten (some true) (some 3) none "T" "/a/b/c/d" = "T" ∧ expectedTagWritten (some true) (some 3) (some false) "T" "/a/b/c/d" = "T|/a/b/c" := by decide

end Pandora.Props.C10
