/-
C11 — instance isolation and data-race freedom of all built-in components.

Model (`Model/C11Sharing.lean`): objects classed `loc i` / `sharedRO` / `sharedSync ℓ`; any number of instance
threads perform arbitrary access sequences consistent with the classification, in an arbitrary interleaving.

* `C11_drf`            — every trace consistent with the classification is data-race free: two conflicting accesses are
                         ordered by happens-before (program order ∪ unlock→lock). Three-way case split on the class.
* `C11_drf_programs`   — the same for the traces PRODUCED by any number of threads running arbitrary programs under
                         every schedule (the scheduler blocks `Lock` on a held mutex; nothing else is assumed).
* `C11_lock_table_guarded` — the lock facts regenerated from the current source (`Gen/Locks.lean`: which fields the
                         instance-facing methods of the sharedSync objects touch, and under which protection) contain
                         no unguarded access. Finite table, `decide`.
* `C11_inventory_sync_covered` — the shared units the inventory of `Spec/C11.lean` allows instances to write are
                         backed by synchronised access sites of that table.
* `C11_inventory_ro_covered` — the scenario components the inventory classes read-only (postprocessors, preprocessors,
                         variable storage) have only frozen read sites in that table.
* `C11_drf_table`      — hence threads that pass through those access sites in any order and interleaving are
                         data-race free (the table is the hypothesis that licenses the classes `sharedSync` / `sharedRO`).
* `C11_unguarded_counterexample`, `C11_prefix_table_counterexample`, `C11_shared_write_counterexample` — the code
                         before the three `fix:` commits (unguarded random sources; in-place metadata rendering) is
                         refuted: rejected table, racy trace, cross-instance read.
* `C11_drf_handover_programs` — the same for programs that also contain `take … bare accesses … give` sections on
                         objects that change hands (samples: pool → instance → aggregator → pool; pooled ammo), each
                         program satisfying the per-thread ownership discipline `progOk` (`Model/C11Own.lean`).
* `C11_owned_exclusive` — while a thread holds the token of such an object nobody else accesses it.
* `C11_report_twice_counterexample`, `C11_unlocked_fastpath_counterexample` — a gun that reports a sample and then
                         tags and reports it again, and a `Next` with a lock-free look-up before the locked insert, are
                         refuted in the model (discipline violated / table rejected, ill-formed and racy trace).
* `C11_gun_exclusive`  — guns of different instances are distinct objects and at no time are two `Shoot` calls in
                         progress on one gun, for every order of instance starts and instance moves.
* `C11_engine_gun_facts` — the call sites of the gun factory, of `Shoot`, of `newInstance` and of `instance.Run` in
                         the current source of `core/engine` (regenerated) are what the engine model's actions stand for.
* `C11_no_cross_instance_effect` — what an instance reads from its own and from read-only shared objects (ammo,
                         scenario definition, templates, metadata, variables) is what it would read running alone.

* `C11_closures_confined` — in the current source (regenerated closure table: every function literal of components/,
                         core/, lib/) no function literal that assigns its captured variables — nor a wrapper holding
                         one — is stored in a field, map, sync.Map, pool, channel or package variable, except the one
                         reviewed pair that stays on the provider goroutine: closure objects with state live and die
                         with one call. `C11_drf_fresh_closures`: threads whose closure cells are their own are data-race
                         free under every schedule.
* `C11_fresh_chain_isolated` — the variable a var/header mapping extracts from a response is a function of that response:
                         independent of every response processed before, by whichever instance.
* `C11_substr_in_bounds` — the regenerated body of the `substr` closure yields bounds `0 ≤ a ≤ b ≤ len`: the slice it
                         returns cannot panic (`Bridge/C11Locks.lean` ties the regenerated body to the model).
* `C11_cached_closure_statement / _counterexample / _partial` — if ONE parsed chain is kept and reused (a cache in the
                         shared postprocessor), isolation fails: `substr(-4)` extracts "" from a 6-character header once
                         a 10-character one was seen; it holds for chains without `substr`; the closure row of such a
                         cache is rejected and two instances calling the cached closure race on its captured bounds.
* `C11_handover_sites_ok`, `C11_drf_handover_sites` — in the current source no function touches a sample or an ammo
                         after handing it on (regenerated hand-over words, one per path), hence any number of goroutines
                         running those functions on one object under every schedule are data-race free.
                         `C11_release_first_counterexample`: an aggregator that releases the sample before formatting it.
* `C11_pkg_vars_guarded` — every package-level variable of the scanned packages is written after `init` only under a
                         lock / once / its own synchronisation, or belongs to the reviewed start-up registries.

* round 4 — the index arithmetic behind the shared counters (`lib/mp.calcIndex`, `(*NextIterator).Next`,
                         `(*clientpool.Pool).Next`, bodies regenerated, `Bridge/C11Locks.lean`):
                         `C11_next_index_partial` (use k < 2^63 of `rows[next]` yields row k mod length),
                         `C11_next_rows_distinct`, `C11_calc_index_in_bounds`, `C11_pool_index_partial`,
                         `C11_next_index_statement` / `_counterexample`, `C11_pool_index_statement` / `_counterexample`
                         (false at 2^63: negative index). `C11_ammo_flows_reviewed` / `C11_acquire_writes_own` cover the
                         grpc/json and scenario providers too (receiver binding).

* round 6 — the whole pool, COMPOSED with C03's regenerated instance loop (`Gen.InstLoop.iterBody`, `Model/C11Pool.lean`):
                         `C11_instloop_discipline` (every path of the loop body of `instance.Run` in the current source:
                         Acquire, then Shoot / Release only while the ammo is held, nothing held at the end),
                         `C11_pool_drf` (any number of instances × any number of iterations × any answers of the
                         environment × any ammo / samples, provider and aggregator goroutines, every schedule: DRF),
                         `C11_pool_gun_exclusive` (gun `i` is touched by thread `i` only), `C11_pool_ammo_exclusive`
                         (between `Acquire` and `Release` nobody else touches the ammo),
                         `C11_pool_early_release_counterexample`.

The classification itself is checked against the real code by the correspondence driver (aliasing graph, write
set of a real `Shoot`, race-detector sweep); see `Drv/C11.lean`.
-/
import Pandora.Proofs.C11Exec
import Pandora.Proofs.C11Own
import Pandora.Proofs.C11Closure
import Pandora.Proofs.C11Ammo
import Pandora.Proofs.C11Index
import Pandora.Proofs.C11Pool
import Pandora.Gen.InstLoop
import Pandora.Bridge.C11Locks
import Pandora.Gen.Locks
import Pandora.Spec.C11

namespace Pandora.Props.C11
open Pandora.Model.C11 Pandora.Proofs.C11 Pandora.Go

/-- **C11_drf**: consistent with the classification ⇒ no two conflicting accesses unordered by happens-before. -/
theorem C11_drf (cls : Nat → Class) (tr : List Ev) (h : WF cls noLocks tr) : DRF tr :=
  drf_of_wf cls tr h

/-- **C11_drf_programs**: any number of threads (`progs.length`), arbitrary programs that respect the
classification, every schedule. -/
theorem C11_drf_programs (cls : Nat → Class) (progs : List (List Op))
    (hok : ∀ (t : Nat) (ops : List Op), progs[t]? = some ops → ∀ op ∈ ops, opOk cls t op) (sched : List Nat) :
    DRF (exec (initCfg cls progs) sched) :=
  drf_of_wf cls _ (exec_wf cls sched (initCfg cls progs) (initCfg_ok cls progs hok))

/-- non-vacuity: two threads incrementing one `sharedSync` object; thread 1 is scheduled while thread 0 holds the
lock (its turn is skipped) and gets it after the release. -/
example :
    exec (initCfg (fun _ => Class.sharedSync 7) [[⟨0, true, 1⟩], [⟨0, true, 2⟩]]) [0, 1, 0, 1, 0, 1, 1, 1]
      = [.acq 0 7, .acc 0 0 true 1, .rel 0 7, .acq 1 7, .acc 1 0 true 2, .rel 1 7] := by decide

example : Conflict (.acc 0 0 true 1) (.acc 1 0 true 2) := by simp [Conflict]

/-- without the lock the same two writes are a data race: the trace is not consistent with any class of object 0
that allows both threads to write it -/
example : ¬ WF (fun _ => Class.sharedSync 7) noLocks [.acc 0 0 true 1, .acc 1 0 true 2] := by
  simp [WF, stepOk, noLocks]

/-- **C11_unguarded_counterexample** (the code before `fix: NextIterator.Rand takes the iterator mutex` and
`fix: RandStringRunes guards its shared random source`): two instances that use one random source without a lock
perform two conflicting writes that happens-before does not order. -/
theorem C11_unguarded_counterexample : ¬ DRF [.acc 0 0 true 0, .acc 1 0 true 0] := by
  intro h
  exact not_hb_two 0 1 0 true true 0 0 (by decide) 0 1 (h 0 1 _ _ (by decide) rfl rfl (by simp [Conflict]))

/-! ### the regenerated lock facts -/

/-- **C11_lock_table_guarded**: in the current source every access site of the inventoried shared objects is inside a
mutex section, atomic, through sync.Map / sync.Pool / a channel, or a read of a field frozen after set-up; and the
sites of one object agree on its class (a frozen object has no write site at all). -/
theorem C11_lock_table_guarded : c11TableOk Pandora.Gen.Locks.table = true := by decide

/-- the regenerated table mentions the objects the sharing inventory (`Spec/C11.lean`) relies on -/
example : Pandora.Gen.Locks.table.length ≥ 10 := by decide

/-- **C11_drf_table**: any number of instance threads, each passing through access sites of the regenerated table in
any order and any number of times, under every schedule: data-race free. What a site does (`siteEvents`) is read off
the table: the bare access where the source shows no protection, lock‥unlock around it otherwise. -/
theorem C11_drf_table (progs : List (List C11LockRow))
    (hin : ∀ rows ∈ progs, ∀ r ∈ rows, r ∈ Pandora.Gen.Locks.table) (sched : List Nat) :
    DRF (exec { held := noLocks,
                todo := progs.zipIdx.map fun (rows, t) => rows.flatMap (siteEvents Pandora.Gen.Locks.table t) } sched) := by
  have hcfg : ({ held := noLocks,
                 todo := progs.zipIdx.map fun (rows, t) => rows.flatMap (siteEvents Pandora.Gen.Locks.table t) } : Cfg)
      = initCfg (clsT Pandora.Gen.Locks.table) (progs.map fun rows => rows.map rowOp) := by
    simp only [initCfg, Cfg.mk.injEq, true_and]
    apply List.ext_getElem?
    intro i
    simp only [List.getElem?_map, List.getElem?_zipIdx]
    cases hp : progs[i]? with
    | none => simp
    | some rows =>
      simp only [Option.map_some, Nat.zero_add, Option.some.injEq, List.flatMap_map]
      have hmem : rows ∈ progs := List.mem_of_getElem? hp
      apply flatMap_congr'
      intro r hr
      exact siteEvents_eq _ C11_lock_table_guarded r (hin rows hmem r hr) i
  rw [hcfg]
  apply C11_drf_programs
  intro t ops hget op hop
  simp only [List.getElem?_map] at hget
  cases hp : progs[t]? with
  | none => simp [hp] at hget
  | some rows =>
    simp only [hp, Option.map_some, Option.some.injEq] at hget
    subst hget
    obtain ⟨r, hr, hro⟩ := List.mem_map.mp hop
    subst hro
    exact rowOp_ok _ C11_lock_table_guarded r (hin rows (List.mem_of_getElem? hp) r hr) t

/-- non-vacuity: two instances passing through the first three sites of the regenerated table, interleaved (a turn of a
thread blocked on a lock is skipped) -/
example : (exec { held := noLocks,
                  todo := [Pandora.Gen.Locks.table.take 3, Pandora.Gen.Locks.table.take 3].zipIdx.map
                    fun (rows, t) => rows.flatMap (siteEvents Pandora.Gen.Locks.table t) }
                [0, 1, 0, 0, 1, 1, 1, 0, 1, 0, 0, 1, 0, 1, 1, 0, 0, 1, 1, 0, 1, 1, 0, 0]).length = 18 := by decide

/-- the lock-table objects the sharing inventory (`Spec/C11.lean`) relies on for the units it classes `sync` -/
def inventorySyncObjs : List String :=
  Pandora.Spec.C11.inventory.flatMap fun e => match e.cls with
    | .sync os => os
    | _ => []

/-- **C11_inventory_sync_covered**: every shared unit the inventory allows instances to write (the `[next]` counters,
the `[rand]` source, the client-pool cursor) is backed by access sites in the regenerated table, all of them
synchronised (class `sharedSync` under `clsT`, not merely frozen). -/
theorem C11_inventory_sync_covered :
    inventorySyncObjs.all (fun o =>
      let rows := Pandora.Spec.C11.rowsOf Pandora.Gen.Locks.table o
      !rows.isEmpty && rows.all fun r => c11RowOk Pandora.Gen.Locks.table r && !c11ObjFrozen Pandora.Gen.Locks.table r.oid) = true := by
  decide

example : inventorySyncObjs.length ≥ 3 := by decide

/-- **C11_inventory_ro_covered**: the fields of the scenario components (postprocessors, preprocessors, the variable
storage) behind the units the inventory classes read-only have access sites in the regenerated table, and every one of
them is a read of a field that no instance-facing method writes (`frozen`): the class `sharedRO` of those units is what
the current source says. -/
theorem C11_inventory_ro_covered :
    Pandora.Spec.C11.roBacked.all (fun (l, o) =>
      (match Pandora.Spec.C11.classOf l with
       | some .ro => true
       | _ => false) &&
      (let rows := Pandora.Spec.C11.rowsOf Pandora.Gen.Locks.table o
       !rows.isEmpty && rows.all fun r => r.frozen && !r.write)) = true := by
  decide

/-- the lock facts as they were extracted from the code BEFORE the two `fix:` commits on the random sources -/
def tablePreFix : List C11LockRow := [
  ⟨0, "lib/mp.NextIterator.gs", "Next", false, .mutex "mx"⟩,
  ⟨0, "lib/mp.NextIterator.gs", "Next", true, .mutex "mx"⟩,
  ⟨1, "lib/mp.NextIterator.rnd", "Rand", true, .none⟩,
  ⟨2, "lib/str.randSource", "RandStringRunes", true, .none⟩]

/-- **C11_prefix_table_counterexample**: the pre-fix table is rejected, and two instances calling the pre-fix
`NextIterator.Rand` once each produce (under the schedule 0,1) a trace with a data race. -/
theorem C11_prefix_table_counterexample :
    c11TableOk tablePreFix = false ∧
    ¬ DRF (exec { held := noLocks,
                  todo := [[tablePreFix[2]], [tablePreFix[2]]].zipIdx.map
                    fun (rows, t) => rows.flatMap (siteEvents tablePreFix t) } [0, 1]) := by
  refine ⟨by decide, ?_⟩
  have : exec { held := noLocks,
                todo := [[tablePreFix[2]], [tablePreFix[2]]].zipIdx.map
                  fun (rows, t) => rows.flatMap (siteEvents tablePreFix t) } [0, 1]
      = [.acc 0 1 true 0, .acc 1 1 true 0] := by decide
  rw [this]
  intro h
  exact not_hb_two 0 1 1 true true 0 0 (by decide) 0 1 (h 0 1 _ _ (by decide) rfl rfl (by simp [Conflict]))

/-! ### objects that change hands: samples (pool → instance → aggregator → pool) and pooled ammo -/

/-- **C11_drf_handover_programs**: any number of threads (instances, the provider goroutine, the aggregator goroutine)
whose programs mix ordinary accesses with `take … bare accesses … give` sections on hand-over objects; each program on
its own respects the ownership discipline `progOk` (bare accesses only between its `take` and its `give` of that
object, nothing given twice); every schedule: data-race free. `C11_drf_programs` is the special case without
hand-over objects. -/
theorem C11_drf_handover_programs (cls : Nat → Class) (progs : List (List OOp))
    (hok : ∀ (t : Nat) (ops : List OOp), progs[t]? = some ops → progOk cls t [] ops) (sched : List Nat) :
    DRF (exec (initCfgO cls progs) sched) :=
  drf_of_wf cls _ (exec_wfO cls sched (initCfgO cls progs) (initCfgO_ok cls progs hok))

/-- the life cycle of one sample (object 0, ownership token 0; object 1 = the instance's own gun state, object 2 = the
shared `[next]` counters under the iterator mutex 7): instance 0 takes it from the pool, fills it in, reports it; the
aggregator (thread 1) receives, reads and releases it; instance 2 takes the same sample from the pool. -/
def sampleCls : Nat → Class := fun o => if o = 0 then .sharedSync 0 else if o = 1 then .loc 0 else .sharedSync 7

def samplePrograms : List (List OOp) := [
  [.take 0, .acc ⟨1, true, 5⟩, .acc ⟨2, true, 1⟩, .own ⟨0, true, 200⟩, .give 0],
  [.take 0, .own ⟨0, false, 0⟩, .give 0],
  [.acc ⟨2, true, 2⟩, .take 0, .own ⟨0, true, 500⟩, .give 0]]

/-- non-vacuity: the three programs respect the discipline, and under this schedule (turns of a thread blocked on a
token or a mutex are skipped) the sample really passes through all three threads -/
example : ∀ (t : Nat) (ops : List OOp), samplePrograms[t]? = some ops → progOk sampleCls t [] ops := by
  intro t ops h
  apply progOk_of_progOkB
  match t, h with
  | 0, h => simp [samplePrograms] at h; subst h; decide
  | 1, h => simp [samplePrograms] at h; subst h; decide
  | 2, h => simp [samplePrograms] at h; subst h; decide
  | n + 3, h => simp [samplePrograms] at h

example : exec (initCfgO sampleCls samplePrograms) [0, 1, 2, 0, 2, 0, 2, 2, 0, 0, 0, 1, 2, 0, 0, 1, 2, 1, 1, 2, 2, 2]
    = [.acq 0 0, .acq 2 7, .acc 0 1 true 5, .acc 2 2 true 2, .rel 2 7, .acq 0 7, .acc 0 2 true 1, .rel 0 7,
       .acc 0 0 true 200, .rel 0 0, .acq 1 0, .acc 1 0 false 0, .rel 1 0, .acq 2 0, .acc 2 0 true 500, .rel 2 0] := by
  decide

/-- **C11_owned_exclusive**: while a thread holds the token of a hand-over object (from the point where it took it
until it gives it on), every access to that object in the trace is its own — the ammo an instance shoots and the
sample it fills in are touched by nobody else, in every interleaving. -/
theorem C11_owned_exclusive (cls : Nat → Class) (l i : Nat) : ∀ (mid : List Ev) (h : Locks),
    h l = some i → WF cls h mid → (∀ e ∈ mid, e ≠ Ev.rel i l) →
    ∀ t o w v, Ev.acc t o w v ∈ mid → cls o = .sharedSync l → t = i := by
  intro mid
  induction mid with
  | nil => intro h _ _ _ t o w v hm; cases hm
  | cons e es ih =>
    intro h hl hwf hno t o w v hm hcls
    obtain ⟨hok, hwf'⟩ := hwf
    rcases List.mem_cons.mp hm with heq | hin
    · subst heq
      simp only [stepOk, hcls] at hok
      rw [hl] at hok
      exact (Option.some.inj hok).symm
    · have hkeep : (next h e) l = some i := by
        cases e with
        | acc t' o' w' v' => exact hl
        | acq t' l' =>
          simp only [next]
          by_cases hll : l = l'
          · subst hll
            simp only [stepOk] at hok
            rw [hl] at hok
            cases hok
          · rw [set_other _ _ _ _ hll]; exact hl
        | rel t' l' =>
          simp only [next]
          by_cases hll : l = l'
          · subst hll
            simp only [stepOk] at hok
            rw [hl] at hok
            have : t' = i := (Option.some.inj hok).symm
            subst this
            exact absurd rfl (hno _ List.mem_cons_self)
          · rw [set_other _ _ _ _ hll]; exact hl
      exact ih (next h e) hkeep hwf' (fun e' he' => hno e' (List.mem_cons_of_mem _ he')) t o w v hin hcls

/-- non-vacuity: a stretch of the sample trace above during which instance 0 owns the sample (it took it just before):
thread 2 is busy with the shared counters, the only access to the sample is instance 0's -/
example : ∀ t o w v, Ev.acc t o w v ∈ [Ev.acq 2 7, .acc 0 1 true 5, .acc 2 2 true 2, .rel 2 7, .acc 0 0 true 200] →
    sampleCls o = .sharedSync 0 → t = 0 :=
  C11_owned_exclusive sampleCls 0 0 _ (locksAfter noLocks [.acq 0 0]) (by decide)
    (by simp [WF, stepOk, next, Locks.set, locksAfter, noLocks, sampleCls]) (by decide)

/-- **C11_report_twice_counterexample** (a gun that reports a sample and, when a later postprocessor fails, tags and
reports the same sample again): the gun's program violates the discipline; under the schedule 0,0,0,1,0,1 the
aggregator (thread 1) owns the sample when the gun writes it — the trace is ill-formed and the gun's write races
with the aggregator's read. -/
theorem C11_report_twice_counterexample :
    let cls : Nat → Class := fun _ => .sharedSync 0
    let gun : List OOp := [.take 0, .own ⟨0, true, 200⟩, .give 0, .own ⟨0, true, 0⟩, .give 0]
    let aggr : List OOp := [.take 0, .own ⟨0, false, 0⟩, .give 0]
    let tr := exec (initCfgO cls [gun, aggr]) [0, 0, 0, 1, 0, 1]
    ¬ progOk cls 0 [] gun ∧ ¬ WF cls noLocks tr ∧ ¬ DRF tr := by
  intro cls gun aggr tr
  have htr : tr = [.acq 0 0, .acc 0 0 true 200, .rel 0 0, .acq 1 0, .acc 0 0 true 0, .acc 1 0 false 0] := by decide
  refine ⟨?_, ?_, ?_⟩
  · simp [gun, progOk]
  · rw [htr]
    simp [WF, stepOk, next, Locks.set, noLocks, cls]
  · rw [htr]
    intro h
    have hb := h 4 5 _ _ (by decide) rfl rfl (by simp [Conflict])
    obtain ⟨_, hc⟩ := hb_cases _ _ _ hb
    rcases hc with ⟨a, b, ha, hb', hab⟩ | ⟨p, q, t, t', l, hp, hpq, hq, hrel, _⟩
    · simp at ha hb'
      subst ha; subst hb'
      simp [Ev.thread] at hab
    · have : p = 4 := by omega
      subst this
      simp at hrel

/-- **C11_unlocked_fastpath_counterexample** (`NextIterator.Next` with a lock-free look-up of the counter map before
the locked insert): the lock facts of such a method are rejected, and an instance reading the map bare while another
one inserts under the mutex (schedule 1,1,0,1) races with the insert. -/
theorem C11_unlocked_fastpath_counterexample :
    let tbl : List C11LockRow := [
      ⟨0, "lib/mp.NextIterator.gs", "Next", false, .none⟩,
      ⟨0, "lib/mp.NextIterator.gs", "Next", false, .mutex "mx"⟩,
      ⟨0, "lib/mp.NextIterator.gs", "Next", true, .mutex "mx"⟩]
    c11TableOk tbl = false ∧
    ¬ DRF (exec { held := noLocks,
                  todo := [[tbl[0]], [tbl[2]]].zipIdx.map fun (rows, t) => rows.flatMap (siteEvents tbl t) } [1, 1, 0, 1]) := by
  intro tbl
  refine ⟨by decide, ?_⟩
  have : exec { held := noLocks,
                todo := [[tbl[0]], [tbl[2]]].zipIdx.map fun (rows, t) => rows.flatMap (siteEvents tbl t) } [1, 1, 0, 1]
      = [.acq 1 0, .acc 1 0 true 0, .acc 0 0 false 0, .rel 1 0] := by decide
  rw [this]
  intro h
  have hb := h 1 2 _ _ (by decide) rfl rfl (by simp [Conflict])
  obtain ⟨_, hc⟩ := hb_cases _ _ _ hb
  rcases hc with ⟨a, b, ha, hb', hab⟩ | ⟨p, q, t, t', l, hp, hpq, hq, hrel, _⟩
  · simp at ha hb'
    subst ha; subst hb'
    simp [Ev.thread] at hab
  · have : p = 1 := by omega
    subst this
    simp at hrel

/-! ### function literals with state; the var/header modifiers -/

/-- **C11_closures_confined**: every function literal of the current source that assigns a captured variable outside a
mutex section of its own (its closure object is mutable state), and every literal that may hold one, is stored nowhere —
no struct field, map or slice element, sync.Map / sync.Pool / atomic.Value, channel or package variable — with the one
reviewed exception `Spec.C11.confinedStores` (the progress callback of the decode provider's reader: created, stored and
called on the provider goroutine). Such a closure is created, called and dropped by one goroutine. -/
theorem C11_closures_confined :
    c11ClosuresOk Pandora.Spec.C11.confinedStores Pandora.Gen.Locks.closures = true := by decide

/-- non-vacuity: the table has closures with state (the `substr` modifier and its wrapper among them) -/
example : (Pandora.Gen.Locks.closures.filter C11Closure.stateful).length ≥ 2 := by decide

/-- **C11_drf_fresh_closures**: the captured variables of a closure that is not stored anywhere are objects of the
goroutine that made it (`own o`): any number of threads, each accessing only cells of its own in any way, under every
schedule, are data-race free. -/
theorem C11_drf_fresh_closures (own : Nat → Nat) (progs : List (List Op))
    (hown : ∀ (t : Nat) (ops : List Op), progs[t]? = some ops → ∀ op ∈ ops, own op.obj = t) (sched : List Nat) :
    DRF (exec (initCfg (fun o => Class.loc (own o)) progs) sched) :=
  C11_drf_programs _ progs (fun t ops h op hop => by simp only [opOk]; exact (hown t ops h op hop).symm) sched

/-- non-vacuity: two instances normalising the bounds of their own `substr` closures (cells 0,1 of instance 0; 2,3 of
instance 1) at the same time -/
example : exec (initCfg (fun o => Class.loc (o / 2)) [[⟨0, false, 0⟩, ⟨0, true, 6⟩, ⟨1, true, 10⟩], [⟨2, false, 0⟩, ⟨2, true, 2⟩, ⟨3, true, 6⟩]])
      [0, 1, 1, 0, 0, 1]
    = [.acc 0 0 false 0, .acc 1 2 false 0, .acc 1 2 true 2, .acc 0 0 true 6, .acc 0 1 true 10, .acc 1 3 true 6] := by decide

/-- **C11_fresh_chain_isolated**: with a freshly parsed chain per response (the code as it is) the value extracted from
a response does not depend on the responses processed before it — by this or by any other instance. -/
theorem C11_fresh_chain_isolated (ms : List Modifier) (pre₁ pre₂ : List (List Char)) (v : List Char) :
    (extractFresh ms (pre₁ ++ [v])).getLast? = (extractFresh ms (pre₂ ++ [v])).getLast? := by
  simp [extractFresh]

/-- non-vacuity: `X-Tok|substr(-4)` after a 10-character header and after nothing -/
example : (extractFresh [.substr (-4) 0] ["Abcdefghij".toList, "Xyzuvw".toList]).getLast? = some (some "zuvw".toList) ∧
    (extractFresh [.substr (-4) 0] ["Xyzuvw".toList]).getLast? = some (some "zuvw".toList) := by decide

/-- **C11_substr_in_bounds**: the bounds computed by the regenerated body of the `substr` closure are a valid slice of a
string of length `l` — `in[start:end]` never panics, whatever the arguments of `substr(…)`. -/
theorem C11_substr_in_bounds (s e l : Int) (hl : 0 ≤ l) :
    0 ≤ (Pandora.Gen.Locks.substrBody s e l).1 ∧
    (Pandora.Gen.Locks.substrBody s e l).1 ≤ (Pandora.Gen.Locks.substrBody s e l).2 ∧
    (Pandora.Gen.Locks.substrBody s e l).2 ≤ l := by
  rw [Pandora.Bridge.C11Locks.substrBody_eq s e l hl]
  exact Pandora.Bridge.C11Locks.substrNorm_in_bounds s e l hl

example : Pandora.Gen.Locks.substrBody (-4) 0 6 = (2, 6) ∧ Pandora.Gen.Locks.substrBody (-20) 40 6 = (0, 6) ∧
    Pandora.Gen.Locks.substrBody 5 2 6 = (2, 5) := by decide

/-- isolation when ONE parsed chain is kept and reused for every response (a cache inside the shared postprocessor) -/
def C11_cached_closure_statement : Prop :=
  ∀ (ms : List Modifier) (pre₁ pre₂ : List (List Char)) (v : List Char),
    (extractCached ms (pre₁ ++ [v])).getLast? = (extractCached ms (pre₂ ++ [v])).getLast?

/-- **C11_cached_closure_counterexample** (seeded change: parsed mapping values cached in a sync.Map of the
postprocessor): the `substr` closure overwrites its captured bounds with the ones normalised for the header it has just
seen. `substr(-4)` becomes `[6:10]` after a 10-character header, and a later 6-character header — of any instance —
yields "" instead of its last four characters; the closure row of such a cache is rejected by the table check; and two
instances calling the cached closure write its captured `start` without any order between them. -/
theorem C11_cached_closure_counterexample :
    ¬ C11_cached_closure_statement ∧
    c11ClosureOk Pandora.Spec.C11.confinedStores
      ⟨"components/providers/scenario/http/postprocessor:substr.func1", ["end", "start"], [],
       ["components/providers/scenario/http/postprocessor.getParsedValue: p.parsed.Store(…&parsedHeaderValue……)"]⟩ = false ∧
    ¬ DRF [.acc 0 0 true 6, .acc 1 0 true 2] := by
  refine ⟨?_, by decide, ?_⟩
  · intro h
    have := h [.substr (-4) 0] [] ["Abcdefghij".toList] "Xyzuvw".toList
    revert this
    decide
  · intro h
    exact not_hb_two 0 1 0 true true 6 2 (by decide) 0 1 (h 0 1 _ _ (by decide) rfl rfl (by simp [Conflict]))

/-- **C11_cached_closure_partial**: chains made of `lower`, `upper` and `replace` only keep no state: reusing them
changes nothing (which is why a cache passes every test that does not combine `substr` with headers of different
lengths). -/
theorem C11_cached_closure_partial (ms : List Modifier) (h : ms.all Pandora.Proofs.C11.Modifier.pure = true)
    (vals : List (List Char)) : extractCached ms vals = extractFresh ms vals :=
  extractCached_pure ms h vals

example : extractCached [.upper, .replace "B" "x"] ["Abcb".toList, "bB".toList] = [some "AxCx".toList, some "xx".toList] := by
  decide

/-! ### hand-over sites of the current source -/

/-- **C11_handover_sites_ok**: every function of the current source that hands a sample or an ammo on directly (channel
send, `Put`, `Release`, `Report`, `releaseSample`) does so at most once on every path and does not touch the object
afterwards (regenerated words, judged by the ownership discipline `progOkB`). -/
theorem C11_handover_sites_ok :
    Pandora.Gen.Locks.handoverSites.all (fun p => Pandora.Spec.C11.siteWordOk p.2.2) = true := by decide

example : Pandora.Gen.Locks.handoverSites.length ≥ 10 := by decide

/-- **C11_drf_handover_sites**: any number of goroutines, each running a path of one of those functions on ONE object
(taking it first: `Pool.Get`, channel receive, `Acquire`), under every schedule: data-race free. -/
theorem C11_drf_handover_sites (progs : List (String × String × String))
    (hin : ∀ p ∈ progs, p ∈ Pandora.Gen.Locks.handoverSites) (sched : List Nat) :
    DRF (exec (initCfgO (fun _ => Class.sharedSync 0) (progs.map fun p => Pandora.Spec.C11.siteOps p.2.2)) sched) := by
  apply C11_drf_handover_programs
  intro t ops hget
  simp only [List.getElem?_map] at hget
  cases hp : progs[t]? with
  | none => simp [hp] at hget
  | some p =>
    simp only [hp, Option.map_some, Option.some.injEq] at hget
    subst hget
    apply progOk_of_progOkB
    have hmem := hin p (List.mem_of_getElem? hp)
    have hok := List.all_eq_true.mp C11_handover_sites_ok p hmem
    simp only [Pandora.Spec.C11.siteWordOk] at hok
    rw [progOkB_thread _ t 0 _ _ (siteOps_noAcc p.2.2)]
    exact hok

/-- non-vacuity: the aggregator's `handle` (use, then release) and a gun's `shootStep` (use, then report) competing for
one sample: whoever takes it first finishes with it before the other one starts -/
example : exec (initCfgO (fun _ => Class.sharedSync 0) ([("handle", "s", "UG"), ("shootStep", "sample", "UG")].map
      fun p => Pandora.Spec.C11.siteOps p.2.2)) [1, 0, 1, 0, 1, 0, 0, 0]
    = [.acq 1 0, .acc 1 0 true 0, .rel 1 0, .acq 0 0, .acc 0 0 true 0, .rel 0 0] := by decide

/-- **C11_release_first_counterexample** (an aggregator whose `handle` puts the sample back into the pool before
formatting it; an instance loop that releases the ammo before shooting it): the word `GU` violates the discipline, and
under the schedule 0,0,1,1,0 the next owner writes the object while the function still reads it. -/
theorem C11_release_first_counterexample :
    Pandora.Spec.C11.siteWordOk "GU" = false ∧
    ¬ DRF (exec (initCfgO (fun _ => Class.sharedSync 0) [Pandora.Spec.C11.siteOps "GU", Pandora.Spec.C11.siteOps "UG"]) [0, 0, 1, 1, 0]) := by
  refine ⟨by decide, ?_⟩
  have htr : exec (initCfgO (fun _ => Class.sharedSync 0) [Pandora.Spec.C11.siteOps "GU", Pandora.Spec.C11.siteOps "UG"]) [0, 0, 1, 1, 0]
      = [.acq 0 0, .rel 0 0, .acq 1 0, .acc 1 0 true 0, .acc 0 0 true 0] := by decide
  rw [htr]
  intro h
  have hb := h 3 4 _ _ (by decide) rfl rfl (by simp [Conflict])
  obtain ⟨_, hc⟩ := hb_cases _ _ _ hb
  rcases hc with ⟨a, b, ha, hb', hab⟩ | ⟨p, q, t, t', l, hp, hpq, hq, hrel, _⟩
  · simp at ha hb'
    subst ha; subst hb'
    simp [Ev.thread] at hab
  · have : p = 3 := by omega
    subst this
    simp at hrel

/-! ### package-level state -/

/-- **C11_pkg_vars_guarded**: every package-level variable of components/, core/ and lib/ in the current source
(regenerated) is never written after `init`, or only inside a mutex / `sync.Once` section or through its own
synchronisation (atomic, sync.Map, sync.Pool, channel) — except the reviewed start-up registries
`Spec.C11.setupOnlyVars`. Package-level state is what the reflection walker of the driver cannot reach. -/
theorem C11_pkg_vars_guarded : Pandora.Gen.Locks.pkgVars.all Pandora.Spec.C11.pkgVarOk = true := by decide

/-- non-vacuity: the table contains the guarded random source of lib/str and the start-up registries -/
example : (Pandora.Gen.Locks.pkgVars.filter fun v => !v.2.2.isEmpty).length ≥ 3 := by decide

/-- a package-level cache written by an instance-facing function without protection is rejected -/
example : Pandora.Spec.C11.pkgVarOk ("components/providers/scenario/http/postprocessor.exprCache", "map[string]*xpath.Expr",
    [("getValuesFromDOM", ".none")]) = false := by decide

/-- **C11_component_vars_reviewed** (round 6): no component package of the current source keeps a package-level variable
other than error values, import `sync.Once`s, `sync.Pool`s and the frozen jsoniter configuration: no templater, cache or
component instance is shared by ALL pools of the process behind the back of the per-pool constructors. -/
theorem C11_component_vars_reviewed : Pandora.Gen.Locks.pkgVars.all Pandora.Spec.C11.componentVarOk = true := by decide

/-- non-vacuity: the table has component-package variables, and a package-level default templater (seeded change C11-r6-3:
its cache is keyed by scenario / request name, so two pools with equal names render each other's templates) is rejected -/
example : (Pandora.Gen.Locks.pkgVars.filter fun v => Pandora.Spec.C11.inComponents v.1).length ≥ 5 ∧
    Pandora.Spec.C11.componentVarOk ("components/providers/scenario/http.defaultTemplater", "templater.Templater", []) = false := by
  decide

/-- **C11_setup_calls_reviewed** (round 6): the methods the lock-facts extractor takes as set-up only (`clientpool.Pool.Add`,
`SourceStorage.AddSource`, `InitIterator`, `Validate`, `InitMiddleware`: their unguarded writes do not count against the
object's class) are called, in the current source, only by the reviewed set-up functions — the warm-up constructors of the
shared client pool, the decode functions of the scenario definition, the provider's `Run` before its first delivery. What
was a trusted declaration of the extractor is a regenerated fact. -/
theorem C11_setup_calls_reviewed : Pandora.Gen.Locks.setupCallers.all Pandora.Spec.C11.setupCallerOk = true := by decide

/-- non-vacuity: the table has call sites; a client pool that is filled at `Bind` (every instance adds a client while the
others call `Next`) is rejected -/
example : Pandora.Gen.Locks.setupCallers.length ≥ 5 ∧
    Pandora.Spec.C11.setupCallerOk ("core/clientpool.Pool.Add", "components/guns/http.BaseGun.Bind") = false := by decide

/-! ### the provider's side: requests built from a decoded ammo that is delivered again -/

/-- the regenerated reference flows of `(*Provider).Acquire` of the http provider — since round 4 also `Acquire` / `Release`
of the grpc/json and the scenario providers — and everything they call: no map of a caller is kept, every stored or
returned slice / pointer of a caller is a reviewed one -/
theorem C11_ammo_flows_reviewed : Pandora.Gen.Locks.ammoFlows.all Pandora.Spec.C11.flowOk = true := by decide

example : Pandora.Gen.Locks.ammoFlows.length ≥ 3 ∧ Pandora.Gen.Locks.ammoFlowFuncs.length ≥ 5 := by decide

/-- what `Acquire` and everything it calls write through their receivers and parameters: only the request being built
(a parameter that every call chain binds to something the caller made itself) and the atomic id counter — nothing of the
provider, of a middleware or of a decoded ammo, the objects every instance's `Acquire` uses -/
theorem C11_acquire_writes_own : Pandora.Gen.Locks.ammoWrites.all Pandora.Spec.C11.writeOk = true := by decide

/-- round 4: the table covers the grpc/json and the scenario providers' `Acquire` / `Release` too; a `SetID` on the
scenario definition the channel delivers (instead of on the clone just made) is a write through a shared receiver -/
example : Pandora.Gen.Locks.ammoFlowFuncs.contains "components/providers/scenario.Provider.Acquire" = true ∧
    Pandora.Gen.Locks.ammoFlowFuncs.contains "components/providers/grpc.Provider.Acquire" = true ∧
    Pandora.Gen.Locks.ammoWrites.contains ("components/guns/http_scenario.Scenario.SetID", "own-recv", "recv.ID", "assign") = true ∧
    Pandora.Spec.C11.writeOk ("components/guns/http_scenario.Scenario.SetID", "recv", "recv.ID", "assign") = false := by decide

example : Pandora.Gen.Locks.ammoWrites.length ≥ 3 ∧
    Pandora.Spec.C11.writeOk ("components/providers/http/middleware/headerdate.Middleware.UpdateRequest", "recv", "recv.last", "assign") = false ∧
    Pandora.Spec.C11.flowOk ("components/providers/http/decoders/ammo.Ammo.BuildRequest", "ptr", "return", "0", "recv.built") = false := by decide

/-- … hence the model of the current source builds every request's header map as a new object -/
theorem C11_request_map_fresh : buildOfFlows Pandora.Gen.Locks.ammoFlows = .fresh := by decide

/-- Whatever the decoded ammo (`st`: their header maps, and any other map object of the pool, e.g. the requests other
instances hold), whatever the middlewares, however many deliveries in whatever order of file positions — any number of
passes, any instance asking —: no object that existed before a delivery is changed by it or by any later one. The
decoded ammo is never altered, and a request an instance holds is never altered by the `Acquire` of another. -/
theorem C11_acquire_keeps_ammo (mws : List (String × String)) (st : Store) (srcs : List Nat)
    (h : ∀ s ∈ srcs, s < st.length) (i : Nat) (hi : i < st.length) :
    (acquires (buildOfFlows Pandora.Gen.Locks.ammoFlows) mws st srcs).1[i]? = st[i]? := by
  rw [C11_request_map_fresh, acquires_fresh mws srcs st h]
  exact List.getElem?_append_left hi

/-- … and every delivered request has a header object of its own (the ids are pairwise distinct and new), whose content
— after ALL deliveries — is what the request carries when it is the only one ever built from its decoded ammo: a
function of that ammo and the middlewares, not of the deliveries before or after it. (Round-6 audit: stated without
totalised look-ups — delivery `j` HAS a header object `id`, its decoded ammo HAS a header `hd`, and the store HAS an object
`id` holding exactly `delivered mws hd`.) -/
theorem C11_acquire_isolated (mws : List (String × String)) (st : Store) (srcs : List Nat)
    (h : ∀ s ∈ srcs, s < st.length) :
    let r := acquires (buildOfFlows Pandora.Gen.Locks.ammoFlows) mws st srcs
    r.2.Nodup ∧ (∀ id ∈ r.2, st.length ≤ id) ∧
    ∀ j (hj : j < srcs.length), ∃ (id : Nat) (hd : Hdr), r.2[j]? = some id ∧ st[srcs[j]]? = some hd ∧
      r.1[id]? = some (delivered mws hd) := by
  rw [C11_request_map_fresh, acquires_fresh mws srcs st h]
  refine ⟨List.nodup_range', ?_, ?_⟩
  · intro id hid
    have := List.mem_range'_1.mp hid
    omega
  · intro j hj
    have hs : srcs[j] < st.length := h _ (List.getElem_mem hj)
    refine ⟨st.length + j, st[srcs[j]], by simp [hj], by simp, ?_⟩
    rw [List.getElem?_append_right (by omega)]
    simp [hj, List.getD_eq_getElem?_getD, hs]

/-- non-vacuity: two decoded ammo (one with a Host header), a Date middleware, five deliveries over two and a half
passes: five new objects, each with one Date value; the decoded ammo as before -/
example : acquires .fresh [("Date", "d")] [[("Host", ["h"]), ("X-A", ["a"])], [("X-B", ["b"])]] [0, 1, 0, 1, 0] =
    ([[("Host", ["h"]), ("X-A", ["a"])], [("X-B", ["b"])],
      [("X-A", ["a"]), ("Date", ["d"])], [("X-B", ["b"]), ("Date", ["d"])], [("X-A", ["a"]), ("Date", ["d"])],
      [("X-B", ["b"]), ("Date", ["d"])], [("X-A", ["a"]), ("Date", ["d"])]], [2, 3, 4, 5, 6]) := by decide

/-- the same isolation claim for a `BuildRequest` that takes the decoded header map as it is when it has entries and
no `Host` (the seeded fast path of `EnrichRequestWithHeaders`) -/
def C11_acquire_alias_statement : Prop :=
  ∀ (mws : List (String × String)) (st : Store) (srcs : List Nat), (∀ s ∈ srcs, s < st.length) →
    ∀ i, i < st.length → (acquires .alias mws st srcs).1[i]? = st[i]?

/-- … is false: one decoded ammo without Host, a Date middleware, two deliveries — both requests ARE the decoded ammo's
map (same object), the second `Acquire` adds a second Date value to the request the first instance holds, and the decoded
ammo is altered for every later pass; the regenerated row of that change is rejected -/
theorem C11_acquire_alias_counterexample :
    ¬ C11_acquire_alias_statement ∧
    acquires .alias [("Date", "d")] [[("X-A", ["a"])]] [0, 0] = ([[("X-A", ["a"]), ("Date", ["d", "d"])]], [0, 0]) ∧
    (acquire .alias [("Date", "d")] [[("X-A", ["a"])]] 0).1 = [[("X-A", ["a"]), ("Date", ["d"])]] ∧
    Pandora.Spec.C11.flowOk ("components/providers/http/util.EnrichRequestWithHeaders", "map", "store", "param0.Header", "param1") = false ∧
    buildOfFlows [("components/providers/http/util.EnrichRequestWithHeaders", "map", "store", "param0.Header", "param1")] = .alias := by
  refine ⟨?_, by decide, by decide, by decide, by decide⟩
  intro hst
  have := hst [("Date", "d")] [[("X-A", ["a"])]] [0, 0] (by decide) 0 (by decide)
  revert this
  decide

/-- … but it does hold for the aliasing build when every decoded header carries a Host entry or is empty (the fast path
is never taken: why pools whose ammo name a Host never showed the seeded change) -/
theorem C11_acquire_alias_partial (mws : List (String × String)) (st : Store) (src : Nat)
    (hh : aliasCond (st.getD src []) = false) :
    acquire .alias mws st src = acquire .fresh mws st src := by
  unfold acquire build
  simp only [hh]
  rfl

/-! ### results handed out by shared components -/

/-- no function of the current source hands out memory of an object it puts back into a sync.Pool -/
theorem C11_no_pooled_escape : Pandora.Gen.Locks.pooledEscapes = [] := by decide

/-- a function that renders into a pooled buffer, hands the buffer's bytes to its caller and puts the buffer back (the
seeded text templater): its program violates the ownership discipline (it gives what it no longer holds), and with the
instance that received the bytes reading them while the next `Get` writes them the trace is not data-race free -/
theorem C11_pooled_result_counterexample :
    progOkB (fun _ => Class.sharedSync 0) 0 [] Pandora.Spec.C11.escapeOps = false ∧
    Pandora.Spec.C11.judgeEscapes [("components/providers/scenario/http/templater.Apply", "strBuilder", "parts.Body = strBuilder.Bytes()")] ≠ "ok" ∧
    ¬ DRF [.acq 0 0, .acc 0 0 true 1, .rel 0 0, .acc 1 0 false 0, .acq 2 0, .acc 2 0 true 2, .rel 2 0] := by
  refine ⟨by decide, by decide, ?_⟩
  intro h
  have hb := h 3 5 _ _ (by decide) rfl rfl (by simp [Conflict])
  obtain ⟨_, hc⟩ := hb_cases _ _ _ hb
  rcases hc with ⟨a, b, ha, hb', hab⟩ | ⟨p, q, t, t', l, hp, hpq, hq, hrel, _⟩
  · simp at ha hb'
    subst ha; subst hb'
    simp [Ev.thread] at hab
  · have : p = 3 ∨ p = 4 := by omega
    rcases this with rfl | rfl <;> simp at hrel

/-! ### guns -/

/-- **C11_gun_exclusive**: for every sequence of instance starts and instance moves, the guns of the instances are
pairwise distinct objects and no gun has two `Shoot` calls in progress. -/
theorem C11_gun_exclusive (acts : List Act) :
    ((engRun engInit acts).insts.map (·.gun)).Nodup ∧ ∀ g, active g (engRun engInit acts).insts ≤ 1 := by
  have h := engRun_ok acts engInit ⟨by simp [engInit], by simp [engInit]⟩
  exact ⟨h.1, fun g => active_le_one g _ h.1⟩

/-- **C11_engine_gun_facts**: what the engine model's actions stand for, read off the current source of `core/engine`
(regenerated): the gun factory is called at exactly two places, neither inside a loop — once per `newInstance`
(`Act.start`) and once for the warm-up gun (`Act.warmup`); the factory result reaches an instance at exactly two
wiring points (the `newGun` dependency and the `gun` field of the new instance); and `Shoot` is called at exactly one
place, on the instance's own `gun` field (`Act.move i`); every function that creates an instance runs it at exactly one
place, outside any loop (one goroutine per instance: `Act.move i` is sequential per `i`). A gun cache, a second `Shoot`
site, a factory call in a loop or a second `Run` of an instance changes these facts. -/
theorem C11_engine_gun_facts :
    Pandora.Gen.Locks.gunFactoryCalls.length = 2 ∧
    (Pandora.Gen.Locks.gunFactoryCalls.all fun c => !c.2.2) = true ∧
    (Pandora.Gen.Locks.gunFactoryCalls.map (·.1)).Nodup ∧
    Pandora.Gen.Locks.gunWiring.length = 2 ∧
    Pandora.Gen.Locks.shootCalls.length = 1 ∧
    Pandora.Gen.Locks.instanceRuns = Pandora.Gen.Locks.instanceCreations ∧
    (Pandora.Gen.Locks.instanceRuns.map (·.1)).Nodup ∧
    (Pandora.Gen.Locks.instanceRuns.all fun c => !c.2) = true := by decide

/-- non-vacuity: a warm-up gun and three instances, two of them inside `Shoot` at the same time — on different guns -/
example : (engRun engInit [.warmup, .start, .start, .move 0, .start, .move 2]).insts
    = [⟨1, true⟩, ⟨2, false⟩, ⟨3, true⟩] := by decide

/-! ### isolation -/

/-- **C11_no_cross_instance_effect**: in every trace consistent with the classification, the values instance `i`
reads from its own objects and from read-only shared objects are exactly those it reads when all other instances'
events are removed. -/
theorem C11_no_cross_instance_effect (cls : Nat → Class) (tr : List Ev) (h : WF cls noLocks tr) (i : Nat) (m : Mem) :
    view cls i m tr = view cls i m (tr.filter fun e => e.thread == i) :=
  view_filter cls i tr noLocks m m h (fun _ _ => rfl)

/-- non-vacuity: instance 1 writes its own object 5 and the shared counter 9; instance 0 reads the read-only
definition 3 and its own object 4 — and sees the initial / its own values -/
example :
    let cls : Nat → Class := fun o => if o = 3 then .sharedRO else if o = 4 then .loc 0 else if o = 5 then .loc 1 else .sharedSync 9
    view cls 0 (fun _ => 42) [.acc 0 4 true 7, .acc 1 5 true 8, .acq 1 9, .acc 1 9 true 1, .rel 1 9, .acc 0 3 false 0, .acc 0 4 false 0]
      = [(3, 42), (4, 7)] := by decide

/-- **C11_shared_write_counterexample** (the code before `fix: gRPC scenario gun renders call metadata into a copy`):
when an instance writes an object of the shared definition (the step's metadata map, object 5), the trace is not
consistent with the class `sharedRO`, the two accesses race, and instance 1 reads instance 0's rendered value
instead of the definition's. -/
theorem C11_shared_write_counterexample :
    let cls : Nat → Class := fun _ => .sharedRO
    let tr : List Ev := [.acc 0 5 true 7, .acc 1 5 false 0]
    ¬ WF cls noLocks tr ∧ ¬ DRF tr ∧
    view cls 1 (fun _ => 42) tr ≠ view cls 1 (fun _ => 42) (tr.filter fun e => e.thread == 1) := by
  refine ⟨by simp [WF, stepOk], ?_, by decide⟩
  intro h
  exact not_hb_two 0 1 5 true false 7 0 (by decide) 0 1 (h 0 1 _ _ (by decide) rfl rfl (by simp [Conflict]))

/-! ### round 4: the index arithmetic behind the shared counters

`rows[next]` of a variable source and the cursor of the shared client pool turn a counter that ALL instances increment
into a slice index; a bad index is a runtime fault in every instance that comes by. The bodies of `lib/mp.calcIndex`,
`(*NextIterator).Next` and `(*clientpool.Pool).Next` are regenerated from the source; the theorems are stated on the
regenerated bodies (via `Bridge/C11Locks.lean`). -/

/-- **C11_next_index_partial**: for every number of uses below 2^63 and every positive number of rows, use number `k`
(0, 1, 2, … in the order in which the instances pass the iterator's mutex) of `rows[next]` yields row `k mod length`: always
inside the slice, and the rows are handed out in turn whatever `strconv.Atoi` made of the string "next". -/
theorem C11_next_index_partial (k : Nat) (len a rv : Int) (e : Bool)
    (hk : (k : Int) < 9223372036854775808) (hl : 0 < len) :
    Pandora.Gen.Locks.calcIndexBody "next" a e len (Pandora.Gen.Locks.iterNextBody (k != 0) k) rv = some ((k : Int) % len) ∧
    0 ≤ (k : Int) % len ∧ (k : Int) % len < len := by
  refine ⟨?_, Int.emod_nonneg _ (by omega), Int.emod_lt_of_pos _ hl⟩
  rw [Pandora.Bridge.C11Locks.calcIndexBody_eq, Pandora.Bridge.C11Locks.iterNextBody_eq]
  have hkind : idxKindOf "next" a e = .next := by simp [idxKindOf]
  rw [hkind]
  have hv : iterNext (k != 0) k = (k : Int) := by
    by_cases h0 : k = 0
    · subst h0; simp [iterNext]
    · have : (k != 0) = true := by simp [h0]
      rw [this]
      simp only [iterNext, if_true]
      exact ctrAsInt_small _ (by omega) hk
  rw [hv]
  simp only [calcIndexM]
  rw [if_neg (by omega)]
  congr 1
  split
  · exact tmod_of_nonneg _ _ (by omega)
  · exact (Int.emod_eq_of_lt (by omega) (by omega)).symm

/-- non-vacuity: three rows, uses 0‥4 → rows 0 1 2 0 1; and the use number 2^31 (where a 32-bit counter turns negative) -/
example : (List.range 5).map (fun (k : Nat) => Pandora.Gen.Locks.calcIndexBody "next" 0 true 3 (Pandora.Gen.Locks.iterNextBody (k != 0) (k : Int)) 0)
    = [some 0, some 1, some 2, some 0, some 1] := by decide

example : Pandora.Gen.Locks.calcIndexBody "next" 0 true 7 (Pandora.Gen.Locks.iterNextBody true 2147483648) 0 = some 2 := by decide

/-- the same claim for every value a 64-bit counter can take -/
def C11_next_index_statement : Prop :=
  ∀ (k : Nat) (len : Int), (k : Int) < 18446744073709551616 → 0 < len →
    ∃ i, Pandora.Gen.Locks.calcIndexBody "next" 0 true len (Pandora.Gen.Locks.iterNextBody (k != 0) k) 0 = some i ∧ 0 ≤ i ∧ i < len

/-- **C11_next_index_counterexample**: … is false. After 2^63 uses of one segment `int(add)` is negative, `calcIndex`
reduces only an index that is `≥ length`, and `rows[-9223372036854775808]` panics in whichever instance comes by. (2^63 uses
are out of reach — 290 000 years at a million uses per second —, so this is recorded, not reported; with a 32-bit counter
the same happens after 2^31 uses: six hours at 100 000 per second.) -/
theorem C11_next_index_counterexample : ¬ C11_next_index_statement ∧
    Pandora.Gen.Locks.calcIndexBody "next" 0 true 3 (Pandora.Gen.Locks.iterNextBody true 9223372036854775808) 0 = some (-9223372036854775808) := by
  have h : Pandora.Gen.Locks.calcIndexBody "next" 0 true 3 (Pandora.Gen.Locks.iterNextBody true 9223372036854775808) 0 = some (-9223372036854775808) := by
    decide
  refine ⟨?_, h⟩
  intro hst
  obtain ⟨i, hi, h0, _⟩ := hst 9223372036854775808 3 (by decide) (by decide)
  have h' : Pandora.Gen.Locks.calcIndexBody "next" 0 true 3 (Pandora.Gen.Locks.iterNextBody ((9223372036854775808 : Nat) != 0) ((9223372036854775808 : Nat) : Int)) 0 = some (-9223372036854775808) := by
    decide
  rw [h'] at hi
  have := Option.some.inj hi
  omega

/-- **C11_next_rows_distinct**: two uses of `rows[next]` that are fewer than `length` uses apart get different rows: with at
least as many rows as there are uses in flight no two instances work on the same row (isolation of the data the
instances take from a shared source). -/
theorem C11_next_rows_distinct (k₁ k₂ : Nat) (len : Int) (h12 : k₁ < k₂) (hd : (k₂ : Int) < k₁ + len)
    (hk : (k₂ : Int) < 9223372036854775808) :
    Pandora.Gen.Locks.calcIndexBody "next" 0 true len (Pandora.Gen.Locks.iterNextBody (k₁ != 0) k₁) 0 ≠
    Pandora.Gen.Locks.calcIndexBody "next" 0 true len (Pandora.Gen.Locks.iterNextBody (k₂ != 0) k₂) 0 := by
  have hl : 0 < len := by omega
  rw [(C11_next_index_partial k₁ len 0 0 true (by omega) hl).1, (C11_next_index_partial k₂ len 0 0 true hk hl).1]
  intro heq
  have heq' := Option.some.inj heq
  have hz : ((k₂ : Int) - k₁) % len = 0 := Int.emod_eq_emod_iff_emod_sub_eq_zero.mp heq'.symm
  obtain ⟨c, hc⟩ := Int.dvd_of_emod_eq_zero hz
  rcases Int.lt_trichotomy c 0 with hneg | hzero | hpos
  · have : len * c ≤ len * (-1) := Int.mul_le_mul_of_nonneg_left (by omega) (by omega)
    omega
  · subst hzero; omega
  · have : len * 1 ≤ len * c := Int.mul_le_mul_of_nonneg_left (by omega) (by omega)
    omega

example : Pandora.Gen.Locks.calcIndexBody "next" 0 true 4 (Pandora.Gen.Locks.iterNextBody true 5) 0 = some 1 ∧
    Pandora.Gen.Locks.calcIndexBody "next" 0 true 4 (Pandora.Gen.Locks.iterNextBody true 8) 0 = some 0 := by decide

/-- **C11_calc_index_in_bounds**: whatever the index string (a number of either sign, `next`, `rand`, `last`, anything
else), `calcIndex` returns an error or an index inside the slice — given a non-negative value of the `[next]` counter and a
`[rand]` value in `[0, length)` (what `rand.Intn(length)` yields). -/
theorem C11_calc_index_in_bounds (s : String) (a : Int) (e : Bool) (len nv rv i : Int)
    (hnv : 0 ≤ nv) (hrv : 0 ≤ rv ∧ rv < len)
    (h : Pandora.Gen.Locks.calcIndexBody s a e len nv rv = some i) : 0 ≤ i ∧ i < len := by
  rw [Pandora.Bridge.C11Locks.calcIndexBody_eq] at h
  generalize idxKindOf s a e = k at h
  cases k with
  | bad => simp [calcIndexM] at h
  | num j =>
    simp only [calcIndexM] at h
    split at h
    · cases h
    · rename_i hlen
      have hb := tmod_bounds j len (by omega)
      split at h
      · cases h; omega
      · cases h
        split <;> omega
  | last =>
    simp only [calcIndexM] at h
    split at h
    · cases h
    · cases h; omega
  | rand =>
    simp only [calcIndexM] at h
    split at h
    · cases h
    · cases h; exact hrv
  | next =>
    simp only [calcIndexM] at h
    split at h
    · cases h
    · rename_i hlen
      have hb := tmod_bounds nv len (by omega)
      cases h
      split <;> omega

/-- non-vacuity: `rows[-7]`, `rows[12]`, `rows[last]` over five rows; `rows[x]` is an error -/
example : Pandora.Gen.Locks.calcIndexBody "-7" (-7) false 5 0 0 = some 3 ∧ Pandora.Gen.Locks.calcIndexBody "12" 12 false 5 0 0 = some 2 ∧
    Pandora.Gen.Locks.calcIndexBody "last" 0 true 5 0 0 = some 4 ∧ Pandora.Gen.Locks.calcIndexBody "x" 0 true 5 0 0 = none := by decide

/-- **C11_pool_index_partial**: the client an instance is bound to: after `c` increments of the shared cursor (`0 ≤ c < 2^63`)
`Pool.Next` returns the client number `c mod n` — inside the pool, and the clients are handed out in turn. -/
theorem C11_pool_index_partial (n c : Int) (hn : 0 < n) (h0 : 0 ≤ c) (hc : c < 9223372036854775808) :
    Pandora.Gen.Locks.poolNextBody n c = some (c % n) ∧ 0 ≤ c % n ∧ c % n < n := by
  refine ⟨?_, Int.emod_nonneg _ (by omega), Int.emod_lt_of_pos _ hn⟩
  rw [Pandora.Bridge.C11Locks.poolNextBody_eq]
  simp only [poolNext]
  rw [if_neg (by omega), ctrAsInt_small c h0 hc, tmod_of_nonneg _ _ h0]

example : (List.range 5).map (fun (c : Nat) => Pandora.Gen.Locks.poolNextBody 3 ((c : Int) + 1)) = [some 1, some 2, some 0, some 1, some 2] := by decide

def C11_pool_index_statement : Prop :=
  ∀ (n c : Int), 0 < n → 0 ≤ c → c < 18446744073709551616 → ∃ i, Pandora.Gen.Locks.poolNextBody n c = some i ∧ 0 ≤ i ∧ i < n

/-- **C11_pool_index_counterexample**: with three clients the 2^63-th `Next` indexes the pool at -2 (`Next` is called once per
instance, at `Bind`: out of reach; recorded, not reported). -/
theorem C11_pool_index_counterexample : ¬ C11_pool_index_statement ∧
    Pandora.Gen.Locks.poolNextBody 3 9223372036854775808 = some (-2) := by
  have h : Pandora.Gen.Locks.poolNextBody 3 9223372036854775808 = some (-2) := by decide
  refine ⟨?_, h⟩
  intro hst
  obtain ⟨i, hi, h0, _⟩ := hst 3 9223372036854775808 (by decide) (by decide) (by decide)
  rw [h] at hi
  have := Option.some.inj hi
  omega

section Pool
open Pandora.Model.C11Pool Pandora.Proofs.C11Pool

/-! ### round 6: the whole pool — composition with C03's regenerated instance loop -/

/-- **C11_instloop_discipline**: every path of the iteration body of `(*instance).Run` as it is in the current source
(`Gen.InstLoop.iterBody`, regenerated for C03) keeps the one-bit discipline: `Acquire` only when no ammo is held,
`Shoot` and `Release` only while one is held, no statement C03's reader does not know, nothing held when the iteration
function returns. -/
theorem C11_instloop_discipline : bodyOk Pandora.Gen.InstLoop.iterBody = true := by decide

/-- non-vacuity: the path on which everything succeeds really acquires, shoots and releases -/
example : iterActs Pandora.Gen.InstLoop.iterBody true true true = [.acq, .tokOk, .reqAdd, .shoot, .respAdd, .rel] := by decide

/-- **C11_pool_drf**: a whole pool. Any number of instances (`iters.length`), each running any number of iterations of
the regenerated loop body, each iteration with its own answers of the environment, its own ammo object and any number
of samples; any number of other goroutines (provider, aggregator) running programs that respect the ownership
discipline; every schedule: data-race free. -/
theorem C11_pool_drf (iters : List (List Iter)) (others : List (List OOp))
    (hoth : ∀ (k : Nat) (ops : List OOp), others[k]? = some ops → progOk poolCls (iters.length + k) [] ops)
    (sched : List Nat) :
    DRF (exec (initCfgO poolCls (poolProgs Pandora.Gen.InstLoop.iterBody iters others)) sched) :=
  C11_drf_handover_programs poolCls _ (pool_ok _ C11_instloop_discipline iters others hoth) sched

/-- **C11_pool_gun_exclusive**: in every such run every access to the gun of instance `i` is made by thread `i` — the
instance goroutine is the only caller of its gun, so no gun is ever inside two `Shoot` calls. -/
theorem C11_pool_gun_exclusive (iters : List (List Iter)) (others : List (List OOp))
    (hoth : ∀ (k : Nat) (ops : List OOp), others[k]? = some ops → progOk poolCls (iters.length + k) [] ops)
    (sched : List Nat) (t i : Nat) (w : Bool) (v : Nat)
    (hm : Ev.acc t (oGun i) w v ∈ exec (initCfgO poolCls (poolProgs Pandora.Gen.InstLoop.iterBody iters others)) sched) :
    t = i :=
  wf_loc_owner poolCls _ _
    (exec_wfO poolCls sched _ (initCfgO_ok poolCls _ (pool_ok _ C11_instloop_discipline iters others hoth)))
    t (oGun i) w v i hm (cls_gun i)

/-- **C11_pool_ammo_exclusive**: from the point where instance `i` received ammo `a` (`Acquire`) until it gives it back
(`Release`), every access to that ammo — by the gun's `Shoot`, by a provider goroutine that would reset it, by another
instance — is instance `i`'s own: the ammo seen by one instance is never altered by another. -/
theorem C11_pool_ammo_exclusive (iters : List (List Iter)) (others : List (List OOp))
    (hoth : ∀ (k : Nat) (ops : List OOp), others[k]? = some ops → progOk poolCls (iters.length + k) [] ops)
    (sched : List Nat) (pre mid post : List Ev) (i a : Nat)
    (htr : exec (initCfgO poolCls (poolProgs Pandora.Gen.InstLoop.iterBody iters others)) sched
             = pre ++ Ev.acq i (oAmmo a) :: (mid ++ post))
    (hno : ∀ e ∈ mid, e ≠ Ev.rel i (oAmmo a)) (t : Nat) (w : Bool) (v : Nat)
    (hm : Ev.acc t (oAmmo a) w v ∈ mid) : t = i := by
  have hwf := exec_wfO poolCls sched _ (initCfgO_ok poolCls _ (pool_ok _ C11_instloop_discipline iters others hoth))
  rw [htr] at hwf
  have h1 := ((WF_append poolCls pre _ _).mp hwf).2
  obtain ⟨_, h2⟩ := h1
  have h3 := ((WF_append poolCls mid post _).mp h2).1
  exact C11_owned_exclusive poolCls (oAmmo a) i mid _ (set_same _ _ _) h3 hno t (oAmmo a) w v hm (cls_ammo a)

/-- two instances (the first: a full shot, then an iteration whose `Wait` finds the schedule finished; the second: a
discarded shot with two samples, then out of ammo), a provider goroutine that refills ammo 0 and an aggregator that reads
sample 0 -/
def poolIters : List (List Iter) :=
  [[⟨true, true, true, 0, [0]⟩, ⟨true, false, true, 1, []⟩], [⟨true, true, false, 0, [0, 1]⟩, ⟨false, true, true, 0, []⟩]]

def poolOthers : List (List OOp) :=
  [[.take (oAmmo 0), .own ⟨oAmmo 0, true, 9⟩, .give (oAmmo 0)], [.take (oSample 0), .own ⟨oSample 0, false, 0⟩, .give (oSample 0)]]

/-- non-vacuity of `C11_pool_drf`: the hypotheses hold for that pool, and under a round-robin schedule (turns of a
blocked thread are skipped) all 72 events of the four threads happen -/
example : ∀ (k : Nat) (ops : List OOp), poolOthers[k]? = some ops → progOk poolCls (poolIters.length + k) [] ops := by
  intro k ops h
  apply progOk_of_progOkB
  match k, h with
  | 0, h => simp [poolOthers] at h; subst h; decide
  | 1, h => simp [poolOthers] at h; subst h; decide
  | n + 2, h => simp [poolOthers] at h

example : (exec (initCfgO poolCls (poolProgs Pandora.Gen.InstLoop.iterBody poolIters poolOthers))
    ((List.range 60).flatMap fun _ => [0, 1, 2, 3])).length = 72 := by decide

/-- non-vacuity of `C11_pool_gun_exclusive` / `C11_pool_ammo_exclusive`: in that run instance 0 receives ammo 0 at
position 16 (the provider goroutine refilled it before), shoots it — touching the ammo and its own gun — and gives it back
at position 34, whereupon instance 1 receives it: the stretch in between decomposes the trace as the theorem asks -/
example :
    let tr := exec (initCfgO poolCls (poolProgs Pandora.Gen.InstLoop.iterBody poolIters poolOthers))
      ((List.range 60).flatMap fun _ => [0, 1, 2, 3])
    tr = tr.take 16 ++ Ev.acq 0 (oAmmo 0) :: ((tr.drop 17).take 17 ++ tr.drop 34) ∧
    (∀ e ∈ (tr.drop 17).take 17, e ≠ Ev.rel 0 (oAmmo 0)) ∧
    Ev.acc 0 (oAmmo 0) true 0 ∈ (tr.drop 17).take 17 ∧ Ev.acc 0 (oGun 0) true 0 ∈ tr ∧
    tr[34]? = some (Ev.rel 0 (oAmmo 0)) ∧ tr[35]? = some (Ev.acq 1 (oAmmo 0)) := by decide

/-- the loop body with the `Release` moved before the wait (an instance loop that gives its ammo back before shooting it) -/
def earlyReleaseBody : List Pandora.Model.C03Loop.Instr :=
  [.acquireOrReturn "ammo", .release "ammo", .waitOrReturn, .ifFire, .metricAdd "Request" 1, .shoot "ammo",
   .metricAdd "Response" 1, .orElse, .reportDiscard, .endIf, .returnNil]

/-- **C11_pool_early_release_counterexample**: such a body is rejected, its program violates the ownership discipline,
and with a provider goroutine that takes the released ammo from the pool and decodes the next entry into it the gun
shoots an ammo somebody else is writing: the trace is not data-race free. -/
theorem C11_pool_early_release_counterexample :
    bodyOk earlyReleaseBody = false ∧
    progOkB poolCls 0 [] (instProg earlyReleaseBody 0 [⟨true, true, true, 0, []⟩]) = false ∧
    ¬ DRF (exec (initCfgO poolCls [loopOps earlyReleaseBody 0 [⟨true, true, true, 0, []⟩],
                                   [.take (oAmmo 0), .own ⟨oAmmo 0, true, 9⟩, .give (oAmmo 0)]])
            [0, 0, 0, 0, 0, 1, 1, 0, 0, 0, 0, 0, 0, 0]) := by
  refine ⟨by decide, by decide, ?_⟩
  have htr : exec (initCfgO poolCls [loopOps earlyReleaseBody 0 [⟨true, true, true, 0, []⟩],
                                   [.take (oAmmo 0), .own ⟨oAmmo 0, true, 9⟩, .give (oAmmo 0)]])
            [0, 0, 0, 0, 0, 1, 1, 0, 0, 0, 0, 0, 0, 0]
      = [.acq 0 0, .acc 0 0 false 0, .rel 0 0, .acq 0 5, .rel 0 5, .acq 1 5, .acc 1 5 true 9, .acq 0 0, .acc 0 0 true 0,
         .rel 0 0, .acq 0 1, .acc 0 1 true 0, .rel 0 1, .acc 0 5 true 0] := by decide
  rw [htr]
  intro h
  have hb := h 6 13 _ _ (by decide) rfl rfl (by simp [Conflict])
  obtain ⟨_, hc⟩ := hb_cases _ _ _ hb
  rcases hc with ⟨a, b, ha, hb', hab⟩ | ⟨p, q, t, t', l, hp, hpq, hq, hrel, hacq⟩
  · simp at ha hb'
    subst ha; subst hb'
    simp [Ev.thread] at hab
  · have hp' : p = 6 ∨ p = 7 ∨ p = 8 ∨ p = 9 ∨ p = 10 ∨ p = 11 ∨ p = 12 := by omega
    rcases hp' with rfl | rfl | rfl | rfl | rfl | rfl | rfl <;> simp at hrel
    · obtain ⟨rfl, rfl⟩ := hrel
      have hq' : q = 10 ∨ q = 11 ∨ q = 12 ∨ q = 13 := by omega
      rcases hq' with rfl | rfl | rfl | rfl <;> simp at hacq
    · obtain ⟨rfl, rfl⟩ := hrel
      have hq' : q = 13 := by omega
      subst hq'
      simp at hacq

/-- the same facts as the driver judges them for the case `mode=locks` (`Spec.C11.judgeLoop`): the regenerated body passes,
the early release is reported with the path that breaks the discipline (everything succeeds: Acquire, Release, …, Shoot) -/
example : Pandora.Spec.C11.loopBad Pandora.Gen.InstLoop.iterBody = none ∧
    Pandora.Spec.C11.loopBad earlyReleaseBody = some (true, true, true) := by
  constructor <;> decide

end Pool

end Pandora.Props.C11
