/-
C11 — instance isolation and data-race freedom of all built-in components.

Model (`Model/C11Sharing.lean`): objects classed `loc i` / `sharedRO` / `sharedSync ℓ`; any number of instance
threads perform arbitrary access sequences consistent with the classification, in an arbitrary interleaving.

* `C11_drf`            — every trace consistent with the classification is data-race free: two conflicting accesses are
                         ordered by happens-before (program order ∪ unlock→lock). Three-way case split on the class.
* `C11_drf_programs`   — the same for the traces PRODUCED by any number of threads running arbitrary programs under
                         every schedule (the scheduler blocks `Lock` on a held mutex; nothing else is assumed).
* `C11_lock_table_guarded` — the lock facts regenerated from the current source (`Gen/Locks.lean`: which fields the
                         instance-facing methods of the sharedSync objects touch, and under which protection) contain
                         no unguarded access. Finite table, `decide`.
* `C11_drf_table`      — hence threads that call those methods in any order and interleaving are data-race free
                         (the table is the hypothesis that licenses the class `sharedSync`).
* `C11_gun_exclusive`  — guns of different instances are distinct objects and at no time are two `Shoot` calls in
                         progress on one gun, for every order of instance starts and instance moves.
* `C11_no_cross_instance_effect` — what an instance reads from its own and from read-only shared objects (ammo,
                         scenario definition, templates, metadata, variables) is what it would read running alone.

The classification itself is checked against the real code by the correspondence driver (aliasing graph, write
set of a real `Shoot`, race-detector sweep); see `Drv/C11.lean`.
-/
import Pandora.Proofs.C11Exec
import Pandora.Gen.Locks

namespace Pandora.Props.C11
open Pandora.Model.C11 Pandora.Proofs.C11 Pandora.Go

/-- **C11_drf**: consistent with the classification ⇒ no two conflicting accesses unordered by happens-before. -/
theorem C11_drf (cls : Nat → Class) (tr : List Ev) (h : WF cls noLocks tr) : DRF tr :=
  drf_of_wf cls tr h

/-- **C11_drf_programs**: any number of threads (`progs.length`), arbitrary programs that respect the
classification, every schedule. -/
theorem C11_drf_programs (cls : Nat → Class) (progs : List (List Op))
    (hok : ∀ (t : Nat) (ops : List Op), progs[t]? = some ops → ∀ op ∈ ops, opOk cls t op) (sched : List Nat) :
    DRF (exec (initCfg cls progs) sched) :=
  drf_of_wf cls _ (exec_wf cls sched (initCfg cls progs) (initCfg_ok cls progs hok))

/-- non-vacuity: two threads incrementing one `sharedSync` object; thread 1 is scheduled while thread 0 holds the
lock (its turn is skipped) and gets it after the release. -/
example :
    exec (initCfg (fun _ => Class.sharedSync 7) [[⟨0, true, 1⟩], [⟨0, true, 2⟩]]) [0, 1, 0, 1, 0, 1, 1, 1]
      = [.acq 0 7, .acc 0 0 true 1, .rel 0 7, .acq 1 7, .acc 1 0 true 2, .rel 1 7] := by decide

example : Conflict (.acc 0 0 true 1) (.acc 1 0 true 2) := by decide

/-- without the lock the same two writes are a data race: the trace is not consistent with any class of object 0
that allows both threads to write it -/
example : ¬ WF (fun _ => Class.sharedSync 7) noLocks [.acc 0 0 true 1, .acc 1 0 true 2] := by
  simp [WF, stepOk, noLocks]

/-! ### the regenerated lock facts -/

/-- **C11_lock_table_guarded**: in the current source every access of the inventoried shared objects is inside a
mutex section, atomic, through sync.Map / sync.Pool / a channel, or a read of a field frozen after set-up. -/
theorem C11_lock_table_guarded : Pandora.Gen.Locks.table.all C11LockRow.guarded = true := by decide

/-- what a method does for one access site of the table: lock around it iff the source does -/
def expandRow (oid : String → Nat) (t : Nat) (r : C11LockRow) : List Ev :=
  if r.guarded then [.acq t (oid r.obj), .acc t (oid r.obj) r.write 0, .rel t (oid r.obj)]
  else [.acc t (oid r.obj) r.write 0]

/-- every object is `sharedSync` under its own lock -/
def clsSync : Nat → Class := fun o => Class.sharedSync o

def rowOp (oid : String → Nat) (r : C11LockRow) : Op := { obj := oid r.obj, write := r.write, val := 0 }

theorem expandRow_eq (oid : String → Nat) (t : Nat) (r : C11LockRow) (h : r.guarded = true) :
    expandRow oid t r = expand clsSync t (rowOp oid r) := by
  simp [expandRow, h, expand, clsSync, rowOp]

/-- **C11_drf_table**: any number of threads, each calling access sites of the regenerated table in any order, under
every schedule: data-race free. (Object identities `oid` are arbitrary; one lock per object is the weakest reading of
"guarded".) -/
theorem C11_drf_table (oid : String → Nat) (progs : List (List C11LockRow))
    (hin : ∀ rows ∈ progs, ∀ r ∈ rows, r ∈ Pandora.Gen.Locks.table) (sched : List Nat) :
    DRF (exec { held := noLocks, todo := progs.zipIdx.map fun (rows, t) => rows.flatMap (expandRow oid t) } sched) := by
  have hg : ∀ rows ∈ progs, ∀ r ∈ rows, r.guarded = true := by
    intro rows hr r hrr
    exact (List.all_eq_true.mp C11_lock_table_guarded) r (hin rows hr r hrr)
  have hcfg : ({ held := noLocks, todo := progs.zipIdx.map fun (rows, t) => rows.flatMap (expandRow oid t) } : Cfg)
      = initCfg clsSync (progs.map fun rows => rows.map (rowOp oid)) := by
    simp only [initCfg, Cfg.mk.injEq, true_and]
    apply List.ext_getElem?
    intro i
    simp only [List.getElem?_map, List.getElem?_zipIdx]
    cases hp : progs[i]? with
    | none => simp
    | some rows =>
      simp only [Option.map_some, Nat.zero_add, Option.some.injEq, List.flatMap_map]
      have hmem : rows ∈ progs := List.mem_of_getElem? hp
      apply List.flatMap_congr
      intro r hr
      exact expandRow_eq oid i r (hg rows hmem r hr)
  rw [hcfg]
  apply C11_drf_programs
  intro t ops _ op _
  simp [opOk, clsSync]

/-! ### guns -/

/-- **C11_gun_exclusive**: for every sequence of instance starts and instance moves, the guns of the instances are
pairwise distinct objects and no gun has two `Shoot` calls in progress. -/
theorem C11_gun_exclusive (acts : List Act) :
    ((engRun engInit acts).insts.map (·.gun)).Nodup ∧ ∀ g, active g (engRun engInit acts).insts ≤ 1 := by
  have h := engRun_ok acts engInit ⟨by simp [engInit], by simp [engInit]⟩
  exact ⟨h.1, fun g => active_le_one g _ h.1⟩

/-- non-vacuity: three instances, two of them inside `Shoot` at the same time — on different guns -/
example : (engRun engInit [.start, .start, .move 0, .start, .move 2]).insts
    = [⟨0, true⟩, ⟨1, false⟩, ⟨2, true⟩] := by decide

/-! ### isolation -/

/-- **C11_no_cross_instance_effect**: in every trace consistent with the classification, the values instance `i`
reads from its own objects and from read-only shared objects are exactly those it reads when all other instances'
events are removed. -/
theorem C11_no_cross_instance_effect (cls : Nat → Class) (tr : List Ev) (h : WF cls noLocks tr) (i : Nat) (m : Mem) :
    view cls i m tr = view cls i m (tr.filter fun e => e.thread == i) :=
  view_filter cls i tr noLocks m m h (fun _ _ => rfl)

/-- non-vacuity: instance 1 writes its own object 5 and the shared counter 9; instance 0 reads the read-only
definition 3 and its own object 4 — and sees the initial / its own values -/
example :
    let cls : Nat → Class := fun o => if o = 3 then .sharedRO else if o = 4 then .loc 0 else if o = 5 then .loc 1 else .sharedSync 9
    view cls 0 (fun _ => 42) [.acc 0 4 true 7, .acc 1 5 true 8, .acq 1 9, .acc 1 9 true 1, .rel 1 9, .acc 0 3 false 0, .acc 0 4 false 0]
      = [(3, 42), (4, 7)] := by decide

end Pandora.Props.C11
