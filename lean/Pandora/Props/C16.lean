/-
Property C16: a scenario means the same whether written in HCL or in YAML.

The HCL front-end reaches `AmmoConfig` through an extra hop: gohcl fills the `…HCL` structs, yaml.v2 marshals them
(keys and `omitempty` from the struct tags), and the text goes through the same `DecodeMap` as a YAML file.  Whether
the hop loses anything is decided by the struct/tag tables, which `/verif/gen -area hclyaml` re-extracts from the
source on every check run (`Pandora/Gen/HclYaml.lean`):

* `C16_tables_compat`      the current tables satisfy the decidable compatibility `compat` (every HCL field is
                            marshalled under the key the documentation gives it in YAML; that key selects exactly one
                            config field of a compatible type, and conversely; a field that the config stores as a
                            pointer is only left out by yaml.v2 when it is nil; plugin blocks carry their `type`;
                            a key unknown to a plugin is only written when the user wrote it) — by `decide`;
* `C16_equiv`              for ANY tables with `compat`, and EVERY description tree `d` (all optional fields present,
                            absent or present-and-zero, any number of sources / requests / calls / processors /
                            scenarios, any strings): decoding what yaml.v2 marshals from the HCL structs = decoding
                            the same description written directly in YAML;
* `C16_equiv_current`      the instance for the current source;
* `C16_documented`         every field of the documented format exists in the HCL structs with the documented name,
                            kind, optionality and YAML key — by `decide`;
* `C16_conversion_total`   under `compat` every field survives the hop: a non-zero value written in a field is found
                            unchanged in the config field that the documented YAML key selects, a block reaches the
                            config field of its key, and yaml.v2 leaves a field out only when it is nil or an
                            `omitempty` zero (which the decoder would store as the same zero anyway).

HCL-only conveniences (`config/hcl.go`: `locals` blocks, the registered collection functions) are evaluated by
`ParseHCLFile` BEFORE the conversion; the model `evalFile` (function table and the data flow of `decodeLocals`
regenerated from the source) is tied by the differential driver, which evaluates the syntax tree of every HCL file it
prints:

* `C16_functions_documented`  the registered functions are exactly the documented ones, each bound to its namesake;
* `C16_locals_flow`           `decodeLocals` / `mergeMaps` / `ParseHCLFile` of the current source have the data flow of
                               the model (a block sees the locals of the blocks before it, its entries are written over
                               them, the body is decoded under the final locals);
* `C16_locals_in_order`, `C16_locals_later_wins`   the blocks are processed left to right; a name defined again takes the
                               later value, every other name keeps its value;
* `C16_locals_inline`, `C16_locals_file`   locals are conveniences: writing the value of every local out as a literal
                               does not change the value of any expression, nor the description a file denotes;
* `C16_hcl_file_agrees`       end to end: whenever the HCL file evaluates to a description `d` (without a `<<` map key),
                               the HCL front-end on the FILE and the YAML front-end on `d` written in YAML agree;
* `C16_ammo_identical`        the ammo both providers build (`decodeAmmo`: scenarios spread by weight, steps resolved
                               by name with multipliers and sleeps) is the same for both front-ends;
                               `C16_any_reader_agrees`: so is any function of the decoded record;
* `C16_functions_distinguished`, `C16_index_refines_element`   any two registered functions are told apart by a witness
                               call that the harness spells in a file on every run (a slip in the function table has a
                               concrete failing input);
* `C16_unevaluated_local_refuses`, `C16_errors_propagated`   a `locals` block that does not evaluate refuses the file even
                               when nothing uses it; in the current source no error between file and `AmmoConfig` is
                               swallowed and no block / attribute is skipped (regenerated `errFlow`, loop facts);
* `C16_readers_nil_blind`     no reader of `AmmoConfig` tells a nil collection from an empty one (regenerated).

Round 3 — in front of the evaluation and behind the decoding:

* `C16_format_by_extension`, `C16_format_current`, `C16_format_twins`   `ReadAmmoConfig` selects the front-end by the file
                               name: for ANY table of cases with the decidable `extSelects`, any base name and any
                               spelling of the extension that the name mapping (`strings.ToLower`, or nothing) turns into
                               `.hcl` / `.yaml`, the file reaches `ParseHCLFile` + `ConvertHCLToAmmo` / `ParseAmmoConfig`;
                               the regenerated switch has `extSelects` for both, and every case tests the same value
                               (`C16_ext_subject`);
* `C16_locals_blocks_all_count` (+ `_statement`, `_counterexample`, `C16_locals_blocks_current`)   an accepted file
                               denotes what ALL its `locals` blocks and its body say — true when `ParseHCLFile` returns
                               the diagnostics of `PartialContent`, FALSE when it ignores them: a `locals` block written
                               with a label is dropped by hcl with an error that nobody reads (finding `dropped-locals`,
                               repaired: `C16_locals_blocks_all_count_current` — the current source returns them);
                               `C16_labelled_locals_refused`, `C16_plain_locals_unaffected`;
* `C16_front_ends_stateless`, `C16_provider_flow`   regenerated: the front-ends only read package-level variables (no
                               cache / pool / hoisted parser: a file is decoded independently of the files before it),
                               and the providers hand the file name to `ReadAmmoConfig` only and build storage and ammo
                               from its result only;
* `C16_durations_exact`, `C16_durations_wrap`   waiting times and sleeps are int64 nanoseconds: exact up to
                               9 223 372 036 854 ms (292 years), wrapping beyond — for both front-ends alike.

What a YAML scalar's characters go through inside yaml.v2 / hcl (quoting, escapes, NFC normalisation of HCL strings)
is library behaviour: tied by the differential harness only (see notes/C16.md).
-/
import Pandora.Model.C16
import Pandora.Model.C16Locals
import Pandora.Model.C16Ammo
import Pandora.Model.C16Frozen
import Pandora.Model.C16Src
import Pandora.Model.C16Read
import Pandora.Spec.C16
import Pandora.Proofs.C16
import Pandora.Proofs.C16Locals
import Pandora.Proofs.C16Src
import Pandora.Model.C16Text
import Pandora.Proofs.C16Text
import Pandora.Bridge.HclYaml

namespace Pandora.Props.C16
open Pandora.Go Pandora.Model.C16 Pandora.Proofs.C16 Pandora.Spec.C16
open Pandora.Bridge.HclYaml (current unread fns)

/-! ### the regenerated tables -/

/-- the struct/tag tables of the current source are compatible -/
theorem C16_tables_compat : compat current unread = true := by decide

/-- the HCL structs of the current source have every documented field, spelled and optional as documented -/
theorem C16_documented : documented current = true := by decide

/-! ### equivalence of the two front-ends -/

/-- For all compatible tables and every description: the document yaml.v2 marshals from the HCL structs and the
description written directly in YAML decode to the same `AmmoConfig` record. -/
theorem C16_equiv (T : Tables) (u : List String) (hc : compat T u = true) (d : V) :
    decode T (marshal T d) = decode T (yamlDoc T d) := by
  unfold decode marshal yamlDoc
  exact render_decode_eq T u d compatFuel (.struct T.hclRoot) (.struct T.cfgRoot) hc

/-- the two front-ends of the current source agree on every description -/
theorem C16_equiv_current (d : V) : decode current (marshal current d) = decode current (yamlDoc current d) :=
  C16_equiv current unread C16_tables_compat d

/-- fields that the user did not write are nil in the HCL structs; they do not exist in the user's YAML -/
theorem C16_yaml_complete (T : Tables) (d : V) : yamlDoc T (complete T d) = yamlDoc T d := by
  unfold yamlDoc complete
  exact renderV_Y_complete T d _

/-- the HCL structs as gohcl fills them (every field present, nil where the user wrote nothing), marshalled by yaml.v2
and decoded = the user's YAML decoded -/
theorem C16_equiv_complete (T : Tables) (u : List String) (hc : compat T u = true) (d : V) :
    decode T (marshal T (complete T d)) = decode T (yamlDoc T d) := by
  rw [C16_equiv T u hc, C16_yaml_complete]

/-- the same at every nesting level: any HCL struct against the config struct (or plugin interface) it feeds -/
theorem C16_equiv_nested (T : Tables) (u : List String) (n : Nat) (hty : C16HTy) (cty : C16CTy)
    (h : tyRel (compatS T u n) hty cty = true) (v : V) :
    decodeV T cty (renderV polM T hty v) = decodeV T cty (renderV polY T hty v) :=
  render_decode_eq T u v n hty cty h

/-! ### the two front-ends including the text hop (one known defect, `findings/C16.json` key `merge-key`) -/

/-- full-strength statement: both front-ends return the same outcome for every description -/
def C16_paths_agree_statement : Prop := ∀ d : V, hclPath current d = yamlPath current d

/-- it holds for every description without a string-map key `<<` -/
theorem C16_paths_agree_partial (d : V) (h : hasMergeKey d = false) : hclPath current d = yamlPath current d := by
  unfold hclPath yamlPath
  rw [h]
  simp only [Bool.false_eq_true, if_false]
  rw [C16_equiv_complete current unread C16_tables_compat]

/-- and fails for a request whose `headers` map has the key `<<` (corpus/C16.txt carries this witness: the real HCL
front-end refuses it, the real YAML front-end accepts it) -/
theorem C16_paths_agree_counterexample : ¬ C16_paths_agree_statement := by
  intro h
  have h1 := h (.map [("request", .seq [.map [("name", .str "r"), ("method", .str "GET"), ("uri", .str "/"),
    ("headers", .map [("<<", .str "v")])]]), ("scenario", .seq [.map [("name", .str "s"), ("requests", .seq [.str "r"])]])])
  have h2 : hasMergeKey (.map [("request", .seq [.map [("name", .str "r"), ("method", .str "GET"), ("uri", .str "/"),
    ("headers", .map [("<<", .str "v")])]]), ("scenario", .seq [.map [("name", .str "s"), ("requests", .seq [.str "r"])]])]) = true := by
    decide
  unfold hclPath yamlPath at h1
  rw [h2] at h1
  simp at h1

/-! ### HCL-only conveniences are fully evaluated before the conversion -/

/-- the functions registered by `buildHclContext` are exactly the documented ones, each bound to the go-cty stdlib
function of its name -/
theorem C16_functions_documented : fns = docFunctions := by decide

/-- the data flow of `decodeLocals`, `mergeMaps`, `decodeLocalBlock` and `ParseHCLFile` in the current source is the
one of the model (`evalLocals`, `evalFile`): later definitions win, blocks see the blocks before them, the body is
decoded under the final locals, which are visible as `local.<name>` -/
theorem C16_locals_flow :
    Pandora.Bridge.HclYaml.laterWins = true ∧ Pandora.Bridge.HclYaml.accHoldsMerged = true ∧
    Pandora.Bridge.HclYaml.ctxIsMerged = true ∧ Gen.HclYaml.localsBlockCtx = "ctx" ∧
    Gen.HclYaml.localBlockEvalUnder = "param" ∧ Gen.HclYaml.parseHclBodyCtx = "locals-ctx" ∧
    Gen.HclYaml.localsRoot = "local" ∧ Gen.HclYaml.localsBlockTypes = ["locals"] ∧
    Gen.HclYaml.localsBlockFilter = ["locals"] :=
  Pandora.Bridge.HclYaml.locals_flow

/-- no failure between the file and `AmmoConfig` is swallowed in the current source: the error / diagnostics value of
every fallible call of `ParseHCLFile`, `decodeLocals`, `decodeLocalBlock`, `ConvertHCLToAmmo`, `DecodeMap`,
`ParseAmmoConfig` is tested by the next statement and returned (regenerated `errFlow`); the loops over the `locals`
blocks and over their attributes skip nothing — what the model's `none` ⇒ refused rests on -/
theorem C16_errors_propagated :
    Gen.HclYaml.errFlow.all Pandora.Bridge.HclYaml.errRowOK = true ∧
    ("decodeLocals", "decodeLocalBlock", "returned") ∈ Gen.HclYaml.errFlow ∧
    ("decodeLocalBlock", "(hcl.Expression).Value", "returned") ∈ Gen.HclYaml.errFlow ∧
    ("ParseHCLFile", "decodeLocals", "returned") ∈ Gen.HclYaml.errFlow ∧
    ("ParseHCLFile", "gohcl.DecodeBody", "returned") ∈ Gen.HclYaml.errFlow ∧
    (Gen.HclYaml.localsLoopBranches.all fun b => b == "continue:blk==nil") = true ∧
    Gen.HclYaml.localBlockBranches = [] ∧ Gen.HclYaml.localBlockStoresAll = true :=
  ⟨Pandora.Bridge.HclYaml.errors_propagated.1, Pandora.Bridge.HclYaml.errors_propagated.2.1,
    Pandora.Bridge.HclYaml.errors_propagated.2.2.1, Pandora.Bridge.HclYaml.errors_propagated.2.2.2.2.1,
    Pandora.Bridge.HclYaml.errors_propagated.2.2.2.2.2.1, Pandora.Bridge.HclYaml.locals_loops_total.1,
    Pandora.Bridge.HclYaml.locals_loops_total.2.1, Pandora.Bridge.HclYaml.locals_loops_total.2.2⟩

/-- the readers of the decoded `AmmoConfig` in the current source never tell a nil collection from an empty one (no
comparison of a slice / map with nil, no `reflect.DeepEqual`): identifying the two in the model and in the comparison
of the two front-ends loses nothing -/
theorem C16_readers_nil_blind : Gen.HclYaml.readerNilTests = [] := Pandora.Bridge.HclYaml.readers_nil_blind

/-- the locals blocks are processed in source order: a block appended at the end is evaluated under, and merged over,
the locals of all blocks before it (any number of blocks, any function table) -/
theorem C16_locals_in_order (F : List (String × String)) (bs : List (List (String × E))) (b : List (String × E)) :
    evalLocals F [] (bs ++ [b]) = (evalLocals F [] bs).bind fun vars => localsStep F vars b :=
  evalLocals_append F bs b []

/-- one block: when its attributes evaluate (under the locals `vars` of the blocks BEFORE it) to `newVars`, then
afterwards a name the block defines has the block's value — the last one, should the list carry the name twice — and
every other name keeps the value it had -/
theorem C16_locals_later_wins (F : List (String × String)) (vars : Env) (b : List (String × E)) (newVars : Env)
    (h : evalM F vars b = some newVars) (k : String) :
    ∃ vars', localsStep F vars b = some vars' ∧
      envGet vars' k = match envGet newVars.reverse k with
        | some v => some v
        | none => envGet vars k := by
  refine ⟨mergeMaps vars newVars, ?_, envGet_mergeMaps newVars vars k⟩
  simp [localsStep, h]

/-- locals are conveniences: an expression evaluated under the locals has the value of the expression in which every
defined local is written out as a literal, evaluated without any locals (undefined locals stay errors) -/
theorem C16_locals_inline (F : List (String × String)) (env : Env) (e : E) :
    evalE F [] (inlineE env e) = evalE F env e :=
  eval_inline F env e

/-- a file with `locals` blocks denotes the same description as the file without them whose body has the locals'
values written out -/
theorem C16_locals_file (F : List (String × String)) (f : HclFile) (env : Env)
    (h : evalLocals F [] f.locals = some env) :
    evalFile F f = evalFile F ⟨[], inlineE env f.body⟩ := by
  simp [evalFile, h, evalLocals, eval_inline]

/-- end to end, from the SYNTAX of the HCL file: whenever `ParseHCLFile` evaluates the file (locals, templates,
function calls) to a description `d` that has no `<<` map key, the HCL front-end on the file and the YAML front-end on
`d` written directly in YAML return the same `AmmoConfig` -/
theorem C16_hcl_file_agrees (f : HclFile) (d : V) (h : hclDescription current fns f = some d)
    (hm : hasMergeKey d = false) :
    hclFilePath current fns f = yamlPath current d := by
  have h1 : hclFilePath current fns f = hclPath current d := by
    unfold hclFilePath
    rw [h]
  rw [h1]
  exact C16_paths_agree_partial d hm

/-- every description in the form the HCL structs hold it (strings where strings are expected …: a fixed point of the
conversion) IS expressible as an HCL file — the one that spells it with literals only — and that file denotes it, for
any function table: the hypothesis of `C16_hcl_file_agrees` is met by all of them -/
theorem C16_literal_file_denotes (T : Tables) (F : List (String × String)) (d : V)
    (h : coerceV T (.struct T.hclRoot) d = some d) :
    hclDescription T F ⟨[], quote d⟩ = some d := by
  unfold hclDescription evalFile
  simp [evalLocals, eval_quote, h]

/-- the description `ParseHCLFile` hands to the conversion is in converted form (converting it again changes nothing):
it is exactly what the YAML twin spells with quoted strings -/
theorem C16_description_converted (T : Tables) (F : List (String × String)) (f : HclFile) (d : V)
    (h : hclDescription T F f = some d) : coerceV T (.struct T.hclRoot) d = some d := by
  unfold hclDescription at h
  cases he : evalFile F f with
  | none => simp [he] at h
  | some v =>
    simp only [he, Option.bind_some] at h
    exact (coerceV_idem T v _ d h).1

/-- conveniences are FULLY evaluated: whatever description a file with `locals`, templates, member accesses and
function calls denotes, the file that spells that description with literals only denotes the same — nothing of the
conveniences is left for the conversion to see -/
theorem C16_description_expressible (T : Tables) (F : List (String × String)) (f : HclFile) (d : V)
    (h : hclDescription T F f = some d) : hclDescription T F ⟨[], quote d⟩ = some d :=
  C16_literal_file_denotes T F d (C16_description_converted T F f d h)

/-- a file whose locals or expressions do not evaluate is refused as a whole (nothing half-evaluated is converted) -/
theorem C16_hcl_file_refused (f : HclFile) (h : evalFile fns f = none) :
    hclFilePath current fns f = .refused := by
  unfold hclFilePath hclDescription
  rw [h]
  rfl

/-- … even when the body never uses the local that fails: if some `locals` block does not evaluate under the locals of
the blocks before it, the file is refused whatever follows it and whatever the body is (any function table, any
tables) -/
theorem C16_unevaluated_local_refuses (T : Tables) (F : List (String × String)) (bs : List (List (String × E)))
    (b : List (String × E)) (rest : List (List (String × E))) (body : E) (env : Env)
    (h1 : evalLocals F [] bs = some env) (h2 : evalM F env b = none) :
    hclFilePath T F ⟨bs ++ b :: rest, body⟩ = .refused := by
  have h : evalFile F ⟨bs ++ b :: rest, body⟩ = none := by
    unfold evalFile
    simp only
    rw [evalLocals_append_list, h1]
    simp [evalLocals, localsStep, h2]
  unfold hclFilePath hclDescription
  rw [h]
  rfl

/-- the function table is told apart entry by entry: for any two different registered functions (other than `index`
against `element`, see `C16_index_refines_element`) one of the witness calls of `fnWitnesses` — each of which the
harness spells in a scenario file on every run — has a different value, or fails, when the first is replaced by the
second -/
theorem C16_functions_distinguished (p q : String × String) (hp : p ∈ docFunctions) (hq : q ∈ docFunctions)
    (hne : p.2 ≠ q.2) (hie : ¬ (p.2 = "IndexFunc" ∧ q.2 = "ElementFunc")) :
    ∃ w ∈ witnessesOf p.2, applyFn p.2 w ≠ applyFn q.2 w := by
  have hall : (docFunctions.all fun p => docFunctions.all fun q =>
      p.2 == q.2 || (p.2 == "IndexFunc" && q.2 == "ElementFunc") ||
      (witnessesOf p.2).any fun w => !beqOV (applyFn p.2 w) (applyFn q.2 w)) = true := by decide
  rw [List.all_eq_true] at hall
  have h1 := hall p hp
  rw [List.all_eq_true] at h1
  have h2 := h1 q hq
  simp only [Bool.or_eq_true, beq_iff_eq, Bool.and_eq_true, List.any_eq_true, Bool.not_eq_true'] at h2
  rcases h2 with (h2 | h2) | h2
  · exact absurd h2 hne
  · exact absurd h2 hie
  · obtain ⟨w, hw, hb⟩ := h2
    exact ⟨w, hw, ne_of_beqOV_false hb⟩

/-- on tuples `index` is a restriction of `element`: wherever `index(list, i)` is defined, `element(list, i)` is the
same member (`element` additionally wraps around) -/
theorem C16_index_refines_element (args : List V) (v : V) (h : applyFn "IndexFunc" args = some v) :
    applyFn "ElementFunc" args = some v := by
  match args, h with
  | [.seq xs, i], h =>
    simp only [applyFn] at h ⊢
    cases hn : natOf i with
    | none => simp [hn] at h
    | some n =>
      simp only [hn, Option.bind_some] at h ⊢
      have hlt : n < xs.length := by
        rcases Nat.lt_or_ge n xs.length with h' | h'
        · exact h'
        · rw [List.getElem?_eq_none h'] at h
          cases h
      have hne : xs.isEmpty = false := by
        cases xs with
        | nil => simp at hlt
        | cons _ _ => rfl
      rw [hne, Nat.mod_eq_of_lt hlt]
      simpa using h

/-! ### identical ammo -/

/-- the ammo the providers build from the decoded config (scenarios spread by weight, steps resolved by name with
multipliers and sleeps) is the same for the HCL structs marshalled by yaml.v2 and for the description written in YAML —
for all compatible tables and every description -/
theorem C16_ammo_identical (T : Tables) (u : List String) (hc : compat T u = true) (d : V) :
    ammoOf (decode T (marshal T (complete T d))) = ammoOf (decode T (yamlDoc T d)) := by
  rw [C16_equiv_complete T u hc]

/-- not only the ammo model above: WHATEVER a provider computes from the decoded record (any function of it) is the same
for both front-ends — the record itself is the same; together with `C16_readers_nil_blind` (no reader tells nil from
empty, the one thing the record does not carry) the equality of the ammo does not rest on the ammo model -/
theorem C16_any_reader_agrees {α : Type} (reader : Option V → α) (T : Tables) (u : List String)
    (hc : compat T u = true) (d : V) :
    reader (decode T (marshal T (complete T d))) = reader (decode T (yamlDoc T d)) := by
  rw [C16_equiv_complete T u hc]

/-- the instance for the current source -/
theorem C16_ammo_identical_current (d : V) :
    ammoOf (decode current (marshal current (complete current d))) = ammoOf (decode current (yamlDoc current d)) :=
  C16_ammo_identical current unread C16_tables_compat d

/-! ### the front-end is selected by the file name (`ReadAmmoConfig`) -/

/-- For ANY table of switch cases with `extSelects … ext parser`, any mapping `lc` applied to the characters of the name
before the tests, any base name `s` and any spelling `e` of the extension that `lc` turns into `ext`: the file
`s ++ e` runs `parser` — whatever stands in front of the extension (other extensions, dots, upper case, unicode). -/
theorem C16_format_by_extension (lc : Char → Char) (cases : List ExtCase) (ext parser : String)
    (h : extSelects cases ext parser = true) (s e : List Char) (he : e.map lc = ext.toList) :
    frontEnd lc cases (s ++ e) = routeOf parser :=
  frontEndOf_of_extSelects cases ext parser h _ (suffix_of_mapped lc s e ext.toList he)

/-- the regenerated switch: a name ending in (any spelling the mapping accepts of) `.hcl` is parsed by
`ParseHCLFile` + `ConvertHCLToAmmo`, one ending in `.yaml` by `ParseAmmoConfig` -/
theorem C16_format_current (lc : Char → Char) (s e : List Char) :
    (e.map lc = ".hcl".toList → frontEnd lc Gen.HclYaml.extCases (s ++ e) = .hcl) ∧
    (e.map lc = ".yaml".toList → frontEnd lc Gen.HclYaml.extCases (s ++ e) = .yaml) :=
  ⟨fun he => C16_format_by_extension lc _ ".hcl" _ Pandora.Bridge.HclYaml.ext_selects.1 s e he,
   fun he => C16_format_by_extension lc _ ".yaml" _ Pandora.Bridge.HclYaml.ext_selects.2 s e he⟩

/-- the two renderings of one description, stored under one base name with extensions in the same style, each reach
their own front-end — under the name mapping of the current source (`subjectLc`: lower-casing when `extSubject` has
`strings.ToLower`, nothing otherwise) -/
theorem C16_format_twins (s eh ey : List Char)
    (hh : eh.map Pandora.Bridge.HclYaml.subjectLc = ".hcl".toList)
    (hy : ey.map Pandora.Bridge.HclYaml.subjectLc = ".yaml".toList) :
    frontEnd Pandora.Bridge.HclYaml.subjectLc Gen.HclYaml.extCases (s ++ eh) = .hcl ∧
    frontEnd Pandora.Bridge.HclYaml.subjectLc Gen.HclYaml.extCases (s ++ ey) = .yaml :=
  ⟨(C16_format_current _ s eh).1 hh, (C16_format_current _ s ey).2 hy⟩

/-- regenerated: every case of the switch tests the same value, and it is the `fileName` parameter — at most
lower-cased and reduced to its base name -/
theorem C16_ext_subject :
    Gen.HclYaml.extSubject.all Pandora.Bridge.HclYaml.subjectStepOK = true ∧
    Gen.HclYaml.extSubject.getLast? = some "param:fileName" := Pandora.Bridge.HclYaml.ext_subject

/-! ### every `locals` block of an accepted file counts (`PartialContent`) -/

/-- an accepted file denotes what ALL its `locals` blocks (in source order) and its body say -/
def C16_locals_blocks_all_count_statement (strict : Bool) : Prop :=
  ∀ (T : Tables) (F : List (String × String)) (s : HclSrc) (d : V),
    srcDescription T strict F s = some d → hclDescription T F s.allLocals = some d

/-- true when `ParseHCLFile` returns the diagnostics of `PartialContent` -/
theorem C16_locals_blocks_all_count : C16_locals_blocks_all_count_statement true := by
  intro T F s d h
  unfold srcDescription at h
  cases hs : splitLocals true s with
  | none => simp [hs] at h
  | some f =>
    rw [hs] at h
    have := (splitLocals_strict s f hs).2
    rw [this] at h
    exact h

/-- a file with a labelled `locals` block is refused under the strict reading -/
theorem C16_labelled_locals_refused (T : Tables) (F : List (String × String)) (s : HclSrc)
    (h : s.blocks.all LBlock.plain = false) : srcDescription T true F s = none := by
  unfold srcDescription splitLocals
  simp [h]

/-- a well-formed file (no labelled block) is not affected by the reading -/
theorem C16_plain_locals_unaffected (T : Tables) (F : List (String × String)) (strict : Bool) (s : HclSrc)
    (h : s.blocks.all LBlock.plain = true) : srcDescription T strict F s = hclDescription T F s.allLocals := by
  unfold srcDescription
  rw [splitLocals_plain strict s h]
  rfl

/-- the file of the counterexample: `locals { a = "r" }  locals "prod" { a = "q" }  scenario "s" { requests = [local.a] }` -/
def droppedSrc : HclSrc :=
  ⟨[⟨[], [("a", .str "r")]⟩, ⟨["prod"], [("a", .str "q")]⟩],
   .map [("scenario", .seq [.map [("name", .str "s"), ("requests", .seq [.loc "a"])]])]⟩

/-- FALSE when the diagnostics are ignored: the labelled block disappears, the file is accepted with the EARLIER
value of `a` although the file says `q` -/
theorem C16_locals_blocks_all_count_counterexample : ¬ C16_locals_blocks_all_count_statement false := by
  intro h
  have h1 : srcDescription Frozen.tables false docFunctions droppedSrc =
      some (.map [("scenario", .seq [.map [("name", .str "s"), ("requests", .seq [.str "r"])]])]) := by rfl
  have h2 := h Frozen.tables docFunctions droppedSrc _ h1
  have h3 : hclDescription Frozen.tables docFunctions droppedSrc.allLocals =
      some (.map [("scenario", .seq [.map [("name", .str "s"), ("requests", .seq [.str "q"])]])]) := by rfl
  rw [h3] at h2
  simp at h2

/-- the current source (regenerated error flow of `ParseHCLFile`): the statement holds exactly when the diagnostics of
`PartialContent` are returned -/
theorem C16_locals_blocks_current :
    (Pandora.Bridge.HclYaml.schemaDiagsChecked = true →
      C16_locals_blocks_all_count_statement Pandora.Bridge.HclYaml.schemaDiagsChecked) ∧
    (Pandora.Bridge.HclYaml.schemaDiagsChecked = false →
      ¬ C16_locals_blocks_all_count_statement Pandora.Bridge.HclYaml.schemaDiagsChecked) := by
  constructor
  · intro h; rw [h]; exact C16_locals_blocks_all_count
  · intro h; rw [h]; exact C16_locals_blocks_all_count_counterexample

/-- the current source returns the diagnostics of `PartialContent` (regenerated error flow), so for it an accepted file
denotes what ALL its `locals` blocks and its body say, and a file with a labelled block is refused -/
theorem C16_locals_blocks_all_count_current :
    Pandora.Bridge.HclYaml.schemaDiagsChecked = true ∧
    C16_locals_blocks_all_count_statement Pandora.Bridge.HclYaml.schemaDiagsChecked :=
  ⟨Pandora.Bridge.HclYaml.schema_diags_checked,
   C16_locals_blocks_current.1 Pandora.Bridge.HclYaml.schema_diags_checked⟩

/-! ### no state between files; the providers see the file only through `AmmoConfig` (regenerated) -/

theorem C16_front_ends_stateless :
    (Gen.HclYaml.pkgStateUses.all fun u => u.2.2 == "read") = true := Pandora.Bridge.HclYaml.stateless

theorem C16_provider_flow :
    Pandora.Bridge.HclYaml.sameSet (Pandora.Bridge.HclYaml.flowOf "http") Pandora.Bridge.HclYaml.flowExpected = true ∧
    Pandora.Bridge.HclYaml.sameSet (Pandora.Bridge.HclYaml.flowOf "grpc") Pandora.Bridge.HclYaml.flowExpected = true :=
  Pandora.Bridge.HclYaml.provider_flow

/-! ### waiting times and sleeps are int64 nanoseconds -/

/-- up to 9 223 372 036 854 ms (292 years) in either direction `time.Millisecond * time.Duration(ms)` is exact: the
gun waits what the description says -/
theorem C16_durations_exact (ms : Int) (h : -9223372036854 ≤ ms ∧ ms ≤ 9223372036854) :
    msToNs ms = ms * 1000000 ∧ nsToMs (msToNs ms) = ms := by
  have h1 : msToNs ms = ms * 1000000 := by
    unfold msToNs wrap64
    omega
  refine ⟨h1, ?_⟩
  rw [h1]
  unfold nsToMs
  exact Int.mul_tdiv_cancel ms (by decide)

/-- whatever the number: the stored duration is a signed 64-bit value congruent to `ms · 10^6` modulo 2^64 -/
theorem C16_durations_wrap (ms : Int) :
    -9223372036854775808 ≤ msToNs ms ∧ msToNs ms < 9223372036854775808 ∧
    (msToNs ms - ms * 1000000) % 18446744073709551616 = 0 := by
  unfold msToNs wrap64
  omega

/-! ### round 4: a file that could not be read completely is refused by either front-end -/

/-- does the front-end test the error of `io.ReadAll` and return it? (regenerated error flow) -/
def readChecked (fn : String) : Bool := Gen.HclYaml.errFlow.contains (fn, "io.ReadAll", "returned")

/-- ANY fault while the file is opened, stat-ed, read (at any offset, also after the last byte) or closed — alone or
coinciding with others — makes `ReadAmmoConfig` refuse the file, whatever the front-end (`parse`) would make of the
bytes that did arrive, PROVIDED the front-end tests the error of `io.ReadAll`. -/
theorem C16_io_fault_refuses {α : Type} (parse : List Char → Option α) (text : List Char) (p : IOPlan)
    (h : p.clean = false) : readAmmoConfig true parse text p = none := by
  obtain ⟨o, st, rd, cl⟩ := p
  cases o <;> cases st <;> cases cl <;> cases rd <;> simp_all [readAmmoConfig, readAll, IOPlan.clean]

/-- … and without a fault `ReadAmmoConfig` is the front-end on the text of the file, tested error or not -/
theorem C16_io_clean_transparent {α : Type} (c : Bool) (parse : List Char → Option α) (text : List Char) (p : IOPlan)
    (h : p.clean = true) : readAmmoConfig c parse text p = parse text := by
  obtain ⟨o, st, rd, cl⟩ := p
  cases o <;> cases st <;> cases cl <;> cases rd <;> simp_all [readAmmoConfig, readAll, IOPlan.clean]

/-- the two renderings of one description under faults of their own (any two plans that are not clean, any two
texts): both refused — no fault makes one front-end accept what the other refuses -/
theorem C16_io_fault_twins {α : Type} (ph py : List Char → Option α) (th ty : List Char) (p q : IOPlan)
    (hp : p.clean = false) (hq : q.clean = false) :
    readAmmoConfig true ph th p = readAmmoConfig true py ty q := by
  rw [C16_io_fault_refuses ph th p hp, C16_io_fault_refuses py ty q hq]

/-- the full statement for a front-end with a given `checked` flag -/
def C16_io_fault_statement (checked : Bool) : Prop :=
  ∀ (parse : List Char → Option Nat) (text : List Char) (p : IOPlan), p.clean = false →
    readAmmoConfig checked parse text p = none

theorem C16_io_fault_checked : C16_io_fault_statement true := fun parse text p h => C16_io_fault_refuses parse text p h

/-- a front-end that does not test the error of `io.ReadAll` accepts the prefix that arrived: the statement fails -/
theorem C16_io_fault_counterexample : ¬ C16_io_fault_statement false := by
  intro h
  have := h (fun t => some t.length) "ab".toList { readAt := some 1 } (by decide)
  simp [readAmmoConfig, readAll] at this

/-- the current source: both front-ends test that error (regenerated), so the statement holds for both -/
theorem C16_io_fault_current :
    C16_io_fault_statement (readChecked "ParseHCLFile") ∧ C16_io_fault_statement (readChecked "ParseAmmoConfig") := by
  have h1 : readChecked "ParseHCLFile" = true := by decide
  have h2 : readChecked "ParseAmmoConfig" = true := by decide
  rw [h1, h2]
  exact ⟨C16_io_fault_checked, C16_io_fault_checked⟩

/-- end to end with the I/O in front: `lexH` / `lexY` are what hcl / yaml.v2 make of the TEXT of a file (trusted
libraries: any functions).  Whenever the text of the HCL file is read as the syntax `f`, `f` denotes `d` (no `<<` key)
and the text of the YAML file is read as `d`, `ReadAmmoConfig` returns the same for both files under ANY two fault
plans of the same kind (both clean, or both with some fault — of whatever sort, wherever) -/
theorem C16_files_agree_under_io (lexH : List Char → Option HclFile) (lexY : List Char → Option V)
    (th ty : List Char) (f : HclFile) (d : V) (hl : lexH th = some f) (hy : lexY ty = some d)
    (hd : hclDescription current fns f = some d) (hm : hasMergeKey d = false)
    (p q : IOPlan) (hpq : p.clean = q.clean) :
    readAmmoConfig true (fun t => (lexH t).map (hclFilePath current fns)) th p =
      readAmmoConfig true (fun t => (lexY t).map (yamlPath current)) ty q := by
  cases hp : p.clean with
  | true =>
    rw [C16_io_clean_transparent _ _ _ p hp, C16_io_clean_transparent _ _ _ q (hpq ▸ hp)]
    simp [hl, hy, C16_hcl_file_agrees f d hd hm]
  | false => exact C16_io_fault_twins _ _ _ _ p q hp (hpq ▸ hp)

/-- non-vacuity: a read fault after 3 bytes coinciding with a Close fault; a fault after the LAST byte; the unchecked
front-end on a text whose prefix parses -/
example : ({ readAt := some 3, closeF := true } : IOPlan).clean = false := by decide
example : readAmmoConfig true (fun t => some t.length) "abc".toList { readAt := some 3 } = none := by decide
example : readAmmoConfig false (fun t => some t.length) "abc".toList { readAt := some 2 } = some 2 := by decide
example : readAmmoConfig true (fun t => some t.length) "abc".toList {} = some 3 := by decide

/-! ### every field survives the conversion -/

/-- Under `compatS`, for a struct `sh` feeding config struct `sc`, and any field `k = x` the user wrote:
1. a non-zero leaf value is found unchanged under the config field that the documented YAML key selects;
2. whatever yaml.v2 writes for the field reaches the config field of its key (blocks: the decoded nested record);
3. yaml.v2 leaves the field out only when it is nil or a zero value. -/
theorem C16_conversion_total (T : Tables) (u : List String) (n : Nat) (sh sc : String)
    (h : compatS T u n sh (.struct sc) = true)
    (fs : List (String × V)) (k : String) (x : V) (f : C16HField)
    (hmem : (k, x) ∈ fs) (hf : findH T sh k = some f) :
    (isLeafTy f.ty = true → zeroLeaf x = false →
      ∃ g, findC T sc f.yaml = some g ∧ fold g.key = fold (docKey f) ∧
        (g.go, x) ∈ decodeFs T sc false (renderFs polM T sh fs)) ∧
    (omitM f x = false →
      ∃ g, findC T sc f.yaml = some g ∧
        ∀ y, decodeV T g.ty (renderV polM T f.ty x) = some y →
          (g.go, y) ∈ decodeFs T sc false (renderFs polM T sh fs)) ∧
    (omitM f x = true → isNull x = true ∨ zeroTy f.ty x = true) := by
  obtain ⟨m, _, hall⟩ := compatS_struct h
  refine ⟨?_, ?_, ?_⟩
  · intro hleaf hnz
    exact leaf_survives (compatS T u m) T sh sc hall fs k x f hmem hf hleaf hnz
  · intro hskip
    obtain ⟨g, hg, _, hy⟩ := block_survives (compatS T u m) T sh sc hall fs k x f hmem hf hskip
    exact ⟨g, hg, hy⟩
  · intro hM
    have hOK := hall f (findH_mem hf)
    unfold fieldOK keyOK at hOK
    simp only [Bool.and_eq_true, bne_iff_ne, ne_eq] at hOK
    have hdash : (f.yaml == "-") = false := by simpa using hOK.1.1.1.1
    exact omitM_zero f x hdash hM

/-- the same for a plugin block (`variable_source`, `postprocessor`, `preprocessor "prepare"`): a non-zero value in a
field that the selected plugin knows is found unchanged in the plugin's config -/
theorem C16_conversion_total_plugin (T : Tables) (u : List String) (n : Nat) (sh i : String)
    (h : compatS T u n sh (.plugin i) = true) (p : C16Plugin) (hp : p ∈ pluginsOf T i)
    (fs : List (String × V)) (k : String) (x : V) (f : C16HField) (g : C16CField)
    (hmem : (k, x) ∈ fs) (hf : findH T sh k = some f) (hleaf : isLeafTy f.ty = true) (hnz : zeroLeaf x = false)
    (hnt : eqFold f.yaml T.nameKey = false) (hC : findC T p.conf f.yaml = some g) :
    (g.go, x) ∈ decodeFs T p.conf true (renderFs polM T sh fs) := by
  obtain ⟨m, _, _, hall⟩ := compatS_plugin h
  exact leaf_survives_plugin (compatS T u m) T sh p.conf (hall p hp) fs k x f g hmem hf hleaf hnz hnt hC

/-! ### non-vacuity -/

/-- a scenario file with one request (optional `tag` left out, optional `body` present and EMPTY, an empty `headers`
map, a preprocessor, two postprocessors one of which is an assertion with a `size` block) and one scenario with
`min_waiting_time` but no `weight` -/
def sample : V :=
  .map [
    ("request", .seq [
      .map [("name", .str "auth_req"), ("method", .str "POST"), ("uri", .str "/auth"), ("headers", .map []),
        ("tag", .null), ("body", .str ""),
        ("preprocessor", .map [("mapping", .map [("user_id", .str "source.users[next].user_id")])]),
        ("postprocessor", .seq [
          .map [("type", .str "var/header"), ("mapping", .map [("N", .str "007")])],
          .map [("type", .str "assert/response"), ("status_code", .int 200), ("body", .null),
            ("size", .map [("val", .int 40), ("op", .null)])]]),
        ("templater", .null)]]),
    ("scenario", .seq [
      .map [("name", .str "s"), ("weight", .null), ("min_waiting_time", .int 10),
        ("requests", .seq [.str "auth_req(2)"])]])]

/-- the frozen copy of the tables (an illustration that does not follow the source) satisfies `compat`: the hypothesis
of `C16_equiv` is met by non-trivial tables -/
example : compat Frozen.tables Frozen.unread = true := by decide

/-- what yaml.v2 writes for it (frozen tables): `tag`, `templater`, `weight`, the empty `headers` are left out
(`omitempty`), the empty `body` is written (non-nil pointer), `size.op` is written as null (no `omitempty`) -/
example : marshal Frozen.tables sample =
    .map [
      ("requests", .seq [
        .map [("name", .str "auth_req"), ("method", .str "POST"), ("uri", .str "/auth"), ("body", .str ""),
          ("preprocessor", .map [("mapping", .map [("user_id", .str "source.users[next].user_id")])]),
          ("postprocessors", .seq [
            .map [("type", .str "var/header"), ("mapping", .map [("N", .str "007")])],
            .map [("type", .str "assert/response"), ("status_code", .int 200),
              ("size", .map [("val", .int 40), ("op", .null)])]])]]),
      ("scenarios", .seq [
        .map [("name", .str "s"), ("min_waiting_time", .int 10), ("requests", .seq [.str "auth_req(2)"])]])] := rfl

/-- what the user writes in YAML: the empty `headers` map is written, `size.op` is not -/
example : yamlDoc Frozen.tables sample =
    .map [
      ("requests", .seq [
        .map [("name", .str "auth_req"), ("method", .str "POST"), ("uri", .str "/auth"), ("headers", .map []),
          ("body", .str ""),
          ("preprocessor", .map [("mapping", .map [("user_id", .str "source.users[next].user_id")])]),
          ("postprocessors", .seq [
            .map [("type", .str "var/header"), ("mapping", .map [("N", .str "007")])],
            .map [("type", .str "assert/response"), ("status_code", .int 200),
              ("size", .map [("val", .int 40)])]])]]),
      ("scenarios", .seq [
        .map [("name", .str "s"), ("min_waiting_time", .int 10), ("requests", .seq [.str "auth_req(2)"])]])] := rfl

/-- the two documents differ, and both decode to the same record — on the tables of the CURRENT source —: `Body`
present and empty, `MinWaitingTime` kept -/
example : decode current (marshal current sample) =
    some (.map [
      ("Requests", .seq [
        .map [("Name", .str "auth_req"), ("Method", .str "POST"), ("URI", .str "/auth"), ("Body", .str ""),
          ("Preprocessor", .map [("Mapping", .map [("user_id", .str "source.users[next].user_id")])]),
          ("Postprocessors", .seq [
            .map [("type", .str "var/header"), ("Mapping", .map [("N", .str "007")])],
            .map [("type", .str "assert/response"), ("StatusCode", .int 200),
              ("Size", .map [("Val", .int 40)])]])]]),
      ("Scenarios", .seq [
        .map [("Name", .str "s"), ("MinWaitingTime", .int 10), ("Requests", .seq [.str "auth_req(2)"])]])]) := rfl

/-- gohcl's struct for a description that mentions only what the user wrote: the other fields are nil, and yaml.v2
writes the nil pointers that have no `omitempty` (`size { val = 40 }` → `op: null`) -/
example : marshal Frozen.tables (complete Frozen.tables
      (.map [("request", .seq [.map [("name", .str "r"), ("method", .str "GET"), ("uri", .str "/"), ("headers", .map []),
        ("postprocessor", .seq [.map [("type", .str "assert/response"), ("size", .map [("val", .int 40)])]])]])])) =
    .map [("requests", .seq [.map [("name", .str "r"), ("method", .str "GET"), ("uri", .str "/"),
        ("postprocessors", .seq [.map [("type", .str "assert/response"),
          ("size", .map [("val", .int 40), ("op", .null)])]])]]),
      ("variable_sources", .null), ("calls", .null), ("scenarios", .null)] := rfl

/-- the hypothesis of `C16_conversion_total` is met by the current tables at every level that has fields -/
example : compatS current unread 7 "RequestHCL" (.struct "RequestConfig") = true := by decide
example : compatS current unread 6 "RequestPostprocessorHCL" (.plugin "components/guns/http_scenario.Postprocessor") = true := by
  decide
example : compatS current unread 6 "SourceHCL" (.plugin "components/providers/scenario/vs.VariableSource") = true := by
  decide

/-! ### locals, functions and ammo: concrete instances -/

/-- the idiom of docs/eng/scenario/locals.md: two `locals` blocks (the second one uses `merge` over a local of the
first and defines `next` again), a request whose headers merge a local with a literal object, interpolation -/
def docFile : HclFile :=
  { locals := [
      [("common_headers", .map [("Content-Type", .str "application/json"), ("Useragent", .str "Yandex")]),
       ("next", .str "first"), ("api", .str "/v1")],
      [("auth_headers", .call "merge" [.loc "common_headers", .map [("Authorization", .str "Bearer t")]]),
       ("next", .str "second"), ("seen", .loc "next")],
      [("api", .str "/v2")]],
    body := .map [
      ("request", .seq [.map [("name", .str "list_req"), ("method", .str "GET"),
        ("headers", .call "merge" [.loc "auth_headers", .map [("Useragent", .str "Pandora")]]),
        ("tag", .loc "seen"), ("uri", .tmpl [.loc "api", .str "/list/", .loc "next"])]]),
      ("scenario", .seq [.map [("name", .str "s"), ("weight", .call "element" [.seq [.int 7, .int 2], .int 3]),
        ("requests", .call "concat" [.seq [.str "list_req(2, 10)"], .call "split" [.str ",", .str "sleep(5),list_req"]])]])] }

/-- it evaluates: `next` and `api` take their LAST definitions, `seen` the value `next` had when its block was decoded,
`merge` lets later arguments win, `element` wraps around -/
example : evalFile fns docFile = some (.map [
      ("request", .seq [.map [("name", .str "list_req"), ("method", .str "GET"),
        ("headers", .map [("Content-Type", .str "application/json"), ("Useragent", .str "Pandora"),
          ("Authorization", .str "Bearer t")]),
        ("tag", .str "first"), ("uri", .str "/v2/list/second")]]),
      ("scenario", .seq [.map [("name", .str "s"), ("weight", .int 2),
        ("requests", .seq [.str "list_req(2, 10)", .str "sleep(5)", .str "list_req"])]])]) := by
  rfl

/-- the hypothesis of `C16_locals_later_wins` is met by the second block, and the name it defines again changes -/
example : evalM fns [("next", .str "first")] [("next", .str "second"), ("seen", .loc "next")] =
    some [("next", .str "second"), ("seen", .str "first")] := by rfl

/-- a local that is not defined, a function that is not registered: the file is refused -/
example : evalFile fns ⟨[], .map [("request", .seq [.map [("uri", .loc "nope")]])]⟩ = none := by rfl
example : evalFile fns ⟨[], .map [("request", .seq [.map [("uri", .call "upper" [.str "x"])]])]⟩ = none := by rfl

/-- a block does not see its own attributes -/
example : evalFile fns ⟨[[("a", .str "1"), ("b", .loc "a")]], .map []⟩ = none := by rfl

/-- gohcl converts to the field's type: `port = 8090` and `b = true` in a `variables` map denote the strings "8090" and
"true"; `local.o.port` / `local.t[1]` pick a member of a local -/
example : hclDescription current fns
    ⟨[[("o", .map [("port", .int 8090)]), ("t", .seq [.str "x", .str "localhost"])]],
     .map [("variable_source", .seq [.map [("name", .str "v"), ("type", .str "variables"),
       ("variables", .map [("port", .idx (.loc "o") (.str "port")), ("host", .idx (.loc "t") (.int 1)), ("b", .bool true)])]])]⟩ =
    some (.map [("variable_source", .seq [.map [("name", .str "v"), ("type", .str "variables"),
       ("variables", .map [("port", .str "8090"), ("host", .str "localhost"), ("b", .str "true")])]])]) := by rfl

/-- the hypothesis of `C16_literal_file_denotes` is met by `sample`-like descriptions: the documentation's request -/
example : coerceV current (.struct current.hclRoot)
    (.map [("request", .seq [.map [("name", .str "r"), ("method", .str "GET"), ("uri", .str "/"),
      ("headers", .map [("Useragent", .str "Yandex")]), ("body", .str "")]]),
      ("scenario", .seq [.map [("name", .str "s"), ("weight", .int 2), ("requests", .seq [.str "r(2)"])]])]) =
    some (.map [("request", .seq [.map [("name", .str "r"), ("method", .str "GET"), ("uri", .str "/"),
      ("headers", .map [("Useragent", .str "Yandex")]), ("body", .str "")]]),
      ("scenario", .seq [.map [("name", .str "s"), ("weight", .int 2), ("requests", .seq [.str "r(2)"])]])]) := by rfl

/-- a required argument left out (`request "r" {}` without `method`), an argument the struct does not have, a list
where a string is expected: refused -/
example : hclDescription current fns ⟨[], .map [("request", .seq [.map [("name", .str "r")]])]⟩ = none := by rfl
example : hclDescription current fns ⟨[], .map [("scenario", .seq [.map [("name", .str "s"), ("requests", .seq []),
    ("colour", .str "red")]])]⟩ = none := by rfl
example : hclDescription current fns ⟨[], .map [("scenario", .seq [.map [("name", .str "s"),
    ("requests", .str "r")]])]⟩ = none := by rfl

/-- the hypotheses of `C16_unevaluated_local_refuses` are met: the first block evaluates, the second (which the body
never uses) does not — `element` of an empty list, a missing member, a local of a LATER block -/
example : evalLocals fns [] [[("ok", .str "1")]] = some [("ok", .str "1")] ∧
    evalM fns [("ok", .str "1")] [("bad", .call "element" [.seq [], .int 0])] = none ∧
    evalM fns [("ok", .str "1")] [("bad", .idx (.map [("k", .str "v")]) (.str "nokey"))] = none ∧
    evalM fns [("ok", .str "1")] [("bad", .loc "later")] = none := ⟨rfl, rfl, rfl, rfl⟩

/-- `coalescelist` skips EMPTY lists where `coalesce` only skips null; `element` wraps around where `index` fails -/
example : applyFn "CoalesceListFunc" [.seq [], .seq [.str "a"]] = some (.seq [.str "a"]) ∧
    applyFn "CoalesceFunc" [.seq [], .seq [.str "a"]] = some (.seq []) ∧
    applyFn "ElementFunc" [.seq [.str "a", .str "b", .str "c"], .int 4] = some (.str "b") ∧
    applyFn "IndexFunc" [.seq [.str "a", .str "b", .str "c"], .int 4] = none := ⟨rfl, rfl, rfl, rfl⟩

/-- the ammo of the documentation-style file: one scenario, the step twice with 10 ms sleep, 5 ms more on the second
copy, then once more (durations shown in ms) -/
example : (evalFile fns docFile).map (fun d => (ammoOf (decode current (marshal current (complete current d)))).map
      (·.map fun a => (a.name, nsToMs a.minWait, a.steps.map fun p => (p.1, nsToMs p.2)))) =
    (some (some [("s", 0, [("list_req", 10), ("list_req", 15), ("list_req", 0)])]) :
      Option (Option (List (String × Int × List (String × Int))))) := by rfl

/-- weights 2, 4, 6 → 1 + 2 + 3 ammo; a step reference that names no step, a `sleep` with nothing before it and a
negative weight refuse the file -/
example : (decodeAmmo ["r"] [⟨"a", 2, 0, ["r"]⟩, ⟨"b", 4, 0, ["r"]⟩, ⟨"c", 6, 0, ["r"]⟩]).map (·.map (·.name)) =
    some ["a", "b", "b", "c", "c", "c"] := by decide
example : decodeAmmo ["r"] [⟨"a", 1, 0, ["q"]⟩] = none := by decide
example : decodeAmmo ["r"] [⟨"a", 1, 0, ["sleep(3)", "r"]⟩] = none := by decide
example : decodeAmmo ["r"] [⟨"a", -1, 0, ["r"]⟩] = none := by decide

/-! ### round 3: file names, labelled `locals` blocks, durations -/

-- names in every style reach their front-end under the regenerated switch (lower-casing as the source does it)
example : frontEnd asciiLower Gen.HclYaml.extCases "AMMO.HCL".toList = .hcl ∧
    frontEnd asciiLower Gen.HclYaml.extCases "a.yaml.hcl".toList = .hcl ∧
    frontEnd asciiLower Gen.HclYaml.extCases "a.hcl.Yaml".toList = .yaml ∧
    frontEnd asciiLower Gen.HclYaml.extCases ".hcl".toList = .hcl ∧
    frontEnd asciiLower Gen.HclYaml.extCases "ammo.json".toList = .refuse := by decide
-- the hypotheses of `C16_format_twins` are met by mixed-case extensions
example : "..HcL".toList.map asciiLower = "..hcl".toList ∧ ".YAML".toList.map asciiLower = ".yaml".toList := by decide
-- `extSelects` is not vacuous: a switch that tests `.yaml` by a shorter, comparable literal first, or has a prefix
-- test in front, does not have it — and a name exists that such a switch sends the wrong way
example : extSelects [("HasSuffix", "l", "ParseAmmoConfig"), ("HasSuffix", ".hcl", "ParseHCLFile+ConvertHCLToAmmo")]
      ".hcl" "ParseHCLFile+ConvertHCLToAmmo" = false ∧
    frontEndOf [("HasSuffix", "l", "ParseAmmoConfig"), ("HasSuffix", ".hcl", "ParseHCLFile+ConvertHCLToAmmo")]
      "a.hcl".toList = .yaml := by decide
example : extSelects [("HasPrefix", ".yml", "ParseAmmoConfig"), ("HasSuffix", ".hcl", "ParseHCLFile+ConvertHCLToAmmo")]
      ".hcl" "ParseHCLFile+ConvertHCLToAmmo" = false ∧
    frontEndOf [("HasPrefix", ".yml", "ParseAmmoConfig"), ("HasSuffix", ".hcl", "ParseHCLFile+ConvertHCLToAmmo")]
      ".yml.hcl".toList = .yaml := by decide

-- the labelled block of `droppedSrc`: refused under the strict reading, silently dropped otherwise
example : srcDescription Frozen.tables true docFunctions droppedSrc = none := by rfl
example : (splitLocals false droppedSrc).map (·.locals.length) = some 1 ∧ droppedSrc.allLocals.locals.length = 2 := by
  decide
-- a well-formed file: hypothesis of `C16_plain_locals_unaffected`
example : (⟨[⟨[], [("a", .str "r")]⟩], .map []⟩ : HclSrc).blocks.all LBlock.plain = true := by rfl

-- durations: exact inside the range, wrapping outside (Go: `time.Millisecond * time.Duration(9223372036855)` < 0)
example : msToNs 250 = 250000000 ∧ nsToMs (msToNs 250) = 250 ∧ msToNs 9223372036855 = -9223372036854551616 ∧
    nsToMs (msToNs 9223372036855) = -9223372036854 ∧ nsToMs (msToNs (-1)) = -1 := by decide
-- a step with a sleep and two `sleep(…)` entries after it: the sleeps add up on the last copy
example : (decodeAmmo ["r"] [⟨"a", 1, 7, ["r(2, 5)", "sleep(3)", "sleep(4)"]⟩]).map
      (·.map fun a => (nsToMs a.minWait, a.steps.map fun p => nsToMs p.2)) = some [(7, [5, 12])] := by decide

/-! ### `compat` is not vacuous: tables that break it do break the equivalence -/

/-- the current tables with the yaml tag of `ScenarioHCL.MinWaitingTime` removed (yaml.v2 then uses the lower-cased
field name `minwaitingtime`) -/
def broken : Tables :=
  { current with hcl := current.hcl.map fun p =>
      (p.1, p.2.map fun f => if p.1 == "ScenarioHCL" && f.go == "MinWaitingTime" then { f with yaml := "minwaitingtime" } else f) }

example : compat broken unread = false := by decide

/-- with the broken tables the HCL path hands the decoder a key it does not know (an `ErrorUnused` failure of the real
decoder), the YAML path decodes the field -/
example :
    decode broken (marshal broken (.map [("scenario", .seq [.map [("name", .str "s"), ("min_waiting_time", .int 10)]])])) =
      some (.map [("Scenarios", .seq [.map [("Name", .str "s"), ("!unused", .null)]])]) ∧
    decode broken (yamlDoc broken (.map [("scenario", .seq [.map [("name", .str "s"), ("min_waiting_time", .int 10)]])])) =
      some (.map [("Scenarios", .seq [.map [("Name", .str "s"), ("MinWaitingTime", .int 10)]])]) := ⟨rfl, rfl⟩

/-- a pointer field of the config (`RequestConfig.Body *string`) fed from a non-pointer `omitempty` field: an empty
body written by the user is dropped by yaml.v2 -/
def brokenBody : Tables :=
  { current with hcl := current.hcl.map fun p =>
      (p.1, p.2.map fun f => if p.1 == "RequestHCL" && f.go == "Body" then { f with ptr := false } else f) }

example : compat brokenBody unread = false := by decide

example :
    decode brokenBody (marshal brokenBody (.map [("request", .seq [.map [("name", .str "r"), ("body", .str "")]])])) =
      some (.map [("Requests", .seq [.map [("Name", .str "r")]])]) ∧
    decode brokenBody (yamlDoc brokenBody (.map [("request", .seq [.map [("name", .str "r"), ("body", .str "")]])])) =
      some (.map [("Requests", .seq [.map [("Name", .str "r"), ("Body", .str "")]])]) := ⟨rfl, rfl⟩

/-! ### round 6: how a file is SAVED — line terminators are not part of the description -/

/-- regenerated: both front-ends read the WHOLE file (`io.ReadAll` of their own parameter: no `io.LimitReader`, no
wrapper); between `io.ReadAll` and `ParseHCL` the HCL front-end replaces CR LF by LF and does nothing else to the
text; the YAML front-end hands the text to `DecodeMap` as it was read (yaml.v2 — trusted — reads every line break of a
block scalar as LF) -/
theorem C16_text_steps :
    Pandora.Bridge.HclYaml.hclSteps = some [.replaceAll "\r\n" "\n"] ∧ Pandora.Bridge.HclYaml.yamlSteps = some [] :=
  Pandora.Bridge.HclYaml.text_steps

/-- that step is `crlfToLf` (the generic model of `strings.ReplaceAll`, leftmost and non-overlapping, in closed form) -/
theorem C16_hcl_text_normalised (t : List Char) : applySteps [.replaceAll "\r\n" "\n"] t = crlfToLf t := by
  simp only [applySteps, applyStep]
  exact replaceAll_crlf t

/-- a front-end whose text steps are `steps` reads a description saved with ANY subset of its line terminators as CR LF
like the description saved with LF -/
def C16_line_endings_statement (steps : List TextStep) : Prop :=
  ∀ (lex : List Char → Option (List Char)) (t : List Char) (fl : List Bool), '\r' ∉ t →
    frontOnText steps lex (saveMixed fl t) = frontOnText steps lex t

/-- true of the steps of the current `ParseHCLFile` -/
theorem C16_line_endings : C16_line_endings_statement [.replaceAll "\r\n" "\n"] := by
  intro lex t fl h
  unfold frontOnText
  rw [C16_hcl_text_normalised, C16_hcl_text_normalised, crlfToLf_saveMixed fl t h, crlfToLf_id t h]

/-- FALSE of a front-end that hands the text to hcl as it was read (the tree before `fix: scenario HCL front-end reads a
file saved with CRLF line endings …`): hcl keeps the CR inside a heredoc -/
theorem C16_line_endings_counterexample : ¬ C16_line_endings_statement [] := by
  intro h
  have := h some "a\n".toList [true] (by decide)
  simp [frontOnText, applySteps, saveMixed] at this

/-- for the regenerated steps of the current source -/
theorem C16_line_endings_current (steps : List TextStep) (h : Pandora.Bridge.HclYaml.hclSteps = some steps) :
    C16_line_endings_statement steps := by
  rw [C16_text_steps.1] at h
  cases h
  exact C16_line_endings

/-- a file saved with CR LF THROUGHOUT is read back as the text, whatever the text contains (also carriage returns and
CR LF pairs of its own) -/
theorem C16_crlf_file (t : List Char) : applySteps [.replaceAll "\r\n" "\n"] (toCrlf t) = t := by
  rw [C16_hcl_text_normalised, crlfToLf_toCrlf]

/-- with the I/O in front: `ReadAmmoConfig` answers the same for the HCL file saved with LF and saved with any subset
of its line terminators as CR LF, under any fault plans of the same kind (the two files differ in length, so the
offsets of a read fault differ — a fault at any offset refuses either) -/
theorem C16_saved_file_same_answer {α : Type} (lex : List Char → Option α) (t : List Char) (fl : List Bool)
    (h : '\r' ∉ t) (p q : IOPlan) (hpq : p.clean = q.clean) :
    readAmmoConfig true (frontOnText [.replaceAll "\r\n" "\n"] lex) (saveMixed fl t) p =
      readAmmoConfig true (frontOnText [.replaceAll "\r\n" "\n"] lex) t q := by
  cases hp : p.clean with
  | true =>
    rw [C16_io_clean_transparent _ _ _ p hp, C16_io_clean_transparent _ _ _ q (hpq ▸ hp)]
    unfold frontOnText
    rw [C16_hcl_text_normalised, C16_hcl_text_normalised, crlfToLf_saveMixed fl t h, crlfToLf_id t h]
  | false => exact C16_io_fault_twins _ _ _ _ p q hp (hpq ▸ hp)

/-- end to end: the HCL rendering saved with CR LF line terminators (any subset) and the YAML rendering of the
description it denotes get the same answer from `ReadAmmoConfig` (`lexH` / `lexY`: what hcl / yaml.v2 make of the text
they are handed — trusted libraries: any functions) -/
theorem C16_files_agree_saved (lexH : List Char → Option HclFile) (lexY : List Char → Option V)
    (th ty : List Char) (fl : List Bool) (hcr : '\r' ∉ th) (f : HclFile) (d : V)
    (hl : lexH th = some f) (hy : lexY ty = some d)
    (hd : hclDescription current fns f = some d) (hm : hasMergeKey d = false)
    (p q : IOPlan) (hpq : p.clean = q.clean) :
    readAmmoConfig true (frontOnText [.replaceAll "\r\n" "\n"] fun t => (lexH t).map (hclFilePath current fns))
        (saveMixed fl th) p =
      readAmmoConfig true (fun t => (lexY t).map (yamlPath current)) ty q := by
  rw [C16_saved_file_same_answer _ th fl hcr p p rfl]
  have h0 : ∀ x, frontOnText [.replaceAll "\r\n" "\n"] (fun t => (lexH t).map (hclFilePath current fns)) x =
      (fun t => (lexH (crlfToLf t)).map (hclFilePath current fns)) x := by
    intro x
    unfold frontOnText
    rw [C16_hcl_text_normalised]
  rw [funext h0]
  exact C16_files_agree_under_io (fun t => lexH (crlfToLf t)) lexY th ty f d (by rw [crlfToLf_id th hcr]; exact hl) hy hd hm p q hpq

/-- regenerated: `ReadAmmoConfig` treats the errors of Open / Stat / Close as the model `readAmmoConfig` does — each
refuses the file, the Close error through the named result which the deferred closure writes on every path -/
theorem C16_read_flow : Pandora.Bridge.HclYaml.readFlowStrict = true := Pandora.Bridge.HclYaml.read_flow

/-- non-vacuity: a two-line heredoc body saved with CR LF, with the second terminator only, and as it is -/
example : saveMixed [true, true] "<<EOT\nline\nEOT".toList = "<<EOT\r\nline\r\nEOT".toList ∧
    saveMixed [false, true] "a\nb\nc\n".toList = "a\nb\r\nc\n".toList ∧
    crlfToLf "a\nb\r\nc\n".toList = "a\nb\nc\n".toList ∧ '\r' ∉ "a\nb\nc\n".toList := by decide
/-- `strings.ReplaceAll` is leftmost and non-overlapping: CR CR LF loses one CR only; a lone CR stays -/
example : replaceAll "\r\n".toList "\n".toList "a\r\r\nb\rc".toList = "a\r\nb\rc".toList ∧
    replaceAll "aa".toList "b".toList "aaa".toList = "ba".toList := by decide
/-- `stepsOf` refuses what it does not know: a trim, a replacement of an empty string, a chain that does not start at
`io.ReadAll`, a read through `io.LimitReader` (only the function's own parameter — the whole file — is admitted) -/
example : stepsOf [("io.ReadAll", ["param:0"]), ("strings.TrimSpace", [])] = none ∧
    stepsOf [("io.ReadAll", ["param:0"]), ("strings.ReplaceAll", ["", "x"])] = none ∧
    stepsOf [("strings.ReplaceAll", ["\r\n", "\n"])] = none ∧
    stepsOf [("io.ReadAll", ["io.LimitReader(file,MaxHCLFileSize)"]), ("strings.ReplaceAll", ["\r\n", "\n"])] = none ∧
    stepsOf [("io.ReadAll", ["param:0"]), ("bytes.ReplaceAll", ["\r\n", "\n"])] = some [.replaceAll "\r\n" "\n"] := by decide

end Pandora.Props.C16
