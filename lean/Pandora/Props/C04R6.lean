import Pandora.Props.C04
import Pandora.Props.C01

namespace Pandora.Props.C04
open Pandora.Go.C04 Pandora.Model.C04 Pandora.Proofs.C04

/-! ### round 6: composition with the load profile (C01's regenerated schedule constructors and start protocol)

The theorems above speak about "the token's time" - whatever instant the schedule handed to the instance. The property speaks
about the request's SCHEDULED time, which the configured load profile defines. C01 proves, over `Gen.Schedule` /
`Gen.SchedConc` (regenerated from core/schedule on every check, areas `schedule` and `schedconc`, now also regenerated for
C04), what the schedules hand out; here the two are composed. -/

section profile
open Pandora Pandora.Gen.Schedule Pandora.Bridge.Schedule

/-- **profile → waiter** (any leaf that realises a profile: by `C01_const` / `C01_line` every accepted const and line
configuration, fractional-second durations included): the started schedule answers call `j < n` with `t0 + at_ j`, where
`at_ j` is the ns-truncation of the EARLIEST instant `x` at which the integral `c` of the configured rate reaches `j`; and
whatever the state of the Waiter and whichever variant, a `Wait` that was handed that answer returns true not before
`t0 + ⌊x·10⁹⌋`: no request is fired before the instant the PROFILE schedules it. -/
theorem C04_profile_no_early (s : Sched) (c : ℝ → ℝ) (D : ℤ) (hs : C01.Realises s c D) :
    ∃ (n : ℤ) (at_ : ℤ → ℤ), s = Sched.doAt D n at_ ∧ n = ⌊c (secs D)⌋ ∧
      ∀ (t0 : ℤ) (nows : List ℤ) (j : ℕ), j < nows.length → (j : ℤ) < n →
        ∃ rs, C01.startAndDrain D n at_ t0 nows = Except.ok rs ∧ rs[j]? = some (t0 + at_ j, true) ∧
          ∃ x : ℝ, C01.EarliestAt c D j x ∧ at_ j = ⌊x * 1000000000⌋ ∧
            ∀ (v : Variant) (w : Waiter) (e : Env), EnvOK e → w.lastNow ≤ e.now → e.tok = some (t0 + at_ j) →
              (waitV v w e).ok = true → t0 + ⌊x * 1000000000⌋ ≤ e.ret := by
  obtain ⟨n, at_, rfl, hn, hk⟩ := hs
  refine ⟨n, at_, rfl, hn, ?_⟩
  intro t0 nows j hj hjn
  refine ⟨_, C01.C01_leaf_run D n at_ t0 nows, ?_, ?_⟩
  · have : ¬ n ≤ (j : ℤ) := by omega
    simp [hj, this]
  · obtain ⟨x, hx, hat, _, _⟩ := hk (j : ℤ) (by omega) hjn
    refine ⟨x, by simpa using hx, hat, ?_⟩
    intro v w e hok hinv htok hwait
    obtain ⟨next, h1, h2⟩ := C04_no_early_wait v w e hok hinv hwait
    rw [htok] at h1
    injection h1 with h1
    rw [← hat]; omega

/-- **line profile → waiter**: `C04_profile_no_early` for every accepted line configuration (the constructor regenerated from
core/schedule/line.go, the validity predicate from its struct tags). -/
theorem C04_line_no_early (f t : ℝ) (D : ℤ) (h : LineConfig_valid f t D) :
    ∃ (n : ℤ) (at_ : ℤ → ℤ), NewLineConf f t D = Sched.doAt D n at_ ∧ n = ⌊(f + t) / 2 * secs D⌋ ∧
      ∀ (t0 : ℤ) (nows : List ℤ) (j : ℕ), j < nows.length → (j : ℤ) < n →
        ∃ rs, C01.startAndDrain D n at_ t0 nows = Except.ok rs ∧ rs[j]? = some (t0 + at_ j, true) ∧
          ∃ x : ℝ, C01.EarliestAt (C01.lineCum f t D) D j x ∧ at_ j = ⌊x * 1000000000⌋ ∧
            ∀ (v : Variant) (w : Waiter) (e : Env), EnvOK e → w.lastNow ≤ e.now → e.tok = some (t0 + at_ j) →
              (waitV v w e).ok = true → t0 + ⌊x * 1000000000⌋ ≤ e.ret := by
  obtain ⟨hr, htot⟩ := C01.C01_line f t D h
  obtain ⟨n, at_, h1, h2, h3⟩ := C04_profile_no_early _ _ D hr
  exact ⟨n, at_, h1, by rw [h2, htot], h3⟩

/-- **const profile → waiter** -/
theorem C04_const_no_early (ops : ℝ) (D : ℤ) (h : ConstConfig_valid ops D) :
    ∃ (n : ℤ) (at_ : ℤ → ℤ), NewConstConf ops D = Sched.doAt D n at_ ∧ n = ⌊ops * secs D⌋ ∧
      ∀ (t0 : ℤ) (nows : List ℤ) (j : ℕ), j < nows.length → (j : ℤ) < n →
        ∃ rs, C01.startAndDrain D n at_ t0 nows = Except.ok rs ∧ rs[j]? = some (t0 + at_ j, true) ∧
          ∃ x : ℝ, C01.EarliestAt (C01.constCum ops) D j x ∧ at_ j = ⌊x * 1000000000⌋ ∧
            ∀ (v : Variant) (w : Waiter) (e : Env), EnvOK e → w.lastNow ≤ e.now → e.tok = some (t0 + at_ j) →
              (waitV v w e).ok = true → t0 + ⌊x * 1000000000⌋ ≤ e.ret := by
  obtain ⟨n, at_, h1, h2, h3⟩ := C04_profile_no_early _ _ D (C01.C01_const ops D h)
  exact ⟨n, at_, h1, by rw [h2]; rfl, h3⟩

/-- **lazy start of a shared profile → the waiters of a pool**: a leaf `doAt D n f` that is never `Start()`ed (what
`NewRPSSchedule` gives to a pool) and is asked by any number of instances at the same time, in ANY interleaving of their accesses
to its shared state (`sched` = who moves next and what the clock shows then; the program of `Next` is the REGENERATED
`Gen.SchedConc.nextProg`): there is ONE instant `v`, a clock reading taken during the run, such that every finished call with
an index `idx < n` answered `v + f idx` (no answer is based on an unset start), and every `Wait` - any Waiter state, either
variant - that was handed such an answer returns true not before `v + f idx`. -/
theorem C04_pool_lazy_start_no_early (D n : ℤ) (f : ℤ → ℤ) (sched : List (ℕ × ℤ)) :
    ∃ v, ((Model.C01Conc.run 0 (Model.C01Conc.initLazy Gen.SchedConc.nextProg) sched).log = [] ∨
            v ∈ sched.map Prod.snd) ∧
      ∀ a ∈ (Model.C01Conc.run 0 (Model.C01Conc.initLazy Gen.SchedConc.nextProg) sched).log, a.idx < n →
        Model.C01Conc.ansOf D n f a = some (v + f a.idx, true) ∧
        ∀ (vr : Variant) (w : Waiter) (e : Env), EnvOK e → w.lastNow ≤ e.now → e.tok = some (v + f a.idx) →
          (waitV vr w e).ok = true → v + f a.idx ≤ e.ret := by
  obtain ⟨v, hv, _, _, hlog⟩ := C01.C01_lazy_start_concurrent D n f sched
  refine ⟨v, hv, ?_⟩
  intro a ha hidx
  obtain ⟨_, _, _, hans⟩ := hlog a ha
  obtain ⟨r, s', _, h2, h3⟩ := hans 0
  have hn : ¬ n ≤ a.idx := by omega
  refine ⟨by rw [h2, h3]; simp [hn], ?_⟩
  intro vr w e hok hinv htok hwait
  obtain ⟨next, h1, h2'⟩ := C04_no_early_wait vr w e hok hinv hwait
  rw [htok] at h1
  injection h1 with h1
  omega

/-- **end to end** (config → constructor → lazy start under contention → waiter): for every accepted line configuration, the
instances of a pool that share its never-started schedule, any interleaving: one start instant `v` read from the clock during
the run; the call that drew index `idx` hands its instance `v + ⌊x·10⁹⌋` with `x` the earliest instant at which the configured
integral reaches `idx`, and that instance's `Wait` returns true not before it. -/
theorem C04_line_pool_no_early (f t : ℝ) (D : ℤ) (h : LineConfig_valid f t D) (sched : List (ℕ × ℤ)) :
    ∃ (n : ℤ) (at_ : ℤ → ℤ) (v : ℤ), NewLineConf f t D = Sched.doAt D n at_ ∧
      ((Model.C01Conc.run 0 (Model.C01Conc.initLazy Gen.SchedConc.nextProg) sched).log = [] ∨ v ∈ sched.map Prod.snd) ∧
      ∀ a ∈ (Model.C01Conc.run 0 (Model.C01Conc.initLazy Gen.SchedConc.nextProg) sched).log, 0 ≤ a.idx → a.idx < n →
        ∃ x : ℝ, C01.EarliestAt (C01.lineCum f t D) D a.idx x ∧
          Model.C01Conc.ansOf D n at_ a = some (v + ⌊x * 1000000000⌋, true) ∧
          ∀ (vr : Variant) (w : Waiter) (e : Env), EnvOK e → w.lastNow ≤ e.now → e.tok = some (v + ⌊x * 1000000000⌋) →
            (waitV vr w e).ok = true → v + ⌊x * 1000000000⌋ ≤ e.ret := by
  obtain ⟨⟨n, at_, hnew, _, hk⟩, _⟩ := C01.C01_line f t D h
  obtain ⟨v, hv, hlog⟩ := C04_pool_lazy_start_no_early D n at_ sched
  refine ⟨n, at_, v, hnew, hv, ?_⟩
  intro a ha h0 hidx
  obtain ⟨x, hx, hat, _, _⟩ := hk a.idx h0 hidx
  obtain ⟨hans, hw⟩ := hlog a ha hidx
  refine ⟨x, hx, by rw [hans, hat], ?_⟩
  intro vr w e hok hinv htok hwait
  rw [← hat] at htok ⊢
  exact hw vr w e hok hinv htok hwait

end profile

end Pandora.Props.C04

namespace Pandora.Props.C04
open Pandora.Go.C04 Pandora.Model.C04 Pandora.Proofs.C04
open Pandora Pandora.Gen.Schedule Pandora.Bridge.Schedule

/-! non-vacuity of the round-6 compositions -/

-- line 0 → 40 ops/s over 1.5 s (a duration with a fraction of a second): 30 operations; operation 19 of a schedule started at 0
-- is handed to a fresh Waiter at the very instant it is due: all hypotheses of `C04_line_no_early` hold together
example : ∃ (n : ℤ) (at_ : ℤ → ℤ), NewLineConf 0 40 1500000000 = Sched.doAt 1500000000 n at_ ∧ n = 30 ∧ (19 : ℤ) < n ∧
    ∃ e : Env, EnvOK e ∧ Waiter.init.lastNow ≤ e.now ∧ e.tok = some (0 + at_ 19) ∧ (waitV .fresh Waiter.init e).ok = true := by
  obtain ⟨n, at_, h1, h2, h3⟩ := C04_line_no_early 0 40 1500000000
    ((Bridge.C01.LineConfig_valid_iff 0 40 1500000000).mpr ⟨by norm_num, by norm_num, by norm_num⟩)
  have hn : n = 30 := by
    rw [h2]; unfold secs
    have : ((0 : ℝ) + 40) / 2 * (((1500000000 : ℤ) : ℝ) / 1000000000) = ((30 : ℤ) : ℝ) := by norm_num
    rw [this, Int.floor_intCast]
  obtain ⟨rs, _, _, x, hx, hat, _⟩ := h3 0 (List.replicate 20 0) 19 (by simp) (by omega)
  have h0 : 0 ≤ at_ 19 := by
    have : at_ ((19 : ℕ) : ℤ) = ⌊x * 1000000000⌋ := hat
    simp only [Nat.cast_ofNat] at this
    rw [this]; exact Int.floor_nonneg.mpr (mul_nonneg hx.1 (by norm_num))
  refine ⟨n, at_, h1, hn, by omega, ⟨{ tok := some (0 + at_ 19), now := at_ 19, arm := at_ 19, ret := at_ 19 }, ?_, ?_, rfl, ?_⟩⟩
  · refine ⟨le_refl _, le_refl _, ?_⟩
    intro next hmem _ hlt
    simp at hmem hlt
    omega
  · show zeroTime ≤ at_ 19
    unfold zeroTime; omega
  · have hz : ¬ (0 + at_ 19 - (-62135596800000000000) ≤ 0) := by omega
    simp [waitV, timeSub, Waiter.init, zeroTime]
    split <;> rfl

-- two instances take their first token from a never-started leaf at the same time: instance 0 wins the Once and reads the clock
-- (10), instance 1 waits for it; both calls finish, with indices 0 and 1, both below n = 5
example : (Model.C01Conc.run 0 (Model.C01Conc.initLazy Gen.SchedConc.nextProg)
      [(0, 10), (1, 11), (0, 10), (0, 10), (0, 10), (0, 10), (0, 10), (1, 11), (1, 11), (1, 11), (1, 11), (1, 11)]).log.map (·.idx) = [1, 0] ∨
    (Model.C01Conc.run 0 (Model.C01Conc.initLazy Gen.SchedConc.nextProg)
      [(0, 10), (1, 11), (0, 10), (0, 10), (0, 10), (0, 10), (0, 10), (1, 11), (1, 11), (1, 11), (1, 11), (1, 11)]).log.map (·.idx) = [0, 1] := by
  decide

end Pandora.Props.C04
