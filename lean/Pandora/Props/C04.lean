/-
C04 — Timing: no early shots; discard_overflow bounds lateness to the 2 s window.

The theorems are about `Pandora.Model.C04` (the Waiter and the instance loop), for ALL token sequences, waiter states
and clock histories (`List Iter`: one record per loop iteration with the token, the instant it was picked up, the clock
reading, the instant `Wait` returned, the response time), under explicit clock hypotheses (`ClockOK`):
readings are non-decreasing; a reading is not later than the instant at which it is used; a timer does not fire early.
The model is tied to the current source by `Pandora.Bridge.Waiter` (regenerated `Wait`, `IsSlowDown`, constants, the
fire/discard `if`) and by the real-time correspondence run (harness/cmd/c04).

"late ⇒ discarded" is a theorem of the REPAIRED `Wait` (`Variant.fresh`) only; for the code as found
(`Variant.cached`) it is refuted by `C04_discarded_if_late_counterexample_old`.
-/
import Pandora.Proofs.C04
import Pandora.Bridge.Waiter

namespace Pandora.Props.C04
open Pandora.Go.C04 Pandora.Model.C04 Pandora.Proofs.C04

/-! ### no early shots -/

/-- One `Wait` call, either variant, from any waiter state whose cached reading is not ahead of the clock:
if it returns true at instant `e.ret` then a token was drawn and `e.ret ≥` the token's time. -/
theorem C04_no_early_wait (v : Variant) (w : Waiter) (e : Env) (hok : EnvOK e) (hinv : w.lastNow ≤ e.now)
    (h : (waitV v w e).ok = true) : ∃ next, e.tok = some next ∧ next ≤ e.ret := by
  obtain ⟨next, h1, h2, _⟩ := waitV_ok v w e hok hinv h
  exact ⟨next, h1, h2⟩

/-- Every action of the instance loop (Shoot or Report of a discarded sample), for every history: it happens at an
instant ≥ the scheduled time of its token. -/
theorem C04_no_early (v : Variant) (d : Bool) (w : Waiter) (h : List Iter) (hc : ClockOK w h) :
    ∀ ev ∈ (runLoop v d w h).1, ∃ next, ev.iter.env.tok = some next ∧ next ≤ ev.iter.env.ret := by
  induction h generalizing w with
  | nil => simp [runLoop]
  | cons it rest ih =>
    intro ev hev
    unfold runLoop at hev
    by_cases hf : it.finished = true
    · simp [hf] at hev
    · by_cases ha : it.ammoOk = true
      · simp only [hf, ha] at hev
        by_cases hk : (waitV v w it.env).ok = true
        · simp only [hk] at hev
          simp at hev
          rcases hev with rfl | hev
          · obtain ⟨next, h1, h2, _⟩ := waitV_ok v w it.env hc.head.1 hc.head.2 hk
            refine ⟨next, ?_, ?_⟩ <;> (split <;> simpa [Ev.iter])
          · exact ih _ (hc.tail v) ev hev
        · simp [hk] at hev
          exact ih _ (hc.tail v) ev hev
      · simp [hf, ha] at hev

/-! ### the 2 s window -/

/-- A token that is reported as discarded was at least 2 s late at the instant of the report: a request less than
2 s late is never discarded (both variants: the recorded overdue never exceeds the real lateness). -/
theorem C04_not_discarded_if_fresh (v : Variant) (w : Waiter) (h : List Iter) (hc : ClockOK w h) :
    ∀ it s, Ev.discard it s ∈ (runLoop v true w h).1 →
      ∃ next, it.env.tok = some next ∧ maxOverdue ≤ it.env.ret - next := by
  induction h generalizing w with
  | nil => simp [runLoop]
  | cons it rest ih =>
    intro jt s hev
    unfold runLoop at hev
    by_cases hf : it.finished = true
    · simp [hf] at hev
    · by_cases ha : it.ammoOk = true
      · simp only [hf, ha] at hev
        by_cases hk : (waitV v w it.env).ok = true
        · simp only [hk] at hev
          simp at hev
          rcases hev with hev | hev
          · obtain ⟨next, h1, _, h3⟩ := waitV_ok v w it.env hc.head.1 hc.head.2 hk
            split at hev
            · cases hev
            · rename_i hfire
              injection hev with hit _
              subst hit
              refine ⟨next, h1, ?_⟩
              simp [fires, isSlowDown, slowCond] at hfire
              omega
          · exact ih _ (hc.tail v) jt s hev
        · simp [hk] at hev
          exact ih _ (hc.tail v) jt s hev
      · simp [hf, ha] at hev

/-- "picked up ≥ 2 s late ⇒ not fired", as a statement about a variant of `Wait`. -/
def C04_discarded_if_late_statement (v : Variant) : Prop :=
  ∀ (w : Waiter) (h : List Iter), ClockOK w h → ReadAfterPick h →
    ∀ it, Ev.shoot it ∈ (runLoop v true w h).1 → it.ctxDoneSlow = false →
      ∀ next, it.env.tok = some next → it.env.pick - next < maxOverdue

/-- REPAIRED `Wait`, discard_overflow on: a token whose scheduled time is two seconds or more in the past when the
instance picks it up is not fired (unless the run is cancelled at that very moment: `IsSlowDown` answers false on a done
context). -/
theorem C04_discarded_if_late : C04_discarded_if_late_statement .fresh := by
  intro w h
  induction h generalizing w with
  | nil => simp [runLoop]
  | cons it rest ih =>
    intro hc hp jt hev hctx next htok
    unfold runLoop at hev
    by_cases hf : it.finished = true
    · simp [hf] at hev
    · by_cases ha : it.ammoOk = true
      · simp only [hf, ha] at hev
        by_cases hk : (waitV .fresh w it.env).ok = true
        · simp only [hk] at hev
          simp at hev
          rcases hev with hev | hev
          · split at hev
            · rename_i hfire
              injection hev with hit
              subst hit
              have hov := wait_overdue w jt.env hc.head.2 next htok hk
              have hpick := hp jt (by simp)
              simp [fires, isSlowDown, slowCond, hctx] at hfire
              split at hov <;> omega
            · cases hev
          · exact ih _ (hc.tail .fresh) hp.tail jt hev hctx next htok
        · simp [hk] at hev
          exact ih _ (hc.tail .fresh) hp.tail jt hev hctx next htok
      · simp [hf, ha] at hev

/-- The code as found (lateness judged against the cached reading) does NOT have the property: a waiter takes
token T0-1 s at T0 (fired, 1 s late), spends 1 s in the shot, then picks up token T0-1.5 s at T0+1 s — 2.5 s late — and
fires it, because 1.5 s is its lateness against the reading cached at T0. (corpus/C04.txt, first line.) -/
theorem C04_discarded_if_late_counterexample_old : ¬ C04_discarded_if_late_statement .cached := by
  intro hs
  let i1 : Iter := { env := { tok := some 9000000000, pick := 10000000000, now := 10000000000, arm := 10000000000, ret := 10000000000 }, dur := 1000000000 }
  let i2 : Iter := { env := { tok := some 8500000000, pick := 11000000000, now := 11000000000, arm := 11000000000, ret := 11000000000 } }
  have h := hs Waiter.init [i1, i2] (by decide) (by decide) i2 (by decide) rfl 8500000000 rfl
  revert h
  decide

/-- Consequence for the length of a run (REPAIRED `Wait`, discard_overflow on): if every token of the profile lies in
`[_, start + D]`, a response takes at most `R`, and `Wait` returns within `ε` of `max(pick-up instant, token time)`, then
every shot that is fired ENDS before `start + D + 2 s + ε + R` — however slow the target is. -/
theorem C04_run_bounded (w : Waiter) (h : List Iter) (start D R ε : Int) (hc : ClockOK w h) (hp : ReadAfterPick h)
    (htoks : ∀ it ∈ h, ∀ next, it.env.tok = some next → next ≤ start + D)
    (hresp : ∀ it ∈ h, it.dur ≤ R)
    (hlag : ∀ it ∈ h, ∀ next, it.env.tok = some next → it.env.ret ≤ max it.env.pick next + ε)
    (hctx : ∀ it ∈ h, it.ctxDoneSlow = false) :
    ∀ it, Ev.shoot it ∈ (runLoop .fresh true w h).1 → it.env.ret + it.dur < start + D + maxOverdue + ε + R := by
  intro it hev
  have hmem : it ∈ h := by
    clear hc hp htoks hresp hlag hctx
    induction h generalizing w with
    | nil => simp [runLoop] at hev
    | cons jt rest ih =>
      unfold runLoop at hev
      by_cases hf : jt.finished = true
      · simp [hf] at hev
      · by_cases ha : jt.ammoOk = true
        · simp only [hf, ha] at hev
          by_cases hk : (waitV .fresh w jt.env).ok = true
          · simp only [hk] at hev
            simp at hev
            rcases hev with hev | hev
            · split at hev
              · injection hev with hit; simp [hit]
              · cases hev
            · exact List.mem_cons_of_mem _ (ih _ hev)
          · simp [hk] at hev
            exact List.mem_cons_of_mem _ (ih _ hev)
        · simp [hf, ha] at hev
  obtain ⟨next, htok, _⟩ := C04_no_early .fresh true w h hc _ hev
  simp only [Ev.iter] at htok
  have hlate := C04_discarded_if_late w h hc hp it hev (hctx it hmem) next htok
  have h1 := htoks it hmem next htok
  have h2 := hresp it hmem
  have h3 := hlag it hmem next htok
  have : max it.env.pick next < start + D + maxOverdue := by
    rcases Int.le_total it.env.pick next with hle | hle
    · rw [Int.max_eq_right hle]; unfold maxOverdue; omega
    · rw [Int.max_eq_left hle]; omega
  omega

/-! ### discard_overflow off, conservation, the discarded sample -/

/-- Every token drawn and waited for produces exactly one action, in order (Shoot or Report of a discarded sample). -/
theorem C04_every_drawn_token_acted (v : Variant) (d : Bool) (w : Waiter) (h : List Iter) :
    (runLoop v d w h).1.map Ev.iter = drawn v w h := by
  induction h generalizing w with
  | nil => simp [runLoop, drawn]
  | cons it rest ih =>
    unfold runLoop drawn
    by_cases hf : it.finished = true
    · simp [hf]
    · by_cases ha : it.ammoOk = true
      · by_cases hk : (waitV v w it.env).ok = true
        · simp only [hf, ha, hk]
          simp
          refine ⟨?_, ih _⟩
          split <;> rfl
        · simp [hf, ha, hk, ih]
      · simp [hf, ha]

/-- discard_overflow = false: nothing is discarded and every drawn token is fired, in order. -/
theorem C04_off (v : Variant) (w : Waiter) (h : List Iter) :
    (runLoop v false w h).1 = (drawn v w h).map Ev.shoot := by
  induction h generalizing w with
  | nil => simp [runLoop, drawn]
  | cons it rest ih =>
    unfold runLoop drawn
    by_cases hf : it.finished = true
    · simp [hf]
    · by_cases ha : it.ammoOk = true
      · by_cases hk : (waitV v w it.env).ok = true
        · simp [hf, ha, hk, fires, ih]
        · simp [hf, ha, hk, ih]
      · simp [hf, ha]

/-- The discard branch reports the sample built by the REGENERATED `DiscardedShootSample` — net code 777 (the regenerated
`DiscardedShootCodeError`), tag "discarded" (the regenerated `DiscardedShootTag`) — and it is the only action for that
token: by `C04_every_drawn_token_acted` there is no Shoot for it, and the regenerated discard branch of `instance.Run`
consists of that one Report. -/
theorem C04_discard_sample (v : Variant) (d : Bool) (w : Waiter) (h : List Iter) :
    (∀ it s, Ev.discard it s ∈ (runLoop v d w h).1 →
        s = Gen.Waiter.DiscardedShootSample ∧ s.net = Gen.Waiter.DiscardedShootCodeError ∧ s.net = 777 ∧
        s.tags = Gen.Waiter.DiscardedShootTag ∧ s.tags = "discarded") ∧
    Gen.Waiter.discardBranch = ["i.aggregator.Report(netsample.DiscardedShootSample())"] ∧
    "i.gun.Shoot(ammo)" ∈ Gen.Waiter.fireBranch := by
  refine ⟨?_, Bridge.Waiter.discardBranch_eq, Bridge.Waiter.fireBranch_shoots⟩
  induction h generalizing w with
  | nil => simp [runLoop]
  | cons it rest ih =>
    intro jt s hev
    unfold runLoop at hev
    by_cases hf : it.finished = true
    · simp [hf] at hev
    · by_cases ha : it.ammoOk = true
      · simp only [hf, ha] at hev
        by_cases hk : (waitV v w it.env).ok = true
        · simp only [hk] at hev
          simp at hev
          rcases hev with hev | hev
          · split at hev
            · cases hev
            · injection hev with _ hs
              subst hs
              rw [Bridge.Waiter.DiscardedShootSample_eq]
              exact ⟨rfl, rfl, rfl, rfl, rfl⟩
          · exact ih _ jt s hev
        · simp [hk] at hev
          exact ih _ jt s hev
      · simp [hf, ha] at hev

/-- The model the theorems speak about is what the current source says: the regenerated `Wait`, `IsSlowDown` and
fire condition coincide with `wait`, `isSlowDown`, `fires`; `MaxOverdueDuration` is the 2 s of the statement; the timer is
armed for exactly `next - now`. -/
theorem C04_model_is_source (w : Waiter) (e : Env) (c d s : Bool) :
    Gen.Waiter.Wait w e = ((waitV .fresh w e).w, (waitV .fresh w e).ok) ∧
    Gen.Waiter.IsSlowDown w c = isSlowDown w c ∧ Gen.Waiter.fires d s = fires d s ∧
    Gen.Waiter.MaxOverdueDuration = 2000000000 ∧ maxOverdue = Gen.Waiter.MaxOverdueDuration ∧
    (∀ waitFor, Gen.Waiter.timerArmedFor waitFor = waitFor) :=
  ⟨Bridge.Waiter.Wait_eq w e, Bridge.Waiter.IsSlowDown_eq w c, Bridge.Waiter.fires_eq d s, rfl, rfl,
    Bridge.Waiter.timerArmedFor_eq⟩

/-! ### non-vacuity: concrete histories meeting the hypotheses, with the conclusions exercised -/

/-- const 10 rps, 1 s responses, one instance: tokens at 0, 0.1, 0.2, 0.3 s picked up at 0, 1, 2, 3 s -/
def demo : List Iter :=
  [ { env := { tok := some 0, pick := 0, now := 0, arm := 0, ret := 0 }, dur := 1000000000 },
    { env := { tok := some 100000000, pick := 1000000000, now := 1000000000, arm := 1000000000, ret := 1000000000 }, dur := 1000000000 },
    { env := { tok := some 200000000, pick := 2000000000, now := 2000000000, arm := 2000000000, ret := 2000000000 }, dur := 1000000000 },
    { env := { tok := some 300000000, pick := 3000000000, now := 3000000000, arm := 3000000000, ret := 3000000000 }, dur := 1000000000 },
    -- a token in the future: timer path, fires 5 µs after its time
    { env := { tok := some 4000000000, pick := 3000001000, now := 3000002000, arm := 3000003000, ret := 4000005000 }, dur := 0 } ]

example : ClockOK Waiter.init demo ∧ ReadAfterPick demo := by decide
/-- repaired: fired, fired, fired (1.8 s late), DISCARDED (2.7 s late), fired (timer) -/
example : ((runLoop .fresh true Waiter.init demo).1.map Ev.isShoot) = [true, true, true, false, true] := by decide
/-- as found: the fourth token is fired 2.7 s late -/
example : ((runLoop .cached true Waiter.init demo).1.map Ev.isShoot) = [true, true, true, true, true] := by decide
/-- discard_overflow off: all fired -/
example : ((runLoop .fresh false Waiter.init demo).1.map Ev.isShoot) = [true, true, true, true, true] := by decide
example : (drawn .fresh Waiter.init demo).length = 5 := by decide
/-- hypotheses of `C04_run_bounded` hold of `demo` with start 0, D = 4 s, R = 1 s, ε = 5 µs -/
example : (∀ it ∈ demo, ∀ next, it.env.tok = some next → next ≤ 0 + 4000000000) ∧ (∀ it ∈ demo, it.dur ≤ 1000000000) ∧
    (∀ it ∈ demo, ∀ next, it.env.tok = some next → it.env.ret ≤ max it.env.pick next + 5000) ∧
    (∀ it ∈ demo, it.ctxDoneSlow = false) := by
  refine ⟨?_, by decide, ?_, by decide⟩ <;> (intro it hit next h; simp [demo] at hit; rcases hit with rfl | rfl | rfl | rfl | rfl <;> simp at h <;> subst h <;> decide)

end Pandora.Props.C04
