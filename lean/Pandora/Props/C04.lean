/-
C04 — Timing: no early shots; discard_overflow bounds lateness to the 2 s window.

The theorems are about `Pandora.Model.C04`: the Waiter, the loop of `instance.Run` (`runLoop`, one pass = `iteration`) and any
number of instances drawing from one shared schedule (`pstep`/`prun`).  They hold for ALL token sequences, waiter states, clock
and response-time histories (`List Iter`: one record per pass with the token, the instant it was picked up, the clock reading, the
instant `Wait` returned, the response time) and ALL interleavings of the instances' schedule accesses (`List PStep`, any instance
count), under explicit clock hypotheses (`ClockOK`): readings are non-decreasing; a reading is not later than the instant at which
it is used; a timer does not fire early.

Clause → theorem:
* no request fired before its scheduled time ............ `C04_no_early_wait`, `C04_no_early`, `C04_pool_timing`
* on: ≥ 2 s late when picked up ⇒ not fired, discarded .. `C04_discarded_if_late`, `C04_late_is_discarded`, `C04_discard_sample`
  (cancellation corner: `C04_discarded_if_late_any_ctx_statement` / `…_counterexample`; code as found: `…_counterexample_old`)
* on: < 2 s late ⇒ never discarded ...................... `C04_not_discarded_if_fresh`
* on: run length ≤ profile + 2 s + response ............. `C04_run_bounded`, `C04_run_end_bounded`
* off: nothing discarded, every token fired ............. `C04_off`, `C04_every_drawn_token_acted`, `C04_pool_off_all_fired`
* all instance counts ................................... `C04_pool_conservation`, `C04_pool_each_token_acted_once`,
  `C04_pool_on_all_acted`, `C04_pool_timing`
* the default is "on" ................................... `C04_default_on`
* the model is the current source ....................... `C04_model_is_source`, `C04_loop_is_source`, `C04_pool_schedule_is_source`
* progress: timers fire, Shoot returns, fair scheduling . `C04_sim_meets_hypotheses`, `C04_sim_terminates`, `C04_sim_off_all_fired`,
  `C04_sim_run_bounded`, `C04_pool_progress`
* the cancellation corner is bounded .................... `C04_cancel_one_late_shot`
* `Time.Sub` saturation ................................. `C04_sub_saturation`
* the documentation page promises the source's constants  `C04_doc_is_source`
* round 3: "a timer does not fire early" reduced to timers armed on an empty channel: `C04_timer_channel_empty_at_arm`,
  `C04_no_early_fresh_timer`, `C04_timer_is_source` (`C04_no_early_any_ctx_statement` / `…_counterexample`: a Waiter re-used with
  another context); whole-run `Time.Sub` saturation `C04_sub_saturation_run`; run length of a pool `C04_pool_run_bounded`
  (`C04_run_bounded_of_drawn`); the phout line of a discarded token `C04_discard_sample_phout`; `C04_cached_reading_is_an_optimisation`
* round 4: a closed world for a POOL (every instance with a clock of its own, any interleaving, late starters): `C04_pool_sim_is_sim`,
  `C04_pool_sim_meets_hypotheses`, `C04_pool_sim_decisions`, `C04_pool_sim_run_bounded`, `C04_pool_sim_off_all_fired`,
  `C04_pool_sim_all_handed_out`

The model is tied to the current source by `Pandora.Bridge.Waiter` (regenerated `Wait`, `IsSlowDown`, `IsFinished`, constants, the
whole pass of the loop of `instance.Run`, the cli default and its wiring) and by the real-time correspondence run (harness/cmd/c04).

"late ⇒ discarded" is a theorem of the REPAIRED `Wait` (`Variant.fresh`, /repo commit 1006bde) only; for the code as it was found
(`Variant.cached`) it is refuted by `C04_discarded_if_late_counterexample_old`.
-/
import Pandora.Proofs.C04
import Pandora.Proofs.C04Pool
import Pandora.Proofs.C04Sim
import Pandora.Proofs.C04Ext
import Pandora.Proofs.C04PoolSim
import Pandora.Bridge.Waiter
import Pandora.Props.C01

namespace Pandora.Props.C04
open Pandora.Go.C04 Pandora.Model.C04 Pandora.Proofs.C04

/-! ### no early shots -/

/-- One `Wait` call, either variant, from any waiter state whose cached reading is not ahead of the clock:
if it returns true at instant `e.ret` then a token was drawn and `e.ret ≥` the token's time. -/
theorem C04_no_early_wait (v : Variant) (w : Waiter) (e : Env) (hok : EnvOK e) (hinv : w.lastNow ≤ e.now)
    (h : (waitV v w e).ok = true) : ∃ next, e.tok = some next ∧ next ≤ e.ret := by
  obtain ⟨next, h1, h2, _⟩ := waitV_ok v w e hok hinv h
  exact ⟨next, h1, h2⟩

/-- Every action of the instance loop (Shoot or Report of a discarded sample), for every history: it happens at an
instant ≥ the scheduled time of its token. -/
theorem C04_no_early (v : Variant) (d : Bool) (w : Waiter) (h : List Iter) (hc : ClockOK w h) :
    ∀ ev ∈ (runLoop v d w h).1, ∃ next, ev.iter.env.tok = some next ∧ next ≤ ev.iter.env.ret := by
  induction h generalizing w with
  | nil => simp [runLoop]
  | cons it rest ih =>
    intro ev hev
    unfold runLoop at hev
    by_cases hf : it.finished = true
    · simp [hf] at hev
    · by_cases ha : it.ammoOk = true
      · simp only [hf, ha] at hev
        by_cases hk : (waitV v w it.env).ok = true
        · simp only [hk] at hev
          simp at hev
          rcases hev with rfl | hev
          · obtain ⟨next, h1, h2, _⟩ := waitV_ok v w it.env hc.head.1 hc.head.2 hk
            refine ⟨next, ?_, ?_⟩ <;> (split <;> simpa [Ev.iter])
          · exact ih _ (hc.tail v) ev hev
        · simp [hk] at hev
          exact ih _ (hc.tail v) ev hev
      · simp [hf, ha] at hev

/-! ### the 2 s window -/

/-- A token that is reported as discarded was at least 2 s late at the instant of the report: a request less than
2 s late is never discarded (both variants: the recorded overdue never exceeds the real lateness). -/
theorem C04_not_discarded_if_fresh (v : Variant) (w : Waiter) (h : List Iter) (hc : ClockOK w h) :
    ∀ it s, Ev.discard it s ∈ (runLoop v true w h).1 →
      ∃ next, it.env.tok = some next ∧ maxOverdue ≤ it.env.ret - next := by
  induction h generalizing w with
  | nil => simp [runLoop]
  | cons it rest ih =>
    intro jt s hev
    unfold runLoop at hev
    by_cases hf : it.finished = true
    · simp [hf] at hev
    · by_cases ha : it.ammoOk = true
      · simp only [hf, ha] at hev
        by_cases hk : (waitV v w it.env).ok = true
        · simp only [hk] at hev
          simp at hev
          rcases hev with hev | hev
          · obtain ⟨next, h1, _, h3⟩ := waitV_ok v w it.env hc.head.1 hc.head.2 hk
            split at hev
            · cases hev
            · rename_i hfire
              injection hev with hit _
              subst hit
              refine ⟨next, h1, ?_⟩
              simp [fires, isSlowDown, slowCond] at hfire
              omega
          · exact ih _ (hc.tail v) jt s hev
        · simp [hk] at hev
          exact ih _ (hc.tail v) jt s hev
      · simp [hf, ha] at hev

/-- "picked up ≥ 2 s late ⇒ not fired", as a statement about a variant of `Wait`. -/
def C04_discarded_if_late_statement (v : Variant) : Prop :=
  ∀ (w : Waiter) (h : List Iter), ClockOK w h → ReadAfterPick h →
    ∀ it, Ev.shoot it ∈ (runLoop v true w h).1 → it.ctxDoneSlow = false →
      ∀ next, it.env.tok = some next → it.env.pick - next < maxOverdue

/-- REPAIRED `Wait`, discard_overflow on: a token whose scheduled time is two seconds or more in the past when the
instance picks it up is not fired (unless the run is cancelled at that very moment: `IsSlowDown` answers false on a done
context). -/
theorem C04_discarded_if_late : C04_discarded_if_late_statement .fresh := by
  intro w h
  induction h generalizing w with
  | nil => simp [runLoop]
  | cons it rest ih =>
    intro hc hp jt hev hctx next htok
    unfold runLoop at hev
    by_cases hf : it.finished = true
    · simp [hf] at hev
    · by_cases ha : it.ammoOk = true
      · simp only [hf, ha] at hev
        by_cases hk : (waitV .fresh w it.env).ok = true
        · simp only [hk] at hev
          simp at hev
          rcases hev with hev | hev
          · split at hev
            · rename_i hfire
              injection hev with hit
              subst hit
              have hov := wait_overdue w jt.env hc.head.2 next htok hk
              have hpick := hp jt (by simp)
              simp [fires, isSlowDown, slowCond, hctx] at hfire
              split at hov <;> omega
            · cases hev
          · exact ih _ (hc.tail .fresh) hp.tail jt hev hctx next htok
        · simp [hk] at hev
          exact ih _ (hc.tail .fresh) hp.tail jt hev hctx next htok
      · simp [hf, ha] at hev

/-- The code as found (lateness judged against the cached reading) does NOT have the property: a waiter takes
token T0-1 s at T0 (fired, 1 s late), spends 1 s in the shot, then picks up token T0-1.5 s at T0+1 s — 2.5 s late — and
fires it, because 1.5 s is its lateness against the reading cached at T0. (corpus/C04.txt, first line.) -/
theorem C04_discarded_if_late_counterexample_old : ¬ C04_discarded_if_late_statement .cached := by
  intro hs
  let i1 : Iter := { env := { tok := some 9000000000, pick := 10000000000, now := 10000000000, arm := 10000000000, ret := 10000000000 }, dur := 1000000000 }
  let i2 : Iter := { env := { tok := some 8500000000, pick := 11000000000, now := 11000000000, arm := 11000000000, ret := 11000000000 } }
  have h := hs Waiter.init [i1, i2] (by decide) (by decide) i2 (by decide) rfl 8500000000 rfl
  revert h
  decide

/-- Consequence for the length of a run (REPAIRED `Wait`, discard_overflow on): if every token of the profile lies in
`[_, start + D]`, a response takes at most `R`, and `Wait` returns within `ε` of `max(pick-up instant, token time)`, then
every shot that is fired ENDS before `start + D + 2 s + ε + R` — however slow the target is. -/
theorem C04_run_bounded (w : Waiter) (h : List Iter) (start D R ε : Int) (hc : ClockOK w h) (hp : ReadAfterPick h)
    (htoks : ∀ it ∈ h, ∀ next, it.env.tok = some next → next ≤ start + D)
    (hresp : ∀ it ∈ h, it.dur ≤ R)
    (hlag : ∀ it ∈ h, ∀ next, it.env.tok = some next → it.env.ret ≤ max it.env.pick next + ε)
    (hctx : ∀ it ∈ h, it.ctxDoneSlow = false) :
    ∀ it, Ev.shoot it ∈ (runLoop .fresh true w h).1 → it.env.ret + it.dur < start + D + maxOverdue + ε + R := by
  intro it hev
  have hmem : it ∈ h := by
    clear hc hp htoks hresp hlag hctx
    induction h generalizing w with
    | nil => simp [runLoop] at hev
    | cons jt rest ih =>
      unfold runLoop at hev
      by_cases hf : jt.finished = true
      · simp [hf] at hev
      · by_cases ha : jt.ammoOk = true
        · simp only [hf, ha] at hev
          by_cases hk : (waitV .fresh w jt.env).ok = true
          · simp only [hk] at hev
            simp at hev
            rcases hev with hev | hev
            · split at hev
              · injection hev with hit; simp [hit]
              · cases hev
            · exact List.mem_cons_of_mem _ (ih _ hev)
          · simp [hk] at hev
            exact List.mem_cons_of_mem _ (ih _ hev)
        · simp [hf, ha] at hev
  obtain ⟨next, htok, _⟩ := C04_no_early .fresh true w h hc _ hev
  simp only [Ev.iter] at htok
  have hlate := C04_discarded_if_late w h hc hp it hev (hctx it hmem) next htok
  have h1 := htoks it hmem next htok
  have h2 := hresp it hmem
  have h3 := hlag it hmem next htok
  have : max it.env.pick next < start + D + maxOverdue := by
    rcases Int.le_total it.env.pick next with hle | hle
    · rw [Int.max_eq_right hle]; unfold maxOverdue; omega
    · rw [Int.max_eq_left hle]; omega
  omega

/-! ### discard_overflow off, conservation, the discarded sample -/

/-- Every token drawn and waited for produces exactly one action, in order (Shoot or Report of a discarded sample). -/
theorem C04_every_drawn_token_acted (v : Variant) (d : Bool) (w : Waiter) (h : List Iter) :
    (runLoop v d w h).1.map Ev.iter = drawn v w h := by
  induction h generalizing w with
  | nil => simp [runLoop, drawn]
  | cons it rest ih =>
    unfold runLoop drawn
    by_cases hf : it.finished = true
    · simp [hf]
    · by_cases ha : it.ammoOk = true
      · by_cases hk : (waitV v w it.env).ok = true
        · simp only [hf, ha, hk]
          simp
          refine ⟨?_, ih _⟩
          split <;> rfl
        · simp [hf, ha, hk, ih]
      · simp [hf, ha]

/-- discard_overflow = false: nothing is discarded and every drawn token is fired, in order. -/
theorem C04_off (v : Variant) (w : Waiter) (h : List Iter) :
    (runLoop v false w h).1 = (drawn v w h).map Ev.shoot := by
  induction h generalizing w with
  | nil => simp [runLoop, drawn]
  | cons it rest ih =>
    unfold runLoop drawn
    by_cases hf : it.finished = true
    · simp [hf]
    · by_cases ha : it.ammoOk = true
      · by_cases hk : (waitV v w it.env).ok = true
        · simp [hf, ha, hk, fires, ih]
        · simp [hf, ha, hk, ih]
      · simp [hf, ha]

/-- The discard branch reports the sample built by the REGENERATED `DiscardedShootSample` — net code 777 (the regenerated
`DiscardedShootCodeError`), tag "discarded" (the regenerated `DiscardedShootTag`) — and it is the only action for that
token: by `C04_every_drawn_token_acted` there is no Shoot for it, and the regenerated discard branch of `instance.Run`
consists of that one Report. -/
theorem C04_discard_sample (v : Variant) (d : Bool) (w : Waiter) (h : List Iter) :
    (∀ it s, Ev.discard it s ∈ (runLoop v d w h).1 →
        s = Gen.Waiter.DiscardedShootSample ∧ s.net = Gen.Waiter.DiscardedShootCodeError ∧ s.net = 777 ∧
        s.tags = Gen.Waiter.DiscardedShootTag ∧ s.tags = "discarded") ∧
    Gen.Waiter.discardBranch = ["i.aggregator.Report(netsample.DiscardedShootSample())"] ∧
    "i.gun.Shoot(ammo)" ∈ Gen.Waiter.fireBranch := by
  refine ⟨?_, Bridge.Waiter.discardBranch_eq, Bridge.Waiter.fireBranch_shoots⟩
  induction h generalizing w with
  | nil => simp [runLoop]
  | cons it rest ih =>
    intro jt s hev
    unfold runLoop at hev
    by_cases hf : it.finished = true
    · simp [hf] at hev
    · by_cases ha : it.ammoOk = true
      · simp only [hf, ha] at hev
        by_cases hk : (waitV v w it.env).ok = true
        · simp only [hk] at hev
          simp at hev
          rcases hev with hev | hev
          · split at hev
            · cases hev
            · injection hev with _ hs
              subst hs
              rw [Bridge.Waiter.DiscardedShootSample_eq]
              exact ⟨rfl, rfl, rfl, rfl, rfl⟩
          · exact ih _ jt s hev
        · simp [hk] at hev
          exact ih _ jt s hev
      · simp [hf, ha] at hev

/-- The model the theorems speak about is what the current source says: the regenerated `Wait`, `IsSlowDown` and
fire condition coincide with `wait`, `isSlowDown`, `fires`; `MaxOverdueDuration` is the 2 s of the statement; the timer is
armed for exactly `next - now`. -/
theorem C04_model_is_source (w : Waiter) (e : Env) (c d s : Bool) :
    Gen.Waiter.Wait w e = ((waitV .fresh w e).w, (waitV .fresh w e).ok) ∧
    Gen.Waiter.IsSlowDown w c = isSlowDown w c ∧ Gen.Waiter.fires d s = fires d s ∧
    Gen.Waiter.MaxOverdueDuration = 2000000000 ∧ maxOverdue = Gen.Waiter.MaxOverdueDuration ∧
    (∀ waitFor, Gen.Waiter.timerArmedFor waitFor = waitFor) :=
  ⟨Bridge.Waiter.Wait_eq w e, Bridge.Waiter.IsSlowDown_eq w c, Bridge.Waiter.fires_eq d s, rfl, rfl,
    Bridge.Waiter.timerArmedFor_eq⟩

/-- The whole loop of `instance.Run` is what the current source says: the regenerated pass (IsFinished at the head, Acquire,
`Wait`, then `IsSlowDown` of the SAME waiter, then Shoot | Report) equals the model's `iteration`, of which `runLoop` is the
iteration (`runLoop_cons`); the regenerated `IsFinished` is the model's. -/
theorem C04_loop_is_source (d : Bool) (w : Waiter) (it : Iter) (rest : List Iter) (c : Bool) (left : Int) :
    Gen.Waiter.iteration d w it = iteration .fresh d w it ∧
    Gen.Waiter.IsFinished c left = isFinished c left ∧
    runLoop .fresh d w (it :: rest) =
      (match Gen.Waiter.iteration d w it with
      | (_, .loopEnd) => ([], .loopEnd)
      | (_, .outOfAmmo) => ([], .outOfAmmo)
      | (w', .skip) => runLoop .fresh d w' rest
      | (w', .shoot) => (Ev.shoot it :: (runLoop .fresh d w' rest).1, (runLoop .fresh d w' rest).2)
      | (w', .discard s) => (Ev.discard it s :: (runLoop .fresh d w' rest).1, (runLoop .fresh d w' rest).2)) := by
  refine ⟨Bridge.Waiter.iteration_eq d w it, Bridge.Waiter.IsFinished_eq c left, ?_⟩
  rw [Bridge.Waiter.iteration_eq]
  exact runLoop_cons .fresh d w it rest

/-! ### the statement's positive form, the cancellation corner, the default -/

/-- REPAIRED `Wait`, discard_overflow on: a drawn token that is two seconds or more late when it is picked up IS reported as
the discarded sample (and, by `C04_every_drawn_token_acted`, that Report is its only action). -/
theorem C04_late_is_discarded (w : Waiter) (h : List Iter) (hc : ClockOK w h) (hp : ReadAfterPick h) :
    ∀ it ∈ drawn .fresh w h, it.ctxDoneSlow = false → ∀ next, it.env.tok = some next → maxOverdue ≤ it.env.pick - next →
      Ev.discard it discardedShootSample ∈ (runLoop .fresh true w h).1 := by
  intro it hit hctx next htok hlate
  rw [← C04_every_drawn_token_acted .fresh true w h, List.mem_map] at hit
  obtain ⟨ev, hev, rfl⟩ := hit
  cases ev with
  | shoot jt =>
    have := C04_discarded_if_late w h hc hp jt hev hctx next htok
    simp only [Ev.iter] at hlate
    omega
  | discard jt s =>
    have hs := ((C04_discard_sample .fresh true w h).1 jt s hev).1
    rw [Bridge.Waiter.DiscardedShootSample_eq] at hs
    subst hs
    exact hev

/-- "picked up ≥ 2 s late ⇒ not fired" WITHOUT the hypothesis that the run context is alive when `IsSlowDown` is asked. -/
def C04_discarded_if_late_any_ctx_statement : Prop :=
  ∀ (w : Waiter) (h : List Iter), ClockOK w h → ReadAfterPick h →
    ∀ it, Ev.shoot it ∈ (runLoop .fresh true w h).1 →
      ∀ next, it.env.tok = some next → it.env.pick - next < maxOverdue

/-- That stronger statement is false for the code (`IsSlowDown` answers false on a done context): a run that is cancelled
between the entry `select` of `Wait` and `IsSlowDown` fires a token that is 3 s late. The property quantifies over response-time
histories, not over cancellations; `C04_discarded_if_late` (hypothesis `ctxDoneSlow = false`) is the part that holds. -/
theorem C04_discarded_if_late_any_ctx_counterexample : ¬ C04_discarded_if_late_any_ctx_statement := by
  intro hs
  let i1 : Iter := { env := { tok := some 7000000000, pick := 10000000000, now := 10000000000, arm := 10000000000, ret := 10000000000 },
                     ctxDoneSlow := true }
  have h := hs Waiter.init [i1] (by decide) (by decide) i1 (by decide) 7000000000 rfl
  revert h
  decide

/-- The discard_overflow a pool runs with: a pool section that does not mention the option gets `true` (the regenerated
`readConfig` default, put under the regenerated config key of `InstancePoolConfig.DiscardOverflow`, into the list that is decoded
afterwards; the instances' flag is copied from that field and assigned nowhere else; the block is not conditional on the
config's format or source nor on the position of the section), an explicit value is kept. So the
`discardOverflow = true` theorems describe a default run, `C04_off` a run with `discard_overflow: false`. -/
theorem C04_default_on :
    (∀ g, Gen.Waiter.cliPoolDiscardOverflow g = effectiveDiscard g) ∧
    effectiveDiscard none = true ∧ (∀ b, effectiveDiscard (some b) = b) ∧
    Gen.Waiter.cliDefaultLookupKey = Gen.Waiter.poolConfigDiscardKey ∧
    Gen.Waiter.cliDefaultPutKey = Gen.Waiter.poolConfigDiscardKey ∧
    Gen.Waiter.poolConfigDiscardKey = "discard_overflow" ∧
    Gen.Waiter.cliPoolsGetKey = Gen.Waiter.cliPoolsSetKey ∧
    Gen.Waiter.cliDecodesAfterDefault = true ∧
    (Gen.Waiter.instanceDiscardFrom ≠ [] ∧ ∀ x ∈ Gen.Waiter.instanceDiscardFrom, x = "InstancePoolConfig.DiscardOverflow") ∧
    Gen.Waiter.discardFieldAssignments = 0 ∧
    Gen.Waiter.cliDefaultGuard = "type-assertion-only" ∧ Gen.Waiter.cliDefaultInnerGuards = [] ∧
    -- round 4: the config is read before the default block; `Run` reads the very field the wiring sets
    Gen.Waiter.cliReadsConfigBeforeDefault = true ∧
    (Gen.Waiter.runReadsDiscardField ≠ [] ∧
      ∀ x ∈ Gen.Waiter.runReadsDiscardField, x = "instanceSharedDeps.discardOverflow") := by
  obtain ⟨h1, h2, h3, h4, h5, h6, h7, h8⟩ := Bridge.Waiter.cli_default_wiring
  exact ⟨Bridge.Waiter.cliPoolDiscardOverflow_eq, rfl, fun _ => rfl, h1, h2, h3, h4.trans h5.symm, h6, h7, h8,
    Bridge.Waiter.cli_default_unconditional.1, Bridge.Waiter.cli_default_unconditional.2,
    Bridge.Waiter.round4_wiring.1, Bridge.Waiter.round4_wiring.2⟩

/-! ### the end of the run -/

/-- The END of every action of an instance, discards included (REPAIRED `Wait`, discard_overflow on): with the hypotheses of
`C04_run_bounded`, `B = start + D + 2 s + ε + R`, the instance picking up its first acted token before `B` and every further one
within `δ` of the end of the previous action, the `k`-th action is over by `B + (k+1)(δ+ε)`: shots by `B` itself whatever the
response times were, and each discard costs only the loop overhead `δ+ε`, never a response time. -/
theorem C04_run_end_bounded (w : Waiter) (h : List Iter) (start D R ε δ : Int) (hε : 0 ≤ ε) (hδ : 0 ≤ δ) (hR : 0 ≤ R)
    (hc : ClockOK w h) (hp : ReadAfterPick h)
    (htoks : ∀ it ∈ h, ∀ next, it.env.tok = some next → next ≤ start + D)
    (hresp : ∀ it ∈ h, it.dur ≤ R)
    (hlag : ∀ it ∈ h, ∀ next, it.env.tok = some next → it.env.ret ≤ max it.env.pick next + ε)
    (hctx : ∀ it ∈ h, it.ctxDoneSlow = false)
    (hfirst : ∀ ev, (runLoop .fresh true w h).1[0]? = some ev → ev.iter.env.pick ≤ start + D + maxOverdue + ε + R)
    (hseq : ∀ k a b, (runLoop .fresh true w h).1[k]? = some a → (runLoop .fresh true w h).1[k + 1]? = some b →
      b.iter.env.pick ≤ endT a + δ) :
    ∀ k ev, (runLoop .fresh true w h).1[k]? = some ev →
      endT ev ≤ chainBound (start + D + maxOverdue + ε + R) (δ + ε) k := by
  have hm : (0 : Int) ≤ maxOverdue := by decide
  have hmono : ∀ k, start + D + maxOverdue + ε + R ≤ chainBound (start + D + maxOverdue + ε + R) (δ + ε) k := by
    intro k; induction k with
    | zero => simp only [chainBound]; omega
    | succ k ih => simp only [chainBound]; omega
  -- a discard is over within ε of max(pick, token), and its token lies inside the profile
  have hdisc : ∀ it s, Ev.discard it s ∈ (runLoop .fresh true w h).1 →
      it.env.ret ≤ max it.env.pick (start + D) + ε := by
    intro it s hev
    have hmem := runLoop_iter_mem .fresh true w h _ hev
    simp only [Ev.iter] at hmem
    obtain ⟨next, htok, _⟩ := C04_no_early .fresh true w h hc _ hev
    simp only [Ev.iter] at htok
    have h1 := htoks it hmem next htok
    have h3 := hlag it hmem next htok
    rcases Int.le_total it.env.pick next with hle | hle
    · rw [Int.max_eq_right hle] at h3
      rcases Int.le_total it.env.pick (start + D) with hle2 | hle2
      · rw [Int.max_eq_right hle2]; omega
      · rw [Int.max_eq_left hle2]; omega
    · rw [Int.max_eq_left hle] at h3
      rcases Int.le_total it.env.pick (start + D) with hle2 | hle2
      · rw [Int.max_eq_right hle2]; omega
      · rw [Int.max_eq_left hle2]; omega
  intro k
  induction k with
  | zero =>
    intro ev hk
    have hev : ev ∈ (runLoop .fresh true w h).1 := List.mem_of_getElem? hk
    cases ev with
    | shoot it =>
      have := C04_run_bounded w h start D R ε hc hp htoks hresp hlag hctx it hev
      simp only [endT, chainBound]; omega
    | discard it s =>
      have h1 := hdisc it s hev
      have h2 := hfirst _ hk
      simp only [Ev.iter] at h2
      simp only [endT, chainBound]
      rcases Int.le_total it.env.pick (start + D) with hle2 | hle2
      · rw [Int.max_eq_right hle2] at h1; omega
      · rw [Int.max_eq_left hle2] at h1; omega
  | succ k ih =>
    intro ev hk
    have hev : ev ∈ (runLoop .fresh true w h).1 := List.mem_of_getElem? hk
    cases ev with
    | shoot it =>
      have := C04_run_bounded w h start D R ε hc hp htoks hresp hlag hctx it hev
      have := hmono (k + 1)
      simp only [endT]; omega
    | discard it s =>
      have hlt : k < (runLoop .fresh true w h).1.length := by
        have := (List.getElem?_eq_some_iff.mp hk).1
        omega
      have hprev : (runLoop .fresh true w h).1[k]? = some ((runLoop .fresh true w h).1[k]) := List.getElem?_eq_getElem hlt
      have h0 := ih _ hprev
      have h1 := hdisc it s hev
      have h2 := hseq k _ _ hprev hk
      have h3 := hmono k
      simp only [Ev.iter] at h2
      simp only [endT, chainBound]
      rcases Int.le_total it.env.pick (start + D) with hle2 | hle2
      · rw [Int.max_eq_right hle2] at h1; omega
      · rw [Int.max_eq_left hle2] at h1; omega

/-! ### all instance counts: any number of instances on one shared schedule, every interleaving -/

/-- No token is invented, lost or handed out twice — for every number of instances, every interleaving of their schedule
accesses, cancellation and ammo shortage included: the tokens handed out so far followed by those still in the schedule are the
profile. -/
theorem C04_pool_conservation (toks : List Int) (steps : List PStep) :
    (prun (PState.init toks) steps).out.map Prod.snd ++ (prun (PState.init toks) steps).sched = toks := by
  simpa [PState.init] using prun_cons (PState.init toks) steps

/-- In a run without cancellation and with ammo available (`Calm` steps), every token handed to an instance is acted on by that
instance exactly once and in order (either variant, discard_overflow on or off): the tokens of instance `i`'s actions are the
tokens the schedule gave to `i`. -/
theorem C04_pool_each_token_acted_once (v : Variant) (d : Bool) (toks : List Int) (steps : List PStep)
    (hs : ∀ s ∈ steps, Calm s) (i : Nat) :
    (poolEvents v d toks steps i).map (fun ev => ev.iter.tok) = ownToks (prun (PState.init toks) steps) i := by
  unfold poolEvents
  rw [← (prun_inv v _ steps (PInv.init v toks) hs).drawnEq i, ← C04_every_drawn_token_acted v d]
  simp [List.map_map]

/-- discard_overflow off, any number of instances, any interleaving, no cancellation: every action of every instance is a Shoot
(nothing is discarded), each instance fires exactly the tokens it was handed, and once any instance has left its loop the
schedule is empty — so ALL tokens of the profile have been handed out and fired. -/
theorem C04_pool_off_all_fired (v : Variant) (toks : List Int) (steps : List PStep) (hs : ∀ s ∈ steps, Calm s) :
    (∀ i, ∀ ev ∈ poolEvents v false toks steps i, ev.isShoot = true) ∧
    (∀ i, (poolEvents v false toks steps i).map (fun ev => ev.iter.tok) = ownToks (prun (PState.init toks) steps) i) ∧
    (∀ i, (prun (PState.init toks) steps).phase i = .exited →
      (prun (PState.init toks) steps).sched = [] ∧ (prun (PState.init toks) steps).out.map Prod.snd = toks) := by
  refine ⟨fun i ev hev => ?_, fun i => C04_pool_each_token_acted_once v false toks steps hs i, fun i he => ?_⟩
  · unfold poolEvents at hev
    rw [C04_off, List.mem_map] at hev
    obtain ⟨_, _, rfl⟩ := hev
    rfl
  · have hnil := (prun_inv v _ steps (PInv.init v toks) hs).drained i he
    refine ⟨hnil, ?_⟩
    have := C04_pool_conservation toks steps
    rw [hnil] at this
    simpa using this

/-- discard_overflow on, any number of instances: likewise every handed-out token gets exactly one action, and once an instance
has left its loop all tokens of the profile have been handed out — each fired or reported as discarded. -/
theorem C04_pool_on_all_acted (v : Variant) (toks : List Int) (steps : List PStep) (hs : ∀ s ∈ steps, Calm s) :
    (∀ i, (poolEvents v true toks steps i).map (fun ev => ev.iter.tok) = ownToks (prun (PState.init toks) steps) i) ∧
    (∀ i, (prun (PState.init toks) steps).phase i = .exited → (prun (PState.init toks) steps).out.map Prod.snd = toks) :=
  ⟨fun i => C04_pool_each_token_acted_once v true toks steps hs i,
   fun i he => ((C04_pool_off_all_fired v toks steps hs).2.2 i he).2⟩

/-- The timing clauses for EVERY instance of a pool (REPAIRED `Wait`, discard_overflow on; any instance count, any
interleaving, cancellation allowed): under the clock hypotheses for that instance's own passes, none of its actions is early, a
discarded token was ≥ 2 s late at the report, and a fired one was < 2 s late when picked up (context alive). -/
theorem C04_pool_timing (toks : List Int) (steps : List PStep) (i : Nat)
    (hc : ClockOK Waiter.init ((prun (PState.init toks) steps).hist i))
    (hp : ReadAfterPick ((prun (PState.init toks) steps).hist i)) :
    (∀ ev ∈ poolEvents .fresh true toks steps i, ∃ next, ev.iter.env.tok = some next ∧ next ≤ ev.iter.env.ret) ∧
    (∀ it s, Ev.discard it s ∈ poolEvents .fresh true toks steps i →
      ∃ next, it.env.tok = some next ∧ maxOverdue ≤ it.env.ret - next) ∧
    (∀ it, Ev.shoot it ∈ poolEvents .fresh true toks steps i → it.ctxDoneSlow = false →
      ∀ next, it.env.tok = some next → it.env.pick - next < maxOverdue) :=
  ⟨C04_no_early .fresh true _ _ hc, C04_not_discarded_if_fresh .fresh _ _ hc, C04_discarded_if_late _ _ hc hp⟩

/-! ### progress (round 2): the closed world — time advances, timers fire, `Shoot` returns — and fair scheduling

`simHist v d w t toks ps` (Model) is the history ONE instance produces when it draws the tokens `toks` one after the other starting
at instant `t`, the clock advancing by the non-negative delays `ps` (loop overhead, reading lag, timer lag, response time), with
no cancellation and ammo available. -/

/-- Every history the closed world generates meets the clock hypotheses (`ClockOK`, `ReadAfterPick`) of the theorems above —
for all token lists, delays and response times: the hypotheses are not only satisfiable, they hold in every world in which time
advances and a timer does not fire early. -/
theorem C04_sim_meets_hypotheses (v : Variant) (d : Bool) (w : Waiter) (t : Int) (toks : List Int) (ps : List Delays)
    (hw : w.lastNow ≤ t) : ClockOK w (simHist v d w t toks ps) ∧ ReadAfterPick (simHist v d w t toks ps) :=
  simHist_clockOK v d w t toks ps hw

/-- Progress of the loop: in the closed world (delays described for at least as many passes as there are tokens) the loop of
`instance.Run` ends through `IsFinished` after exactly one action per token, in schedule order — either variant,
discard_overflow on or off. -/
theorem C04_sim_terminates (v : Variant) (d : Bool) (w : Waiter) (t : Int) (toks : List Int) (ps : List Delays)
    (hlen : toks.length ≤ ps.length) :
    (runLoop v d w (simHist v d w t toks ps)).2 = .loopEnd ∧
    (runLoop v d w (simHist v d w t toks ps)).1.map (fun ev => ev.iter.tok) = toks :=
  runLoop_simHist v d w t toks ps hlen

/-- "Every token is eventually fired", with the time made explicit. discard_overflow OFF, closed world: the loop ends, every
token of the schedule is fired (none discarded, in order), and the `k`-th shot is over by
`max(start, last token time) + (the response times and overheads of the first k+1 passes)`: the length of the run depends on
the target's response times, but every request is sent. -/
theorem C04_sim_off_all_fired (v : Variant) (w : Waiter) (t T : Int) (toks : List Int) (ps : List Delays)
    (hlen : toks.length ≤ ps.length) (htoks : ∀ tok ∈ toks, tok ≤ T) :
    (runLoop v false w (simHist v false w t toks ps)).2 = .loopEnd ∧
    (∀ ev ∈ (runLoop v false w (simHist v false w t toks ps)).1, ev.isShoot = true) ∧
    (runLoop v false w (simHist v false w t toks ps)).1.map (fun ev => ev.iter.tok) = toks ∧
    (∀ k ev, (runLoop v false w (simHist v false w t toks ps)).1[k]? = some ev →
      endT ev ≤ max t T + sumCost (ps.take (k + 1))) := by
  obtain ⟨h1, h2⟩ := runLoop_simHist v false w t toks ps hlen
  refine ⟨h1, fun ev hev => ?_, h2, fun k ev hk => ?_⟩
  · rw [C04_off, List.mem_map] at hev
    obtain ⟨_, _, rfl⟩ := hev
    rfl
  · have := sim_end_by_aux v false (max t T) toks w t 0 ps (fun x hx => Int.le_trans (htoks x hx) (Int.le_max_right t T))
      (Int.le_refl 0) (by have := Int.le_max_left t T; omega) k ev hk
    omega

/-- The length of a WHOLE run of an instance, discard_overflow ON, closed world (REPAIRED `Wait`), with no hypothesis left about
the history: if the tokens lie in `[_, start + D]`, every response takes at most `R`, the loop overhead before a pick-up is at
most `δ` and reading + arming + timer lag at most `ε`, and the instance starts before `B = start + D + 2 s + ε + R`, then the loop
ends, every token is acted on once, and the `k`-th action (Shoot until its response, or discard report) is over by
`B + (k+1)(δ+ε)` — however slow the target is: response times enter only through `R`, once. -/
theorem C04_sim_run_bounded (w : Waiter) (t start D R ε δ : Int) (toks : List Int) (ps : List Delays)
    (hε : 0 ≤ ε) (hδ : 0 ≤ δ) (hR : 0 ≤ R) (hlen : toks.length ≤ ps.length) (hw : w.lastNow ≤ t)
    (htoks : ∀ tok ∈ toks, tok ≤ start + D)
    (hps : ∀ p ∈ ps, (p.dur : Int) ≤ R ∧ (p.dPick : Int) ≤ δ ∧ (p.dNow : Int) + p.dArm + p.dLag ≤ ε)
    (ht : t ≤ start + D + maxOverdue + ε + R) :
    (runLoop .fresh true w (simHist .fresh true w t toks ps)).2 = .loopEnd ∧
    (runLoop .fresh true w (simHist .fresh true w t toks ps)).1.map (fun ev => ev.iter.tok) = toks ∧
    (∀ k ev, (runLoop .fresh true w (simHist .fresh true w t toks ps)).1[k]? = some ev →
      endT ev ≤ chainBound (start + D + maxOverdue + ε + R) (δ + ε) k) := by
  obtain ⟨h1, h2⟩ := runLoop_simHist .fresh true w t toks ps hlen
  exact ⟨h1, h2, sim_on_aux start D R ε δ hε hδ hR toks w t _ ps hw htoks hps (Int.le_refl _) ht⟩

/-- Fair scheduling ⇒ progress of a pool: in a run without cancellation and with ammo available, an instance that has been
scheduled `2·|profile| + 2` times (each step = one schedule access that completes: the timer fired, `Shoot` returned) has left its
loop — whatever the other instances did in between — and then the WHOLE profile has been handed out and every instance has acted
exactly once on each token it drew. So "every token is eventually fired" (off) / "fired or discarded" (on) holds for every
instance count under every fair interleaving. -/
theorem C04_pool_progress (v : Variant) (d : Bool) (toks : List Int) (steps : List PStep) (hs : ∀ s ∈ steps, Calm s) (i : Nat)
    (hfair : 2 * toks.length + 2 ≤ stepsOf steps i) :
    (prun (PState.init toks) steps).phase i = .exited ∧
    (prun (PState.init toks) steps).sched = [] ∧
    (prun (PState.init toks) steps).out.map Prod.snd = toks ∧
    (∀ j, (poolEvents v d toks steps j).map (fun ev => ev.iter.tok) = ownToks (prun (PState.init toks) steps) j) := by
  have hex : (prun (PState.init toks) steps).phase i = .exited := by
    apply phi_eq_zero
    rcases phi_prun (PState.init toks) steps i hs with h | h
    · have := phi_init toks i
      omega
    · exact h
  obtain ⟨h1, h2⟩ := (C04_pool_off_all_fired v toks steps hs).2.2 i hex
  exact ⟨hex, h1, h2, fun j => C04_pool_each_token_acted_once v d toks steps hs j⟩

/-! ### the cancellation corner, bounded (round 2) -/

/-- What the cancellation corner of `C04_discarded_if_late` can cost. A done context stays done (`CtxMono`: once `IsSlowDown` has
seen it done, `IsFinished` sees it done at the next loop head). Then a token that is fired although it was two seconds or more late
when picked up (a) was fired in a pass in which `IsSlowDown` saw the run context done, and (b) is the LAST action of that instance:
a cancelled run fires at most one such token per instance and ends with it. -/
theorem C04_cancel_one_late_shot (w : Waiter) (h : List Iter) (hc : ClockOK w h) (hp : ReadAfterPick h) (hm : CtxMono h) :
    ∀ it, Ev.shoot it ∈ (runLoop .fresh true w h).1 → ∀ next, it.env.tok = some next → maxOverdue ≤ it.env.pick - next →
      it.ctxDoneSlow = true ∧ (runLoop .fresh true w h).1.getLast? = some (Ev.shoot it) := by
  intro it hev next htok hlate
  have hctx : it.ctxDoneSlow = true := by
    by_cases hx : it.ctxDoneSlow = true
    · exact hx
    · have := C04_discarded_if_late w h hc hp it hev (by simpa using hx) next htok
      omega
  exact ⟨hctx, runLoop_ctxDoneSlow_last .fresh true w h hm _ hev hctx⟩

/-- Which theorems describe which pool: the regenerated `buildNewInstanceSchedule` gives every instance its own schedule iff
`rps-per-instance` is set (then each instance is a single-instance run: `C04_no_early` … `C04_sim_run_bounded` per instance) and
otherwise ONE schedule created once for all instances — the shared schedule of `pstep`/`prun` (`C04_pool_*`); `newInstance` hands
exactly that schedule to the instance, whose `Run` builds its Waiter over it (`C04_loop_is_source`). -/
theorem C04_pool_schedule_is_source (perInstance : Bool) :
    Gen.Waiter.scheduleKind perInstance = scheduleKind perInstance ∧
    scheduleKind false = .shared ∧ scheduleKind true = .own ∧
    (∀ w ∈ Gen.Waiter.sharedScheduleWrappers, w = "coreutil.NewCallbackOnFinishSchedule") ∧
    Gen.Waiter.instanceScheduleFrom = "deps.newSchedule()" ∧
    -- round 4: that wrapper is transparent (regenerated from core/coreutil/schedule.go): the Waiters of a pool see the tokens and the
    -- `Left()` of the profile's schedule itself, which is what `pstep` / `psimStep` read
    Gen.Waiter.cbNextTransparent = true ∧ Gen.Waiter.cbLeftTransparent = true ∧ Gen.Waiter.cbEmbedsSchedule = true :=
  ⟨Bridge.Waiter.scheduleKind_eq perInstance, rfl, rfl, Bridge.Waiter.schedule_wiring.1, Bridge.Waiter.schedule_wiring.2,
    Bridge.Waiter.callback_schedule_transparent⟩

/-! ### the user documentation (round 2) -/

/-- The anchored documentation docs/eng/best_practices/discard-overflow.md, re-read on every check, promises exactly the constants
the theorems are about: the option is the regenerated config key `discard_overflow`; "enabled by default" is the regenerated
`readConfig` default (`C04_default_on`); "net error 777", "tagged as discarded" and the "2 second" window are the regenerated
`DiscardedShootCodeError`, `DiscardedShootTag` and `MaxOverdueDuration` = `maxOverdue` of `C04_discarded_if_late` /
`C04_not_discarded_if_fresh` / `C04_discard_sample`. -/
theorem C04_doc_is_source :
    Gen.Waiter.docOptionKeys = ["discard_overflow"] ∧ Gen.Waiter.docOptionKeys = [Gen.Waiter.poolConfigDiscardKey] ∧
    Gen.Waiter.docDefault = effectiveDiscard none ∧
    (∀ c ∈ Gen.Waiter.docNetCodes, c = discardNetCode ∧ c = discardedShootSample.net) ∧ Gen.Waiter.docNetCodes ≠ [] ∧
    (∀ t ∈ Gen.Waiter.docTags, t = discardTag ∧ t = discardedShootSample.tags) ∧ Gen.Waiter.docTags ≠ [] ∧
    (∀ n ∈ Gen.Waiter.docWindowSeconds, n * 1000000000 = maxOverdue) ∧ Gen.Waiter.docWindowSeconds ≠ [] := by
  obtain ⟨h1, h2, h3, h4, h5, h6, h7, h8⟩ := Bridge.Waiter.doc_agrees
  refine ⟨?_, h1, ?_, fun c hc => ?_, h3, fun t ht => ?_, h5, fun n hn => ?_, h7⟩
  · rw [h1]; exact Bridge.Waiter.cli_default_wiring.2.2.1 ▸ rfl
  · rw [h2, Bridge.Waiter.cliPoolDiscardOverflow_eq]
  · have := h4 c hc; rw [Bridge.Waiter.DiscardedShootCodeError_eq] at this; exact ⟨this, this⟩
  · have := h6 t ht; rw [Bridge.Waiter.DiscardedShootTag_eq] at this; exact ⟨this, this⟩
  · have := h8 n hn; rw [Bridge.Waiter.MaxOverdueDuration_eq] at this; exact this

/-! ### `Time.Sub` saturation (round 2) -/

/-- the instants of one `Wait` call lie in a window `[lo, hi]` of at most 2^63-1 ns (292 years) that begins after year 1; the cached
reading is either still the zero `time.Time` or inside the window -/
def InWindow (lo hi : Int) (w : Waiter) (e : Env) : Prop :=
  zeroTime < lo ∧ hi - lo ≤ maxDuration ∧ (w.lastNow = zeroTime ∨ (lo ≤ w.lastNow ∧ w.lastNow ≤ hi)) ∧
    lo ≤ e.now ∧ e.now ≤ hi ∧ ∀ next ∈ e.tok, lo ≤ next ∧ next ≤ hi

instance (lo hi : Int) (w : Waiter) (e : Env) : Decidable (InWindow lo hi w e) := by unfold InWindow; exact inferInstance

/-- `Wait` computed with Go's SATURATING `Time.Sub` is `Wait` computed with exact subtraction — state, result and path, both
variants — for every call whose instants lie in such a window, and the window invariant is kept by the call. So reading `Time.Sub`
as exact subtraction (as the model and the regenerated `Wait` do) loses nothing for runs shorter than 292 years. -/
theorem C04_sub_saturation (v : Variant) (lo hi : Int) (w : Waiter) (e : Env) (h : InWindow lo hi w e) :
    waitVWith satSub v w e = waitV v w e ∧ waitVWith timeSub v w e = waitV v w e ∧
    ((waitV v w e).w.lastNow = zeroTime ∨ (lo ≤ (waitV v w e).w.lastNow ∧ (waitV v w e).w.lastNow ≤ hi)) := by
  obtain ⟨hz, hspan, hl, hn1, hn2, htok⟩ := h
  have hmax : maxDuration = 9223372036854775807 := rfl
  have hmin : minDuration = -9223372036854775808 := rfl
  have hzero : zeroTime = -62135596800000000000 := rfl
  refine ⟨?_, rfl, ?_⟩
  · unfold waitVWith waitV
    by_cases hc : e.ctxDone = true
    · simp [hc]
    · cases ht : e.tok with
      | none => simp [hc]
      | some next =>
        obtain ⟨ht1, ht2⟩ := htok next (by simp [ht])
        -- against the reading of this call the subtraction is exact in both directions
        have e1 : satSub next e.now = timeSub next e.now := satSub_exact _ _ (by omega) (by omega)
        have e2 : satSub e.now next = timeSub e.now next := satSub_exact _ _ (by omega) (by omega)
        simp only [hc, Bool.false_eq_true, ↓reduceIte, e1, e2]
        rcases hl with hl | hl
        · -- `lastNow` is still the zero time: `next.Sub(zero)` saturates, but only its sign is used (positive either way)
          have s1 : ¬ satSub next w.lastNow ≤ 0 := by rw [hl]; exact satSub_pos _ _ (by omega)
          have s2 : ¬ timeSub next w.lastNow ≤ 0 := by rw [hl]; unfold timeSub; omega
          simp [s1, s2]
        · have e3 : satSub next w.lastNow = timeSub next w.lastNow := satSub_exact _ _ (by omega) (by omega)
          simp only [e3]
  · rcases waitV_lastNow v w e with h1 | h1 <;> rw [h1]
    · exact hl
    · exact Or.inr ⟨hn1, hn2⟩

/-! ### non-vacuity: concrete histories meeting the hypotheses, with the conclusions exercised -/

/-- const 10 rps, 1 s responses, one instance: tokens at 0, 0.1, 0.2, 0.3 s picked up at 0, 1, 2, 3 s -/
def demo : List Iter :=
  [ { env := { tok := some 0, pick := 0, now := 0, arm := 0, ret := 0 }, dur := 1000000000 },
    { env := { tok := some 100000000, pick := 1000000000, now := 1000000000, arm := 1000000000, ret := 1000000000 }, dur := 1000000000 },
    { env := { tok := some 200000000, pick := 2000000000, now := 2000000000, arm := 2000000000, ret := 2000000000 }, dur := 1000000000 },
    { env := { tok := some 300000000, pick := 3000000000, now := 3000000000, arm := 3000000000, ret := 3000000000 }, dur := 1000000000 },
    -- a token in the future: timer path, fires 5 µs after its time
    { env := { tok := some 4000000000, pick := 3000001000, now := 3000002000, arm := 3000003000, ret := 4000005000 }, dur := 0 } ]

example : ClockOK Waiter.init demo ∧ ReadAfterPick demo := by decide
/-- repaired: fired, fired, fired (1.8 s late), DISCARDED (2.7 s late), fired (timer) -/
example : ((runLoop .fresh true Waiter.init demo).1.map Ev.isShoot) = [true, true, true, false, true] := by decide
/-- as found: the fourth token is fired 2.7 s late -/
example : ((runLoop .cached true Waiter.init demo).1.map Ev.isShoot) = [true, true, true, true, true] := by decide
/-- discard_overflow off: all fired -/
example : ((runLoop .fresh false Waiter.init demo).1.map Ev.isShoot) = [true, true, true, true, true] := by decide
example : (drawn .fresh Waiter.init demo).length = 5 := by decide
/-- hypotheses of `C04_run_bounded` hold of `demo` with start 0, D = 4 s, R = 1 s, ε = 5 µs -/
example : (∀ it ∈ demo, ∀ next, it.env.tok = some next → next ≤ 0 + 4000000000) ∧ (∀ it ∈ demo, it.dur ≤ 1000000000) ∧
    (∀ it ∈ demo, ∀ next, it.env.tok = some next → it.env.ret ≤ max it.env.pick next + 5000) ∧
    (∀ it ∈ demo, it.ctxDoneSlow = false) := by
  refine ⟨?_, by decide, ?_, by decide⟩ <;> (intro it hit next h; simp [demo] at hit; rcases hit with rfl | rfl | rfl | rfl | rfl <;> simp at h <;> subst h <;> decide)

/-- `C04_no_early_wait`: a call that sleeps on the timer (token 1 s ahead of the reading) meets the hypotheses and returns true -/
example : EnvOK { tok := some 5000000000, pick := 3900000000, now := 4000000000, arm := 4000001000, ret := 5000002000 } ∧
    Waiter.init.lastNow ≤ 4000000000 ∧
    (waitV .fresh Waiter.init { tok := some 5000000000, pick := 3900000000, now := 4000000000, arm := 4000001000, ret := 5000002000 }).ok = true := by
  decide
/-- `C04_not_discarded_if_fresh` / `C04_late_is_discarded`: `demo` contains a discard, of a drawn token that is 2.7 s late -/
def demoLate : Iter :=
  { env := { tok := some 300000000, pick := 3000000000, now := 3000000000, arm := 3000000000, ret := 3000000000 }, dur := 1000000000 }
example : demoLate ∈ drawn .fresh Waiter.init demo ∧ demoLate.ctxDoneSlow = false ∧ demoLate.env.tok = some 300000000 ∧
    maxOverdue ≤ demoLate.env.pick - 300000000 ∧
    Ev.discard demoLate discardedShootSample ∈ (runLoop .fresh true Waiter.init demo).1 := by decide
/-- `C04_run_end_bounded`: `demo` with δ = 1 µs meets `hfirst` and `hseq` (each pick-up is at the end of the previous action) -/
example : (∀ ev, (runLoop .fresh true Waiter.init demo).1[0]? = some ev → ev.iter.env.pick ≤ 0 + 4000000000 + maxOverdue + 5000 + 1000000000) ∧
    (∀ k < 5, ∀ a ∈ (runLoop .fresh true Waiter.init demo).1[k]?, ∀ b ∈ (runLoop .fresh true Waiter.init demo).1[k + 1]?,
      b.iter.env.pick ≤ endT a + 1000) := by
  refine ⟨?_, by decide⟩
  intro ev hev
  have : ev = (runLoop .fresh true Waiter.init demo).1[0] := by
    have h0 : (runLoop .fresh true Waiter.init demo).1[0]? = some ((runLoop .fresh true Waiter.init demo).1[0]'(by decide)) :=
      List.getElem?_eq_getElem (by decide)
    rw [h0] at hev; injection hev with hev; exact hev.symm
  subst this
  decide

/-- two instances (0 and 1) share const tokens 0, 0.1, 0.2 s; instance 0 answers in 1 s: a calm interleaving -/
def pdemo : List PStep :=
  [ { inst := 0 }, { inst := 1 },
    { inst := 0, it := { env := { pick := 0, now := 0, arm := 0, ret := 0 }, dur := 1000000000 } },
    { inst := 1, it := { env := { pick := 1000, now := 2000, arm := 3000, ret := 100001000 }, dur := 1000000000 } },
    { inst := 0 },
    { inst := 0, it := { env := { pick := 1000000000, now := 1000000000, arm := 1000000000, ret := 1000000000 } } },
    { inst := 0, it := { env := { pick := 1000000000, now := 1000000000, arm := 1000000000, ret := 1000000000 } } },
    { inst := 1, it := { env := { pick := 1100001000, now := 1100001000, arm := 1100001000, ret := 1100001000 } } },
    { inst := 0 }, { inst := 1 } ]

example : ∀ s ∈ pdemo, Calm s := by decide
/-- instance 0 got tokens 0 and 0.2 s, instance 1 got 0.1 s; both have left their loops and the schedule is empty -/
example : ownToks (prun (PState.init [0, 100000000, 200000000]) pdemo) 0 = [0, 200000000] ∧
    ownToks (prun (PState.init [0, 100000000, 200000000]) pdemo) 1 = [100000000] ∧
    (prun (PState.init [0, 100000000, 200000000]) pdemo).phase 0 = .exited ∧
    (prun (PState.init [0, 100000000, 200000000]) pdemo).phase 1 = .exited ∧
    (poolEvents .fresh false [0, 100000000, 200000000] pdemo 0).length = 2 := by decide
example : ClockOK Waiter.init ((prun (PState.init [0, 100000000, 200000000]) pdemo).hist 0) ∧
    ReadAfterPick ((prun (PState.init [0, 100000000, 200000000]) pdemo).hist 0) := by decide

end Pandora.Props.C04

namespace Pandora.Props.C04
open Pandora.Go.C04 Pandora.Model.C04 Pandora.Proofs.C04

/-! ### non-vacuity, round 2 -/

/-- a closed world: const 10 rps for 0.5 s (tokens 0 … 0.4 s), one instance, responses 1 s, 1 s, 3 s, 0, 0; 1 µs loop overhead, 2 µs
reading lag -/
def simToks : List Int := [0, 100000000, 200000000, 300000000, 400000000]
def simDelays : List Delays :=
  [ { dPick := 1000, dNow := 2000, dur := 1000000000 }, { dPick := 1000, dNow := 2000, dur := 1000000000 },
    { dPick := 1000, dNow := 2000, dur := 3000000000 }, { dPick := 1000, dNow := 2000 }, { dPick := 1000, dNow := 2000 } ]

/-- on: fired, fired (0.9 s late), fired (1.8 s late), DISCARDED (4.7 s late), DISCARDED; the loop ends -/
example : (runLoop .fresh true Waiter.init (simHist .fresh true Waiter.init 0 simToks simDelays)).1.map Ev.isShoot =
    [true, true, true, false, false] ∧
    (runLoop .fresh true Waiter.init (simHist .fresh true Waiter.init 0 simToks simDelays)).2 = .loopEnd := by decide
/-- off: all five fired -/
example : (runLoop .fresh false Waiter.init (simHist .fresh false Waiter.init 0 simToks simDelays)).1.map Ev.isShoot =
    [true, true, true, true, true] := by decide
/-- hypotheses of `C04_sim_run_bounded` (start 0, D = 0.4 s, R = 3 s, ε = 2 µs, δ = 1 µs) and of `C04_sim_off_all_fired` -/
example : simToks.length ≤ simDelays.length ∧ Waiter.init.lastNow ≤ 0 ∧ (∀ tok ∈ simToks, tok ≤ 0 + 400000000) ∧
    (∀ p ∈ simDelays, (p.dur : Int) ≤ 3000000000 ∧ (p.dPick : Int) ≤ 1000 ∧ (p.dNow : Int) + p.dArm + p.dLag ≤ 2000) ∧
    (0 : Int) ≤ 0 + 400000000 + maxOverdue + 2000 + 3000000000 := by decide
/-- a timer-path world: the token lies 1 s ahead, the timer fires 5 µs late; the shot is not early -/
example : (runLoop .fresh true Waiter.init (simHist .fresh true Waiter.init 0 [1000000000] [{ dNow := 10, dArm := 20, dLag := 5000 }])).1.map
    (fun ev => ev.iter.env.ret) = [1000005020] := by decide

/-- `C04_sub_saturation`: the first call of a run (cached reading = zero time) in a window of one day starting in 2026 -/
example : InWindow 1790000000000000000 1790086400000000000 Waiter.init
    { tok := some 1790000001000000000, now := 1790000003500000000, arm := 1790000003500000000, ret := 1790000003500000000 } ∧
    satSub 1790000001000000000 Waiter.init.lastNow = maxDuration ∧
    timeSub 1790000001000000000 Waiter.init.lastNow ≠ maxDuration := by decide

/-- `C04_pool_progress`: in `pdemo` (3 tokens) instance 0 moves 6 times... the hypothesis needs 8: a longer fair run -/
def pfair : List PStep := (List.range 16).map (fun k => ({ inst := k % 2 } : PStep))
example : (∀ s ∈ pfair, Calm s) ∧ 2 * [0, 100000000, 200000000].length + 2 ≤ stepsOf pfair 0 ∧
    (prun (PState.init [0, 100000000, 200000000]) pfair).phase 0 = .exited ∧
    (prun (PState.init [0, 100000000, 200000000]) pfair).phase 1 = .exited := by decide

/-- `C04_cancel_one_late_shot`: a run cancelled while the instance is in its second shot; the third token (3 s late) is picked
up, `IsSlowDown` sees the done context, the token is fired, and the loop ends at the next `IsFinished` -/
def cancelDemo : List Iter :=
  [ { env := { tok := some 0, pick := 0, now := 0, arm := 0, ret := 0 }, dur := 1000000000 },
    { env := { tok := some 100000000, pick := 1000000000, now := 1000000000, arm := 1000000000, ret := 1000000000 }, dur := 2100000000 },
    { env := { tok := some 200000000, pick := 3200000000, now := 3200000000, arm := 3200000000, ret := 3200000000 }, ctxDoneSlow := true },
    { finished := true, env := { pick := 3300000000, now := 3300000000, arm := 3300000000, ret := 3300000000 } } ]
example : ClockOK Waiter.init cancelDemo ∧ ReadAfterPick cancelDemo ∧ CtxMono cancelDemo ∧
    (runLoop .fresh true Waiter.init cancelDemo).1.map Ev.isShoot = [true, true, true] := by decide

end Pandora.Props.C04

namespace Pandora.Props.C04
open Pandora.Go.C04 Pandora.Model.C04 Pandora.Proofs.C04

/-! ### round 3: the timer of a Waiter -/

/-- The timer of a Waiter never holds a stale tick when it is armed: for every history in which a done context stays done
(`CtxSticky`: `instance.Run` and `startInstances` pass one context to every call) and every waiter whose timer channel is empty at the
start (a new Waiter has no timer at all), every call of `Wait` that arms the timer (paths `timer`, `timerCancel`) finds the
channel empty — either variant, any tokens, any clock. So the only tick `<-w.timer.C` can receive is the one of the current arming. -/
theorem C04_timer_channel_empty_at_arm (v : Variant) (w : Waiter) (tm : TimerSt) (h : List Iter) (hs : CtxSticky h)
    (hf : tm.stale = false) :
    ∀ p ∈ timerTrace v w tm h, (p.2.path = .timer ∨ p.2.path = .timerCancel) → p.1.stale = false :=
  timerTrace_not_stale v w tm h hs (Or.inl hf)

/-- "No request is fired before its scheduled time" with the timer hypothesis reduced to timers armed on an EMPTY channel
(`ClockOKT`: nothing is assumed about a `<-w.timer.C` whose channel may hold an older tick): the lifecycle of `w.timer` in `Wait`
(lazily created, re-armed by `Reset`, received only in the final `select`) guarantees that such a channel never occurs. -/
theorem C04_no_early_fresh_timer (v : Variant) (d : Bool) (w : Waiter) (tm : TimerSt) (h : List Iter) (hs : CtxSticky h)
    (hf : tm.stale = false) (hc : ClockOKT v w tm h) :
    ∀ ev ∈ (runLoop v d w h).1, ∃ next, ev.iter.env.tok = some next ∧ next ≤ ev.iter.env.ret :=
  C04_no_early v d w h (clockOKT_clockOK v w tm h hs hf hc)

/-- the same WITHOUT the hypothesis that a done context stays done -/
def C04_no_early_any_ctx_statement : Prop :=
  ∀ (v : Variant) (d : Bool) (w : Waiter) (tm : TimerSt) (h : List Iter), tm.stale = false → ClockOKT v w tm h →
    ∀ ev ∈ (runLoop v d w h).1, ∃ next, ev.iter.env.tok = some next ∧ next ≤ ev.iter.env.ret

/-- It is false: a Waiter whose sleep was cancelled and that is then used with ANOTHER, live context re-arms its timer with `Reset`
while the tick of the cancelled sleep may sit in the channel (`go 1.21` timers), and the next sleep ends at once: the token scheduled
at 3 s is released at 2 s. Nothing in /repo does that (`CtxSticky` holds of `instance.Run` and `startInstances`); it is the reason
why the hypothesis is there, and why a timer shared between waiters breaks the property. -/
theorem C04_no_early_any_ctx_counterexample : ¬ C04_no_early_any_ctx_statement := by
  intro hs
  let i1 : Iter := { env := { tok := some 1000000000, pick := 0, now := 0, arm := 0, timerWins := false, ret := 500000000 } }
  let i2 : Iter := { env := { tok := some 3000000000, pick := 2000000000, now := 2000000000, arm := 2000000000, timerWins := true,
                              ret := 2000000000 } }
  have h := hs .fresh true Waiter.init {} [i1, i2] (by decide) (by decide) (Ev.shoot i2) (by decide)
  revert h
  decide

/-- `Wait` with the timer (`waitT`) is `waitV` with the timer state threaded through, and the regenerated `WaitT` — the current
source with its three statements about `w.timer` (lazy `NewTimer`, `Reset`, the receive in the final `select`) — is `waitT`;
`NewWaiter` sets nothing but the schedule (no timer, zero `lastNow`, zero overdue), nothing else in the package touches the timer, and
`instance.Run` passes its own context parameter, never re-bound, to every call of the waiter (so `CtxSticky` / `CtxMono` hold of it). -/
theorem C04_timer_is_source (w : Waiter) (tm : TimerSt) (e : Env) :
    Gen.Waiter.WaitT w tm e = waitT .fresh w tm e ∧
    waitT .fresh w tm e = ((waitV .fresh w e).w, timerAfter tm (waitV .fresh w e), (waitV .fresh w e).ok) ∧
    Gen.Waiter.newWaiterFields = ["sched"] ∧ Gen.Waiter.timerOtherUses = 0 ∧
    (({} : TimerSt).stale = false) ∧
    Gen.Waiter.runWaiterCallArgs = [Gen.Waiter.runCtxParam] ∧ Gen.Waiter.runCtxRebound = 0 :=
  ⟨Bridge.Waiter.WaitT_eq w tm e, waitT_eq .fresh w tm e, Bridge.Waiter.newWaiter_wiring.1, Bridge.Waiter.newWaiter_wiring.2, rfl,
    Bridge.Waiter.run_ctx_wiring.1, Bridge.Waiter.run_ctx_wiring.2⟩

/-! ### round 3: `Time.Sub` saturation, the whole run -/

/-- The WHOLE loop of `instance.Run` computed with Go's saturating `Time.Sub` is the loop computed with exact subtraction — actions
and exit, both variants, discard_overflow on or off — for every history whose clock readings and token times lie in a window of at
most 2^63-1 ns (292 years) that begins after year 1 (the waiter's cached reading being the zero time or inside the window). -/
theorem C04_sub_saturation_run (v : Variant) (d : Bool) (lo hi : Int) (w : Waiter) (h : List Iter)
    (hz : zeroTime < lo) (hspan : hi - lo ≤ maxDuration)
    (hw : w.lastNow = zeroTime ∨ (lo ≤ w.lastNow ∧ w.lastNow ≤ hi))
    (hh : ∀ it ∈ h, lo ≤ it.env.now ∧ it.env.now ≤ hi ∧ ∀ next ∈ it.env.tok, lo ≤ next ∧ next ≤ hi) :
    runLoopWith satSub v d w h = runLoop v d w h := by
  induction h generalizing w with
  | nil => simp [runLoopWith, runLoop]
  | cons it rest ih =>
    obtain ⟨h1, h2, h3⟩ := hh it (by simp)
    obtain ⟨e1, _, e3⟩ := C04_sub_saturation v lo hi w it.env ⟨hz, hspan, hw, h1, h2, h3⟩
    have hrest := ih (waitV v w it.env).w e3 (fun x hx => hh x (by simp [hx]))
    unfold runLoopWith runLoop
    simp only [e1, hrest]

/-! ### round 3: the length of a run of a POOL -/

/-- `C04_run_bounded` with the hypotheses asked only of the passes in which a token was drawn and waited for -/
theorem C04_run_bounded_of_drawn (w : Waiter) (h : List Iter) (start D R ε : Int) (hc : ClockOK w h) (hp : ReadAfterPick h)
    (htoks : ∀ it ∈ drawn .fresh w h, ∀ next, it.env.tok = some next → next ≤ start + D)
    (hresp : ∀ it ∈ drawn .fresh w h, it.dur ≤ R)
    (hlag : ∀ it ∈ drawn .fresh w h, ∀ next, it.env.tok = some next → it.env.ret ≤ max it.env.pick next + ε)
    (hctx : ∀ it ∈ drawn .fresh w h, it.ctxDoneSlow = false) :
    ∀ it, Ev.shoot it ∈ (runLoop .fresh true w h).1 → it.env.ret + it.dur < start + D + maxOverdue + ε + R := by
  intro it hev
  have hmem : it ∈ drawn .fresh w h := by
    rw [← C04_every_drawn_token_acted .fresh true w h, List.mem_map]
    exact ⟨_, hev, rfl⟩
  obtain ⟨next, htok, _⟩ := C04_no_early .fresh true w h hc _ hev
  simp only [Ev.iter] at htok
  have hlate := C04_discarded_if_late w h hc hp it hev (hctx it hmem) next htok
  have h1 := htoks it hmem next htok
  have h2 := hresp it hmem
  have h3 := hlag it hmem next htok
  have : max it.env.pick next < start + D + maxOverdue := by
    rcases Int.le_total it.env.pick next with hle | hle
    · rw [Int.max_eq_right hle]; unfold maxOverdue; omega
    · rw [Int.max_eq_left hle]; omega
  omega

/-- The run length for ANY number of instances on one shared schedule (REPAIRED `Wait`, discard_overflow on, no cancellation): if
the tokens of the PROFILE lie in `[_, start + D]` — a hypothesis about the profile, not about what the instances drew: every token an
instance gets is a token of the profile (`C04_pool_conservation`) — then every shot of every instance ends before
`start + D + 2 s + ε + R`, under the clock hypotheses for that instance's own passes, whatever the interleaving and however slow
the target is. -/
theorem C04_pool_run_bounded (toks : List Int) (steps : List PStep) (hs : ∀ s ∈ steps, Calm s) (i : Nat) (start D R ε : Int)
    (htoks : ∀ t ∈ toks, t ≤ start + D)
    (hc : ClockOK Waiter.init ((prun (PState.init toks) steps).hist i))
    (hp : ReadAfterPick ((prun (PState.init toks) steps).hist i))
    (hresp : ∀ it ∈ (prun (PState.init toks) steps).hist i, it.dur ≤ R)
    (hlag : ∀ it ∈ (prun (PState.init toks) steps).hist i, ∀ next, it.env.tok = some next →
      it.env.ret ≤ max it.env.pick next + ε)
    (hctx : ∀ it ∈ (prun (PState.init toks) steps).hist i, it.ctxDoneSlow = false) :
    ∀ it, Ev.shoot it ∈ poolEvents .fresh true toks steps i → it.env.ret + it.dur < start + D + maxOverdue + ε + R := by
  have hsub := drawn_mem .fresh Waiter.init ((prun (PState.init toks) steps).hist i)
  refine C04_run_bounded_of_drawn Waiter.init _ start D R ε hc hp (fun it hit next htok => ?_)
    (fun it hit => hresp it (hsub it hit)) (fun it hit => hlag it (hsub it hit)) (fun it hit => hctx it (hsub it hit))
  apply htoks
  apply ownToks_subset toks steps i
  rw [← (prun_inv .fresh _ steps (PInv.init .fresh toks) hs).drawnEq i, List.mem_map]
  exact ⟨it, hit, by simp [Iter.tok, htok]⟩

/-! ### round 4: the closed world of a POOL (`Model/C04PoolSim.lean`)

Any number of instances on one shared schedule, each with its own clock and its own start instant `t0 i` (late starters), the steps
`cs : List (Nat × Delays)` = which instance makes its next pass, with which delays — an arbitrary interleaving.  The clock hypotheses of
the pool theorems of round 1-3 (`C04_pool_timing`, `C04_pool_run_bounded`: `ClockOK` … per instance) are DISCHARGED here: they hold in
every such world. -/

/-- Every instance of a pool lives in the single-instance closed world over the tokens it was handed: its history is `simHist` from a
new Waiter at its start instant, over its own tokens (tokens of the profile, one delay record each). -/
theorem C04_pool_sim_is_sim (d : Bool) (toks : List Int) (t0 : Nat → Int) (cs : List (Nat × Delays)) (i : Nat) :
    psimHist d toks t0 cs i = simHist .fresh d Waiter.init (t0 i) (psimOwn i toks cs) (psimDelays i toks cs) ∧
    (∀ t ∈ psimOwn i toks cs, t ∈ toks) ∧
    (psimOwn i toks cs).length = (psimDelays i toks cs).length := by
  refine ⟨?_, psimOwn_subset i toks cs, psimOwn_length i toks cs⟩
  have := psim_hist d i cs (PSim.init toks t0)
  simpa [psimHist, PSim.init] using this

/-- The clock hypotheses of all the theorems above hold of every instance's history in every closed world of a pool (instances that
start after year 1, i.e. after the zero `time.Time` of a new Waiter's cached reading). -/
theorem C04_pool_sim_meets_hypotheses (d : Bool) (toks : List Int) (t0 : Nat → Int) (cs : List (Nat × Delays)) (i : Nat)
    (h0 : zeroTime ≤ t0 i) :
    ClockOK Waiter.init (psimHist d toks t0 cs i) ∧ ReadAfterPick (psimHist d toks t0 cs i) := by
  rw [(C04_pool_sim_is_sim d toks t0 cs i).1]
  exact C04_sim_meets_hypotheses .fresh d Waiter.init (t0 i) _ _ h0

/-- The decisions of every instance of a pool, discard_overflow on, with NO hypothesis left about clocks: no action before the token's
time; a token picked up two seconds or more late is not fired; a discarded token was at least two seconds late when it was reported;
every token the instance was handed is acted on exactly once, in order. -/
theorem C04_pool_sim_decisions (toks : List Int) (t0 : Nat → Int) (cs : List (Nat × Delays)) (i : Nat) (h0 : zeroTime ≤ t0 i) :
    (∀ ev ∈ (runLoop .fresh true Waiter.init (psimHist true toks t0 cs i)).1,
      ∃ next, ev.iter.env.tok = some next ∧ next ≤ ev.iter.env.ret) ∧
    (∀ it, Ev.shoot it ∈ (runLoop .fresh true Waiter.init (psimHist true toks t0 cs i)).1 →
      ∀ next, it.env.tok = some next → it.env.pick - next < maxOverdue) ∧
    (∀ it s, Ev.discard it s ∈ (runLoop .fresh true Waiter.init (psimHist true toks t0 cs i)).1 →
      ∃ next, it.env.tok = some next ∧ maxOverdue ≤ it.env.ret - next) ∧
    (runLoop .fresh true Waiter.init (psimHist true toks t0 cs i)).1.map (fun ev => ev.iter.tok) = psimOwn i toks cs := by
  obtain ⟨hc, hp⟩ := C04_pool_sim_meets_hypotheses true toks t0 cs i h0
  refine ⟨C04_no_early .fresh true _ _ hc, fun it hev next htok => ?_, C04_not_discarded_if_fresh .fresh _ _ hc, ?_⟩
  · refine C04_discarded_if_late _ _ hc hp it hev ?_ next htok
    -- in the closed world nothing is cancelled: every generated pass has `ctxDoneSlow = false`
    have hmem : it ∈ psimHist true toks t0 cs i := by
      have : it ∈ drawn .fresh Waiter.init (psimHist true toks t0 cs i) := by
        rw [← C04_every_drawn_token_acted .fresh true, List.mem_map]
        exact ⟨_, hev, rfl⟩
      exact drawn_mem .fresh Waiter.init _ it this
    rw [(C04_pool_sim_is_sim true toks t0 cs i).1] at hmem
    exact simHist_ctxDoneSlow .fresh true _ _ _ _ it hmem
  · rw [(C04_pool_sim_is_sim true toks t0 cs i).1]
    exact (C04_sim_terminates .fresh true Waiter.init (t0 i) _ _ (Nat.le_of_eq (C04_pool_sim_is_sim true toks t0 cs i).2.2)).2

/-- The run length of a POOL in the closed world, discard_overflow on, any instance count, any interleaving, late starters included: if
the tokens of the PROFILE lie in `[_, start + D]`, the responses instance `i` sees take at most `R`, its loop overhead before a pick-up
at most `δ` and reading + arming + timer lag at most `ε`, and it enters its loop before `B = start + D + 2 s + ε + R`, then its loop ends
through `IsFinished`, and its `k`-th action (a Shoot until its response, or a discard report) is over by `B + (k+1)(δ+ε)`. No
hypothesis about clock readings, about the other instances, or about which tokens the instance gets. -/
theorem C04_pool_sim_run_bounded (toks : List Int) (t0 : Nat → Int) (cs : List (Nat × Delays)) (i : Nat) (start D R ε δ : Int)
    (hε : 0 ≤ ε) (hδ : 0 ≤ δ) (hR : 0 ≤ R) (h0 : zeroTime ≤ t0 i)
    (htoks : ∀ tok ∈ toks, tok ≤ start + D)
    (hps : ∀ c ∈ cs, c.1 = i → (c.2.dur : Int) ≤ R ∧ (c.2.dPick : Int) ≤ δ ∧ (c.2.dNow : Int) + c.2.dArm + c.2.dLag ≤ ε)
    (ht : t0 i ≤ start + D + maxOverdue + ε + R) :
    (runLoop .fresh true Waiter.init (psimHist true toks t0 cs i)).2 = .loopEnd ∧
    (∀ k ev, (runLoop .fresh true Waiter.init (psimHist true toks t0 cs i)).1[k]? = some ev →
      endT ev ≤ chainBound (start + D + maxOverdue + ε + R) (δ + ε) k) := by
  obtain ⟨heq, hsub, hlen⟩ := C04_pool_sim_is_sim true toks t0 cs i
  rw [heq]
  have := C04_sim_run_bounded Waiter.init (t0 i) start D R ε δ (psimOwn i toks cs) (psimDelays i toks cs) hε hδ hR
    (Nat.le_of_eq hlen) h0 (fun tok h => htoks tok (hsub tok h))
    (fun p hp => by
      obtain ⟨c, hc, h1, h2⟩ := psimDelays_subset i toks cs p hp
      subst h2
      exact hps c hc h1) ht
  exact ⟨this.1, this.2.2⟩

/-- discard_overflow OFF, pool, closed world: every token an instance is handed is fired (none discarded), in order, and its loop ends. -/
theorem C04_pool_sim_off_all_fired (toks : List Int) (t0 : Nat → Int) (cs : List (Nat × Delays)) (i : Nat) :
    (runLoop .fresh false Waiter.init (psimHist false toks t0 cs i)).2 = .loopEnd ∧
    (∀ ev ∈ (runLoop .fresh false Waiter.init (psimHist false toks t0 cs i)).1, ev.isShoot = true) ∧
    (runLoop .fresh false Waiter.init (psimHist false toks t0 cs i)).1.map (fun ev => ev.iter.tok) = psimOwn i toks cs := by
  obtain ⟨heq, _, hlen⟩ := C04_pool_sim_is_sim false toks t0 cs i
  rw [heq]
  obtain ⟨h1, h2⟩ := C04_sim_terminates .fresh false Waiter.init (t0 i) _ _ (Nat.le_of_eq hlen)
  refine ⟨h1, fun ev hev => ?_, h2⟩
  rw [C04_off, List.mem_map] at hev
  obtain ⟨_, _, rfl⟩ := hev
  rfl

/-- Every step of the world hands out exactly one token (the head of the schedule) until none is left: after `|profile|` steps — made by
whichever instances — the whole profile has been handed out, each token to exactly one instance, and instance `i` got as many tokens as it
made steps on the non-empty schedule. -/
theorem C04_pool_sim_all_handed_out (d : Bool) (toks : List Int) (t0 : Nat → Int) (cs : List (Nat × Delays)) :
    (psim d (PSim.init toks t0) cs).sched = toks.drop cs.length ∧
    (toks.length ≤ cs.length → (psim d (PSim.init toks t0) cs).sched = []) ∧
    (∀ i, (psimOwn i toks cs).length = ((cs.take toks.length).filter (fun c => c.1 = i)).length) := by
  have h := psim_sched d cs (PSim.init toks t0)
  refine ⟨h, fun hl => ?_, fun i => psimOwn_total toks cs i⟩
  rw [h]
  exact List.drop_eq_nil_of_le hl

/-! ### round 3: the discarded sample in a phout line -/

/-- What a consumer of the phout file sees of a discarded token: the line has `2 + fieldsNum` = 12 TAB-separated columns; column 1
is the tag `discarded` (followed by `#<id>` when ids are printed), column `2 + keyErrno` = 10 is `777`, and every other numeric
column — the protocol code in the last one included — is `0`: not a response of the target. The indices are the REGENERATED
`keyErrno`, `keyProtoCode`, `fieldsNum` of the `iota` block; `SetUserNet` stores under `keyErrno`, `set` is the plain store and
`appendPhout` prints time stamp, tags, `#id`, then the fields in index order. -/
theorem C04_discard_sample_phout (ts : String) (id : Bool) :
    (phoutColumns ts discardedPhSample id).length = 12 ∧
    (phoutColumns ts discardedPhSample false)[1]? = some "discarded" ∧
    (phoutColumns ts discardedPhSample true)[1]? = some "discarded#0" ∧
    (phoutColumns ts discardedPhSample id)[phoutNetColumn]? = some "777" ∧ phoutNetColumn = 10 ∧
    (∀ k, 2 ≤ k → k < 12 → k ≠ phoutNetColumn → (phoutColumns ts discardedPhSample id)[k]? = some "0") ∧
    discardedPhSample.tags = discardedShootSample.tags ∧ discardedPhSample.fields[phKeyErrno]? = some discardedShootSample.net ∧
    Gen.Waiter.phKeyErrno = phKeyErrno ∧ Gen.Waiter.phKeyProtoCode = phKeyProtoCode ∧ Gen.Waiter.phFieldsNum = phFieldsNum ∧
    Gen.Waiter.phSetUserNetKey = "keyErrno" ∧ Gen.Waiter.phSetBody = "s.fields[k] = v" ∧
    Gen.Waiter.phoutLayout = ["timestamp", "TAB", "tags", "#id", "TAB+field*"] := by
  obtain ⟨g1, g2, g3, g4, g5, g6⟩ := Bridge.Waiter.phout_wiring
  have hcols : ∀ b : Bool, phoutColumns ts discardedPhSample b =
      ts :: (if b then "discarded#0" else "discarded") :: ["0", "0", "0", "0", "0", "0", "0", "0", "777", "0"] := by
    intro b; cases b <;> rfl
  refine ⟨by rw [hcols]; rfl, by rw [hcols]; rfl, by rw [hcols]; rfl, by rw [hcols]; rfl, rfl, ?_, rfl, by decide,
    g1, g2, g3, g4, g5, g6⟩
  intro k h2 h12 hne
  have hk : k = 2 ∨ k = 3 ∨ k = 4 ∨ k = 5 ∨ k = 6 ∨ k = 7 ∨ k = 8 ∨ k = 9 ∨ k = 11 := by
    have : phoutNetColumn = 10 := rfl
    omega
  rw [hcols]
  rcases hk with rfl | rfl | rfl | rfl | rfl | rfl | rfl | rfl | rfl <;> rfl

/-! ### round 3: the cached clock reading is only an optimisation -/

/-- REPAIRED `Wait`: the cached reading `lastNow` decides nothing. For two waiters whose cached readings are both not ahead of the
clock, the same call (context alive, a token handed out) returns the same answer, records the same overdue and leaves the same
cached reading — the one taken in this call — behind: every decision of `runLoop .fresh` is a function of the token times and the
clock readings alone, the cache only selects the path. The code as found does not have this property (`waitOld` records
`lastNow - next` on the `cachedNow` path: `C04_discarded_if_late_counterexample_old`). -/
theorem C04_cached_reading_is_an_optimisation (w1 w2 : Waiter) (e : Env) (h1 : w1.lastNow ≤ e.now) (h2 : w2.lastNow ≤ e.now)
    (htok : e.ctxDone = false → e.tok ≠ none) :
    (waitV .fresh w1 e).ok = (waitV .fresh w2 e).ok ∧ (waitV .fresh w1 e).w.overdue = (waitV .fresh w2 e).w.overdue ∧
    (e.ctxDone = false → (waitV .fresh w1 e).w.lastNow = e.now ∧ (waitV .fresh w2 e).w.lastNow = e.now) := by
  unfold waitV
  by_cases hc : e.ctxDone = true
  · simp [hc]
  · cases ht : e.tok with
    | none => exact absurd ht (htok (by simpa using hc))
    | some next =>
      simp only [hc, timeSub]
      by_cases a1 : next - w1.lastNow ≤ 0 <;> by_cases a2 : next - w2.lastNow ≤ 0 <;> by_cases a3 : next - e.now ≤ 0 <;>
        by_cases a4 : e.timerWins = true <;> simp [a1, a2, a3, a4] <;> omega

/-! ### non-vacuity, round 3 -/

/-- a run that is cancelled while the instance sleeps on its timer: the sleep is left through `ctx.Done()`, the next call of `Wait`
(if the loop got that far) finds the context done -/
def stickyDemo : List Iter :=
  [ { env := { tok := some 0, pick := 0, now := 0, arm := 0, ret := 0 }, dur := 100000000 },
    { env := { tok := some 1000000000, pick := 100001000, now := 100002000, arm := 100003000, ret := 1000004000 }, dur := 0 },
    { env := { tok := some 2000000000, pick := 1000005000, now := 1000006000, arm := 1000007000, timerWins := false, ret := 1500000000 } },
    { env := { ctxDone := true, pick := 1500001000, now := 1500001000, arm := 1500001000, ret := 1500001000 } } ]

example : CtxSticky stickyDemo ∧ ({} : TimerSt).stale = false ∧ ClockOKT .fresh Waiter.init {} stickyDemo ∧
    (timerTrace .fresh Waiter.init {} stickyDemo).map (fun p => (p.1.stale, p.2.path)) =
      [(false, .freshNow), (false, .timer), (false, .timerCancel), (true, .ctxDone)] ∧
    ((runLoop .fresh true Waiter.init stickyDemo).1.map Ev.isShoot) = [true, true] := by decide

/-- `C04_sub_saturation_run`: `demo` shifted into 2026 lies in a window of one day; its first call really saturates -/
def demo2026 : List Iter := demo.map fun it =>
  { it with env := { it.env with tok := it.env.tok.map (· + 1790000000000000000), pick := it.env.pick + 1790000000000000000,
                                 now := it.env.now + 1790000000000000000, arm := it.env.arm + 1790000000000000000,
                                 ret := it.env.ret + 1790000000000000000 } }
example : zeroTime < 1790000000000000000 ∧ (1790086400000000000 : Int) - 1790000000000000000 ≤ maxDuration ∧
    (∀ it ∈ demo2026, (1790000000000000000 : Int) ≤ it.env.now ∧ it.env.now ≤ 1790086400000000000 ∧
      ∀ next ∈ it.env.tok, (1790000000000000000 : Int) ≤ next ∧ next ≤ 1790086400000000000) ∧
    ((runLoopWith satSub .fresh true Waiter.init demo2026).1.map Ev.isShoot) = [true, true, true, false, true] := by decide

/-- `C04_pool_run_bounded`: `pdemo` (tokens ≤ 0 + 0.2 s, responses ≤ 1 s, ε = 1 ms) meets the hypotheses for instance 1 -/
example : (∀ t ∈ [(0 : Int), 100000000, 200000000], t ≤ 0 + 200000000) ∧
    (∀ it ∈ (prun (PState.init [0, 100000000, 200000000]) pdemo).hist 1, it.dur ≤ 1000000000) ∧
    (∀ it ∈ (prun (PState.init [0, 100000000, 200000000]) pdemo).hist 1, ∀ next ∈ it.env.tok,
      it.env.ret ≤ max it.env.pick next + 1000000) ∧
    (∀ it ∈ (prun (PState.init [0, 100000000, 200000000]) pdemo).hist 1, it.ctxDoneSlow = false) ∧
    ClockOK Waiter.init ((prun (PState.init [0, 100000000, 200000000]) pdemo).hist 1) ∧
    ReadAfterPick ((prun (PState.init [0, 100000000, 200000000]) pdemo).hist 1) ∧
    (poolEvents .fresh true [0, 100000000, 200000000] pdemo 1).map Ev.isShoot = [true] := by decide

/-- `C04_cached_reading_is_an_optimisation`: a stale and a fresh cached reading, a token 2.5 s late -/
example : (waitV .fresh { lastNow := 0, overdue := 7 } { tok := some 500000000, now := 3000000000, arm := 3000000000, ret := 3000000000 }).w =
    (waitV .fresh { lastNow := 2999999999, overdue := 0 } { tok := some 500000000, now := 3000000000, arm := 3000000000, ret := 3000000000 }).w := by
  decide

/-- round 4, `C04_pool_sim_*`: two instances on one profile of six tokens 100 ms apart; instance 1 starts 0.8 s late; instance 0's first
request takes 3 s, so the token it is handed next (0.4 s) is 2.6 s late and is discarded, while instance 1 (0.1 s responses) fires the
four tokens it gets -/
def psToks : List Int := [0, 100000000, 200000000, 300000000, 400000000, 500000000]
def psT0 : Nat → Int := fun i => if i = 0 then 0 else 800000000
def psSteps : List (Nat × Delays) :=
  [(0, { dPick := 1000, dNow := 10, dArm := 10, dLag := 5000, dur := 3000000000 }),
   (1, { dPick := 1000, dNow := 10, dArm := 10, dLag := 5000, dur := 100000000 }),
   (1, { dPick := 1000, dNow := 10, dArm := 10, dLag := 5000, dur := 100000000 }),
   (1, { dPick := 1000, dNow := 10, dArm := 10, dLag := 5000, dur := 100000000 }),
   (0, { dPick := 1000, dNow := 10, dArm := 10, dLag := 5000, dur := 3000000000 }),
   (1, { dPick := 1000, dNow := 10, dArm := 10, dLag := 5000, dur := 100000000 })]
example : psimOwn 0 psToks psSteps = [0, 400000000] ∧ psimOwn 1 psToks psSteps = [100000000, 200000000, 300000000, 500000000] ∧
    (runLoop .fresh true Waiter.init (psimHist true psToks psT0 psSteps 0)).1.map Ev.isShoot = [true, false] ∧
    (runLoop .fresh true Waiter.init (psimHist true psToks psT0 psSteps 1)).1.map Ev.isShoot = [true, true, true, true] ∧
    (runLoop .fresh false Waiter.init (psimHist false psToks psT0 psSteps 0)).1.map Ev.isShoot = [true, true] ∧
    (psim true (PSim.init psToks psT0) psSteps).sched = [] := by decide
/-- the hypotheses of `C04_pool_sim_run_bounded` for both instances (start 0, D = 0.5 s, R = 3 s, ε = 6 µs, δ = 1 µs) -/
example : zeroTime ≤ psT0 0 ∧ zeroTime ≤ psT0 1 ∧ (∀ tok ∈ psToks, tok ≤ 0 + 500000000) ∧
    (∀ c ∈ psSteps, (c.2.dur : Int) ≤ 3000000000 ∧ (c.2.dPick : Int) ≤ 1000 ∧ (c.2.dNow : Int) + c.2.dArm + c.2.dLag ≤ 6000) ∧
    psT0 1 ≤ 0 + 500000000 + maxOverdue + 6000 + 3000000000 := by decide

end Pandora.Props.C04

namespace Pandora.Props.C04
open Pandora.Go.C04 Pandora.Model.C04 Pandora.Proofs.C04

/-! ### round 6: composition with the load profile (C01's regenerated schedule constructors and start protocol)

The theorems above speak about "the token's time" - whatever instant the schedule handed to the instance. The property speaks
about the request's SCHEDULED time, which the configured load profile defines. C01 proves, over `Gen.Schedule` /
`Gen.SchedConc` (regenerated from core/schedule on every check, areas `schedule` and `schedconc`, now also regenerated for
C04), what the schedules hand out; here the two are composed. -/

section profile
open Pandora Pandora.Gen.Schedule Pandora.Bridge.Schedule

/-- **profile → waiter** (any leaf that realises a profile: by `C01_const` / `C01_line` every accepted const and line
configuration, fractional-second durations included): the started schedule answers call `j < n` with `t0 + at_ j`, where
`at_ j` is the ns-truncation of the EARLIEST instant `x` at which the integral `c` of the configured rate reaches `j`; and
whatever the state of the Waiter and whichever variant, a `Wait` that was handed that answer returns true not before
`t0 + ⌊x·10⁹⌋`: no request is fired before the instant the PROFILE schedules it. -/
theorem C04_profile_no_early (s : Sched) (c : ℝ → ℝ) (D : ℤ) (hs : C01.Realises s c D) :
    ∃ (n : ℤ) (at_ : ℤ → ℤ), s = Sched.doAt D n at_ ∧ n = ⌊c (secs D)⌋ ∧
      ∀ (t0 : ℤ) (nows : List ℤ) (j : ℕ), j < nows.length → (j : ℤ) < n →
        ∃ rs, C01.startAndDrain D n at_ t0 nows = Except.ok rs ∧ rs[j]? = some (t0 + at_ j, true) ∧
          ∃ x : ℝ, C01.EarliestAt c D j x ∧ at_ j = ⌊x * 1000000000⌋ ∧
            ∀ (v : Variant) (w : Waiter) (e : Env), EnvOK e → w.lastNow ≤ e.now → e.tok = some (t0 + at_ j) →
              (waitV v w e).ok = true → t0 + ⌊x * 1000000000⌋ ≤ e.ret := by
  obtain ⟨n, at_, rfl, hn, hk⟩ := hs
  refine ⟨n, at_, rfl, hn, ?_⟩
  intro t0 nows j hj hjn
  refine ⟨_, C01.C01_leaf_run D n at_ t0 nows, ?_, ?_⟩
  · have : ¬ n ≤ (j : ℤ) := by omega
    simp [hj, this]
  · obtain ⟨x, hx, hat, _, _⟩ := hk (j : ℤ) (by omega) hjn
    refine ⟨x, by simpa using hx, hat, ?_⟩
    intro v w e hok hinv htok hwait
    obtain ⟨next, h1, h2⟩ := C04_no_early_wait v w e hok hinv hwait
    rw [htok] at h1
    injection h1 with h1
    rw [← hat]; omega

/-- **line profile → waiter**: `C04_profile_no_early` for every accepted line configuration (the constructor regenerated from
core/schedule/line.go, the validity predicate from its struct tags). -/
theorem C04_line_no_early (f t : ℝ) (D : ℤ) (h : LineConfig_valid f t D) :
    ∃ (n : ℤ) (at_ : ℤ → ℤ), NewLineConf f t D = Sched.doAt D n at_ ∧ n = ⌊(f + t) / 2 * secs D⌋ ∧
      ∀ (t0 : ℤ) (nows : List ℤ) (j : ℕ), j < nows.length → (j : ℤ) < n →
        ∃ rs, C01.startAndDrain D n at_ t0 nows = Except.ok rs ∧ rs[j]? = some (t0 + at_ j, true) ∧
          ∃ x : ℝ, C01.EarliestAt (C01.lineCum f t D) D j x ∧ at_ j = ⌊x * 1000000000⌋ ∧
            ∀ (v : Variant) (w : Waiter) (e : Env), EnvOK e → w.lastNow ≤ e.now → e.tok = some (t0 + at_ j) →
              (waitV v w e).ok = true → t0 + ⌊x * 1000000000⌋ ≤ e.ret := by
  obtain ⟨hr, htot⟩ := C01.C01_line f t D h
  obtain ⟨n, at_, h1, h2, h3⟩ := C04_profile_no_early _ _ D hr
  exact ⟨n, at_, h1, by rw [h2, htot], h3⟩

/-- **const profile → waiter** -/
theorem C04_const_no_early (ops : ℝ) (D : ℤ) (h : ConstConfig_valid ops D) :
    ∃ (n : ℤ) (at_ : ℤ → ℤ), NewConstConf ops D = Sched.doAt D n at_ ∧ n = ⌊ops * secs D⌋ ∧
      ∀ (t0 : ℤ) (nows : List ℤ) (j : ℕ), j < nows.length → (j : ℤ) < n →
        ∃ rs, C01.startAndDrain D n at_ t0 nows = Except.ok rs ∧ rs[j]? = some (t0 + at_ j, true) ∧
          ∃ x : ℝ, C01.EarliestAt (C01.constCum ops) D j x ∧ at_ j = ⌊x * 1000000000⌋ ∧
            ∀ (v : Variant) (w : Waiter) (e : Env), EnvOK e → w.lastNow ≤ e.now → e.tok = some (t0 + at_ j) →
              (waitV v w e).ok = true → t0 + ⌊x * 1000000000⌋ ≤ e.ret := by
  obtain ⟨n, at_, h1, h2, h3⟩ := C04_profile_no_early _ _ D (C01.C01_const ops D h)
  exact ⟨n, at_, h1, by rw [h2]; rfl, h3⟩

/-- **lazy start of a shared profile → the waiters of a pool**: a leaf `doAt D n f` that is never `Start()`ed (what
`NewRPSSchedule` gives to a pool) and is asked by any number of instances at the same time, in ANY interleaving of their accesses
to its shared state (`sched` = who moves next and what the clock shows then; the program of `Next` is the REGENERATED
`Gen.SchedConc.nextProg`): there is ONE instant `v`, a clock reading taken during the run, such that every finished call with
an index `idx < n` answered `v + f idx` (no answer is based on an unset start), and every `Wait` - any Waiter state, either
variant - that was handed such an answer returns true not before `v + f idx`. -/
theorem C04_pool_lazy_start_no_early (D n : ℤ) (f : ℤ → ℤ) (sched : List (ℕ × ℤ)) :
    ∃ v, ((Model.C01Conc.run 0 (Model.C01Conc.initLazy Gen.SchedConc.nextProg) sched).log = [] ∨
            v ∈ sched.map Prod.snd) ∧
      ∀ a ∈ (Model.C01Conc.run 0 (Model.C01Conc.initLazy Gen.SchedConc.nextProg) sched).log, a.idx < n →
        0 ≤ a.idx ∧ Model.C01Conc.ansOf D n f a = some (v + f a.idx, true) ∧
        ∀ (vr : Variant) (w : Waiter) (e : Env), EnvOK e → w.lastNow ≤ e.now → e.tok = some (v + f a.idx) →
          (waitV vr w e).ok = true → v + f a.idx ≤ e.ret := by
  obtain ⟨v, hv, _, _, hlog⟩ := C01.C01_lazy_start_concurrent D n f sched
  refine ⟨v, hv, ?_⟩
  intro a ha hidx
  obtain ⟨hidx0, _, _, hans⟩ := hlog a ha
  obtain ⟨r, s', _, h2, h3⟩ := hans 0
  have hn : ¬ n ≤ a.idx := by omega
  refine ⟨hidx0, by rw [h2, h3]; simp [hn], ?_⟩
  intro vr w e hok hinv htok hwait
  obtain ⟨next, h1, h2'⟩ := C04_no_early_wait vr w e hok hinv hwait
  rw [htok] at h1
  injection h1 with h1
  omega

/-- **end to end** (config → constructor → lazy start under contention → waiter): for every accepted line configuration, the
instances of a pool that share its never-started schedule, any interleaving: one start instant `v` read from the clock during
the run; the call that drew index `idx` hands its instance `v + ⌊x·10⁹⌋` with `x` the earliest instant at which the configured
integral reaches `idx`, and that instance's `Wait` returns true not before it. -/
theorem C04_line_pool_no_early (f t : ℝ) (D : ℤ) (h : LineConfig_valid f t D) (sched : List (ℕ × ℤ)) :
    ∃ (n : ℤ) (at_ : ℤ → ℤ) (v : ℤ), NewLineConf f t D = Sched.doAt D n at_ ∧
      ((Model.C01Conc.run 0 (Model.C01Conc.initLazy Gen.SchedConc.nextProg) sched).log = [] ∨ v ∈ sched.map Prod.snd) ∧
      ∀ a ∈ (Model.C01Conc.run 0 (Model.C01Conc.initLazy Gen.SchedConc.nextProg) sched).log, a.idx < n →
        ∃ x : ℝ, C01.EarliestAt (C01.lineCum f t D) D a.idx x ∧
          Model.C01Conc.ansOf D n at_ a = some (v + ⌊x * 1000000000⌋, true) ∧
          ∀ (vr : Variant) (w : Waiter) (e : Env), EnvOK e → w.lastNow ≤ e.now → e.tok = some (v + ⌊x * 1000000000⌋) →
            (waitV vr w e).ok = true → v + ⌊x * 1000000000⌋ ≤ e.ret := by
  obtain ⟨⟨n, at_, hnew, _, hk⟩, _⟩ := C01.C01_line f t D h
  obtain ⟨v, hv, hlog⟩ := C04_pool_lazy_start_no_early D n at_ sched
  refine ⟨n, at_, v, hnew, hv, ?_⟩
  intro a ha hidx
  obtain ⟨h0, hans, hw⟩ := hlog a ha hidx
  obtain ⟨x, hx, hat, _, _⟩ := hk a.idx h0 hidx
  refine ⟨x, hx, by rw [hans, hat], ?_⟩
  intro vr w e hok hinv htok hwait
  rw [← hat] at htok ⊢
  exact hw vr w e hok hinv htok hwait

end profile

end Pandora.Props.C04

namespace Pandora.Props.C04
open Pandora.Go.C04 Pandora.Model.C04 Pandora.Proofs.C04
open Pandora Pandora.Gen.Schedule Pandora.Bridge.Schedule

/-! non-vacuity of the round-6 compositions -/

-- line 0 → 40 ops/s over 1.5 s (a duration with a fraction of a second): 30 operations; operation 19 of a schedule started at 0
-- is handed to a fresh Waiter at the very instant it is due: all hypotheses of `C04_line_no_early` hold together
example : ∃ (n : ℤ) (at_ : ℤ → ℤ), NewLineConf 0 40 1500000000 = Sched.doAt 1500000000 n at_ ∧ n = 30 ∧ (19 : ℤ) < n ∧
    ∃ e : Env, EnvOK e ∧ Waiter.init.lastNow ≤ e.now ∧ e.tok = some (0 + at_ 19) ∧ (waitV .fresh Waiter.init e).ok = true := by
  obtain ⟨n, at_, h1, h2, h3⟩ := C04_line_no_early 0 40 1500000000
    ((Bridge.C01.LineConfig_valid_iff 0 40 1500000000).mpr ⟨by norm_num, by norm_num, by norm_num⟩)
  have hn : n = 30 := by
    rw [h2]; unfold secs
    have : ((0 : ℝ) + 40) / 2 * (((1500000000 : ℤ) : ℝ) / 1000000000) = ((30 : ℤ) : ℝ) := by norm_num
    rw [this, Int.floor_intCast]
  obtain ⟨rs, _, _, x, hx, hat, _⟩ := h3 0 (List.replicate 20 0) 19 (by simp) (by omega)
  have h0 : 0 ≤ at_ 19 := by
    have : at_ ((19 : ℕ) : ℤ) = ⌊x * 1000000000⌋ := hat
    simp only [Nat.cast_ofNat] at this
    rw [this]; exact Int.floor_nonneg.mpr (mul_nonneg hx.1 (by norm_num))
  refine ⟨n, at_, h1, hn, by omega, ⟨{ tok := some (0 + at_ 19), now := at_ 19, arm := at_ 19, ret := at_ 19 }, ?_, ?_, rfl, ?_⟩⟩
  · refine ⟨le_refl _, le_refl _, ?_⟩
    intro next hmem _ hlt
    simp at hmem hlt
    omega
  · show zeroTime ≤ at_ 19
    unfold zeroTime; omega
  · have hz : ¬ (0 + at_ 19 - (-62135596800000000000) ≤ 0) := by omega
    simp [waitV, timeSub, Waiter.init, zeroTime]
    split <;> rfl

-- two instances take their first token from a never-started leaf at the same time: instance 0 wins the Once and reads the clock
-- (10), instance 1 waits for it; both calls finish, with indices 0 and 1, both below n = 5
example : (Model.C01Conc.run 0 (Model.C01Conc.initLazy Gen.SchedConc.nextProg)
      [(0, 10), (1, 11), (0, 10), (0, 10), (0, 10), (0, 10), (0, 10), (1, 11), (1, 11), (1, 11), (1, 11), (1, 11)]).log.map (·.idx) = [1, 0] ∨
    (Model.C01Conc.run 0 (Model.C01Conc.initLazy Gen.SchedConc.nextProg)
      [(0, 10), (1, 11), (0, 10), (0, 10), (0, 10), (0, 10), (0, 10), (1, 11), (1, 11), (1, 11), (1, 11), (1, 11)]).log.map (·.idx) = [0, 1] := by
  decide

end Pandora.Props.C04

namespace Pandora.Props.C04
open Pandora.Go.C04 Pandora.Model.C04 Pandora.Proofs.C04
open Pandora Pandora.Gen.Schedule Pandora.Bridge.Schedule

/-- the tokens a leaf `doAt D n at_` started at `start` hands out, in order -/
def profileToks (start n : ℤ) (at_ : ℤ → ℤ) : List Int := (List.range n.toNat).map fun (j : ℕ) => start + at_ (j : ℤ)

/-- **profile duration → run length** (the clause "the length of a run stays bounded by the profile duration plus response time"
with the duration being the CONFIGURED one): for every leaf that realises a profile of duration `D` (every accepted const / line
configuration: `C01_const`, `C01_line`) started at `start`, any number of instances on that one schedule in the closed world of
`psim` (arbitrary interleaving, late starters, arbitrary response times ≤ R, discard_overflow on): the loop of every instance ends, and
its k-th action is over by `start + D + 2 s + ε + R + (k+1)(δ+ε)`. The hypothesis about the tokens of `C04_pool_sim_run_bounded` is
discharged from the profile. -/
theorem C04_profile_run_bounded (s : Sched) (cum : ℝ → ℝ) (D : ℤ) (hs : C01.Realises s cum D) :
    ∃ (n : ℤ) (at_ : ℤ → ℤ), s = Sched.doAt D n at_ ∧
      ∀ (start : ℤ) (t0 : Nat → Int) (cs : List (Nat × Delays)) (i : Nat) (R ε δ : Int),
        0 ≤ ε → 0 ≤ δ → 0 ≤ R → zeroTime ≤ t0 i →
        (∀ c ∈ cs, c.1 = i → (c.2.dur : Int) ≤ R ∧ (c.2.dPick : Int) ≤ δ ∧ (c.2.dNow : Int) + c.2.dArm + c.2.dLag ≤ ε) →
        t0 i ≤ start + D + maxOverdue + ε + R →
        (∀ tok ∈ profileToks start n at_, start ≤ tok ∧ tok ≤ start + D) ∧
        (runLoop .fresh true Waiter.init (psimHist true (profileToks start n at_) t0 cs i)).2 = .loopEnd ∧
        (∀ k ev, (runLoop .fresh true Waiter.init (psimHist true (profileToks start n at_) t0 cs i)).1[k]? = some ev →
          endT ev ≤ chainBound (start + D + maxOverdue + ε + R) (δ + ε) k) := by
  obtain ⟨n, at_, rfl, _, hk⟩ := hs
  refine ⟨n, at_, rfl, ?_⟩
  intro start t0 cs i R ε δ hε hδ hR h0 hps ht
  have htoks : ∀ tok ∈ profileToks start n at_, start ≤ tok ∧ tok ≤ start + D := by
    intro tok htok
    unfold profileToks at htok
    simp only [List.mem_map, List.mem_range] at htok
    obtain ⟨j, hj, rfl⟩ := htok
    have hj0 : (0 : ℤ) ≤ (j : ℤ) := Int.natCast_nonneg j
    have hjn : (j : ℤ) < n := by
      have : (j : ℤ) < (n.toNat : ℤ) := by exact_mod_cast hj
      have h2 : ((n.toNat : ℕ) : ℤ) = max n 0 := Int.toNat_eq_max n
      rcases le_total n 0 with hn | hn
      · rw [h2, max_eq_right hn] at this; omega
      · rw [h2, max_eq_left hn] at this; exact this
    obtain ⟨_, _, _, h1, h2⟩ := hk (j : ℤ) hj0 hjn
    constructor <;> linarith
  obtain ⟨h1, h2⟩ := C04_pool_sim_run_bounded (profileToks start n at_) t0 cs i start D R ε δ hε hδ hR h0
    (fun tok h => (htoks tok h).2) hps ht
  exact ⟨htoks, h1, h2⟩

/-- non-vacuity of `C04_profile_run_bounded`: the line 0 → 40 ops/s over 1.5 s realises its profile (`C01_line`), and the world of
`psSteps` / `psT0` (two instances, one a late starter, 3 s responses) meets the remaining hypotheses with start 0, R = 3 s,
ε = 6 µs, δ = 1 µs -/
example : C01.Realises (NewLineConf 0 40 1500000000) (C01.lineCum 0 40 1500000000) 1500000000 ∧
    zeroTime ≤ psT0 1 ∧
    (∀ c ∈ psSteps, c.1 = 1 → (c.2.dur : Int) ≤ 3000000000 ∧ (c.2.dPick : Int) ≤ 1000 ∧ (c.2.dNow : Int) + c.2.dArm + c.2.dLag ≤ 6000) ∧
    psT0 1 ≤ 0 + 1500000000 + maxOverdue + 6000 + 3000000000 :=
  ⟨(C01.C01_line 0 40 1500000000
      ((Bridge.C01.LineConfig_valid_iff 0 40 1500000000).mpr ⟨by norm_num, by norm_num, by norm_num⟩)).1,
    by decide, by decide, by decide⟩

end Pandora.Props.C04

namespace Pandora.Props.C04
open Pandora.Go.C04 Pandora.Model.C04 Pandora.Proofs.C04
open Pandora Pandora.Gen.Schedule Pandora.Bridge.Schedule

/-- **once profile → waiter**: every accepted `once(times)` is the leaf whose `times` operations all sit at the start instant; the
started schedule answers call `j < times` with `t0`, and a `Wait` that was handed it returns true not before `t0`. -/
theorem C04_once_no_early (n : ℤ) (h : OnceConfig_valid n) (t0 : ℤ) (nows : List ℤ) (j : ℕ) (hj : j < nows.length)
    (hjn : (j : ℤ) < n) :
    NewOnceConf n = Sched.doAt 0 n (fun _ => 0) ∧
    ∃ rs, C01.startAndDrain 0 n (fun _ => 0) t0 nows = Except.ok rs ∧ rs[j]? = some (t0, true) ∧
      ∀ (v : Variant) (w : Waiter) (e : Env), EnvOK e → w.lastNow ≤ e.now → e.tok = some t0 →
        (waitV v w e).ok = true → t0 ≤ e.ret := by
  obtain ⟨h1, h2⟩ := C01.C01_once n h
  have hn : ¬ n ≤ (j : ℤ) := by omega
  refine ⟨h1, _, h2 t0 nows, by simp [hj, hn], ?_⟩
  intro v w e hok hinv htok hwait
  obtain ⟨next, e1, e2⟩ := C04_no_early_wait v w e hok hinv hwait
  rw [htok] at e1
  injection e1 with e1
  omega

-- non-vacuity: once(5), started at 7, call 3; a fresh Waiter that reads the clock at 7
example : OnceConfig_valid 5 ∧ (3 : ℕ) < [0, 0, 0, 0].length ∧ ((3 : ℕ) : ℤ) < 5 ∧
    EnvOK { tok := some 7, now := 7, arm := 7, ret := 7 } ∧ Waiter.init.lastNow ≤ 7 ∧
    (waitV .fresh Waiter.init { tok := some 7, now := 7, arm := 7, ret := 7 }).ok = true := by
  refine ⟨by unfold OnceConfig_valid; norm_num, by decide, by decide, by decide, by decide, by decide⟩

end Pandora.Props.C04
