/-
C06 — Result completeness: every reported sample is written once, well-formed, flushed.

(i)   phout line layout: `Model.Phout.encode` mirrors `appendPhout`/`appendTimestamp`; the statement list,
      the constants and the field-index order are REGENERATED from /repo (`Pandora.Gen.Phout`) and bridged.
(ii)  reporters × bounded queue × aggregator Run loop (`Model.AggQueue`), all interleavings.
(iii) process shutdown (`Model.CliShutdown`), all event orders; which variant of the signal branch the
      code is comes from the regenerated `Pandora.Gen.Cli`.
The tie of the models to the running code is the correspondence harness (harness/cmd/c06).
-/
import Pandora.Bridge.C06Phout
import Pandora.Bridge.C06Cli
import Pandora.Proofs.C06Queue

namespace Pandora.Props.C06
open Pandora.Model.Phout Pandora.Proofs.C06

/-! ## (i) the phout line -/

/-- what a reader gets back: the id is only in the line when ids are enabled -/
def asWritten (s : Sample) (withId : Bool) : Sample := if withId then s else { s with id := 0 }

/-- a sample the phout format can represent: timestamp at least one second after the epoch, a tag
without the separator and terminator bytes (phout has no escaping), a `uint64` id -/
structure InFormat (s : Sample) : Prop where
  ts : 1000 ≤ s.ms
  tagTab : TAB ∉ s.tag
  tagLf : LF ∉ s.tag
  id : s.id < 18446744073709551616

/-- **well-formed line** — for every in-format sample (ALL integer values: negative, zero, beyond int64):
the line is `decimal(ms/1000) "." pad3(ms%1000) TAB tag["#" id] (TAB int)×10 LF`, it has no LF before
its end, splitting on TAB gives exactly 12 columns, and decoding gives the sample back. -/
theorem C06_phout_wellformed (s : Sample) (withId : Bool) (h : InFormat s) :
    ∃ body, encode s withId = some (body ++ [LF]) ∧
      body = intBytes (s.ms / 1000) ++ DOT :: pad3 (s.ms % 1000).toNat
              ++ TAB :: s.tag ++ idPart s withId ++ fieldsPart s ∧
      LF ∉ body ∧
      (splitOn TAB body).length = 12 ∧
      decode (body ++ [LF]) withId = some (asWritten s withId) := by
  have hms := h.ts
  have e1 : intBytes (s.ms / 1000) = natDigits (s.ms.toNat / 1000) := by
    rw [intBytes_of_nonneg (by omega)]; congr 1; omega
  have e2 : (s.ms % 1000).toNat = s.ms.toNat % 1000 := by omega
  have hk : s.ms.toNat % 1000 < 1000 := by omega
  refine ⟨_, ?_, rfl, ?_, ?_, ?_⟩
  · unfold encode
    rw [encodeBody_ge1000 s withId hms, e1, e2]
    rfl
  · rw [e1, e2]
    exact body_lffree s withId h.tagLf _ (tsText_lffree _ _ hk)
  · rw [e1, e2, splitOn_body _ s withId (tsText_tabfree _ _ hk) h.tagTab]
    simp [tokens, Sample.fields]
  · unfold decode
    simp only [List.getLast?_append, List.getLast?_singleton, Option.some_or, if_true, List.dropLast_concat]
    rw [e1, e2, decodeBody_ok s withId hms h.tagTab h.id]
    rfl

/-- non-vacuity: a sample with negative, zero and > int64 values, a multi-byte tag and an id ≥ 2^63 is in format -/
example : InFormat { ms := 1484660999002, tag := [0xd1, 0x82, 0x7c, 0x61], id := 18446744073709551615,
                     intervalReal := -5, connect := 0, send := 9223372036854775807, latency := -9223372036854775808,
                     receive := 1, intervalEvent := 100000000000000000000, sizeOut := 7, sizeIn := 8, netCode := 110,
                     protoCode := 200 } :=
  ⟨by decide, by decide, by decide, by decide⟩

/-- **field order** — the ten integers appear in the documented phout order, which is the array-index
order of the regenerated constants of sample.go read through `keyMeaning`, and every regenerated setter
writes the column its name stands for. -/
theorem C06_phout_field_order (s : Sample) :
    fieldsPart s = TAB :: intBytes s.intervalReal ++ TAB :: intBytes s.connect ++ TAB :: intBytes s.send
        ++ TAB :: intBytes s.latency ++ TAB :: intBytes s.receive ++ TAB :: intBytes s.intervalEvent
        ++ TAB :: intBytes s.sizeOut ++ TAB :: intBytes s.sizeIn ++ TAB :: intBytes s.netCode
        ++ TAB :: intBytes s.protoCode ∧
    documentedOrder = ["interval_real", "connect", "send", "latency", "receive", "interval_event",
                       "size_out", "size_in", "net_code", "proto_code"] ∧
    Gen.Phout.fieldKeys.map (fun kv => Bridge.Phout.lookupS kv.1 keyMeaning) = documentedOrder.map some ∧
    Gen.Phout.fieldKeys.map (·.2) = List.range 10 := by
  refine ⟨by simp [fieldsPart, Sample.fields], rfl, ?_, Bridge.Phout.fieldKeys_indices⟩
  have := Bridge.Phout.field_order
  rw [this.1, this.2]

/-- **tie to the source** — the regenerated statement list of `appendPhout`, run on the model's reading of
each statement, is `encodeBody`; the regenerated constants of `appendTimestamp` and `handle` are the model's. -/
theorem C06_phout_regenerated (s : Sample) (withId : Bool) :
    runStmts s withId Gen.Phout.appendPhoutStmts = encodeBody s withId ∧
    Gen.Phout.tsDivisor = tsDivisor ∧ Gen.Phout.tsBase = 10 ∧ Gen.Phout.tsDotFromEnd = dotFromEnd ∧
    UInt8.ofNat Gen.Phout.tsDotByte = DOT ∧ Gen.Phout.tsShiftLoop = true ∧
    UInt8.ofNat Gen.Phout.lineTerminator = LF ∧ Gen.Phout.fieldsNum = 10 ∧ Gen.Phout.fieldsArrayLen = 10 := by
  have h := Bridge.Phout.timestamp_consts
  have h2 := Bridge.Phout.fieldsNum_eq
  exact ⟨Bridge.Phout.appendPhout_eq s withId, h.1, h.2.1, h.2.2.1, h.2.2.2.1, h.2.2.2.2,
    Bridge.Phout.lineTerminator_eq, h2.1, h2.2⟩

/-- the byte-shift loop of `appendTimestamp` is "insert a dot three from the end" (and a panic below three bytes) -/
theorem C06_phout_dot_loop (d : Bytes) :
    insertDot d = if d.length < 3 then none
                  else some (d.take (d.length - 3) ++ DOT :: d.drop (d.length - 3)) := insertDot_eq d

/-- **below one second** (cannot happen with `time.Now()`, stated for completeness): 0 … 99 ms after the
epoch the shift loop indexes `dst[-1]` (panic); 100 … 999 ms the seconds part is missing. -/
theorem C06_phout_before_1s (s : Sample) (withId : Bool) :
    (0 ≤ s.ms → s.ms < 100 → encode s withId = none) ∧
    (100 ≤ s.ms → s.ms < 1000 → ∃ rest, encode s withId = some (DOT :: rest)) := by
  constructor
  · intro h0 h1
    simp [encode, encodeBody, appendTimestamp_small h0 h1]
  · intro h0 h1
    simp [encode, encodeBody, appendTimestamp_subsecond h0 h1]

/-- **result file** — the lines of any number of in-format samples, concatenated, split on LF into exactly
those lines (nothing after the last LF) and every one decodes to its sample, in order. -/
theorem C06_phout_file (ss : List Sample) (withId : Bool) (h : ∀ s ∈ ss, InFormat s) :
    ∃ bodies : List Bytes, ss.map (fun s => encode s withId) = bodies.map (fun b => some (b ++ [LF])) ∧
      fileLines (bodies.flatMap (fun b => b ++ [LF])) = some bodies ∧
      bodies.map (fun b => decode (b ++ [LF]) withId) = ss.map (fun s => some (asWritten s withId)) := by
  induction ss with
  | nil => exact ⟨[], rfl, by simp [fileLines, splitOn], rfl⟩
  | cons s rest ih =>
    obtain ⟨bodies, hb1, hb2, hb3⟩ := ih (fun x hx => h x (by simp [hx]))
    obtain ⟨body, he, _, hlf, _, hd⟩ := C06_phout_wellformed s withId (h s (by simp))
    refine ⟨body :: bodies, by simp [he, hb1], ?_, by simp [hd, hb3]⟩
    -- every body is LF-free: recover it from hb2's shape via the terminated-split lemma
    have hfree : ∀ b ∈ body :: bodies, LF ∉ b := by
      intro b hbm
      simp only [List.mem_cons] at hbm
      rcases hbm with hbm | hbm
      · subst hbm; exact hlf
      · -- b is the body of some sample of `rest`
        have : some (b ++ [LF]) ∈ bodies.map (fun b => some (b ++ [LF])) := List.mem_map.mpr ⟨b, hbm, rfl⟩
        rw [← hb1] at this
        obtain ⟨x, hx, hxe⟩ := List.mem_map.mp this
        obtain ⟨body', he', _, hlf', _, _⟩ := C06_phout_wellformed x withId (h x (by simp [hx]))
        rw [he'] at hxe
        have : body' = b := by
          have := Option.some.inj hxe
          exact List.append_cancel_right this
        subst this; exact hlf'
    unfold fileLines
    rw [splitOn_terminated _ hfree]
    simp only [List.getLast?_append, List.getLast?_singleton, Option.some_or, List.dropLast_concat]

/-! ## (ii) reporters, queue, aggregator -/

section Queue
open Pandora.Model.AggQueue Pandora.Proofs.C06Queue

/-- **queue completeness** — for EVERY schedule (interleaving of any number of reporter goroutines, the
aggregator's select choices, flush ticks, buffer spills, the cancel), every queue size, every reporter
program: if no Report call completes after the cancel, then when `Run` has returned
* what is in the sink plus what was dropped is a permutation of the completed reports; the sink holds the
  enqueued samples in the order the Report calls completed (so each exactly once, per-reporter order kept);
* nothing is left in the queue or in the writer's buffer, the sink is closed;
* phout: nothing is dropped, the sink is exactly the reports, `Run` returned nil, and every reporter whose
  calls all returned finds all its samples, in its order;
* encoder aggregators: `Run`'s error counts exactly the dropped samples. -/
theorem C06_queue_complete {β : Type} (cfg : Cfg) (progs : Nat → List β) (sched : List Ev)
    (hsched : NoReportAfterCancel sched) :
    let st := run cfg (init progs) sched
    st.phase = .returned →
      (st.out ++ st.dropped).Perm st.reports ∧
      st.out.Sublist st.reports ∧
      (∀ r, (ofReporter r st.out).Sublist (ofReporter r st.reports)) ∧
      st.q = [] ∧ st.buf = [] ∧ st.closed = true ∧
      st.droppedCount = st.dropped.length ∧
      (cfg.kind = .phout →
         st.dropped = [] ∧ st.out = st.reports ∧ st.err = none ∧
         ∀ r, st.pending r = [] → ofReporter r st.out = progs r) ∧
      (cfg.kind = .encoder →
         st.err = droppedErr st.dropped.length ∧
         ∀ r, st.pending r = [] → (ofReporter r (st.out ++ st.dropped)).Perm (progs r)) := by
  intro st hret
  have inv : Inv cfg progs st := inv_run sched (inv_init cfg progs)
  have hlate : st.late = false := not_late cfg sched (init progs) rfl rfl hsched
  obtain ⟨hbuf, hclosed, _, hq⟩ := inv.ret hret
  obtain ⟨hq, herr⟩ := hq hlate
  have hout : st.out = accepted st.log := by
    have := inv.flow; rw [hbuf, hq] at this; simpa using this
  have hperm : (st.out ++ st.dropped).Perm st.reports := by
    rw [hout, inv.drops]; exact accepted_rejected_perm st.log
  have hsub : st.out.Sublist st.reports := by rw [hout]; exact accepted_sublist st.log
  have hfilter : ∀ r, (ofReporter r st.out).Sublist (ofReporter r st.reports) := by
    intro r; unfold ofReporter; exact (hsub.filter _).map _
  refine ⟨hperm, hsub, hfilter, hq, hbuf, hclosed, inv.count, ?_, ?_⟩
  · intro hk
    have hd := inv.nodrop hk
    have hrej : rejected st.log = [] := by rw [← inv.drops]; exact hd
    have houtall : st.out = st.reports := by rw [hout]; exact accepted_of_rejected_nil hrej
    refine ⟨hd, houtall, ?_, ?_⟩
    · rw [herr]; simp [retErr, hk]
    · intro r hp
      have := inv.progs r
      rw [hp, List.append_nil] at this
      rw [houtall]; exact this
  · intro hk
    refine ⟨?_, ?_⟩
    · rw [herr, inv.count]; simp [retErr, hk]
    · intro r hp
      have := inv.progs r
      rw [hp, List.append_nil] at this
      rw [← this]
      unfold ofReporter
      exact (hperm.filter _).map _

/-- each sample is in the sink or in the drop count exactly as often as it was reported -/
theorem C06_queue_exactly_once {β : Type} [DecidableEq β] (cfg : Cfg) (progs : Nat → List β)
    (sched : List Ev) (hsched : NoReportAfterCancel sched) (x : Item β) :
    let st := run cfg (init progs) sched
    st.phase = .returned → st.out.count x + st.dropped.count x = st.reports.count x := by
  intro st hret
  have := (C06_queue_complete cfg progs sched hsched hret).1
  rw [← List.count_append]
  exact this.count_eq x

/-- non-vacuity of the hypotheses and reachability of `returned`: two reporters, queue of one, a schedule
with a blocked phout send, a flush tick, the cancel after the last report, and the drain -/
example :
    let sched : List Ev := [.report 0, .report 1, .recv false, .report 1, .tick, .recv true, .report 0,
                            .recv false, .report 1, .cancel, .seeCancel, .drain, .drain]
    NoReportAfterCancel sched ∧
    (run ⟨.phout, 1⟩ (init fun r => if r < 2 then [10 * r, 10 * r + 1] else []) sched).phase = .returned ∧
    (run ⟨.phout, 1⟩ (init fun r => if r < 2 then [10 * r, 10 * r + 1] else []) sched).out
      = [(0, 0), (1, 10), (0, 1), (1, 11)] := by
  refine ⟨?_, by decide, by decide⟩
  simp [NoReportAfterCancel, isReportEv]

/-- the encoder aggregator drops on a full queue and reports the count -/
example :
    let sched : List Ev := [.report 0, .report 0, .report 0, .cancel, .seeCancel, .drain, .drain]
    (run ⟨.encoder, 1⟩ (init fun r => if r = 0 then [1, 2, 3] else []) sched).phase = .returned ∧
    (run ⟨.encoder, 1⟩ (init fun r => if r = 0 then [1, 2, 3] else []) sched).err = some 2 ∧
    (run ⟨.encoder, 1⟩ (init fun r => if r = 0 then [1, 2, 3] else []) sched).out = [(0, 1)] := by
  decide

/-- the hypothesis is needed: a Report that completes after `Run` returned is in nobody's count -/
theorem C06_queue_late_report_lost :
    let sched : List Ev := [.cancel, .seeCancel, .drain, .report 0]
    let st := run ⟨.encoder, 4⟩ (init fun r => if r = 0 then [7] else []) sched
    st.phase = .returned ∧ st.reports = [(0, 7)] ∧ st.out = [] ∧ st.dropped = [] := by
  decide

end Queue

/-! ## (iii) process shutdown -/

section Cli
open Pandora.Model.CliShutdown Pandora.Proofs.C06Cli

/-- **shutdown** — on every path (every order of signals, engine return, task completion, timer and the
main goroutine's select choices) an exit of the process is preceded by the completion of all engine tasks
(aggregators flushed and closed), or by the shutdown timeout, or it is the forced exit on a second signal.
The variant of the signal branch is the one regenerated from cli/cli.go. -/
theorem C06_shutdown (trace : List Ev) (x : Exit)
    (h : (run Gen.Cli.signalErrsBranchWaits {} trace).exit = some x) :
    x.flushed = true ∨
    (x.reason = .timeout ∧ (run Gen.Cli.signalErrsBranchWaits {} trace).timerFired = true) ∨
    (x.reason = .secondSignal ∧ 2 ≤ (run Gen.Cli.signalErrsBranchWaits {} trace).delivered) := by
  rw [Bridge.Cli.cli_waits] at h ⊢
  exact (inv_run trace inv_init).exitOk x h

/-- one signal, no timeout: the result is complete -/
theorem C06_shutdown_single_signal (trace : List Ev) (x : Exit)
    (h : (run Gen.Cli.signalErrsBranchWaits {} trace).exit = some x)
    (h1 : (run Gen.Cli.signalErrsBranchWaits {} trace).delivered ≤ 1)
    (h2 : x.reason ≠ .timeout) : x.flushed = true := by
  rcases C06_shutdown trace x h with hf | ⟨ht, _⟩ | ⟨_, hd⟩
  · exact hf
  · exact absurd ht h2
  · omega

/-- non-vacuity: SIGTERM, engine returns, tasks finish, exit — flushed -/
example :
    (run true {} [.signal .term, .takeSignal, .engineReturned false, .takeErrs, .tasksDone,
        .takeWaitDone]).exit = some ⟨.interrupted, true⟩ := by decide

/-- the code as found (exit as soon as `errs` is ready) does not have the property -/
theorem C06_shutdown_unrepaired_counterexample :
    ¬ (∀ (trace : List Ev) (x : Exit), (run false {} trace).exit = some x →
        x.flushed = true ∨ x.reason = .timeout ∨ x.reason = .secondSignal) := by
  intro h
  have := h [.signal .term, .takeSignal, .engineReturned false, .takeErrs] ⟨.interrupted, false⟩ (by decide)
  simp at this

end Cli

end Pandora.Props.C06
