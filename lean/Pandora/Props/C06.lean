/-
C06 — Result completeness: every reported sample is written once, well-formed, flushed.

(i)   phout line layout: `Model.Phout.encode` mirrors `appendPhout`/`appendTimestamp`; the statement list,
      the constants and the field-index order are REGENERATED from /repo (`Pandora.Gen.Phout`) and bridged.
(ii)  reporters × bounded queue × aggregator Run loop (`Model.AggQueue`), all interleavings.
(iii) process shutdown (`Model.CliShutdown`), all event orders; which variant of the signal branch the
      code is, which signals are notified and which cancel comes from the regenerated `Pandora.Gen.Cli`.
(iv)  the pool's await loop (`Model.C06Pool`); (v) `Engine.Run` over any number of pools and the context tree of
      `runAsync` (`Model.C06Engine`); (vi) a sink that starts to reject writes (`Model.C06SinkFail`);
(vii) the error the encoder aggregator ends with when several faults coincide (`Model.C06ErrJoin`; `errutil.Join`
      and the deferred joins of `Run` regenerated); (viii) samples lent to the aggregator and recycled by their
      owner (`Model.C06Borrow`); (ix, round 4) `startInstances` returns the number of goroutines it started
      (`Model.C06Start`), `instancePool.Run`'s three ways out and the `Engine.wait` counter (`Model.C06PoolRun`), the
      helpers every sample and byte goes through, option tables and plugin registration (regenerated).
(x, round 6) several phout aggregators sharing the standard output (`Model.C06Shared`); (xi) who cancels the healthy
      pools when one pool fails (`Model.C06FailCancel`); (xii) the buffered writer's non-atomic Flush and the single
      goroutine that uses it (`Model.C06BufRace`); (xiii) `bufio.Writer.Write` and the repaired `handle` at byte level:
      only whole lines reach the destination (`Model.C06WholeLines`).
The tie of the models to the running code is the correspondence harness (harness/cmd/c06).
-/
import Pandora.Bridge.C06Phout
import Pandora.Bridge.C06Cli
import Pandora.Bridge.C06AggQ
import Pandora.Proofs.C06Queue
import Pandora.Proofs.C06Return
import Pandora.Proofs.C06Pool
import Pandora.Proofs.C06Engine
import Pandora.Proofs.C06PoolLive
import Pandora.Proofs.C06SinkFail
import Pandora.Bridge.C06ErrJoin
import Pandora.Proofs.C06ErrJoin
import Pandora.Proofs.C06Borrow
import Pandora.Proofs.C06Start
import Pandora.Proofs.C06PoolRun
import Pandora.Proofs.C06DropCount
import Pandora.Proofs.C06ResChan
import Pandora.Bridge.C06R6
import Pandora.Proofs.C06WholeLines

namespace Pandora.Props.C06
open Pandora.Model.Phout Pandora.Proofs.C06

/-! ## (i) the phout line -/

/-- what a reader gets back: the id is only in the line when ids are enabled -/
def asWritten (s : Sample) (withId : Bool) : Sample := if withId then s else { s with id := 0 }

/-- a sample the phout format can represent: timestamp at least one second after the epoch, a tag
without the separator and terminator bytes (phout has no escaping), a `uint64` id -/
structure InFormat (s : Sample) : Prop where
  ts : 1000 ≤ s.ms
  tagTab : TAB ∉ s.tag
  tagLf : LF ∉ s.tag
  id : s.id < 18446744073709551616

/-- **well-formed line** — for every in-format sample (ALL integer values: negative, zero, beyond int64):
the line is `decimal(ms/1000) "." pad3(ms%1000) TAB tag["#" id] (TAB int)×10 LF`, it has no LF before
its end, splitting on TAB gives exactly 12 columns, and decoding gives the sample back. -/
theorem C06_phout_wellformed (s : Sample) (withId : Bool) (h : InFormat s) :
    ∃ body, encode s withId = some (body ++ [LF]) ∧
      body = intBytes (s.ms / 1000) ++ DOT :: pad3 (s.ms % 1000).toNat
              ++ TAB :: s.tag ++ idPart s withId ++ fieldsPart s ∧
      LF ∉ body ∧
      (splitOn TAB body).length = 12 ∧
      decode (body ++ [LF]) withId = some (asWritten s withId) := by
  have hms := h.ts
  have e1 : intBytes (s.ms / 1000) = natDigits (s.ms.toNat / 1000) := by
    rw [intBytes_of_nonneg (by omega)]; congr 1; omega
  have e2 : (s.ms % 1000).toNat = s.ms.toNat % 1000 := by omega
  have hk : s.ms.toNat % 1000 < 1000 := by omega
  refine ⟨_, ?_, rfl, ?_, ?_, ?_⟩
  · unfold encode
    rw [encodeBody_ge1000 s withId hms, e1, e2]
    rfl
  · rw [e1, e2]
    exact body_lffree s withId h.tagLf _ (tsText_lffree _ _ hk)
  · rw [e1, e2, splitOn_body _ s withId (tsText_tabfree _ _ hk) h.tagTab]
    simp [tokens, Sample.fields]
  · unfold decode
    simp only [List.getLast?_append, List.getLast?_singleton, Option.some_or, if_true, List.dropLast_concat]
    rw [e1, e2, decodeBody_ok s withId hms h.tagTab h.id]
    rfl

/-- non-vacuity: a sample with negative, zero and > int64 values, a multi-byte tag and an id ≥ 2^63 is in format -/
example : InFormat { ms := 1484660999002, tag := [0xd1, 0x82, 0x7c, 0x61], id := 18446744073709551615,
                     intervalReal := -5, connect := 0, send := 9223372036854775807, latency := -9223372036854775808,
                     receive := 1, intervalEvent := 100000000000000000000, sizeOut := 7, sizeIn := 8, netCode := 110,
                     protoCode := 200 } :=
  ⟨by decide, by decide, by decide, by decide⟩

/-- **field order** — the ten integers appear in the documented phout order, which is the array-index
order of the regenerated constants of sample.go read through `keyMeaning`, and every regenerated setter
writes the column its name stands for. -/
theorem C06_phout_field_order (s : Sample) :
    fieldsPart s = TAB :: intBytes s.intervalReal ++ TAB :: intBytes s.connect ++ TAB :: intBytes s.send
        ++ TAB :: intBytes s.latency ++ TAB :: intBytes s.receive ++ TAB :: intBytes s.intervalEvent
        ++ TAB :: intBytes s.sizeOut ++ TAB :: intBytes s.sizeIn ++ TAB :: intBytes s.netCode
        ++ TAB :: intBytes s.protoCode ∧
    documentedOrder = ["interval_real", "connect", "send", "latency", "receive", "interval_event",
                       "size_out", "size_in", "net_code", "proto_code"] ∧
    Gen.Phout.fieldKeys.map (fun kv => Bridge.Phout.lookupS kv.1 keyMeaning) = documentedOrder.map some ∧
    Gen.Phout.fieldKeys.map (·.2) = List.range 10 := by
  refine ⟨by simp [fieldsPart, Sample.fields], rfl, ?_, Bridge.Phout.fieldKeys_indices⟩
  have := Bridge.Phout.field_order
  rw [this.1, this.2]

/-- **tie to the source** — the regenerated statement list of `appendPhout`, run on the model's reading of
each statement, is `encodeBody`; the regenerated constants of `appendTimestamp` and `handle` are the model's. -/
theorem C06_phout_regenerated (s : Sample) (withId : Bool) :
    runStmts s withId Gen.Phout.appendPhoutStmts = encodeBody s withId ∧
    Gen.Phout.tsDivisor = tsDivisor ∧ Gen.Phout.tsBase = 10 ∧ Gen.Phout.tsDotFromEnd = dotFromEnd ∧
    UInt8.ofNat Gen.Phout.tsDotByte = DOT ∧ Gen.Phout.tsShiftLoop = true ∧
    UInt8.ofNat Gen.Phout.lineTerminator = LF ∧ Gen.Phout.fieldsNum = 10 ∧ Gen.Phout.fieldsArrayLen = 10 := by
  have h := Bridge.Phout.timestamp_consts
  have h2 := Bridge.Phout.fieldsNum_eq
  exact ⟨Bridge.Phout.appendPhout_eq s withId, h.1, h.2.1, h.2.2.1, h.2.2.2.1, h.2.2.2.2,
    Bridge.Phout.lineTerminator_eq, h2.1, h2.2⟩

/-- the byte-shift loop of `appendTimestamp` is "insert a dot three from the end" (and a panic below three bytes) -/
theorem C06_phout_dot_loop (d : Bytes) :
    insertDot d = if d.length < 3 then none
                  else some (d.take (d.length - 3) ++ DOT :: d.drop (d.length - 3)) := insertDot_eq d

/-- **below one second** (cannot happen with `time.Now()`, stated for completeness): 0 … 99 ms after the
epoch the shift loop indexes `dst[-1]` (panic); 100 … 999 ms the seconds part is missing. -/
theorem C06_phout_before_1s (s : Sample) (withId : Bool) :
    (0 ≤ s.ms → s.ms < 100 → encode s withId = none) ∧
    (100 ≤ s.ms → s.ms < 1000 → ∃ rest, encode s withId = some (DOT :: rest)) := by
  constructor
  · intro h0 h1
    simp [encode, encodeBody, appendTimestamp_small h0 h1]
  · intro h0 h1
    simp [encode, encodeBody, appendTimestamp_subsecond h0 h1]

/-- the format hypothesis on the tag is needed: phout has no escaping. EVERY sample (timestamp ≥ 1 s) whose tag
contains one TAB (reachable: `uri`-style ammo takes the tag verbatim from the file) gives a line of 13 columns
instead of 12. The harness reports such inputs as `skip:out-of-format-tag`. -/
theorem C06_phout_tab_in_tag (s : Sample) (withId : Bool) (a b : Bytes) (hms : 1000 ≤ s.ms)
    (htag : s.tag = a ++ TAB :: b) (ha : TAB ∉ a) (hb : TAB ∉ b) :
    ∃ body, encode s withId = some (body ++ [LF]) ∧ (splitOn TAB body).length = 13 := by
  refine ⟨natDigits (s.ms.toNat / 1000) ++ DOT :: pad3 (s.ms.toNat % 1000) ++ TAB :: s.tag ++ idPart s withId
      ++ fieldsPart s, ?_, ?_⟩
  · unfold encode
    rw [encodeBody_ge1000 s withId hms]
    rfl
  · have hk : s.ms.toNat % 1000 < 1000 := by omega
    have hts := tsText_tabfree (s.ms.toNat / 1000) (s.ms.toNat % 1000) hk
    have e : natDigits (s.ms.toNat / 1000) ++ DOT :: pad3 (s.ms.toNat % 1000) ++ TAB :: s.tag ++ idPart s withId ++ fieldsPart s
        = (natDigits (s.ms.toNat / 1000) ++ DOT :: pad3 (s.ms.toNat % 1000)) ++
          ((a :: (b ++ idPart s withId) :: s.fields.map intBytes).flatMap (fun t => TAB :: t)) := by
      rw [htag, fieldsPart_eq]; simp
    rw [e, splitOn_tokens _ _ hts]
    · simp [Sample.fields]
    · intro t ht
      simp only [List.mem_cons] at ht
      rcases ht with rfl | rfl | ht
      · exact ha
      · simp only [List.mem_append, not_or]; exact ⟨hb, tab_notin_idPart s withId⟩
      · obtain ⟨v, _, rfl⟩ := List.mem_map.mp ht
        exact tab_notin_intBytes v

/-- non-vacuity -/
example : ∃ s : Sample, 1000 ≤ s.ms ∧ s.tag = [97] ++ TAB :: [98] ∧ TAB ∉ ([97] : Bytes) ∧ TAB ∉ ([98] : Bytes) :=
  ⟨{ ms := 1700000000123, tag := [97, 9, 98], id := 1, intervalReal := 1, connect := 2, send := 3, latency := 4,
     receive := 5, intervalEvent := 6, sizeOut := 7, sizeIn := 8, netCode := 9, protoCode := 10 },
   by decide, by decide, by decide, by decide⟩

/-- **result file** — the lines of any number of in-format samples, concatenated, split on LF into exactly
those lines (nothing after the last LF) and every one decodes to its sample, in order. -/
theorem C06_phout_file (ss : List Sample) (withId : Bool) (h : ∀ s ∈ ss, InFormat s) :
    ∃ bodies : List Bytes, ss.map (fun s => encode s withId) = bodies.map (fun b => some (b ++ [LF])) ∧
      fileLines (bodies.flatMap (fun b => b ++ [LF])) = some bodies ∧
      bodies.map (fun b => decode (b ++ [LF]) withId) = ss.map (fun s => some (asWritten s withId)) := by
  induction ss with
  | nil => exact ⟨[], rfl, by simp [fileLines, splitOn], rfl⟩
  | cons s rest ih =>
    obtain ⟨bodies, hb1, hb2, hb3⟩ := ih (fun x hx => h x (by simp [hx]))
    obtain ⟨body, he, _, hlf, _, hd⟩ := C06_phout_wellformed s withId (h s (by simp))
    refine ⟨body :: bodies, by simp [he, hb1], ?_, by simp [hd, hb3]⟩
    -- every body is LF-free: recover it from hb2's shape via the terminated-split lemma
    have hfree : ∀ b ∈ body :: bodies, LF ∉ b := by
      intro b hbm
      simp only [List.mem_cons] at hbm
      rcases hbm with hbm | hbm
      · subst hbm; exact hlf
      · -- b is the body of some sample of `rest`
        have : some (b ++ [LF]) ∈ bodies.map (fun b => some (b ++ [LF])) := List.mem_map.mpr ⟨b, hbm, rfl⟩
        rw [← hb1] at this
        obtain ⟨x, hx, hxe⟩ := List.mem_map.mp this
        obtain ⟨body', he', _, hlf', _, _⟩ := C06_phout_wellformed x withId (h x (by simp [hx]))
        rw [he'] at hxe
        have : body' = b := by
          have := Option.some.inj hxe
          exact List.append_cancel_right this
        subst this; exact hlf'
    unfold fileLines
    rw [splitOn_terminated _ hfree]
    simp only [List.getLast?_append, List.getLast?_singleton, Option.some_or, List.dropLast_concat]

/-! ## (ii) reporters, queue, aggregator -/

section Queue
open Pandora.Model.AggQueue Pandora.Proofs.C06Queue

/-- **queue completeness** — for EVERY schedule (interleaving of any number of reporter goroutines, the
aggregator's select choices, flush ticks, buffer spills, the cancel), every queue size, every reporter
program: if no Report call completes after the cancel, then when `Run` has returned
* what is in the sink plus what was dropped is a permutation of the completed reports; the sink holds the
  enqueued samples in the order the Report calls completed (so each exactly once, per-reporter order kept);
* nothing is left in the queue or in the writer's buffer, the sink is closed;
* phout: nothing is dropped, the sink is exactly the reports, `Run` returned nil, and every reporter whose
  calls all returned finds all its samples, in its order;
* encoder aggregators: `Run`'s error counts exactly the dropped samples. -/
theorem C06_queue_complete {β : Type} (cfg : Cfg) (progs : Nat → List β) (sched : List Ev)
    (hsched : NoReportAfterCancel sched) :
    let st := run cfg (init progs) sched
    st.phase = .returned →
      (st.out ++ st.dropped).Perm st.reports ∧
      st.out.Sublist st.reports ∧
      (∀ r, (ofReporter r st.out).Sublist (ofReporter r st.reports)) ∧
      st.q = [] ∧ st.buf = [] ∧ st.closed = true ∧
      st.droppedCount = st.dropped.length ∧
      (cfg.kind = .phout →
         st.dropped = [] ∧ st.out = st.reports ∧ st.err = none ∧
         ∀ r, st.pending r = [] → ofReporter r st.out = progs r) ∧
      (cfg.kind = .encoder →
         st.err = droppedErr st.dropped.length ∧
         ∀ r, st.pending r = [] → (ofReporter r (st.out ++ st.dropped)).Perm (progs r)) := by
  intro st hret
  have inv : Inv cfg progs st := inv_run sched (inv_init cfg progs)
  have hlate : st.late = false := not_late cfg sched (init progs) rfl rfl hsched
  obtain ⟨hbuf, hclosed, _, hq⟩ := inv.ret hret
  obtain ⟨hq, herr⟩ := hq hlate
  have hout : st.out = accepted st.log := by
    have := inv.flow; rw [hbuf, hq] at this; simpa using this
  have hperm : (st.out ++ st.dropped).Perm st.reports := by
    rw [hout, inv.drops]; exact accepted_rejected_perm st.log
  have hsub : st.out.Sublist st.reports := by rw [hout]; exact accepted_sublist st.log
  have hfilter : ∀ r, (ofReporter r st.out).Sublist (ofReporter r st.reports) := by
    intro r; unfold ofReporter; exact (hsub.filter _).map _
  refine ⟨hperm, hsub, hfilter, hq, hbuf, hclosed, inv.count, ?_, ?_⟩
  · intro hk
    have hd := inv.nodrop hk
    have hrej : rejected st.log = [] := by rw [← inv.drops]; exact hd
    have houtall : st.out = st.reports := by rw [hout]; exact accepted_of_rejected_nil hrej
    refine ⟨hd, houtall, ?_, ?_⟩
    · rw [herr]; simp [retErr, hk]
    · intro r hp
      have := inv.progs r
      rw [hp, List.append_nil] at this
      rw [houtall]; exact this
  · intro hk
    refine ⟨?_, ?_⟩
    · rw [herr, inv.count]; simp [retErr, hk]
    · intro r hp
      have := inv.progs r
      rw [hp, List.append_nil] at this
      rw [← this]
      unfold ofReporter
      exact (hperm.filter _).map _

/-- each sample is in the sink or in the drop count exactly as often as it was reported -/
theorem C06_queue_exactly_once {β : Type} [DecidableEq β] (cfg : Cfg) (progs : Nat → List β)
    (sched : List Ev) (hsched : NoReportAfterCancel sched) (x : Item β) :
    let st := run cfg (init progs) sched
    st.phase = .returned → st.out.count x + st.dropped.count x = st.reports.count x := by
  intro st hret
  have := (C06_queue_complete cfg progs sched hsched hret).1
  rw [← List.count_append]
  exact this.count_eq x

/-- non-vacuity of the hypotheses and reachability of `returned`: two reporters, queue of one, a schedule
with a blocked phout send, a flush tick, the cancel after the last report, and the drain -/
example :
    let sched : List Ev := [.report 0, .report 1, .recv false, .report 1, .tick, .recv true, .report 0,
                            .recv false, .report 1, .cancel, .seeCancel, .drain, .drain]
    NoReportAfterCancel sched ∧
    (run ⟨.phout, 1⟩ (init fun r => if r < 2 then [10 * r, 10 * r + 1] else []) sched).phase = .returned ∧
    (run ⟨.phout, 1⟩ (init fun r => if r < 2 then [10 * r, 10 * r + 1] else []) sched).out
      = [(0, 0), (1, 10), (0, 1), (1, 11)] := by
  refine ⟨?_, by decide, by decide⟩
  simp [NoReportAfterCancel, isReportEv]

/-- the encoder aggregator drops on a full queue and reports the count -/
example :
    let sched : List Ev := [.report 0, .report 0, .report 0, .cancel, .seeCancel, .drain, .drain]
    (run ⟨.encoder, 1⟩ (init fun r => if r = 0 then [1, 2, 3] else []) sched).phase = .returned ∧
    (run ⟨.encoder, 1⟩ (init fun r => if r = 0 then [1, 2, 3] else []) sched).err = some 2 ∧
    (run ⟨.encoder, 1⟩ (init fun r => if r = 0 then [1, 2, 3] else []) sched).out = [(0, 1)] := by
  decide

/-- the hypothesis is needed: a Report that completes after `Run` returned is in nobody's count -/
theorem C06_queue_late_report_lost :
    let sched : List Ev := [.cancel, .seeCancel, .drain, .report 0]
    let st := run ⟨.encoder, 4⟩ (init fun r => if r = 0 then [7] else []) sched
    st.phase = .returned ∧ st.reports = [(0, 7)] ∧ st.out = [] ∧ st.dropped = [] := by
  decide

end Queue

/-! ## (ii') the same for EVERY schedule: no assumption on where the cancel is -/

section Queue2
open Pandora.Model.AggQueue Pandora.Proofs.C06Queue

/-- what `Run` returns: phout nil; encoder aggregators `DroppedErr()` of the drop counter -/
def runErr (cfg : Cfg) (n : Nat) : Option Nat :=
  match cfg.kind with
  | .phout => none
  | .encoder => droppedErr n

/-- **the moment Run returns, for EVERY schedule** (no assumption on the position of the cancel, on late
Report calls, on anything): let `pre` be any schedule after which `Run` is in its drain loop with an empty
queue, so that its next step is `default: return`; `post` is whatever happens afterwards. Then
* at the return: sink ++ counted drops is a permutation of ALL Report calls completed so far, the sink holds
  the enqueued ones in completion order, queue and writer buffer are empty, the sink is closed, the error
  counts exactly the drops (phout: none, and the sink is exactly the reports);
* afterwards: sink, error and closed flag never change again; later Report calls only extend the report log. -/
theorem C06_queue_any_schedule {β : Type} (cfg : Cfg) (progs : Nat → List β) (pre post : List Ev) :
    let s0 := run cfg (init progs) pre
    let s1 := step cfg s0 .drain
    let s2 := run cfg s1 post
    s0.phase = .draining → s0.q = [] →
      (s1.phase = .returned ∧ s1.reports = s0.reports ∧
       (s1.out ++ s1.dropped).Perm s1.reports ∧ s1.out.Sublist s1.reports ∧
       s1.q = [] ∧ s1.buf = [] ∧ s1.closed = true ∧ s1.err = runErr cfg s1.dropped.length ∧
       (cfg.kind = .phout → s1.dropped = [] ∧ s1.out = s1.reports)) ∧
      (s2.phase = .returned ∧ s2.out = s1.out ∧ s2.err = s1.err ∧ s2.closed = true ∧ s2.buf = [] ∧
       s1.reports <+: s2.reports) := by
  intro s0 s1 s2 hph hq
  have inv : Inv cfg progs s0 := inv_run pre (inv_init cfg progs)
  obtain ⟨hout, hlog, hbuf, hq1, hcl, herr, hdrop, _⟩ := at_return inv hph hq
  have hret : s1.phase = .returned := by
    show (step cfg s0 .drain).phase = .returned
    simp only [step, hph, hq]
  have hrep : s1.reports = s0.reports := by simp only [St.reports]; rw [show s1.log = s0.log from hlog]
  have hperm : (s1.out ++ s1.dropped).Perm s1.reports := by
    rw [show s1.out = accepted s0.log from hout, show s1.dropped = rejected s0.log from hdrop, hrep]
    exact accepted_rejected_perm s0.log
  have hsub : s1.out.Sublist s1.reports := by
    rw [show s1.out = accepted s0.log from hout, hrep]; exact accepted_sublist s0.log
  refine ⟨⟨hret, hrep, hperm, hsub, hq1, hbuf, hcl, ?_, ?_⟩, ?_⟩
  · rw [show s1.err = retErr cfg s0.dropped.length from herr, show s1.dropped = rejected s0.log from hdrop,
      ← inv.drops]
    rfl
  · intro hk
    have hd : s1.dropped = [] := by
      rw [show s1.dropped = rejected s0.log from hdrop, ← inv.drops]; exact inv.nodrop hk
    refine ⟨hd, ?_⟩
    rw [show s1.out = accepted s0.log from hout, hrep]
    apply accepted_of_rejected_nil
    rw [← hdrop]; exact hd
  · obtain ⟨i1, i2, i3, i4, i5⟩ := stable_run cfg post hret hbuf
    refine ⟨i1, i2, i3, i4.trans hcl, i5, ?_⟩
    simp only [St.reports]
    exact (log_run cfg post s1).map _

/-- non-vacuity of the hypotheses of `C06_queue_any_schedule`: a report, the cancel, one more report that still
gets in, the drain loop empties the queue — the next `drain` step is the return; afterwards a late report -/
example :
    let progs : Nat → List Nat := fun r => if r = 0 then [1, 2, 3] else []
    let s0 := run ⟨.encoder, 1⟩ (init progs) [.report 0, .cancel, .seeCancel, .drain, .report 0, .drain]
    s0.phase = .draining ∧ s0.q = [] ∧ (step ⟨.encoder, 1⟩ s0 .drain).out = [(0, 1), (0, 2)] := by decide

/-- every schedule after which `Run` has returned is of the form the previous theorem is about -/
theorem C06_queue_return_split {β : Type} (cfg : Cfg) (progs : Nat → List β) (sched : List Ev)
    (h : (run cfg (init progs) sched).phase = .returned) :
    ∃ pre post, sched = pre ++ .drain :: post ∧
      (run cfg (init progs) pre).phase = .draining ∧ (run cfg (init progs) pre).q = [] :=
  return_split cfg sched (init progs) (by simp [init]) h

/-- **reported before the cancel ⇒ written or counted**, for EVERY schedule: split any schedule at its first
`cancel` (end of run, SIGINT/SIGTERM, failure of another task — whatever cancels the context). If `Run` has
returned at the end, then the Report calls completed before the cancel are a prefix of the calls that the
final sink and error account for: `sink ++ counted` is a permutation of a prefix `R` of the report log which
contains all of them. Report calls after the cancel may or may not be in `R` (they are iff they completed
before `Run` returned). -/
theorem C06_queue_reported_before_cancel {β : Type} (cfg : Cfg) (progs : Nat → List β) (a b : List Ev)
    (ha : ∀ e ∈ a, e ≠ .cancel) :
    let sa := run cfg (init progs) a
    let st := run cfg (init progs) (a ++ .cancel :: b)
    st.phase = .returned →
      ∃ (R counted : List (Item β)), sa.reports <+: R ∧ R <+: st.reports ∧
        (st.out ++ counted).Perm R ∧ st.out.Sublist R ∧ st.err = runErr cfg counted.length ∧
        st.closed = true ∧ st.buf = [] ∧ (cfg.kind = .phout → counted = [] ∧ st.out = R) := by
  intro sa st hret
  obtain ⟨pre, post, hs, hph, hq⟩ := C06_queue_return_split cfg progs _ hret
  obtain ⟨⟨_, hrep, hperm, hsub, _, _, _, herr, hph2⟩, ⟨_, o2, o3, o4, o5, o6⟩⟩ :=
    C06_queue_any_schedule cfg progs pre post hph hq
  -- `a` is a prefix of `pre`: before the cancel nothing is cancelled, and draining needs the cancel
  have hpre : a <+: pre := by
    -- compare the two decompositions of the schedule
    have hcanc : (run cfg (init progs) pre).cancelled = true :=
      (inv_run pre (inv_init cfg progs)).draining hph
    rcases List.append_eq_append_iff.mp hs with ⟨c, hc1, hc2⟩ | ⟨c, hc1, hc2⟩
    · -- pre = a ++ c
      exact ⟨c, hc1.symm⟩
    · -- a = pre ++ c, with c ++ cancel :: b = drain :: post; then pre has no cancel: contradiction
      exfalso
      have : (run cfg (init progs) pre).cancelled = false := by
        rw [cancelled_of_nocancel cfg pre _ (fun e he => ha e (by rw [hc1]; simp [he]))]; rfl
      rw [hcanc] at this; cases this
  obtain ⟨c, hc⟩ := hpre
  have hst : st = run cfg (step cfg (run cfg (init progs) pre) .drain) post := by
    show run cfg (init progs) (a ++ .cancel :: b) = _
    rw [hs, run_append]; rfl
  refine ⟨(step cfg (run cfg (init progs) pre) .drain).reports, (step cfg (run cfg (init progs) pre) .drain).dropped,
    ?_, ?_, ?_, ?_, ?_, ?_, ?_, ?_⟩
  · rw [hrep, ← hc, run_append]
    simp only [St.reports]
    exact (log_run cfg c _).map _
  · rw [hst]; exact o6
  · rw [hst, o2]; exact hperm
  · rw [hst, o2]; exact hsub
  · rw [hst, o3]; exact herr
  · rw [hst]; exact o4
  · rw [hst]; exact o5
  · intro hk
    rw [hst, o2]; exact hph2 hk

/-- non-vacuity: a Report that completes after the cancel but before `Run` returned is written, one that
completes after the return is not — and both schedules satisfy the hypotheses of the theorem above -/
example :
    let progs : Nat → List Nat := fun r => if r = 0 then [1, 2, 3] else []
    let st := run ⟨.phout, 4⟩ (init progs) ([.report 0] ++ .cancel :: [.report 0, .seeCancel, .drain, .drain, .drain, .report 0])
    st.phase = .returned ∧ st.out = [(0, 1), (0, 2)] ∧ st.reports = [(0, 1), (0, 2), (0, 3)] ∧ st.q = [(0, 3)] := by
  decide

end Queue2

section Queue3
open Pandora.Model.AggQueue

/-- the literal strongest reading — EVERY completed Report call, also one made after the cancel while the
pool is still winding down, is written or counted — as a statement … -/
def C06_queue_every_report_statement : Prop :=
  ∀ (cfg : Cfg) (progs : Nat → List Nat) (sched : List Ev),
    let st := run cfg (init progs) sched
    st.phase = .returned → (st.out ++ st.dropped).Perm st.reports

/-- … is false for a cancelled run: a Report that completes after `Run` has returned (an instance whose shoot
was in flight when the context was cancelled) lands in a queue nobody reads. What holds instead, for every
schedule, is `C06_queue_any_schedule` / `C06_queue_reported_before_cancel` (everything reported before the
cancel, indeed before `Run` returned), and for a run that ends by itself `C06_end_of_run_complete` (the pool
issues the cancel only after the last Report). -/
theorem C06_queue_every_report_counterexample : ¬ C06_queue_every_report_statement := by
  intro h
  have := h ⟨.encoder, 4⟩ (fun r => if r = 0 then [7] else []) [.cancel, .seeCancel, .drain, .report 0] (by decide)
  have hl := this.length_eq
  revert hl
  decide

/-- the part that holds without any hypothesis (`_partial` of the statement above): at the moment `Run`
returns, for every schedule -/
theorem C06_queue_every_report_partial (cfg : Cfg) (progs : Nat → List Nat) (pre : List Ev) :
    let s0 := run cfg (init progs) pre
    let s1 := step cfg s0 .drain
    s0.phase = .draining → s0.q = [] → s1.phase = .returned ∧ (s1.out ++ s1.dropped).Perm s1.reports := by
  intro s0 s1 h1 h2
  have := (C06_queue_any_schedule cfg progs pre [] h1 h2).1
  exact ⟨this.1, this.2.2.1⟩

end Queue3

/-! ## the result file of a whole run -/

section ResultFile
open Pandora.Model.AggQueue Pandora.Proofs.C06Queue

/-- the bytes the sink holds when its content is the samples `out`, one encoded line each; `none` if the
encoder would panic on one of them -/
def sinkBytes (withId : Bool) : List (Item Sample) → Option Bytes
  | [] => some []
  | x :: rest => do
      let l ← encode x.2 withId
      let r ← sinkBytes withId rest
      pure (l ++ r)

/-- **phout result file of a whole run** — any number of reporter goroutines with in-format samples, any
queue size, ANY schedule: once `Run` has returned, the destination holds well-formed lines only, one per
sample of the sink list (which by `C06_queue_any_schedule` is: every Report completed before the return,
each once, in completion order): splitting the file at LF gives exactly that many lines, nothing after the
last LF, and line `i` decodes to sample `i`. -/
theorem C06_phout_result_file (cap : Nat) (progs : Nat → List Sample) (withId : Bool) (sched : List Ev)
    (hfmt : ∀ r, ∀ s ∈ progs r, InFormat s) :
    let st := run ⟨.phout, cap⟩ (init progs) sched
    ∃ file lines, sinkBytes withId st.out = some file ∧ fileLines file = some lines ∧
      lines.length = st.out.length ∧
      lines.map (fun l => decode (l ++ [LF]) withId) = st.out.map (fun x => some (asWritten x.2 withId)) := by
  intro st
  have inv : Inv ⟨.phout, cap⟩ progs st := inv_run sched (inv_init _ progs)
  -- every sample in the sink is one of its reporter's program
  have hmem : ∀ x ∈ st.out, x.2 ∈ progs x.1 := by
    intro x hx
    have h1 : x ∈ accepted st.log := by rw [← inv.flow]; simp [hx]
    have h2 : x ∈ st.reports := (accepted_sublist st.log).subset h1
    have h3 : x.2 ∈ ofReporter x.1 st.reports := by
      unfold ofReporter
      exact List.mem_map.mpr ⟨x, List.mem_filter.mpr ⟨h2, by simp⟩, rfl⟩
    rw [← inv.progs x.1]; simp [h3]
  obtain ⟨bodies, hb1, hb2, hb3⟩ := C06_phout_file (st.out.map (·.2)) withId (by
    intro s hs
    obtain ⟨x, hx, rfl⟩ := List.mem_map.mp hs
    exact hfmt x.1 x.2 (hmem x hx))
  have hlen : bodies.length = st.out.length := by
    have := congrArg List.length hb1; simpa using this.symm
  refine ⟨bodies.flatMap (fun b => b ++ [LF]), bodies, ?_, hb2, hlen, ?_⟩
  · -- sinkBytes follows the list of encoded lines
    have key : ∀ (out : List (Item Sample)) (bs : List Bytes),
        (out.map (·.2)).map (fun s => encode s withId) = bs.map (fun b => some (b ++ [LF])) →
        sinkBytes withId out = some (bs.flatMap (fun b => b ++ [LF])) := by
      intro out
      induction out with
      | nil => intro bs h; cases bs with
        | nil => rfl
        | cons _ _ => simp at h
      | cons x rest ih =>
        intro bs h
        cases bs with
        | nil => simp at h
        | cons b bs' =>
          simp only [List.map_cons, List.cons.injEq] at h
          simp only [sinkBytes, h.1, ih bs' h.2]
          rfl
    exact key st.out bodies hb1
  · rw [hb3]; simp

/-- **line-oriented result file, any encoder** (jsonlines: `enc` = the JSON text of a sample; jsoniter escapes
control characters inside strings and writes no raw LF, which is observed on the real encoder, not proved):
if no encoded value contains LF, the file made of `enc x ++ LF` for the sink list splits into exactly one
line per written sample, in order, nothing after the last LF; so with `C06_queue_any_schedule`
lines + counted drops = Report calls completed before the return. -/
theorem C06_lines_result_file {β : Type} (enc : β → Bytes) (henc : ∀ x, LF ∉ enc x) (cfg : Cfg)
    (progs : Nat → List β) (pre : List Ev) :
    let s0 := run cfg (init progs) pre
    let s1 := step cfg s0 .drain
    s0.phase = .draining → s0.q = [] →
      fileLines (s1.out.flatMap (fun x => enc x.2 ++ [LF])) = some (s1.out.map (fun x => enc x.2)) ∧
      (s1.out.map (fun x => enc x.2)).length + s1.dropped.length = s1.reports.length ∧
      s1.err = runErr cfg s1.dropped.length := by
  intro s0 s1 hph hq
  obtain ⟨⟨_, _, hperm, _, _, _, _, herr, _⟩, _⟩ := C06_queue_any_schedule cfg progs pre [] hph hq
  refine ⟨?_, ?_, herr⟩
  · have := fileLines_of_lines (s1.out.map (fun x => enc x.2)) (by
      intro b hb; obtain ⟨x, _, rfl⟩ := List.mem_map.mp hb; exact henc x.2)
    rw [← this, List.flatMap_map]
  · have := hperm.length_eq
    simpa using this

end ResultFile

/-! ## (iv) the pool: the end-of-run cancel comes after the last Report; `Engine.Wait` after the aggregator -/

section Pool
open Pandora.Model.C06Pool Pandora.Proofs.C06Pool
open Pandora.Model.AggQueue (Ev NoReportAfterCancel)

/-- **the end-of-run cancel comes after the last Report** — for every trace of the pool's goroutines
(instance start, instances reporting and finishing, provider, aggregator, the four cases of `awaitRun`) in
which the pool's parent context is NOT cancelled from outside: what the aggregator sees (`emitted`:
completed Report calls and the cancel issued by `checkAllInstancesAreFinished`) has no Report after the
cancel; when the cancel is issued no instance is running and instance start is over. Hence every aggregator
schedule whose report/cancel events are these satisfies the hypothesis of `C06_queue_complete`.
The number of results awaited is the regenerated `resultsToWait`. -/
theorem C06_pool_cancel_after_reports (trace : List PEv) (hne : ∀ e ∈ trace, e ≠ PEv.extCancel) :
    let st := run (init Gen.AggQ.engineResultsToWait) trace
    NoReportAfterCancel st.emitted ∧
    (st.cancelled = true → st.running = 0 ∧ st.starting = false ∧ st.runResOpen = false) ∧
    (∀ sched : List Ev, sched.filter isRC = st.emitted → NoReportAfterCancel sched) := by
  intro st
  have hst : st = run (init 4) trace := by
    show run (init Gen.AggQ.engineResultsToWait) trace = _
    rw [Bridge.AggQ.results_to_wait]
  have p : PInv st := by rw [hst]; exact pinv_run trace pinv_init
  have e : EInv st := by rw [hst]; exact einv_run trace pinv_init einv_init hne
  have hn : NoReportAfterCancel st.emitted := by
    cases hc : st.cancelled with
    | false => exact nrac_of_nocancel _ (e.before hc)
    | true => exact (e.after hc).2
  refine ⟨hn, ?_, ?_⟩
  · intro hc
    have h1 := (e.after hc).1
    have h2 := p.closed h1
    exact ⟨h2.1, h2.2.1, h1⟩
  · intro sched hs
    rw [nrac_filter, hs]; exact hn

/-- **`Engine.Wait()` returns after the aggregator** — for EVERY trace (external cancels included): the pool's
`onWaitDone` (what `Engine.Wait()` waits for, and what closes `awaitErr`, the only way `pool.Run` and with it
`Engine.Run` return nil) happens only after `awaitRun` received the aggregator's result, i.e. after
`Aggregator.Run` returned (drained, flushed, closed), after all instances finished and the queue's cancel was
issued; and no instance ever sends its result on the closed `runRes` channel (no panic). -/
theorem C06_pool_wait_after_aggregator (trace : List PEv) :
    let st := run (init Gen.AggQ.engineResultsToWait) trace
    (st.waitDone = true → st.aggDone = true ∧ st.aggOpen = false ∧ st.runResOpen = false ∧ st.running = 0 ∧
       st.cancelled = true) ∧
    st.sendOnClosed = false := by
  intro st
  have hst : st = run (init 4) trace := by
    show run (init Gen.AggQ.engineResultsToWait) trace = _
    rw [Bridge.AggQ.results_to_wait]
  have p : PInv st := by rw [hst]; exact pinv_run trace pinv_init
  refine ⟨?_, p.noSend⟩
  intro hw
  have h0 := p.wd hw
  have hacct := p.acct
  have ha : st.aggOpen = false := by
    cases h : st.aggOpen with
    | false => rfl
    | true =>
      rw [h0, h, b2n_true] at hacct
      have := b2n_le st.provOpen; have := b2n_le st.startResOpen; have := b2n_le st.runResOpen
      omega
  have hr : st.runResOpen = false := by
    cases h : st.runResOpen with
    | false => rfl
    | true =>
      rw [h0, h, b2n_true] at hacct
      have := b2n_le st.provOpen; have := b2n_le st.startResOpen; have := b2n_le st.aggOpen
      omega
  have hc : st.cancelled = true := by
    rw [hst] at hr ⊢
    exact cinv_run trace (by simp [init]) hr
  exact ⟨p.aggTaken ha, ha, hr, (p.closed hr).1, hc⟩

/-- **the cancel is not forgotten** — for EVERY trace: once the start result was taken, no instance is running and
every instance result was taken, `runRes` is closed and the end-of-run cancel has been issued: the aggregator is
never left waiting for a cancel nobody will send (both `case`s that can complete the condition — the start result and
an instance result — call `checkAllInstancesAreFinished`; "There is a race between run and start results"). -/
theorem C06_pool_no_stuck (trace : List PEv) :
    let st := run (init Gen.AggQ.engineResultsToWait) trace
    st.startResOpen = false → st.running = 0 → st.awaitedInstances = st.finishedCount →
      st.runResOpen = false ∧ st.cancelled = true := by
  intro st hs hr ha
  have hst : st = run (init 4) trace := by
    show run (init Gen.AggQ.engineResultsToWait) trace = _
    rw [Bridge.AggQ.results_to_wait]
  have p : PInv st := by rw [hst]; exact pinv_run trace pinv_init
  have k : Pandora.Proofs.C06PoolLive.KInv st := by
    rw [hst]; exact Pandora.Proofs.C06PoolLive.kinv_run trace pinv_init (Pandora.Proofs.C06PoolLive.kinv_init 4)
  have hclosed : st.runResOpen = false := by
    rcases k hs with h | h
    · exact h
    · have := p.cnt; omega
  refine ⟨hclosed, ?_⟩
  rw [hst] at hclosed ⊢
  exact cinv_run trace (by simp [init]) hclosed

/-- non-vacuity, the interleaving the comment in engine.go is about: the only instance runs out of ammo and its
result is taken BEFORE the start result; the start-result case must issue the cancel -/
example :
    let st := run (init 4) [.launch, .finish, .awaitInst, .startDone, .awaitStart]
    st.startResOpen = false ∧ st.running = 0 ∧ st.awaitedInstances = st.finishedCount ∧ st.cancelled = true := by
  decide

/-- **a run that ends by itself is complete** — composition of the pool and the queue models: any pool trace
without external cancel, any aggregator schedule that agrees with it on reports and cancel, any queue
size and reporter programs: when `Run` has returned, sink ++ counted drops is a permutation of all Report
calls, nothing is left queued or buffered, the sink is closed, the error counts the drops. -/
theorem C06_end_of_run_complete {β : Type} (cfg : Pandora.Model.AggQueue.Cfg) (progs : Nat → List β)
    (trace : List PEv) (hne : ∀ e ∈ trace, e ≠ PEv.extCancel) (sched : List Ev)
    (hcons : sched.filter isRC = (run (init Gen.AggQ.engineResultsToWait) trace).emitted) :
    let st := Pandora.Model.AggQueue.run cfg (Pandora.Model.AggQueue.init progs) sched
    st.phase = .returned →
      (st.out ++ st.dropped).Perm st.reports ∧ st.q = [] ∧ st.buf = [] ∧ st.closed = true ∧
      st.err = runErr cfg st.dropped.length := by
  intro st hret
  have hs := (C06_pool_cancel_after_reports trace hne).2.2 sched hcons
  obtain ⟨h1, _, _, h4, h5, h6, _, h8, h9⟩ := C06_queue_complete cfg progs sched hs hret
  refine ⟨h1, h4, h5, h6, ?_⟩
  unfold runErr
  cases hk : cfg.kind with
  | phout => exact (h8 hk).2.2.1
  | encoder => exact (h9 hk).1

/-- non-vacuity: two instances report and finish, the await loop sees both results and the start result, issues
the cancel; the aggregator returns, everything is awaited, `onWaitDone` -/
example :
    let st := run (init 4) [.launch, .launch, .startDone, .report 0, .finish, .awaitInst, .report 1, .finish,
      .awaitStart, .awaitInst, .aggReturn, .awaitAgg, .provReturn, .awaitProv, .waitDone]
    st.emitted = [Ev.report 0, Ev.report 1, Ev.cancel] ∧ st.waitDone = true ∧ st.toWait = 0 := by decide

/-- the guard matters: with `awaitedInstances >= startedInstances` alone (`startedInstances` is −1 until the
start result was taken) the cancel would be issued while instances are still being started -/
example :
    let st := run (init 4) [.launch, .finish, .awaitInst]
    st.cancelled = false ∧ st.startedInstances = -1 ∧ st.awaitedInstances = 1 := by decide

end Pool

/-! ## (v) from the await loop to `Engine.Run`'s return value; who runs under which context -/

section Engine
open Pandora.Model.C06Engine Pandora.Proofs.C06Engine Pandora.Proofs.C06Pool

/-- **`Engine.Run` returns nil only after every aggregator returned** — any number `n` of pools, every
interleaving of the pools' goroutines (each pool is the free-running await-loop system, external cancels
included), of the `pool.Run` selects, of the result sends/suppressions and of `Engine.Run`'s loop: if
`Engine.Run` returned nil then EVERY pool's `Run` returned nil, which it does only on the closed `awaitErr`,
i.e. after `awaitRun` was over: the pool's aggregator `Run` had returned (drained, flushed, closed) and its result was
taken, no instance is running, nothing was sent on a closed channel. This is the enabling condition of
`engineReturned true` in the shutdown model and what `kind=engine` of the harness observes.
The loop awaits `len(Pools)` results (`Bridge.AggQ.engineRunLoopBound_eq`), the await loop four
(`Gen.AggQ.engineResultsToWait`). -/
theorem C06_engine_nil_after_aggregators (n : Nat) (trace : List EEv) :
    let st := run (init n n Gen.AggQ.engineResultsToWait) trace
    st.ret = some true →
      ∀ j, j < n → (st.pools j).ret = some true ∧ (st.pools j).p.waitDone = true ∧
        (st.pools j).p.aggDone = true ∧ (st.pools j).p.aggOpen = false ∧ (st.pools j).p.runResOpen = false ∧
        (st.pools j).p.running = 0 ∧ (st.pools j).p.sendOnClosed = false := by
  intro st hret j hj
  have hst : st = run (init n n 4) trace := by
    show run (init n n Gen.AggQ.engineResultsToWait) trace = _
    rw [Bridge.AggQ.results_to_wait]
  have inv : EngInv st := by rw [hst]; exact enginv_run trace (enginv_init n n)
  have hn : st.n = n ∧ st.awaitN = n := by rw [hst]; exact n_run trace _
  have hle := inv.retOk hret
  have hcnt := inv.cnt
  have hle2 := countGot_le st.n st.got
  have hfull : countGot st.n st.got = st.n := by omega
  have hg := countGot_full st.n st.got hfull j (by omega)
  obtain ⟨_, _, hr⟩ := inv.gotOk j hg
  have hw := inv.retNil j hr
  obtain ⟨a, b, c, d, _⟩ := wd_all (inv.pinv j) hw
  exact ⟨hr, hw, a, b, c, d, (inv.pinv j).noSend⟩

/-- **a failed or cancelled run, after `Engine.Wait`** (round 3) — whatever `Engine.Run` returned (nil, the error of
the first pool that failed, the context's error) and whatever the pools did: `Engine.Wait()` returns when every
pool has called `onWaitDone` (`wait.Add(1)` per pool, `Done` only there), and a pool whose `onWaitDone` has
happened has an aggregator that returned and was awaited, no running instance, a closed `runRes`, no send on a closed
channel. So the caller that cancels and waits — what cli.go does when the engine fails by itself or a signal
arrives — finds every result flushed and closed, the healthy pools' too. -/
theorem C06_engine_wait_after_aggregators (n : Nat) (trace : List EEv) :
    let st := run (init n n Gen.AggQ.engineResultsToWait) trace
    (∀ j, j < n → (st.pools j).p.waitDone = true) →
      ∀ j, j < n → (st.pools j).p.aggDone = true ∧ (st.pools j).p.aggOpen = false ∧
        (st.pools j).p.runResOpen = false ∧ (st.pools j).p.running = 0 ∧ (st.pools j).p.sendOnClosed = false := by
  intro st hw j hj
  have hst : st = run (init n n 4) trace := by
    show run (init n n Gen.AggQ.engineResultsToWait) trace = _
    rw [Bridge.AggQ.results_to_wait]
  have inv : EngInv st := by rw [hst]; exact enginv_run trace (enginv_init n n)
  obtain ⟨a, b, c, d, _⟩ := wd_all (inv.pinv j) (hw j hj)
  exact ⟨a, b, c, d, (inv.pinv j).noSend⟩

/-- non-vacuity: two pools; pool 0 fails (its `Run` returns an error while its tasks are still being awaited), the
engine returns that error; then both pools finish their tasks: `Wait` can return, both aggregators have returned -/
example :
    let pool : Nat → List EEv := fun j =>
      ([.launch, .startDone, .report 0, .finish, .awaitStart, .awaitInst, .aggReturn, .awaitAgg, .provReturn,
        .awaitProv, .waitDone] : List Pandora.Model.C06Pool.PEv).map (EEv.pool j)
    let st := run (init 2 2 Gen.AggQ.engineResultsToWait) ([.poolRetErr 0, .poolSend 0, .engRecv] ++ pool 0 ++ pool 1)
    st.ret = some false ∧ (st.pools 0).p.waitDone = true ∧ (st.pools 1).p.waitDone = true ∧
      (st.pools 1).p.aggDone = true := by decide

/-- the same for one pool, whatever the engine does: `pool.Run` returns nil only after its aggregator returned -/
theorem C06_engine_pool_nil_after_aggregator (n awaitN : Nat) (trace : List EEv) (j : Nat) :
    let st := run (init n awaitN Gen.AggQ.engineResultsToWait) trace
    (st.pools j).ret = some true → (st.pools j).p.aggDone = true ∧ (st.pools j).p.running = 0 := by
  intro st hr
  have hst : st = run (init n awaitN 4) trace := by
    show run (init n awaitN Gen.AggQ.engineResultsToWait) trace = _
    rw [Bridge.AggQ.results_to_wait]
  have inv : EngInv st := by rw [hst]; exact enginv_run trace (enginv_init n awaitN)
  obtain ⟨a, _, _, d, _⟩ := wd_all (inv.pinv j) (inv.retNil j hr)
  exact ⟨a, d⟩

/-- non-vacuity: two pools, each with one instance that reports and finishes; both pools wind down, both results
are received, `Engine.Run` returns nil -/
example :
    let pool : Nat → List EEv := fun j =>
      ([.launch, .startDone, .report 0, .finish, .awaitStart, .awaitInst, .aggReturn, .awaitAgg, .provReturn,
        .awaitProv, .waitDone] : List Pandora.Model.C06Pool.PEv).map (EEv.pool j) ++ [.poolRetClosed j, .poolSend j, .engRecv]
    (run (init 2 2 4) (pool 1 ++ pool 0 ++ [.engRetNil])).ret = some true := by decide

/-- the loop bound matters: a loop that awaits one result less returns nil while an aggregator is still running -/
theorem C06_engine_bound_counterexample :
    let st := run (init 1 0 4) [.engRetNil]
    st.ret = some true ∧ (st.pools 0).p.aggDone = false := by decide

/-- **who is cancelled by what** — read off the regenerated derivation table of `runAsync`: the aggregator (and
the provider) run under `runCtx`; `runCancel`, which the await loop calls once all instances have finished,
cancels it; `instanceStartCancel` (out of ammo while instances are still shooting, the shared schedule's finish)
cancels the instance-start context only — never the aggregator; a cancel from above (Engine.Run's context:
SIGINT/SIGTERM, another pool's failure) reaches the aggregator, nothing the pool does cancels the parent. -/
theorem C06_engine_contexts :
    Gen.AggQ.engineAggregatorRunCtx = [Gen.AggQ.engineHandleRunCtx] ∧
    (cancelledBy Gen.AggQ.engineCtxDerive Gen.AggQ.engineHandleRunCancel).contains Gen.AggQ.engineHandleRunCtx = true ∧
    (cancelledBy Gen.AggQ.engineCtxDerive Gen.AggQ.engineHandleInstanceStartCancel).contains Gen.AggQ.engineHandleRunCtx = false ∧
    (doneWith Gen.AggQ.engineCtxDerive Gen.AggQ.enginePoolCtxParam).contains Gen.AggQ.engineHandleRunCtx = true ∧
    (doneWith Gen.AggQ.engineCtxDerive Gen.AggQ.engineHandleRunCtx).contains Gen.AggQ.enginePoolCtxParam = false ∧
    Gen.AggQ.engineInstanceGoStmts = 0 := by
  have h := Bridge.AggQ.ctx_tree
  exact ⟨h.1, h.2.2.2.2.1, h.2.2.2.2.2.2.2.1, h.2.2.2.2.2.2.2.2.1, h.2.2.2.2.2.2.2.2.2, Bridge.AggQ.instance_run_synchronous.1⟩

/-- the functions of core/engine and cli between the await loop and the process exit are the ones the models of
(iii)–(v) were written from; so are phout's `handle` (sample released only after the write) and the sample pool
(`Acquire` overwrites the whole pooled sample) -/
theorem C06_source_shape_engine :
    Gen.AggQ.engineRun = Bridge.AggQ.engineRunExpected ∧
    Gen.AggQ.enginePoolRun = Bridge.AggQ.enginePoolRunExpected ∧
    Gen.AggQ.engineRunAsync = Bridge.AggQ.engineRunAsyncExpected ∧
    Gen.AggQ.engineStartInstances = Bridge.AggQ.engineStartInstancesExpected ∧
    Gen.AggQ.engineOnErrAwaited = Bridge.AggQ.engineOnErrAwaitedExpected ∧
    Gen.AggQ.engineRunNewInstance = Bridge.AggQ.engineRunNewInstanceExpected ∧
    Gen.AggQ.engineInstanceRun = Bridge.AggQ.engineInstanceRunExpected ∧
    Gen.AggQ.cliReadConfigAndRunEngine = Bridge.AggQ.cliReadConfigAndRunEngineExpected ∧
    Gen.AggQ.engineRunLoopBound = Bridge.AggQ.engineRunLoopBoundExpected ∧
    Gen.AggQ.phoutHandle = Bridge.AggQ.phoutHandleExpected ∧
    Gen.AggQ.sampleAcquire = Bridge.AggQ.sampleAcquireExpected ∧
    Gen.AggQ.sampleRelease = Bridge.AggQ.sampleReleaseExpected ∧
    Gen.AggQ.sampleDiscarded = Bridge.AggQ.sampleDiscardedExpected :=
  ⟨Bridge.AggQ.engineRun_eq, Bridge.AggQ.enginePoolRun_eq, Bridge.AggQ.engineRunAsync_eq,
   Bridge.AggQ.engineStartInstances_eq, Bridge.AggQ.engineOnErrAwaited_eq, Bridge.AggQ.engineRunNewInstance_eq,
   Bridge.AggQ.engineInstanceRun_eq, Bridge.AggQ.cliReadConfigAndRunEngine_eq, Bridge.AggQ.engineRunLoopBound_eq,
   Bridge.AggQ.phoutHandle_eq, Bridge.AggQ.sampleAcquire_eq, Bridge.AggQ.sampleRelease_eq, Bridge.AggQ.sampleDiscarded_eq⟩

end Engine

/-! ## (vi) a sink that starts to reject writes -/

section SinkFail
open Pandora.Model.C06SinkFail Pandora.Proofs.C06SinkFail

/-- **closed exactly once, whatever the sink does** — both aggregators, every schedule, the sink may start to
reject writes at any moment: the sink is closed exactly when `Run` has returned, once, and nothing is written
after the close (the deferred flush comes before the deferred close on every return path, the error paths
included). This is what the harness checks with `fail=N` / `kind=sinkfail`. -/
theorem C06_sinkfail_closed_once (kind : Kind) (trace : List Ev) :
    let st := run kind {} trace
    st.closes ≤ 1 ∧ (st.phase = .returned ↔ st.closes = 1) ∧ st.writeAfterClose = false := by
  intro st
  have inv : Inv kind st := inv_run kind trace (inv_init kind)
  by_cases hp : st.phase = .returned
  · have := (inv.done hp).1
    exact ⟨by omega, ⟨fun _ => this, fun _ => hp⟩, inv.wac⟩
  · have := (inv.live hp).2.2.2.1
    exact ⟨by omega, ⟨fun h => absurd h hp, fun h => by omega⟩, inv.wac⟩

/-- "a rejected write makes `Run` return an error" as a statement … -/
def C06_sinkfail_reported_statement : Prop :=
  ∀ (kind : Kind) (trace : List Ev), let st := run kind {} trace
    st.phase = .returned → st.failed = true → st.err = true

/-- … is false for both aggregators: the sink breaks after the last sample was handled; the final flush is
rejected; phout discards that error (`_ = a.writer.Flush()`), the JSON encoder discards the error of its bufio
layer (`_ = e.buf.Flush()`); `Run` returns nil and the lines are gone. (The property is silent about failing
sinks; listed in notes/C06.md as observed, not claimed.) -/
theorem C06_sinkfail_reported_counterexample : ¬ C06_sinkfail_reported_statement := by
  intro h
  have := h .phout [.report, .recv false, .sinkBreaks, .cancel, .seeCancel, .drain false] (by decide) (by decide)
  revert this
  decide

/-- the jsonlines witness of the same -/
example :
    let st := run .jsonlines {} [.report, .recv false, .sinkBreaks, .cancel, .seeCancel, .drain false]
    st.phase = .returned ∧ st.failed = true ∧ st.err = false ∧ st.written = 0 ∧ st.failedInLastFlush = true := by
  decide

/-- what holds instead (`_partial`), every schedule: `Run` returns an error exactly when an operation that hands
the writer's error to it (phout: `handle`, i.e. the next sample; jsonlines: the stream's flush, which every tick
and the return path perform) completed after the rejected write; hence for jsonlines the ONLY rejected write that is
not reported is the very last flush of the bufio layer; for phout it is one after which no sample was handled. -/
theorem C06_sinkfail_reported_partial (kind : Kind) (trace : List Ev) :
    let st := run kind {} trace
    st.phase = .returned →
      st.err = st.checkedAfterFail ∧
      (kind = .jsonlines → st.failed = true → st.err = false → st.failedInLastFlush = true) ∧
      (st.failedInLastFlush = true → st.failed = true ∧ st.err = false) := by
  intro st hp
  have inv : Inv kind st := inv_run kind trace (inv_init kind)
  exact ⟨(inv.done hp).2, fun hk => inv.json hk hp, inv.last⟩

/-- non-vacuity: a failure in a ticker flush IS reported by jsonlines (the next stream flush meets the sticky
error) and by phout as soon as one more sample is handled -/
example :
    (run .jsonlines {} [.report, .recv false, .sinkBreaks, .tick false, .cancel, .seeCancel, .drain false]).err = true ∧
    (run .phout {} [.report, .recv false, .sinkBreaks, .tick false, .report, .recv false]).err = true ∧
    (run .phout {} [.report, .recv false, .sinkBreaks, .tick false, .cancel, .seeCancel, .drain false]).err = false := by
  decide

end SinkFail

/-! ## the models are the code: regenerated control skeletons -/

/-- **tie to the source** — the control skeletons of the functions the three transition systems mirror, re-read
from /repo on every run (gen/area_aggq.go), are the ones the models were written from: Reporter
(non-blocking send, one `Inc` per drop, `DroppedErr` nil iff zero, the error text), the encoder aggregator's
`Run` (defer order: encoder close/flush runs before sink close + `DroppedErr`; select; drain loop), the JSON
encoder (value then LF; flush of both layers), phout's `Run`/`Report`, the pool's await loop and
`checkAllInstancesAreFinished` with `resultsToWait = 4`, `awaitPandoraTermination`; and the file sink opens
with `O_WRONLY|O_CREATE|O_TRUNC`, never `O_APPEND`. The expected skeletons are the `…Expected` strings of
`Pandora.Bridge.AggQ`. -/
theorem C06_source_shape :
    Gen.AggQ.reporterReport = Bridge.AggQ.reporterReportExpected ∧
    Gen.AggQ.reporterDropSample = Bridge.AggQ.reporterDropSampleExpected ∧
    Gen.AggQ.reporterDroppedErr = Bridge.AggQ.reporterDroppedErrExpected ∧
    Gen.AggQ.droppedErrorText = Bridge.AggQ.droppedErrorTextExpected ∧
    Gen.AggQ.newReporter = Bridge.AggQ.newReporterExpected ∧
    Gen.AggQ.encoderRun = Bridge.AggQ.encoderRunExpected ∧
    Gen.AggQ.encoderHandleSample = Bridge.AggQ.encoderHandleSampleExpected ∧
    Gen.AggQ.jsonEncode = Bridge.AggQ.jsonEncodeExpected ∧
    Gen.AggQ.jsonFlush = Bridge.AggQ.jsonFlushExpected ∧
    Gen.AggQ.newJSONLinesAggregator = Bridge.AggQ.newJSONLinesAggregatorExpected ∧
    Gen.AggQ.newJSONEncoder = Bridge.AggQ.newJSONEncoderExpected ∧
    Gen.AggQ.fileOpenSink = Bridge.AggQ.fileOpenSinkExpected ∧
    Gen.AggQ.phoutRun = Bridge.AggQ.phoutRunExpected ∧
    Gen.AggQ.phoutReport = Bridge.AggQ.phoutReportExpected ∧
    Gen.AggQ.newPhout = Bridge.AggQ.newPhoutExpected ∧
    Gen.AggQ.engineCheckAllFinished = Bridge.AggQ.engineCheckAllFinishedExpected ∧
    Gen.AggQ.engineIsStartFinished = Bridge.AggQ.engineIsStartFinishedExpected ∧
    Gen.AggQ.engineAwaitRun = Bridge.AggQ.engineAwaitRunExpected ∧
    Gen.AggQ.engineAwaitRunAsync = Bridge.AggQ.engineAwaitRunAsyncExpected ∧
    Gen.AggQ.engineWait = Bridge.AggQ.engineWaitExpected ∧
    Gen.AggQ.cliAwaitTermination = Bridge.AggQ.cliAwaitTerminationExpected ∧
    Gen.AggQ.cliRunEngine = Bridge.AggQ.cliRunEngineExpected ∧
    Gen.AggQ.engineResultsToWait = 4 ∧
    Gen.AggQ.fileOpenFlags &&& Gen.AggQ.osTRUNC = Gen.AggQ.osTRUNC ∧
    Gen.AggQ.fileOpenFlags &&& Gen.AggQ.osAPPEND = 0 :=
  ⟨Bridge.AggQ.reporterReport_eq, Bridge.AggQ.reporterDropSample_eq, Bridge.AggQ.reporterDroppedErr_eq, Bridge.AggQ.droppedErrorText_eq, Bridge.AggQ.newReporter_eq, Bridge.AggQ.encoderRun_eq, Bridge.AggQ.encoderHandleSample_eq, Bridge.AggQ.jsonEncode_eq, Bridge.AggQ.jsonFlush_eq, Bridge.AggQ.newJSONLinesAggregator_eq, Bridge.AggQ.newJSONEncoder_eq, Bridge.AggQ.fileOpenSink_eq, Bridge.AggQ.phoutRun_eq, Bridge.AggQ.phoutReport_eq, Bridge.AggQ.newPhout_eq, Bridge.AggQ.engineCheckAllFinished_eq, Bridge.AggQ.engineIsStartFinished_eq, Bridge.AggQ.engineAwaitRun_eq, Bridge.AggQ.engineAwaitRunAsync_eq, Bridge.AggQ.engineWait_eq, Bridge.AggQ.cliAwaitTermination_eq, Bridge.AggQ.cliRunEngine_eq,
   Bridge.AggQ.results_to_wait, Bridge.AggQ.file_flags.1, Bridge.AggQ.file_flags.2.2.1⟩

/-! ## (iii) process shutdown -/

section Cli
open Pandora.Model.CliShutdown Pandora.Proofs.C06Cli

/-- **shutdown** — on every path (every order of SIGINT/SIGTERM deliveries, engine return, task completion,
timer and the main goroutine's select choices) an exit of the process is preceded by the completion of all
engine tasks (aggregators flushed and closed), or by the shutdown timeout, or it is the forced exit on a
second signal; in particular no signal kills the process by its default action. The configuration (does the
signal branch wait, which signals are passed to `signal.Notify`, which cases cancel) is the one regenerated
from cli/cli.go (`Bridge.Cli.codeCfg`). -/
theorem C06_shutdown (trace : List Ev) (x : Exit)
    (h : (run Bridge.Cli.codeCfg {} trace).exit = some x) :
    x.flushed = true ∨
    (x.reason = .timeout ∧ (run Bridge.Cli.codeCfg {} trace).timerFired = true) ∨
    (x.reason = .secondSignal ∧ 2 ≤ (run Bridge.Cli.codeCfg {} trace).delivered) :=
  (inv_run Bridge.Cli.cli_good trace inv_init).exitOk x h

/-- one signal, no timeout: the result is complete -/
theorem C06_shutdown_single_signal (trace : List Ev) (x : Exit)
    (h : (run Bridge.Cli.codeCfg {} trace).exit = some x)
    (h1 : (run Bridge.Cli.codeCfg {} trace).delivered ≤ 1)
    (h2 : x.reason ≠ .timeout) : x.flushed = true := by
  rcases C06_shutdown trace x h with hf | ⟨ht, _⟩ | ⟨_, hd⟩
  · exact hf
  · exact absurd ht h2
  · omega

/-- **a signal cancels the run** — on every path: once the main goroutine has taken a signal (or the engine's
error) the run context is cancelled, and it is cancelled at every exit other than the normal finish; so the
engine is never left running into the interrupt timeout because nobody told it to stop. -/
theorem C06_shutdown_cancels (trace : List Ev) :
    let st := run Bridge.Cli.codeCfg {} trace
    ((st.pc = .sigWait ∨ st.pc = .sigWaitTasks ∨ st.pc = .errWait) → st.cancelled = true) ∧
    (∀ x, st.exit = some x → x.reason ≠ .finished → st.cancelled = true) :=
  ⟨(inv_run Bridge.Cli.cli_good trace inv_init).canc, (inv_run Bridge.Cli.cli_good trace inv_init).exitCanc⟩

/-- non-vacuity: SIGTERM, engine returns, tasks finish, exit — flushed, cancelled -/
example :
    (run Bridge.Cli.codeCfg {} [.signal .term, .takeSignal, .engineReturned false, .takeErrs, .tasksDone,
        .takeWaitDone]).exit = some ⟨.interrupted, true⟩ ∧
    (run Bridge.Cli.codeCfg {} [.signal .term, .takeSignal]).cancelled = true := by decide

/-- the code as found (exit as soon as `errs` is ready) does not have the property -/
theorem C06_shutdown_unrepaired_counterexample :
    ¬ (∀ (trace : List Ev) (x : Exit), (run { Cfg.repaired with waitOnErrs := false } {} trace).exit = some x →
        x.flushed = true ∨ x.reason = .timeout ∨ x.reason = .secondSignal) := by
  intro h
  have := h [.signal .term, .takeSignal, .engineReturned false, .takeErrs] ⟨.interrupted, false⟩ (by decide)
  simp at this

/-- `signal.Notify` without SIGTERM (e.g. `signal.Notify(sigs, os.Interrupt)`) does not have the property either:
SIGTERM then keeps its default action and ends the process at once, whatever is buffered is lost -/
theorem C06_shutdown_unnotified_counterexample :
    ¬ (∀ (trace : List Ev) (x : Exit),
        (run { Cfg.repaired with notified := fun s => s == .int } {} trace).exit = some x →
        x.flushed = true ∨ x.reason = .timeout ∨ x.reason = .secondSignal) := by
  intro h
  have := h [.signal .term] ⟨.killed, false⟩ (by decide)
  simp at this

/-- (round 3) the engine fails by itself — one pool's provider, gun or aggregator failed, `Engine.Run` returned the
error and only CANCELLED the other pools — and the process would exit without `pandora.Wait()`: what the other
pools' aggregators still hold is lost. The code waits (`Gen.Cli.errsFirstBranchWaits`, part of `codeCfg`). -/
theorem C06_shutdown_failfirst_nowait_counterexample :
    ¬ (∀ (trace : List Ev) (x : Exit),
        (run { Cfg.repaired with waitOnFail := false } {} trace).exit = some x →
        x.flushed = true ∨ x.reason = .timeout ∨ x.reason = .secondSignal) := by
  intro h
  have := h [.engineReturned false, .takeErrs] ⟨.engineFailed, false⟩ (by decide)
  simp at this

/-- non-vacuity of `C06_shutdown` on that path: the engine fails, the main goroutine takes the error, cancels, waits
for the tasks, exits — flushed -/
example :
    (run Bridge.Cli.codeCfg {} [.engineReturned false, .takeErrs, .tasksDone, .takeWaitDone]).exit =
      some ⟨.engineFailed, true⟩ ∧
    (run Bridge.Cli.codeCfg {} [.engineReturned false, .takeErrs]).cancelled = true ∧
    (run Bridge.Cli.codeCfg {} [.engineReturned false, .takeErrs, .takeWaitDone]).exit = none := by decide

end Cli

/-! ## (vii) the error of the encoder aggregator when faults coincide -/

section ErrJoin
open Pandora.Model.C06ErrJoin Pandora.Proofs.C06ErrJoin

/-- `errutil.Join` and the deferred joins of `dataSinkAggregator.Run`, as regenerated from the source, are the
table and the order the model computes with -/
theorem C06_errjoin_regenerated :
    Bridge.ErrJoin.decodeTable Gen.AggQ.errutilJoinCases = some codeJoin ∧
    Bridge.ErrJoin.execOrder Gen.AggQ.encoderDeferJoins = some codeOrder :=
  ⟨Bridge.ErrJoin.join_table, Bridge.ErrJoin.defer_order⟩

/-- **the drop count is never masked** — whatever else goes wrong in the same run of a bounded-queue encoder
aggregator (the loop ended with an encode/flush error, the encoder's final Close/Flush failed, the sink's Close
failed; any combination) and however many samples were dropped: the error `Run` ends with contains the
`N samples were dropped` error with exactly the number of drops iff there were drops, it is nil iff nothing
failed and nothing was dropped, and every fault that happened is a member (none is swallowed by another). -/
theorem C06_encoder_drop_count_never_masked (f : Faults) :
    droppedOf (finalErr codeJoin codeOrder f) = (if f.dropped = 0 then none else some f.dropped) ∧
    (finalErr codeJoin codeOrder f = [] ↔
      (f.loop = false ∧ f.encFinal = false ∧ f.sinkClose = false ∧ f.dropped = 0)) ∧
    (Src.loop ∈ finalErr codeJoin codeOrder f ↔ f.loop = true) ∧
    (Src.encFinal ∈ finalErr codeJoin codeOrder f ↔ f.encFinal = true) ∧
    (Src.sinkClose ∈ finalErr codeJoin codeOrder f ↔ f.sinkClose = true) := by
  obtain ⟨l, e, c, d⟩ := f
  by_cases hd : d = 0
  · subst hd
    cases l <;> cases e <;> cases c <;> decide
  · cases l <;> cases e <;> cases c <;>
      simp [finalErr, codeOrder, codeJoin, evalJoin, Faults.errOf, droppedErr, hd, Cond.holds, Ret.value, droppedOf]

/-- the same for ANY order in which the deferred functions might join (as long as the drop count is joined at
all): with the code's `Join` nothing depends on the order -/
theorem C06_encoder_drop_count_any_order (f : Faults) (order : List Joined) (hm : Joined.dropped ∈ order) :
    droppedOf (finalErr codeJoin order f) = (if f.dropped = 0 then none else some f.dropped) := by
  rw [finalErr_code]
  have hl : droppedOf (if f.loop then [Src.loop] else []) = none := by split <;> simp [droppedOf]
  rw [droppedOf_append_of_none hl]
  by_cases hd : f.dropped = 0
  · simp [hd, droppedOf_flatten_zero f hd order]
  · simp [hd, droppedOf_flatten_mem f hd order hm]

/-- non-vacuity: everything fails at once and 7 samples were dropped -/
example : finalErr codeJoin codeOrder ⟨true, true, true, 7⟩ = [.loop, .encFinal, .sinkClose, .dropped 7] ∧
    droppedOf (finalErr codeJoin codeOrder ⟨true, true, true, 7⟩) = some 7 := by decide

/-- a `Join` that lets the first error win does not have the property: a failing `sink.Close()` hides the drops -/
theorem C06_encoder_join_firstwins_counterexample :
    ¬ (∀ f : Faults, droppedOf (finalErr firstWinsJoin codeOrder f) = (if f.dropped = 0 then none else some f.dropped)) := by
  intro h
  have := h ⟨false, false, true, 3⟩
  revert this; decide

end ErrJoin

/-! ## (viii) samples lent to the aggregator (`core.BorrowedSample`) -/

section Borrow
open Pandora.Model.C06Borrow Pandora.Proofs.C06Borrow

/-- **a recycled sample object is written with the values it was reported with** — the reporter owns any number
of sample objects, overwrites a free one for every report and gets it back through `Return()` (from `handleSample`
AFTER `Encode`, or from `dropSample` when the queue is full); whatever the interleaving of reports (accepted or
dropped), handling and re-use: every line written holds exactly the values of the report it stands for. The order
`Encode` … `ReturnSampleIfBorrowed` is pinned by `Bridge.AggQ.encoderHandleSample_eq`, the drop path by
`reporterDropSample_eq`; tied on the real aggregator by the harness's `borrow=` cases. -/
theorem C06_borrowed_written_as_reported (trace : List Ev) :
    ∀ p, p ∈ (run false {} trace).out → p.1 = p.2 :=
  (inv_run trace inv_init).o

/-- non-vacuity: two objects in flight, a dropped report, object 0 re-used after it came back -/
example :
    (run false {} [.report 0 7 true, .report 1 8 true, .report 2 5 false, .handle, .report 0 9 true, .handle,
        .handle]).out = [(7, 7), (8, 8), (9, 9)] := by decide

/-- handing the object back BEFORE it is encoded does not have the property: the owner re-uses it and the line
of the first report carries the values of the second -/
theorem C06_borrowed_early_return_counterexample :
    ¬ (∀ trace : List Ev, ∀ p, p ∈ (run true {} trace).out → p.1 = p.2) := by
  intro h
  have := h [.report 0 1 true, .earlyReturn, .report 0 2 true, .lateEncode] (2, 1) (by decide)
  simp at this

end Borrow

/-! ## (ix) round 4: instance start, `Engine.wait`, helpers, options -/

section Start
open Pandora.Model.C06Start Pandora.Proofs.C06Start

/-- **`startInstances` returns the number of instance goroutines it started** — whatever `waiter.Wait` and
`newInstance` return and whenever: `started` is the number of `go` statements executed, at most one ahead of it in
between (after the first `started++`, before the first `go`) and EQUAL to it on every return path — the first wait
fails, the first instance cannot be built, the start context ends after any number of instances. Each of those
goroutines sends exactly one result on `runRes` (`Bridge.AggQ.engineStartInstances_eq`, `engineRunNewInstance_eq`).
So what the pool's transition system (`Model.C06Pool`) sees of it is `.launch` per goroutine and `.startDone` at the
return, and the number the await loop stores at `.awaitStart` as `startedInstances` is that count: the reading
behind `C06_pool_cancel_after_reports` (`awaitedInstances ≥ startedInstances` ⇒ no instance is running). -/
theorem C06_start_count_exact (trace : List SEv) :
    let st := run {} {} trace
    let pst := Pandora.Model.C06Pool.run (Pandora.Model.C06Pool.init Gen.AggQ.engineResultsToWait) (poolTrace {} {} trace)
    st.launched ≤ st.started ∧ st.started ≤ st.launched + 1 ∧
    (st.pc = .returned → st.started = st.launched) ∧
    pst.launched = st.launched ∧ pst.running = st.launched ∧ (pst.startSent = true ↔ st.pc = .returned) ∧
    (st.pc = .returned →
      (Pandora.Model.C06Pool.step pst .awaitStart).startedInstances = (st.started : Int)) := by
  intro st pst
  have hs : SInv st := sinv_run trace sinv_init
  have hr : Rel st pst := rel_run {} trace (rel_init _)
  have hk := keep_run (poolTrace {} {} trace) (Pandora.Model.C06Pool.init Gen.AggQ.engineResultsToWait)
    (poolTrace_only {} trace {})
  obtain ⟨h1, _⟩ := hs
  obtain ⟨r1, r2, _, r4⟩ := hr
  have hret : st.pc = .returned → st.started = st.launched := by
    intro hp; rw [hp] at h1; simpa using h1
  refine ⟨?_, ?_, hret, r1, r2, r4, ?_⟩
  · split at h1 <;> omega
  · split at h1 <;> omega
  · intro hp
    have hsent : pst.startSent = true := r4.2 hp
    have htw : pst.toWait = 4 := hk.1.trans Bridge.AggQ.results_to_wait
    have hopen : pst.startResOpen = true := hk.2
    have key : ∀ q : Pandora.Model.C06Pool.PSt, q.toWait = 4 → q.startResOpen = true → q.startSent = true →
        (Pandora.Model.C06Pool.step q .awaitStart).startedInstances = (q.launched : Int) := by
      intro q a b c
      simp only [Pandora.Model.C06Pool.step, a, b, c]
      simp only [Pandora.Model.C06Pool.PSt.check]
      rw [if_pos (by decide)]; split <;> rfl
    rw [key pst htw hopen hsent, r1, hret hp]

/-- non-vacuity: two instances are started, then the start context ends; and the first instance cannot be built -/
example :
    let st := run {} {} [.wait true, .newInstance true, .go, .wait true, .go, .wait false]
    st.pc = .returned ∧ st.started = 2 ∧ st.launched = 2 ∧ st.err = false := by decide

example :
    let st := run {} {} [.wait true, .newInstance false, .go, .wait true]
    st.pc = .returned ∧ st.started = 0 ∧ st.launched = 0 ∧ st.err = true := by decide

/-- counting the first instance BEFORE the check of `newInstance`'s error does not have the property: when the
first instance cannot be built `startInstances` returns 1 with no goroutine started — the await loop then waits
for a run result that never comes and never gets to its cancel -/
theorem C06_start_count_before_check_counterexample :
    ¬ (∀ trace : List SEv, let st := run { countBeforeCheck := true } {} trace
        st.pc = .returned → st.started = st.launched) := by
  intro h
  have := h [.wait true, .newInstance false] (by decide)
  revert this; decide

end Start

section PoolRun
open Pandora.Model.C06PoolRun Pandora.Proofs.C06PoolRun Pandora.Proofs.C06Pool Pandora.Proofs.C06Engine

/-- **`onWaitDone` is called exactly once per pool, on every way out of `instancePool.Run`** — any number of
pools, every interleaving of warm-up / `runAsync` failures, of the started pools' tasks (each the free-running
system of `Model.C06Pool`, outside cancels included) and of `Run` leaving through `<-ctx.Done()`: a pool has at
most one `Done`; it has one exactly when it failed before anything was started, or when its await goroutine is
over. -/
theorem C06_poolrun_done_once (trace : List Ev) (j : Nat) :
    let st := run Cfg.code (init Gen.AggQ.engineResultsToWait) trace
    (st.pools j).dones ≤ 1 ∧
    ((st.pools j).dones = 1 ↔
      (st.pools j).path = .failedEarly ∨ ((st.pools j).path = .started ∧ (st.pools j).p.waitDone = true)) := by
  intro st
  have hst : st = run Cfg.code (init 4) trace := by
    show run Cfg.code (init Gen.AggQ.engineResultsToWait) trace = _
    rw [Bridge.AggQ.results_to_wait]
  have inv : RInv (st.pools j) := by rw [hst]; exact rinv_run trace (fun _ => rinv_init) j
  refine ⟨rinv_dones_le inv, ?_⟩
  cases hp : (st.pools j).path with
  | fresh => simp [inv.fresh hp]
  | failedEarly => simp [inv.early hp]
  | started =>
    rw [inv.started hp]
    cases (st.pools j).p.waitDone <;> simp

/-- **when `Engine.Wait()` can return** (n pools, `wait.Add(1)` each): the counter never goes negative (no
"negative WaitGroup counter" panic), and when it is back at zero every pool either failed before anything was
started — its tasks never took a step: no instance, no Report, its aggregator's `Run` was never called — or its
aggregator has returned and was awaited, its `runRes` is closed, no instance is running and nothing was sent on a
closed channel. This is `C06_engine_wait_after_aggregators` with the early ways out of `Run` included. -/
theorem C06_engine_wait_exact (n : Nat) (trace : List Ev) :
    let st := run Cfg.code (init Gen.AggQ.engineResultsToWait) trace
    ¬ negativeCounter st n ∧
    (waitReturns st n → ∀ j, j < n →
      ((st.pools j).path = .failedEarly ∧ (st.pools j).p = Pandora.Model.C06Pool.init Gen.AggQ.engineResultsToWait) ∨
      ((st.pools j).path = .started ∧ (st.pools j).p.aggDone = true ∧ (st.pools j).p.aggOpen = false ∧
        (st.pools j).p.runResOpen = false ∧ (st.pools j).p.running = 0 ∧ (st.pools j).p.sendOnClosed = false)) := by
  intro st
  have hst : st = run Cfg.code (init 4) trace := by
    show run Cfg.code (init Gen.AggQ.engineResultsToWait) trace = _
    rw [Bridge.AggQ.results_to_wait]
  have inv : ∀ k, RInv (st.pools k) := by rw [hst]; exact rinv_run trace (fun _ => rinv_init)
  refine ⟨?_, ?_⟩
  · have := totalDones_le st inv n
    unfold negativeCounter; omega
  · intro hw j hj
    have hd := totalDones_full st inv n hw j hj
    have ij := inv j
    cases hp : (st.pools j).path with
    | fresh => have := ij.fresh hp; omega
    | failedEarly =>
      left
      refine ⟨rfl, ?_⟩
      have := ij.untouched (by rw [hp]; decide)
      rw [this, Bridge.AggQ.results_to_wait]
    | started =>
      right
      have h1 := ij.started hp
      have hwd : (st.pools j).p.waitDone = true := by
        cases h : (st.pools j).p.waitDone with
        | true => rfl
        | false => rw [h] at h1; simp at h1; omega
      obtain ⟨a, b, c, d, _⟩ := wd_all ij.pinv hwd
      exact ⟨rfl, a, b, c, d, ij.pinv.noSend⟩

set_option maxRecDepth 8000 in
/-- non-vacuity: three pools — pool 0's warm-up fails, pool 1 runs to its end, pool 2 is cancelled from outside
while an instance is running and winds down: `Wait` can return, both started aggregators have returned -/
example :
    let tasks : Nat → List Ev := fun j =>
      ([.launch, .startDone, .report 0, .extCancel, .finish, .awaitStart, .awaitInst, .aggReturn, .awaitAgg, .provReturn,
        .awaitProv, .waitDone] : List Pandora.Model.C06Pool.PEv).map (Ev.pool j)
    let st := run Cfg.code (init 4) ([.warmFail 0, .asyncOk 1, .asyncOk 2, .ctxReturn 2] ++ tasks 2 ++ tasks 1)
    waitReturns st 3 ∧ (st.pools 0).path = .failedEarly ∧ (st.pools 1).p.aggDone = true ∧ (st.pools 2).p.aggDone = true := by
  decide

/-- a `Run` that calls `onWaitDone` also when it leaves through `<-ctx.Done()` does not have the property: with one
pool `Wait` can return while the aggregator is still running (what is queued is lost when the process exits), and
when the await goroutine is over as well the counter goes negative -/
theorem C06_poolrun_done_on_ctx_counterexample :
    let cfg : Cfg := { Cfg.code with doneOnCtxDone := true }
    let st := run cfg (init 4) [.asyncOk 0, .ctxReturn 0]
    (waitReturns st 1 ∧ (st.pools 0).p.aggDone = false) ∧
    negativeCounter (run cfg st (([.startDone, .awaitStart, .aggReturn, .awaitAgg, .provReturn, .awaitProv, .waitDone] :
      List Pandora.Model.C06Pool.PEv).map (Ev.pool 0))) 1 := by decide

/-- a `Run` that forgets `onWaitDone` when `runAsync` fails: whatever happens afterwards `Engine.Wait` never
returns (the caller is left with its own timeout) -/
theorem C06_poolrun_forgotten_done_counterexample (n j : Nat) (hj : j < n) (trace : List Ev) :
    let cfg : Cfg := { Cfg.code with doneOnAsyncFail := false }
    ¬ waitReturns (run cfg (step cfg (init 4) (.asyncFail j)) trace) n ∨
    ∃ k, 1 < ((run cfg (step cfg (init 4) (.asyncFail j)) trace).pools k).dones := by
  intro cfg
  by_cases hle : ∀ k, ((run cfg (step cfg (init 4) (.asyncFail j)) trace).pools k).dones ≤ 1
  · left
    have h0 : ((step cfg (init 4) (.asyncFail j)).pools j).path = .failedEarly ∧
        ((step cfg (init 4) (.asyncFail j)).pools j).dones = 0 := by
      simp [step, init, Proofs.C06PoolRun.setPool_same, cfg, done1]
    have := forgotten_run cfg trace j h0
    have := totalDones_lt _ n j hj this hle
    unfold waitReturns; omega
  · right
    obtain ⟨k, hk⟩ := Classical.not_forall.mp hle
    exact ⟨k, Nat.lt_of_not_le hk⟩

end PoolRun

section DropCount
open Pandora.Model.C06DropCount Pandora.Proofs.C06DropCount

/-- **the drop counter counts every dropped sample, whatever the number of reporters and their interleaving**
(`Reporter.dropSample`, `samplesDropped.Inc()` — one atomic read-modify-write; pinned by
`Bridge.AggQ.reporterDropSample_eq`): after any schedule of atomic steps the counter equals the number of completed
`dropSample` calls, which is the number of steps, and exactly one call — the first — saw `dropped == 1`. This is what
lets the queue model (`C06_queue_any_schedule`: `err = droppedErr |dropped|`) take a dropped Report as ONE event. -/
theorem C06_dropcount_exact (sched : List Nat) :
    let st := run .inc {} sched
    st.c = sched.length ∧ st.done = sched.length ∧ st.first = (if sched.length = 0 then 0 else 1) := by
  intro st
  have h := inc_run sched {} cinv_init
  have hd : st.done = sched.length := by
    have := h.2; simpa using this
  have hc : st.c = st.done := h.1.1
  have hf := h.1.2
  exact ⟨hc.trans hd, hd, by rw [← hd]; exact hf⟩

/-- non-vacuity: three reporters, five drops -/
example : (run .inc {} [0, 1, 2, 1, 0]).c = 5 ∧ (run .inc {} [0, 1, 2, 1, 0]).first = 1 := by decide

/-- a counter bumped by `Store(Load() + 1)` does not have the property: two reporters, two drops, the error says one -/
theorem C06_dropcount_loadstore_counterexample :
    ¬ (∀ sched : List Nat, (run .loadStore {} sched).c = (run .loadStore {} sched).done) := by
  intro h
  have := h [0, 1, 0, 1]
  revert this; decide

/-- a compare-and-swap that is retried ONCE is right for the race it was written for — two reporters: the loser's
second attempt succeeds — and wrong for three: the third reporter loses twice and its drop is in nobody's count -/
theorem C06_dropcount_cas_retry_once_counterexample :
    ((run .casRetryOnce {} [0, 1, 0, 1, 1, 1]).done = 2 ∧ (run .casRetryOnce {} [0, 1, 0, 1, 1, 1]).c = 2) ∧
    ¬ (∀ sched : List Nat, (run .casRetryOnce {} sched).c = (run .casRetryOnce {} sched).done) := by
  refine ⟨by decide, ?_⟩
  intro h
  have := h [0, 1, 2, 0, 1, 2, 1, 2, 1, 2]
  revert this; decide

end DropCount

section ResChan
open Pandora.Model.C06ResChan Pandora.Proofs.C06ResChan

/-- **no instance result is lost in the pool's `runRes` channel, whatever its capacity and however many instances
finish before the await loop gets to receive** (sends block: `Bridge.AggQ.engineStartInstances_eq` pins the plain
`runRes <- …`): for every capacity and every interleaving of sends and receives, received + buffered + waiting =
sent, nothing is dropped, and while a result is outstanding the await loop's receive case is enabled. This is the
reading behind the pool model's `awaitedInstances < finishedCount`; tied behaviourally by the harness's `slowlog=`
cases (100–200 instances finished while the await loop is held up). -/
theorem C06_reschan_no_result_lost (cap : Nat) (trace : List Ev) :
    let st := run true { cap := cap } trace
    st.received + st.buffered + st.blocked = st.sent ∧ st.lost = 0 ∧ st.buffered ≤ cap ∧
    (st.received < st.sent → canRecv st = true) := by
  intro st
  have inv : CInv st := cinv_run true trace (cinv_init cap)
  have hl : st.lost = 0 := lost_run_blocking trace { cap := cap }
  have hcap : st.cap = cap := by
    have : ∀ (tr : List Ev) (s : St), (run true s tr).cap = s.cap := by
      intro tr; induction tr with
      | nil => intro s; rfl
      | cons e es ih => intro s; simp only [run]; rw [ih, cap_step]
    exact this trace { cap := cap }
  obtain ⟨h1, h2, _⟩ := inv
  refine ⟨by omega, hl, by omega, ?_⟩
  intro hlt
  simp only [canRecv, Bool.or_eq_true, decide_eq_true_eq]
  omega

/-- non-vacuity: capacity 2, four instances finish before the loop receives anything — two wait, all four arrive -/
example :
    let st := run true { cap := 2 } [.send, .send, .send, .send, .recv, .recv, .recv, .recv]
    st.received = 4 ∧ st.lost = 0 ∧ (run true { cap := 2 } [.send, .send, .send, .send]).blocked = 2 := by decide

/-- a send that gives up when the buffer is full (`select { case runRes <- res: default: }`) does not have the
property, for ANY capacity: `cap + 1` instances finishing before the await loop receives lose a result — the loop
then waits for ever for `awaitedInstances ≥ startedInstances` and never issues the aggregator's cancel -/
theorem C06_reschan_nonblocking_counterexample (cap : Nat) :
    (run false { cap := cap } (List.replicate (cap + 1) .send)).lost = 1 := by
  have h := sends_fill false cap { cap := cap } (by simp)
  have : List.replicate (cap + 1) Ev.send = List.replicate cap Ev.send ++ [Ev.send] := by
    rw [List.replicate_succ']
  rw [this]
  have happ : ∀ (a b : List Ev) (s : St), run false s (a ++ b) = run false (run false s a) b := by
    intro a; induction a with
    | nil => intro b s; rfl
    | cons e es ih => intro b s; exact ih b _
  rw [happ]
  simp only [run, step]
  obtain ⟨hb, hl, hc⟩ := h
  simp at hb hl hc
  simp [hb, hl, hc]

end ResChan

section Round4Shape
open Pandora.Gen.AggQ

/-- **the helpers every sample and every byte goes through, the pool's start-up path, options and registration
are the ones the models and the harness were written from** (regenerated from /repo on every run): phout's wrapper
makes one synchronous `Report` of the wrapped aggregator; the callback writer between the JSON encoder and the sink
passes bytes and result through; a borrowed sample is returned once; `IsCtxError`; `buildNewInstanceSchedule` and
its on-finish callback, which gets `instanceStartCtx` / `instanceStartCancel` (cancels the instance START only:
`C06_engine_contexts`); `warmUpGun`, `newInstance`, `newPool`; a fresh `Reporter` per encoder aggregator; the option
names and `validate` tags of both aggregators and the file sink; what `core/import` registers as `phout`,
`jsonlines`, `json`, `file`; the writers' buffer size is positive whatever `buffer-size` says. -/
theorem C06_source_shape_round4 :
    wrapReport = Bridge.AggQ.wrapReportExpected ∧ wrapAggregator = Bridge.AggQ.wrapAggregatorExpected ∧
    callbackWriter = Bridge.AggQ.callbackWriterExpected ∧ returnIfBorrowed = Bridge.AggQ.returnIfBorrowedExpected ∧
    bufferSizeOrDefault = Bridge.AggQ.bufferSizeOrDefaultExpected ∧ isCtxError = Bridge.AggQ.isCtxErrorExpected ∧
    engineBuildSchedule = Bridge.AggQ.engineBuildScheduleExpected ∧
    engineScheduleFinish = Bridge.AggQ.engineScheduleFinishExpected ∧
    engineBuildScheduleArgs = [engineHandleInstanceStartCtx, engineHandleInstanceStartCancel] ∧
    engineWarmUpGun = Bridge.AggQ.engineWarmUpGunExpected ∧ engineNewInstance = Bridge.AggQ.engineNewInstanceExpected ∧
    engineNewAwaitRunHandle = Bridge.AggQ.engineNewAwaitRunHandleExpected ∧
    engineNewPool = Bridge.AggQ.engineNewPoolExpected ∧
    newEncoderAggregator = Bridge.AggQ.newEncoderAggregatorExpected ∧
    Bridge.AggQ.optionOf phoutConfigFields "ID" = some ("id", "") ∧
    Bridge.AggQ.optionOf phoutConfigFields "SampleQueueSize" = some ("sample-queue-size", "min=0") ∧
    Bridge.AggQ.optionOf jsonlinesConfigFields "EncoderAggregatorConfig.ReporterConfig.SampleQueueSize" =
      some ("sample-queue-size", "min=1") ∧
    (Bridge.AggQ.registered "Aggregator" "phout").map (·.2) = some "netsample.DefaultPhoutConfig" ∧
    (Bridge.AggQ.registered "Aggregator" "jsonlines").map (·.1) = some "aggregator.NewJSONLinesAggregator" ∧
    (∀ n, 0 < Bridge.AggQ.bufSize n) :=
  ⟨Bridge.AggQ.wrapReport_eq, Bridge.AggQ.wrapAggregator_eq, Bridge.AggQ.callbackWriter_eq,
   Bridge.AggQ.returnIfBorrowed_eq, Bridge.AggQ.bufferSizeOrDefault_eq, Bridge.AggQ.isCtxError_eq,
   Bridge.AggQ.engineBuildSchedule_eq, Bridge.AggQ.engineScheduleFinish_eq, Bridge.AggQ.schedule_finish_args,
   Bridge.AggQ.engineWarmUpGun_eq, Bridge.AggQ.engineNewInstance_eq, Bridge.AggQ.engineNewAwaitRunHandle_eq,
   Bridge.AggQ.engineNewPool_eq, Bridge.AggQ.newEncoderAggregator_eq, Bridge.AggQ.options.2.1, Bridge.AggQ.options.1,
   Bridge.AggQ.options.2.2.2.2.1, by rw [Bridge.AggQ.registrations.1]; rfl, by rw [Bridge.AggQ.registrations.2.1]; rfl,
   fun n => (Bridge.AggQ.bufSize_ok n).1⟩

/-- the wrapper around a pool's SHARED rps schedule (`coreutil.NewCallbackOnFinishSchedule`, a helper the engine
depends on): tokens are the wrapped schedule's, the on-finish callback — which stops the instance start
(`C06_source_shape_round4`: it gets `instanceStartCtx` / `instanceStartCancel`) — is called through one `sync.Once`,
only when the schedule has no token left; tied behaviourally by the harness's `shared=` engine cases -/
theorem C06_source_shape_shared_schedule :
    newCallbackSchedule = Bridge.AggQ.newCallbackScheduleExpected ∧
    callbackScheduleNext = Bridge.AggQ.callbackScheduleNextExpected ∧
    callbackScheduleLeft = Bridge.AggQ.callbackScheduleLeftExpected :=
  ⟨Bridge.AggQ.newCallbackSchedule_eq, Bridge.AggQ.callbackScheduleNext_eq, Bridge.AggQ.callbackScheduleLeft_eq⟩

/-- the representation the line theorems assume (regenerated: `Sample.fields` is `[10]int` / `[10]int64`): the ten
values are 64-bit machine integers, so "ALL integer values" of `C06_phout_wellformed` covers everything a setter can
be given; a narrower element type (int32) wraps durations of 36 min and more and byte counts from 2 GiB on — the
harness's boundary field values (`math.MaxInt64`, 2^31 …) show that as `fail:value` -/
theorem C06_sample_fields_64bit :
    (sampleFieldsElem = "int" ∨ sampleFieldsElem = "int64") ∧ sampleFieldsLen = 10 := Bridge.AggQ.sample_fields_wide

/-- **both result destinations start empty**: phout's file (`NewPhout`, through `Fs.Create` or `Fs.OpenFile` —
regenerated flags) and the file sink's (`OpenSink`) are opened for writing, created, TRUNCATED, never appended to:
"every reported sample appears exactly once" is about the file, and a file that kept lines of an earlier run would
hold lines nobody reported (tied behaviourally by `sink=file`, `conf=`, `kind=proc`: 3000 stale lines at the
destination) -/
theorem C06_destinations_truncated :
    (phoutOpenFlags &&& osTRUNC = osTRUNC ∧ phoutOpenFlags &&& osCREATE = osCREATE ∧ phoutOpenFlags &&& osAPPEND = 0) ∧
    (fileOpenFlags &&& osTRUNC = osTRUNC ∧ fileOpenFlags &&& osCREATE = osCREATE ∧ fileOpenFlags &&& osAPPEND = 0) :=
  ⟨⟨Bridge.AggQ.phout_flags.1, Bridge.AggQ.phout_flags.2.1, Bridge.AggQ.phout_flags.2.2.1⟩, by decide⟩

end Round4Shape

/-! ## (x)–(xiii), round 6: the shared standard output, whole lines, who cancels the healthy pools, one goroutine per writer -/

section Round6

section Shared
open Pandora.Model.C06Shared Pandora.Proofs.C06R6

/-- **several pools report to the standard output** (`result: {type: phout}` without destination) — for EVERY
interleaving of the aggregators' handling, periodic flushes and returns, any number of aggregators, in the configuration
the regenerated facts describe (`Bridge.C06R6.sharedCfg`: the closer of a destination-less aggregator calls nothing, the
deferred function always flushes): the shared output is never closed by an aggregator, no write is ever refused, every
line an aggregator handled is on the output or still in ITS buffer, in order — and once its `Run` has returned, every
line it handled is on the output, in the order it was handled, whatever the other aggregators do before or after. -/
theorem C06_shared_stdout_complete (trace : List Ev) :
    let st := run Bridge.C06R6.sharedCfg init trace
    st.isOpen = true ∧ st.lost = [] ∧
    (∀ j, ofAgg j st.handled = ofAgg j st.out ++ st.buf j) ∧
    (∀ j, st.done j = true → ofAgg j st.out = ofAgg j st.handled) := by
  intro st
  have h : Inv st := by
    show Inv (run Bridge.C06R6.sharedCfg init trace)
    rw [Bridge.C06R6.shared_is_code]
    exact inv_run trace inv_init
  exact ⟨h.isOpen, h.lost, h.acct, fun j hd => by rw [h.acct j, h.doneEmpty j hd, List.append_nil]⟩

/-- non-vacuity: two aggregators, the first ends while the second is still being reported to -/
example :
    let st := run Bridge.C06R6.sharedCfg init
      [.handle 0 1, .handle 1 7, .flush 1, .handle 0 2, .finish 0, .handle 1 8, .finish 1]
    st.done 0 = true ∧ st.done 1 = true ∧ st.out = [(1, 7), (0, 1), (0, 2), (1, 8)] ∧ st.isOpen = true := by
  decide

/-- the code as found before 61cfda1 (the aggregator that ends first closes `os.Stdout`): the other aggregator's lines
are refused — "write /dev/stdout: file already closed" (harness: `kind=stdout pools=2`, `kind=proc … res=stdout2`) -/
theorem C06_shared_stdout_closing_counterexample :
    let st := run { closesShared := true, finalFlush := true } init [.handle 0 1, .handle 1 7, .finish 0, .finish 1]
    st.out = [(0, 1)] ∧ st.lost = [(1, 7)] ∧ st.isOpen = false := by decide

/-- a "do not close stdout" guard that leaves the deferred function before the final flush: everything handled since
the last periodic flush is lost, for a single aggregator already (harness: `kind=stdout pools=1`) -/
theorem C06_shared_stdout_noflush_counterexample :
    let st := run { closesShared := false, finalFlush := false } init [.handle 0 1, .finish 0]
    st.out = [] ∧ st.lost = [(0, 1)] ∧ st.done 0 = true := by decide

end Shared

section WholeLines
open Pandora.Model.C06WholeLines Pandora.Proofs.C06WholeLines

/-- **only whole lines are handed to the destination** (the repaired `handle`, 89739df; `bufio.Writer.Write` at the level
of bytes) — for EVERY buffer size and EVERY sequence of encoded lines (each non-empty: it ends with its LF; a line may
be longer than the buffer): when everything was handled and the final flush is done, the list of `Write` calls the
destination saw is a grouping of the lines — each write is the concatenation of consecutive whole lines, all lines are
there once, in order, nothing is left in the buffer. -/
theorem C06_phout_writes_whole_lines (N : Nat) (lines : List Bytes) (hne : ∀ l ∈ lines, l ≠ []) :
    let w := (runLines true N {} lines).flush
    w.buf = [] ∧ ∃ groups : List (List Bytes), w.writes = groups.map List.flatten ∧ groups.flatten = lines := by
  intro w
  have g : Good ([] ++ lines) (runLines true N {} lines) := good_run N lines [] {} ⟨[], [], rfl, rfl, rfl⟩
  obtain ⟨groups, pending, hw, hb, hh⟩ := good_flush g
  have hbuf := flush_buf (runLines true N {} lines)
  refine ⟨hbuf, groups, hw, ?_⟩
  have hp : pending = [] := by
    cases pending with
    | nil => rfl
    | cons l rest =>
      have hl : l ∈ lines := by
        rw [List.nil_append] at hh
        rw [← hh]; simp
      have h0 : (l :: rest).flatten = [] := hb.symm.trans hbuf
      have : l = [] := by
        simp at h0
        exact h0.1
      exact absurd this (hne l hl)
  rw [hp, List.append_nil, List.nil_append] at hh
  exact hh

/-- non-vacuity: a buffer of 8 bytes, lines of 3, 6 and 11 bytes (the last one longer than the buffer) -/
example :
    (runLines true 8 {} [[97, 98, 10], [99, 100, 101, 102, 103, 10], [49, 50, 51, 52, 53, 54, 55, 56, 57, 48, 10]]).flush.writes =
      [[97, 98, 10], [99, 100, 101, 102, 103, 10], [49, 50, 51, 52, 53, 54, 55, 56, 57, 48, 10]] := by decide

/-- **the writes of any number of aggregators, interleaved in any way, make a well-formed file**: if every write
(chunk) is a concatenation of whole LF-terminated, LF-free lines — `C06_phout_writes_whole_lines` — then the
concatenation of the chunks in the order they reached the shared output splits on LF into exactly all those lines. -/
theorem C06_shared_whole_lines (chunks : List (List Bytes)) (h : ∀ c ∈ chunks, ∀ l ∈ c, LF ∉ l) :
    fileLines (chunks.flatMap fun c => c.flatMap (fun l => l ++ [LF])) = some chunks.flatten := by
  have key : ∀ cs : List (List Bytes),
      (cs.flatMap fun c => c.flatMap (fun l => l ++ [LF])) = cs.flatten.flatMap (fun l => l ++ [LF]) := by
    intro cs
    induction cs with
    | nil => rfl
    | cons c cs ih => simp [List.flatMap_cons, List.flatten_cons, List.flatMap_append, ih]
  rw [key]
  exact fileLines_of_lines chunks.flatten (by
    intro b hb
    obtain ⟨c, hc, hbc⟩ := List.mem_flatten.mp hb
    exact h c hc b hbc)

/-- the `handle` as found before 89739df: with a buffer of 4 bytes the lines "ab⏎", "cd⏎" reach the destination as
"ab⏎c" and "d⏎"; another aggregator's "x⏎" written in between makes the file "ab", "cx", "d": two lines nobody
reported (harness: `kind=stdout pools=3 … buf=4096`, 105 such lines of 4950) -/
theorem C06_phout_torn_line_counterexample :
    (runLines false 4 {} [[97, 98, 10], [99, 100, 10]]).flush.writes = [[97, 98, 10, 99], [100, 10]] ∧
    fileLines ([97, 98, 10, 99] ++ [120, 10] ++ [100, 10]) = some [[97, 98], [99, 120], [100]] := by decide

end WholeLines

section FailCancel
open Pandora.Model.C06FailCancel Pandora.Proofs.C06R6

/-- **one pool fails while others are still shooting** — for every number of pools, every event order, in the
configuration the regenerated facts describe (`Bridge.C06R6.failCfg`): from the moment the main goroutine has taken the
engine's error (and starts to wait, bounded by the 3 s timer) the context of the healthy pools IS cancelled; once it is
cancelled every pool that has not ended can end (its aggregator drains, flushes, closes), and when all have ended the
process leaves through `pandora.Wait()` with everything flushed — the timer is never the only way out. -/
theorem C06_failcancel_healthy_pools_cancelled (n : Nat) (se : Nat → Bool) (trace : List Ev) :
    let st := run Bridge.C06R6.failCfg (init n se) trace
    (st.errsTaken = true → st.cancelled = true) ∧
    (st.cancelled = true → st.exit = none → ∀ j, j < st.n →
      (step Bridge.C06R6.failCfg st (.poolEnds j)).ended j = true) ∧
    (st.errsTaken = true → st.exit = none → st.allEnded = true →
      (step Bridge.C06R6.failCfg st .waitReturns).exit = some true) := by
  intro st
  have h : FInv Bridge.C06R6.failCfg st := finv_run trace (finv_init _ n se)
  refine ⟨?_, ?_, ?_⟩
  · intro he
    rcases Bridge.C06R6.fail_cancel_source with h1 | h1
    · exact h.i2 (h.i1 he) h1
    · exact h.i3 he h1
  · intro hc hx j hj
    simp [step, hc, hx, hj, setAt]
  · intro he hx ha
    simp [step, he, hx, ha]

/-- each of the three cancels alone is enough once `runEngine` has returned (they are redundant: removing one of them
is harmless, removing all of them is `C06_failcancel_nobody_counterexample`) -/
theorem C06_failcancel_any_source (cfg : Cfg) (hsrc : cfg.anySource = true) (n : Nat) (se : Nat → Bool)
    (trace : List Ev) :
    let st := run cfg (init n se) trace
    st.runEngineDone = true → st.cancelled = true := by
  intro st hd
  have h : FInv cfg st := finv_run trace (finv_init _ n se)
  have he := h.i5 hd
  simp only [Cfg.anySource, Bool.or_eq_true] at hsrc
  rcases hsrc with (h1 | h1) | h1
  · exact h.i2 (h.i1 he) h1
  · exact h.i3 he h1
  · exact h.i4 hd h1

/-- non-vacuity: pool 0 fails, pool 1 is healthy and would shoot for hours: it is cancelled, ends, the exit is flushed -/
example :
    let st := run Bridge.C06R6.failCfg (init 2 (fun _ => false))
      [.poolFails 0, .engineReturns, .takeErrs, .runEngineReturns, .poolEnds 0, .poolEnds 1, .waitReturns]
    st.errsTaken = true ∧ st.cancelled = true ∧ st.ended 1 = true ∧ st.exit = some true := by decide

/-- **nobody cancels** (both redundant cancels removed — `Engine.Run` "the caller owns ctx", cli.go "Engine.Run cancels
what it started"): a healthy pool whose schedule goes on never ends, and EVERY exit of the process is without its
final flush (the 3 s timer) — whatever the event order. -/
theorem C06_failcancel_nobody_counterexample (trace : List Ev) (hne : ∀ e ∈ trace, e ≠ .poolFails 1) :
    let st := run noCancel (init 2 (fun _ => false)) trace
    st.ended 1 = false ∧ ∀ x, st.exit = some x → x = false := by
  intro st
  have h : NInv st := ninv_run trace ⟨rfl, rfl, rfl, rfl, rfl, by intro x hx; simp [init] at hx⟩ hne
  exact ⟨h.ne, h.ex⟩

/-- … and such an exit is reached -/
example :
    (run noCancel (init 2 (fun _ => false)) [.poolFails 0, .engineReturns, .takeErrs, .poolEnds 0, .poolEnds 1,
      .waitReturns, .timerFires]).exit = some false := by decide

end FailCancel

section BufRace
open Pandora.Model.C06BufRace Pandora.Proofs.C06R6

/-- **one goroutine per buffered writer** — when every `Flush` completes before the next `Write` starts (phout's `Run`:
regenerated, no `go` statement in `Run`/`handle`, no other function touches the writer), for every sequence of writes
and flushes: the writer never gets its sticky error, no line is refused, destination ++ buffer is exactly what was
written, in order. -/
theorem C06_writer_single_goroutine_exact (trace : List Ev) (hs : Sequential trace) :
    let st := run {} trace
    st.err = false ∧ st.refused = [] ∧ st.out ++ st.buf = st.written := by
  intro st
  obtain ⟨_, he, hw, hr⟩ := seq_ok trace {} hs rfl rfl rfl
  exact ⟨he, hr, hw⟩

example : Sequential [.write 1, .flushBegin, .flushEnd, .write 2, .write 3, .flushBegin, .flushEnd] ∧
    (run {} [.write 1, .flushBegin, .flushEnd, .write 2, .write 3, .flushBegin, .flushEnd]).out = [1, 2, 3] := by
  constructor
  · simp [Sequential]
  · decide

/-- a flusher goroutine of its own ("no timer per handled sample"): a `Write` between the two halves of a `Flush`
makes `Flush` see `n < b.n` — sticky `io.ErrShortWrite`, every later line is refused, `Run` ends with "short write"
(harness: `kind=queue agg=phout … dur= wslow=`; the race build reports the data race) -/
theorem C06_writer_concurrent_flush_counterexample :
    let st := run {} [.write 1, .flushBegin, .write 2, .flushEnd, .write 3]
    st.err = true ∧ st.refused = [3] ∧ st.out = [1] ∧ st.buf = [2] := by decide

end BufRace

open Pandora.Gen.AggQ in
/-- the code is what the round-6 models were written from (regenerated facts, gen/area_aggq_r6.go) -/
theorem C06_source_shape_round6 :
    Bridge.C06R6.sharedCfg = Proofs.C06R6.codeCfg ∧
    (phoutDeferFlushes = true ∧ phoutDeferCloses = true) ∧
    (phoutRunGoStmts = 0 ∧ phoutWriterUsers = ["Run", "handle"]) ∧
    (Bridge.C06R6.failCfg.engineCancels = true ∨ Bridge.C06R6.failCfg.cliCancels = true) ∧
    phoutHandle = Bridge.AggQ.phoutHandleExpected :=
  ⟨Bridge.C06R6.shared_is_code, Bridge.C06R6.phout_defer_closes, Bridge.C06R6.writer_single_goroutine,
   Bridge.C06R6.fail_cancel_source, Bridge.AggQ.phoutHandle_eq⟩

end Round6

end Pandora.Props.C06
