/-
C05 — the property as an executable predicate over what was OBSERVED of one run of the real engine
(harness/cmd/c05): the fault plan (input line) and the observation line. Nothing here looks at the model.

  terminates        Engine.Run returned (no `runhang`, no crash) and Engine.Wait returned (`wait=ok`) - and not before
                    everything the engine had started was over: no call of a provider, aggregator, gun (factory, `Bind`,
                    `WarmUp`, `Shoot`, `Close`) or schedule factory is still in progress at that moment (`busy=0`) -,
                    no goroutine of the run is left (`leak=0`)
  no swallowed err  `res=ok` only if no mock component of any pool returned an error or panicked in this run
                    (unless the caller cancelled); with one of the repo's own providers (`rp:<kind>.<k>.<tail>`) reading
                    a source the harness wrote: `res=ok` never when that source is broken (cut short inside an ammo,
                    malformed, unreadable, cannot be opened) after `k` ammo while the pool's schedules ask for more -
                    judged from the INPUT alone, whatever the provider returned
  cause carried     `res=err:pK:…:<component>`: that component of pool K did fail in this run
  cancel            `res=ctx` only if the caller cancelled; a run cancelled before it was started never reports a
                    component failure; after a cancel Run returns promptly
                    (`lat=slow` fails, `lat=mid` is inconclusive), whatever phase any pool is in: a planned call
                    (`blk:` warm-up, gun / schedule factory, `Bind`, `Close`, provider / aggregator start, a shot) that
                    ignores every context and returns only once the harness has seen `Engine.Run` return must never be
                    what `Engine.Run` waits for (`blk=deadline`: the stub gave up after 2 s); once `Engine.Run` has seen its context done
                    (`engc=1`) it returns the cancellation error, and a cancelled run reports success only if every
                    pool had finished successfully on its own (`pK.main` contains `ok`)
  no invented fail  a failure that carries no component error of this run (`res=other:…`) is a spurious failure
  guns closed       every created gun that is an `io.Closer` was closed exactly once; for the guns of the repo's own
                    registered factories (`rg:` pools, shooting at an in-process server): no connection of the run
                    is open after `Engine.Wait` returned, and a gun that wraps an `io.Closer` is one itself
  ran out           an instance whose `Run` returned nil (`R<id>.ok` in the await log) had its schedule finished: with
                    `rps-per-instance` at least as many of the schedules the pool's factory handed out have no token
                    left (`pK.use=…z<n>…`) as instances ended that way, with a shared schedule that one has none left -
                    so a run succeeds only if every instance of every pool ran out of ammo (`Acquire` said so) or schedule
                    (and `S<n>.ctx` of a pool with per-instance schedules in a successful uncancelled run needs a `c` before it)
  cli               (`cli=` cases: the run goes through `cli.runEngine` / `cli.awaitPandoraTermination`) the process
                    ends with status 0 exactly when the run succeeded and no signal was acted on; before any other
                    exit the run context was cancelled (`gs`) and `Engine.Wait` had returned (`fatal.w1`), unless the
                    user sent a second signal or the tasks outlasted the await timeout
-/
import Pandora.Drv.Util

namespace Pandora.Spec.C05
open Pandora.Drv

/-- the part of one pool's fault plan the Spec needs -/
structure PoolIn where
  per : Bool := true
  closable : Bool := false
  warm : Bool := false
  fails : List (String × Nat) := []     -- newgun@k bind@k warmup sched@k panic@k
  real : Bool := false                  -- `rg:` the guns are made by a factory the repo registers
  blk : String := ""                    -- `blk:` the call of this pool that blocks and ignores every context
  inst : Nat := 1
  shots : Nat := 1
  rp : Option (String × Nat × String) := none   -- `rp:<kind>.<k>.<tail>` the provider is one of the repo's own over a written source
  aggErr : Bool := false                -- the (mock) aggregator is planned to fail
  deriving Repr

structure Plan where
  pools : List PoolIn
  cancel : String
  cli : String := ""       -- "" | run | int | term | int2 | term2 (a second signal while `Engine.Wait` is blocked) | runT (the tasks outlast the 3 s await timeout)
  deriving Repr

/-- `int2` ↦ (`int`, `2`), `runT` ↦ (`run`, `T`) -/
def Plan.cliKind (pl : Plan) : String :=
  if pl.cli.endsWith "2" || pl.cli.endsWith "T" then (pl.cli.dropEnd 1).toString else pl.cli
def Plan.cliVar (pl : Plan) : String :=
  if pl.cli.endsWith "2" then "2" else if pl.cli.endsWith "T" then "T" else ""

structure PoolObs where
  main : List String
  aw : List String
  guns : Nat
  closes : List Nat
  errs : List String      -- component errors the mock components of this pool actually returned
  gcl : Option Bool := none      -- `rg:` pools: the factory's guns are `io.Closer`
  gwu : Option Bool := none      -- … are `warmup.WarmedUp`
  icl : Option Bool := none      -- … the gun, or the gun it wraps, is an `io.Closer`
  srvopen : Option Nat := none   -- … connections of the run the server still holds open after `Engine.Wait`
  use : Option String := none    -- `f<dry Acquires>.z<schedules without tokens left>.n<schedules handed out>.s<shots>.d<discarded>`
  deriving Repr

/-- the number after letter `c` in a `use` token (`f1.z2.n2.s4.d0`) -/
def useField (u : String) (c : Char) : Option Nat :=
  ((u.splitOn ".").find? (fun t => t.front == c)).bind fun t => (t.drop 1).toNat?

structure Obs where
  res : String
  canc : Bool
  lat : String
  wait : String
  busy : Nat := 0
  leak : Nat
  eng : List String
  engc : String
  sup : String
  pools : List PoolObs
  cli : Option (List String) := none   -- rcv | gs | fatal.w1 | fatal.w0 | ok | hang, in order
  csig : Bool := false                 -- the process sent itself the signal before `awaitPandoraTermination` ended
  csig2 : Bool := false                -- … and a second one, while `awaitPandoraTermination` waited for `Engine.Wait`
  blk : Option String := none          -- cases with a blocking stub: `run` | `deadline` | `-`
  deriving Repr

def dashList (s : String) : List String := if s == "-" then [] else splitList s

def parseFail (f : String) : String × Nat :=
  match f.splitOn "@" with
  | [n, k] => (n, k.toNat?.getD 0)
  | _ => (f, 0)

def parsePool (spec : String) : PoolIn :=
  (splitList spec).foldl (fun p tok =>
    match tok.splitOn ":" with
    | ["per", v] => { p with per := v == "1" }
    | ["gun", v] => { p with closable := v.contains 'c', warm := v.contains 'w' }
    | ["fail", v] => if v == "-" then p else { p with fails := (v.splitOn "+").map parseFail }
    | ["rg", v] => { p with real := v != "-" }
    | ["blk", v] => { p with blk := if v == "-" then "" else v }
    | ["inst", v] => { p with inst := v.toNat?.getD 0 }
    | ["agg", v] => { p with aggErr := v.endsWith ".err" }
    | ["shots", v] => { p with shots := v.toNat?.getD 0 }
    | ["rp", v] =>
      match v.splitOn "." with
      | [kind, k, tail] => { p with rp := some (kind, k.toNat?.getD 0, tail) }
      | _ => p
    | _ => p) {}

def parsePlan (input : String) : Option Plan := do
  let kv := parseKV input
  let n ← getN? kv "pools"
  let pools ← (List.range n).mapM fun i => (lookup kv s!"p{i}").map parsePool
  pure { pools := pools, cancel := getS kv "cancel" "none", cli := getS kv "cli" "" }

def parseObs (n : Nat) (impl : String) : Option Obs := do
  let kv := parseKV impl
  let res ← lookup kv "res"
  let pools ← (List.range n).mapM fun i => do
    let closes ← (dashList (← lookup kv s!"p{i}.closes")).mapM String.toNat?
    pure { main := dashList (← lookup kv s!"p{i}.main"), aw := dashList (← lookup kv s!"p{i}.aw"),
           guns := ← getN? kv s!"p{i}.guns", closes := closes, errs := dashList (← lookup kv s!"p{i}.errs"),
           gcl := (lookup kv s!"p{i}.gcl").map (· == "1"), gwu := (lookup kv s!"p{i}.gwu").map (· == "1"), icl := (lookup kv s!"p{i}.icl").map (· == "1"),
           srvopen := getN? kv s!"p{i}.srvopen", use := lookup kv s!"p{i}.use" : PoolObs }
  pure { res := res, canc := getS kv "canc" == "1", lat := getS kv "lat" "-", wait := getS kv "wait",
         busy := (getN? kv "busy").getD 0, leak := (getN? kv "leak").getD 0, eng := dashList (getS kv "eng" "-"), engc := getS kv "engc",
         sup := getS kv "sup" "-", pools := pools, cli := (lookup kv "cli").map dashList,
         csig := getS kv "csig" == "1" || getS kv "csig" == "2", csig2 := getS kv "csig" == "2", blk := lookup kv "blk" }

def PoolIn.has (p : PoolIn) (name : String) (k : Nat) : Bool := p.fails.contains (name, k)

/-- `P.e.prov` ↦ `prov`: a component error in the engine's await log -/
def errOfToken (t : String) : Option String :=
  match t.splitOn ".e." with
  | [_, c] => some c
  | _ => none

/-- component errors that did occur in pool `i`: what the mock components recorded when they returned them -/
def occurred (_pl : Plan) (o : Obs) (i : Nat) : List String :=
  match o.pools[i]? with
  | some po => po.errs
  | none => []

def anyError (pl : Plan) (o : Obs) : Option String :=
  ((List.range pl.pools.length).flatMap fun i => (occurred pl o i).map fun c => s!"p{i}.{c} failed").head?

/-- how many ammo the schedules of the pool ask for -/
def PoolIn.demand (p : PoolIn) : Nat := if p.per then p.inst * p.shots else (if p.inst == 0 then 0 else p.shots)

/-- the ammo source of the pool is broken (cut short inside an ammo, malformed, unreadable, cannot be opened) at a place
the run has to get to: after `k` complete ammo, while the schedules ask for more than `k` -/
def brokenSource (pl : Plan) : Option String :=
  ((List.range pl.pools.length).filterMap fun i =>
    match pl.pools[i]? with
    | some p =>
      match p.rp with
      | some (kind, k, tail) =>
        if tail != "ok" && p.demand > k then
          some s!"the {kind} ammo source of p{i} is broken ({tail}) after {k} ammo and its schedules ask for {p.demand}"
        else none
      | none => none
    | none => none).head?

/-- is the gun of this pool an `io.Closer`: the plan says so for mock guns, the observation for real ones -/
def closableOf (p : PoolIn) (po : PoolObs) : Bool := if p.real then po.gcl.getD false else p.closable

/-- … a `warmup.WarmedUp` -/
def warmOf (p : PoolIn) (po : PoolObs) : Bool := if p.real then po.gwu.getD false else p.warm

def gunCloseBad (pl : Plan) (o : Obs) : Option String :=
  ((List.range pl.pools.length).filterMap fun i =>
    match pl.pools[i]?, o.pools[i]? with
    | some p, some po =>
      if po.closes.length != po.guns then some s!"p{i}:close-counts-{po.closes.length}-for-{po.guns}-guns"
      else if po.closes.all (· == (if closableOf p po then 1 else 0)) then none
      else some s!"p{i}:guns-{po.guns}-close-counts-{",".intercalate (po.closes.map toString)}"
    | _, _ => some s!"p{i}:missing").head?

/-- guns of the repo's registered factories: what they hold must be released when the run is over -/
def gunLeakBad (pl : Plan) (o : Obs) : Option String :=
  ((List.range pl.pools.length).filterMap fun i =>
    match pl.pools[i]?, o.pools[i]? with
    | some p, some po =>
      if !p.real then none
      else if po.srvopen.getD 0 != 0 then
        some s!"p{i}:{po.srvopen.getD 0} connections of the run are still open after Engine.Wait returned"
      else if po.gcl == some false && po.icl == some true then
        some s!"p{i}:the registered gun wraps an io.Closer but is none itself, the engine cannot close it"
      else none
    | _, _ => none).head?

/-- in a successful run nobody cancelled, a pool with a schedule per instance stops starting instances before its
startup schedule is through (`S<n>.ctx`) only because an instance ran out of ammo (`c` earlier in the await log): the
startup schedule is one of the schedules a pool has to run out of -/
def startCutBad (pl : Plan) (o : Obs) : Option String :=
  if o.res != "ok" || o.canc then none else
  ((List.range pl.pools.length).filterMap fun i =>
    match pl.pools[i]?, o.pools[i]? with
    | some p, some po =>
      if !p.per then none else
      match po.aw.find? (·.startsWith "S") with
      | some t =>
        if t.endsWith ".ctx" && !(po.aw.takeWhile (fun x => !x.startsWith "S")).contains "c" then
          some s!"p{i}:the instance start was cancelled ({t}) although nobody cancelled the run and no instance had run out of ammo"
        else none
      | none => none
    | _, _ => none).head?

/-- an instance may end successfully only when its schedule is finished -/
def earlyFinishBad (pl : Plan) (o : Obs) : Option String :=
  ((List.range pl.pools.length).filterMap fun i =>
    match pl.pools[i]?, o.pools[i]? with
    | some p, some po =>
      match po.use with
      | none => none
      | some u =>
        let okInst := (po.aw.filter fun t => t.startsWith "R" && t.endsWith ".ok").length
        match useField u 'z', useField u 'n' with
        | some z, some n =>
          if p.per then
            if okInst ≤ z then none
            else some s!"p{i}:{okInst} instances ended without an error, but only {z} of the {n} schedules handed out have no token left"
          else if okInst == 0 || (z ≥ 1 && z == n) then none
          else some s!"p{i}:{okInst} instances ended without an error although the shared schedule still has tokens"
        | _, _ => some s!"p{i}:unreadable use token {u}"
    | _, _ => none).head?

/-- the process-level outcome of a run that went through `cli.awaitPandoraTermination` -/
def cliBad (pl : Plan) (o : Obs) : Option String :=
  match o.cli with
  | none => none
  | some evs =>
    let fatal := evs.any (·.startsWith "fatal")
    if evs.contains "hang" then some "hang:awaitPandoraTermination did not end"
    else if evs.contains "ok" && o.res != "ok" then some s!"outcome:exit status 0 although Engine.Run returned {o.res.take 40}"
    else if fatal && o.res == "ok" && !evs.contains "rcv" then
      some "outcome:fatal exit although the run succeeded and no signal was acted on"
    else if !fatal && !evs.contains "ok" then some "outcome:neither a normal return nor an exit"
    else if fatal && !(evs.takeWhile (fun e => !e.startsWith "fatal")).contains "gs" then
      some "no-shutdown:exit without cancelling the run context first"
    else if evs.contains "fatal.w0" && !(o.csig2 && evs.contains "rcv") && pl.cliVar != "T" then
      -- (a second signal, or tasks that outlast the await timeout, are the two licences to leave without waiting)
      some "exit-before-wait:the process exits while Engine.Wait has not returned"
    else none

/-- the planned blocking calls, for the text of a verdict -/
def blockedCalls (pl : Plan) : String :=
  ",".intercalate ((List.range pl.pools.length).filterMap fun i =>
    match pl.pools[i]? with
    | some p => if p.blk == "" then none else some s!"p{i}:{p.blk}"
    | none => none)

def verdict (pl : Plan) (o : Obs) : String :=
  if o.res.startsWith "PANIC" then s!"fail:crash:{o.res.take 60}"
  else if o.res.startsWith "other" then s!"fail:spurious-failure:the run failed with {o.res.take 70} although no component error has this text"
  else if o.res == "runhang" then "fail:run-hang:Engine.Run did not return"
  else if o.wait != "ok" then s!"fail:wait-hang:Engine.Wait did not return after res={o.res.take 40}"
  else if o.busy != 0 then s!"fail:wait-early:Engine.Wait returned while {o.busy} calls of components the engine had started were still in progress"
  else if o.leak != 0 then s!"fail:goroutine-leak:{o.leak} goroutines left after Engine.Wait returned"
  else
    let swallowed : Option String :=
      if o.res == "ok" && !o.canc then (anyError pl o <|> brokenSource pl) else none
    match swallowed with
    | some e => s!"fail:swallowed-error:run succeeded although {e}"
    | none =>
    let cause : Option String :=
      match o.res.splitOn ":" with
      | ["err", pk, wrap, comp] =>
        match (pk.drop 1).toNat? with
        | some k =>
          if wrap.endsWith "-nopool" then some s!"{o.res} is not wrapped as a pool failure"
          else if (occurred pl o k).contains comp then none
          else some s!"{o.res} but {comp} did not fail in pool {k}"
        | none => some s!"unreadable result {o.res}"
      | _ => none
    match cause with
    | some e => s!"fail:wrong-cause:{e}"
    | none =>
    if (o.res == "ctx" || o.res == "wrappedctx") && !o.canc then "fail:spurious-cancel:cancellation error without a cancel"
    else if o.res == "ok" && !o.canc && o.pools.any (fun po => po.aw.any fun t => t.startsWith "R" && t.endsWith ".ctx") then
      "fail:spurious-cancel:the run succeeded and nobody cancelled it, yet an instance was stopped by a cancelled context"
    else if o.engc == "1" && o.res != "ctx" then s!"fail:cancel-lost:Engine.Run saw its context done but returned {o.res.take 40}"
    else if o.canc && o.res == "ok" && o.pools.any (fun po => !po.main.contains "ok") then
      "fail:cancel-lost:a cancelled run reported success although a pool had not finished successfully"
    else if o.res.startsWith "err" && o.eng.any (·.endsWith "!") then
      s!"fail:cancel-lost:Engine.Run read a pool failure after the caller's cancel was complete, and returned {o.res.take 40}"
    else if pl.cancel == "pre" && o.res.startsWith "err" then
      s!"fail:cancel-lost:the caller had cancelled before Engine.Run was called, and it returned {o.res.take 40}"
    else if o.res == "wrappedctx" then "fail:wrong-cause:cancellation reported as a wrapped component error"
    else if o.canc && o.blk == some "deadline" then
      s!"fail:cancel-slow:Engine.Run had not returned 2 s after the caller's cancel: it waited for a call that ignores its context ({blockedCalls pl})"
    else if o.canc && o.lat == "slow" then "fail:cancel-slow:Engine.Run returned more than 1.5 s after the cancel"
    else match gunCloseBad pl o with
    | some e => s!"fail:gun-close:{e}"
    | none =>
    match gunLeakBad pl o with
    | some e => s!"fail:gun-leak:{e}"
    | none =>
    match cliBad pl o with
    | some e => s!"fail:cli-{e}"
    | none =>
    match earlyFinishBad pl o with
    | some e => s!"fail:early-finish:{e}"
    | none =>
    match startCutBad pl o with
    | some e => s!"fail:start-cut:{e}"
    | none =>
    if o.canc && o.lat == "mid" then "skip:inconclusive-latency"
    else if o.blk == some "deadline" then "skip:blocked-component-without-cancel" else "ok"

end Pandora.Spec.C05
