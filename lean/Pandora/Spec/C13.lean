/-
Executable Spec of C13, evaluated on what the REAL code did with one input.

Observation (one line per input, produced by harness/cmd/c13): the outcome class
  `[n=<k> e=<entries>] end=ok | end=err:<class> | end=ctor-err | end=panic | end=hang | end=fatal-oom | oom-guard`
or, for the helper functions, `ok …` | `err…` | `panic`.

The property: the input is answered by a value or an error - never by a panic, a fatal runtime
error, or a hang; a malformed input is not accepted; the entries delivered before the malformed
part are exactly the ones the model says (prefix preservation).
-/
namespace Pandora.Spec.C13

def containsSub (s sub : String) : Bool := (s.splitOn sub).length > 1

/-- the "never crashes / never hangs" part, judged on the implementation's observation alone -/
def crashVerdict (kind impl : String) : Option String :=
  if impl.startsWith "PANIC" || containsSub impl "panic" then some s!"fail:panic:{kind} answered with a panic"
  else if impl == "HANG" || containsSub impl "end=hang" then some s!"fail:hang:{kind} did not return"
  else if containsSub impl "fatal" then some s!"fail:oom:{kind} died with a fatal runtime error (out of memory)"
  else if impl.startsWith "CHILDERR" || impl.startsWith "HARNESSERR" || impl.startsWith "BADINPUT" then
    some s!"fail:driver:{impl.take 80}"
  else none

def kvOf (s key : String) : String :=
  match (s.splitOn " ").find? (fun t => t.startsWith (key ++ "=")) with
  | some t => (t.drop (key.length + 1)).toString
  | none => ""

/-- is the outcome an error return (as opposed to acceptance)? -/
def isErrObs (obs : String) : Bool :=
  containsSub obs "end=err" || containsSub obs "end=ctor-err" || obs.startsWith "err"

/-- full verdict: `model` = the model's predicted observation (`none` when the outcome is decided by a
third-party parser or by chance and only the crash class is judged) -/
def judge (kind : String) (model : Option String) (impl : String) : String :=
  match crashVerdict kind impl with
  | some v => v
  | none =>
    if containsSub impl "oom-guard" then "skip:oom-guard"
    else match model with
      | none => "ok"
      | some m =>
        if m == impl then "ok"
        else if isErrObs m && !isErrObs impl then s!"fail:accepted:{kind} malformed input accepted, expected {m.take 60}"
        else if kvOf m "e" != kvOf impl "e" || kvOf m "n" != kvOf impl "n" then
          s!"fail:prefix:{kind} delivered entries differ from the well-formed prefix, expected {m.take 80}"
        else s!"fail:outcome:{kind} expected {m.take 80}"

end Pandora.Spec.C13
