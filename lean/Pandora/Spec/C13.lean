/-
Executable Spec of C13, evaluated on what the REAL code did with one input.

Observation (one line per input, produced by harness/cmd/c13): the outcome class
  `[n=<k> e=<entries>] end=ok | end=err:<class> | end=ctor-err | end=panic | end=hang | end=fatal-oom | oom-guard`
or, for the helper functions, `ok …` | `err…` | `panic`.

The property: the input is answered by a value or an error - never by a panic, a fatal runtime
error, or a hang; a malformed input is not accepted; the entries delivered before the malformed
part are exactly the ones the model says (prefix preservation).
-/
namespace Pandora.Spec.C13

def containsSub (s sub : String) : Bool := (s.splitOn sub).length > 1

/-- the "never crashes / never hangs" part, judged on the implementation's observation alone -/
def crashVerdict (kind impl : String) : Option String :=
  if impl.startsWith "PANIC" || containsSub impl "panic" then some s!"fail:panic:{kind} answered with a panic"
  else if impl == "HANG" || containsSub impl "end=hang" then some s!"fail:hang:{kind} did not return"
  else if containsSub impl "fatal" then some s!"fail:oom:{kind} died with a fatal runtime error (out of memory)"
  else if impl.startsWith "CHILDERR" || impl.startsWith "HARNESSERR" || impl.startsWith "BADINPUT" then
    some s!"fail:driver:{impl.take 80}"
  else none

def kvOf (s key : String) : String :=
  match (s.splitOn " ").find? (fun t => t.startsWith (key ++ "=")) with
  | some t => (t.drop (key.length + 1)).toString
  | none => ""

/-- is the outcome an error return (as opposed to acceptance)? -/
def isErrObs (obs : String) : Bool :=
  containsSub obs "end=err" || containsSub obs "end=ctor-err" || obs.startsWith "err"

/-- full verdict: `model` = the model's predicted observation (`none` when the outcome is decided by a
third-party parser or by chance and only the crash class is judged) -/
def judge (kind : String) (model : Option String) (impl : String) : String :=
  match crashVerdict kind impl with
  | some v => v
  | none =>
    if containsSub impl "oom-guard" then "skip:oom-guard"
    else match model with
      | none => "ok"
      | some m =>
        if m == impl then "ok"
        else if isErrObs m && !isErrObs impl then s!"fail:accepted:{kind} malformed input accepted, expected {m.take 60}"
        else if kvOf m "e" != kvOf impl "e" || kvOf m "n" != kvOf impl "n" then
          s!"fail:prefix:{kind} delivered entries differ from the well-formed prefix, expected {m.take 80}"
        else s!"fail:outcome:{kind} expected {m.take 80}"

/-- grpc/json files (jsoniter decides which lines are valid, so the Spec is judged on the shape of the observation):
`nLines` = number of scanner lines of the file, `blank i` = line `i` is certainly not JSON (empty / white space).
* with `continue_on_error` every line is delivered, valid or invalidated (`:I`), and the run ends well;
* without it the run delivers valid entries only, and either all lines (end ok) or a proper prefix followed by an error. -/
def grpcJudge (coe : Bool) (nLines : Nat) (blank : Nat → Bool) (impl : String) : String :=
  match crashVerdict "grpc/json provider" impl with
  | some v => v
  | none =>
    if containsSub impl "oom-guard" then "skip:oom-guard" else
    let n := (kvOf impl "n").toNat?.getD 0
    let es := if n == 0 then [] else (kvOf impl "e").splitOn ","
    let endS := kvOf impl "end"
    let invalidAt (i : Nat) : Bool := ((es[i]?).getD "").endsWith ":I"
    let blankAccepted := (List.range es.length).any fun i => blank i && !invalidAt i
    if n != es.length then "fail:driver:entry count and entry list differ"
    else if blankAccepted then "fail:accepted:grpc/json provider delivered a blank line as a valid ammo"
    else if coe then
      if endS == "ok" && n == nLines then "ok"
      else s!"fail:skipped:grpc/json provider with continue_on_error must deliver every line (valid or invalidated) and end well, expected n={nLines} end=ok"
    else
      if (List.range es.length).any invalidAt then "fail:outcome:grpc/json provider delivered an invalidated ammo without continue_on_error"
      else if endS == "ok" then
        if n == nLines then "ok" else s!"fail:prefix:grpc/json provider ended well after {n} of {nLines} lines"
      else if endS.startsWith "err" then
        if n < nLines then "ok" else s!"fail:outcome:grpc/json provider reported an error after delivering all {nLines} lines"
      else s!"fail:outcome:grpc/json provider unexpected end {endS}"

/-- grpc/json with passes / limit, no chosen cases, judged without knowing which lines jsoniter accepts (round 3).
`firstSame i` = the first line of the file with the same bytes as line `i`. Every line is delivered (or the run ends at
the first refused line of the first pass), so entry `i` belongs to line `i % nLines`:
* the count and the end are those of the options (`passes` passes, at most `limit` entries; `continue_on_error`: every
  line, valid or invalidated; otherwise a proper prefix of the first pass and an error);
* what a line is delivered as is a function of the line: two deliveries of the same bytes - in another pass, at another
  place of the file, whatever pooled object was used - are the same entry (tag, call, metadata, payload, invalid flag). -/
def grpcMultiJudge (coe : Bool) (nLines passes limit : Nat) (blank : Nat → Bool) (firstSame : Nat → Nat) (impl : String) : String :=
  match crashVerdict "grpc/json provider" impl with
  | some v => v
  | none =>
    if containsSub impl "oom-guard" then "skip:oom-guard" else
    let n := (kvOf impl "n").toNat?.getD 0
    let es := (if n == 0 then [] else (kvOf impl "e").splitOn ",").toArray
    let endS := kvOf impl "end"
    let invalidAt (i : Nat) : Bool := (es.getD i "").endsWith ":I"
    let blankAccepted := (List.range es.size).any fun i => blank (i % nLines) && !invalidAt i
    let total := if nLines == 0 then 0
      else if limit != 0 && (passes == 0 || limit ≤ passes * nLines) then limit else passes * nLines
    let clash := (List.range es.size).find? fun i =>
      let j := firstSame (i % nLines)
      j < es.size && es.getD i "" != es.getD j ""
    if n != es.size then "fail:driver:entry count and entry list differ"
    else if passes == 0 && limit == 0 && nLines != 0 then "skip:unlimited"
    else if blankAccepted then "fail:accepted:grpc/json provider delivered a blank line as a valid ammo"
    else match clash with
    | some i =>
      s!"fail:prefix:grpc/json provider delivered line {i % nLines + 1} as {(es.getD i "").take 60} (entry {i + 1}) and the same line as {(es.getD (firstSame (i % nLines)) "").take 60} (entry {firstSame (i % nLines) + 1}): an entry is not delivered as its own line says"
    | none =>
      if coe then
        if endS == "ok" && n == total then "ok"
        else s!"fail:skipped:grpc/json provider with continue_on_error must deliver every line (valid or invalidated) and end well, expected n={total} end=ok"
      else
        if (List.range es.size).any invalidAt then "fail:outcome:grpc/json provider delivered an invalidated ammo without continue_on_error"
        else if endS == "ok" then
          if n == total then "ok" else s!"fail:prefix:grpc/json provider ended well after {n} entries, expected {total}"
        else if endS.startsWith "err" then
          if n < nLines && (limit == 0 || n < limit) then "ok"
          else s!"fail:outcome:grpc/json provider reported an error after delivering {n} entries of a file of {nLines} lines"
        else s!"fail:outcome:grpc/json provider unexpected end {endS}"

/-- metamorphic prefix check, every format (no oracle for the third-party parsers is needed): the provider was run on
`good` alone (`A[…]`) and on `good ++ junk` (`B[…]`).
* when `good` alone ends well, its entries are the first entries of the second run, unchanged;
* `truncated` = `junk` is the beginning of a JSON object that lacks its closing brace (and `good` is not one JSON
  array, after which nothing is read): the second run must deliver no more than the first and end with an error. -/
def pfxJudge (kind : String) (truncated : Bool) (impl : String) (wholeFile : Bool := false) : String :=
  match crashVerdict kind impl with
  | some v => v
  | none =>
    if containsSub impl "oom-guard" then "skip:oom-guard" else
    match impl.splitOn "] B[" with
    | [a, b] =>
      let a := (a.drop 2).toString       -- "A["
      let entries (o : String) : List String :=
        if (kvOf o "n").toNat?.getD 0 == 0 then [] else (kvOf o "e").splitOn ","
      let ea := entries a
      let eb := entries b
      let endA := kvOf a "end"
      let endB := (kvOf b "end").dropEndWhile (· == ']') |>.toString
      if !endA.startsWith "ok" then "ok"
      -- `wholeFile`: `good` is one value decoded as a whole at construction (a JSON array): the file with something
      -- appended may be refused as a whole
      else if wholeFile && endB.startsWith "ctor-err" then "ok"
      else if !ea.isPrefixOf eb then
        s!"fail:prefix:{kind} entries of the well-formed part changed when something was appended to it"
      else if truncated && !endB.startsWith "err" && !endB.startsWith "ctor-err" then
        s!"fail:accepted:{kind} a truncated last entry was not reported, end={endB}"
      else if truncated && eb.length != ea.length then
        s!"fail:prefix:{kind} a truncated last entry was delivered"
      else "ok"
    | _ => s!"fail:driver:unparsable observation {impl.take 60}"

/-- an injected I/O fault (the read that reaches a given byte of the file fails / the n-th seek to the start of the file
fails): the provider was run without the fault (`A[…]`) and with it (`B[…]`), same file, same options.
* the faulty run ends with an error - unless it is the fault-free run over again (the limit was reached, or the file was
  not read again, before the fault could happen);
* what it delivered before is what the fault-free run delivers first (`read`: but for its last entry - a scanner hands
  out the line the fault cut short). -/
def fltJudge (kind mode : String) (impl : String) : String :=
  match crashVerdict kind impl with
  | some v => v
  | none =>
    if containsSub impl "oom-guard" then "skip:oom-guard" else
    match impl.splitOn "] B[" with
    | [a, b] =>
      let a := (a.drop 2).toString
      let entries (o : String) : List String :=
        if (kvOf o "n").toNat?.getD 0 == 0 then [] else (kvOf o "e").splitOn ","
      let ea := entries a
      let eb := entries b
      let endA := kvOf a "end"
      let endB := (kvOf b "end").dropEndWhile (· == ']') |>.toString
      let ebFirm := if mode == "read" then eb.dropLast else eb
      let isErr := endB.startsWith "err" || endB.startsWith "ctor-err"
      if !ebFirm.isPrefixOf ea then
        s!"fail:prefix:{kind} delivered entries that the run without the I/O fault does not deliver"
      else if isErr then "ok"
      -- the run ended before the fault mattered (limit, preload, no ammo); `read`: the last entry may be the line the fault cut short
      else if endB == endA && eb.length == ea.length && ebFirm == (if mode == "read" then ea.dropLast else ea) then "ok"
      else s!"fail:accepted:{kind} an I/O error ({mode}) was not reported, end={endB} after {eb.length} entries"
    | _ => s!"fail:driver:unparsable observation {impl.take 60}"

/-- `max_ammo_size` (round 4): the file was read without the option (`a=<n>/<end>`) and with it (`b=…`); `lens` = the lengths
of the lines of the file. Never a crash; for grpc/json: a size every line fits in (or 0 = the default) changes nothing, a
negative size is refused with an error before anything is delivered, a line that certainly does not fit (the exact
boundary is bufio's: 8 bytes of margin) ends the run with an error after at most the lines in front of it. -/
def masJudge (kind fmt : String) (mas : Int) (lens : List Int) (impl : String) : String :=
  match crashVerdict kind impl with
  | some v => v
  | none =>
    let a := kvOf impl "a"
    let b := kvOf impl "b"
    let longest := lens.foldl max 0
    let nB := ((b.splitOn "/").headD "").toNat?.getD 0
    if a == "" || b == "" then s!"fail:driver:observation without a= and b=: {impl.take 60}"
    else if fmt != "grpcjson" then "ok"
    else if mas == 0 || (mas > 0 && longest + 8 ≤ mas) then
      if a == b then "ok"
      else s!"fail:outcome:{kind} a size every line fits in changed the run: {a} without it, {b} with it"
    else if mas < 0 then
      if nB == 0 && containsSub b "/err" then "ok"
      else s!"fail:accepted:{kind} a negative size was accepted: {b}"
    else
      match lens.findIdx? (fun l => l > mas + 8) with
      | some i =>
        if containsSub b "/err" && nB ≤ i then "ok"
        else s!"fail:accepted:{kind} line {i + 1} is longer than max_ammo_size and the run ended with {b}"
      | none => "ok"

/-- `k=runend` (round 6): the provider as its consumers see it once `Run` has returned. Whatever made `Run` return - the end
of the file, an error in it, a file that cannot be opened, a cancelled context - every later `Acquire` must return (what is
buffered, then "no more ammo"): a sink left open blocks every instance for ever. A file that cannot be opened is an error. -/
def runendJudge (kind fault impl : String) : String :=
  match crashVerdict kind impl with
  | some v =>
    if containsSub impl "end=hang" && kvOf impl "run" != "hang" && kvOf impl "run" != "" then
      s!"fail:hang:{kind}: Run returned ({kvOf impl "run"}) but Acquire still blocks: the sink was not closed (fault: {fault})"
    else v
  | none =>
    if containsSub impl "oom-guard" then "skip:oom-guard"   -- the harness's own memory guard (a file announcing a huge size): not run
    else if containsSub impl "end=ctor-err" then "ok"
    else if kvOf impl "end" != "closed" then s!"fail:driver:observation without end=closed: {impl.take 60}"
    else if (fault == "missing" || fault == "perm") && kvOf impl "run" == "ok" then
      s!"fail:accepted:{kind}: an ammo file that cannot be opened ({fault}) was accepted: {impl.take 60}"
    else "ok"

end Pandora.Spec.C13
