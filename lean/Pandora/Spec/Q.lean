/-
Tiny exact rationals for executable specs (core-only).
-/
namespace Pandora.Spec

structure Q where
  num : Int
  den : Nat      -- > 0 by construction in all producers
deriving Repr

namespace Q
def ofInt (i : Int) : Q := ⟨i, 1⟩
def mk' (n : Int) (d : Nat) : Q := if d = 0 then ⟨0, 1⟩ else ⟨n, d⟩
def add (a b : Q) : Q := ⟨a.num * b.den + b.num * a.den, a.den * b.den⟩
def neg (a : Q) : Q := ⟨-a.num, a.den⟩
def sub (a b : Q) : Q := add a (neg b)
def mul (a b : Q) : Q := ⟨a.num * b.num, a.den * b.den⟩
def inv (a : Q) : Q := if a.num > 0 then ⟨a.den, a.num.toNat⟩ else if a.num < 0 then ⟨-(a.den : Int), (-a.num).toNat⟩ else ⟨0, 1⟩
def div (a b : Q) : Q := mul a (inv b)
def le (a b : Q) : Bool := a.num * b.den ≤ b.num * a.den
def lt (a b : Q) : Bool := a.num * b.den < b.num * a.den
def isZero (a : Q) : Bool := a.num == 0
def abs (a : Q) : Q := ⟨Int.ofNat a.num.natAbs, a.den⟩
def max (a b : Q) : Q := if le a b then b else a
def floor (a : Q) : Int := a.num / (a.den : Int)      -- Int `/` on a positive divisor is floor division
/-- reduce to lowest terms (keeps numbers small in long computations) -/
def norm (a : Q) : Q :=
  let g := Nat.gcd a.num.natAbs a.den
  if g ≤ 1 then a else ⟨a.num / g, a.den / g⟩
instance : Add Q := ⟨add⟩
instance : Sub Q := ⟨sub⟩
instance : Mul Q := ⟨mul⟩
instance : Div Q := ⟨div⟩
instance : OfNat Q n := ⟨⟨n, 1⟩⟩
def pow2neg (k : Nat) : Q := ⟨1, 2 ^ k⟩

/-- parse "n/d" or "n" -/
def parse? (s : String) : Option Q :=
  match s.splitOn "/" with
  | [n] => n.toInt?.map ofInt
  | [n, d] => do
      let n ← n.toInt?
      let d ← d.toNat?
      if d = 0 then none else some ⟨n, d⟩
  | _ => none
def toStr (a : Q) : String := s!"{a.num}/{a.den}"
end Q
end Pandora.Spec
