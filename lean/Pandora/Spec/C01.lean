/-
Executable Spec of C01, evaluated on what the REAL schedules emitted (sampling tie for the float64 gap).
Exact rational arithmetic, no square roots. `cum p u` is the exact integral of the configured rate of part `p` from
its start to `u` ns (clamped to [0, D]).

  token k at offset t (ns) is accepted iff  0 ≤ t ≤ D,  cum(t) ≤ k + δ  and  cum(t+1) ≥ k - δ
     (t* = ⌊T_k·10⁹⌋, the proved value, is the only t with cum(t) ≤ k < cum(t+1); a neighbour of t* is accepted only
      where T_k·10⁹ is within the rounding error δ/rate of a whole nanosecond. If the float64 instant x̃ has count-space
      error ≤ δ then t = trunc(x̃) satisfies cum(t) ≤ cum(x̃) ≤ k + δ and cum(t+1) > cum(x̃) ≥ k - δ.)
  count n is accepted iff  n = ⌊cum(D)⌋, or ⌊cum(D)⌋ ∓ 1 when cum(D) is within δ of an integer
  δ(k) = 2⁻⁴⁶ · (k + 1 + max(from,to)·D/10⁹)      -- in COUNT space

Justification of δ (notes/C01.md has the derivation): with ε = 2⁻⁵³ every float64 step of `constDoAt`, `lineDoAt`
(cancellation-free form) and of the count formulas is a sum/product/quotient/sqrt of non-negative quantities or one
subtraction `b² − 2|a|k` whose absolute error ε·b² enters the count as ≤ 2ε·b·x; altogether the count-space error of
token k is below 16ε·(k + max(from,to)·x) ≤ 2⁻⁴⁹·(k + max·D).  δ leaves a factor 8 on top of that bound; measured on
143 790 profiles of the thorough tier the real code stays within 2⁻⁵²·(…) (first failures appear at 2⁻⁵⁶), i.e. 64 times
inside δ.  δ stays far below one operation for every profile the generator can drain (≤ 3·10⁶ tokens: δ < 10⁻⁷).
-/
import Pandora.Spec.Q

namespace Pandora.Spec.C01
open Pandora.Spec

inductive Part where
  | const (ops : Q) (dur : Int)
  | line (f t : Q) (dur : Int)
  | once (n : Int)

def billion : Q := Q.ofInt 1000000000

def Part.dur : Part → Int
  | .const _ d => d
  | .line _ _ d => d
  | .once _ => 0

/-- exact integral of the rate from 0 to u ns (u clamped into [0, D]) -/
def Part.cum (p : Part) (u : Int) : Q :=
  match p with
  | .const ops d =>
      let u := if u < 0 then 0 else if u > d then d else u
      Q.norm (ops * Q.ofInt u / billion)
  | .line f t d =>
      let u := if u < 0 then 0 else if u > d then d else u
      -- f·u/1e9 + (t-f)·u²/(2·D·1e9)
      Q.norm (f * Q.ofInt u / billion + (t - f) * Q.ofInt (u * u) / (Q.ofInt (2 * d) * billion))
  | .once n => Q.ofInt n

def Part.total (p : Part) : Q := p.cum p.dur

/-- the larger end rate -/
def Part.maxRate : Part → Q
  | .const ops _ => ops
  | .line f t _ => Q.max f t
  | .once _ => Q.ofInt 0

/-- count-space rounding tolerance -/
def Part.delta (p : Part) (k : Int) : Q :=
  Q.norm ((Q.ofInt (k + 1) + Q.norm (p.maxRate * Q.ofInt p.dur / billion)) * Q.pow2neg 46)

/-- acceptable counts [lo, hi] -/
def Part.countRange (p : Part) : Int × Int :=
  match p with
  | .once n => (n, n)
  | _ =>
    let tot := p.total
    let fl := tot.floor
    let d := p.delta fl
    let lo := if Q.le (tot - Q.ofInt fl) d then fl - 1 else fl
    let hi := if Q.le (Q.ofInt (fl + 1) - tot) d then fl + 1 else fl
    (if lo < 0 then 0 else lo, hi)

/-- is token (k, t) of this part acceptable? -/
def Part.tokenOk (p : Part) (k t : Int) : Bool :=
  match p with
  | .once _ => t == 0
  | _ =>
    let d := p.delta k
    0 ≤ t && t ≤ p.dur &&
    Q.le (p.cum t) (Q.ofInt k + d) && Q.le (Q.ofInt k - d) (p.cum (t + 1))

structure Obs where
  left0 : Int                 -- Left() before Start
  n : Int                     -- tokens handed out
  fin : Int                   -- time reported with ok=false, relative to the start
  finStable : Bool            -- three more calls report the same, Left() = 0
  mono : Bool
  tmin : Int
  tmax : Int
  parts : Option (List Int)   -- step: tokens per level time slot
  toks : List (Int × Int)     -- sampled (index, offset)

def sumI (l : List Int) : Int := l.foldl (· + ·) 0

/-- verdict for a list of parts laid end to end -/
def judge (parts : List Part) (o : Obs) : String :=
  let ranges := parts.map Part.countRange
  let finExp := sumI (parts.map Part.dur)
  -- tokens per part: the harness' time-slot counts for a profile of several parts, otherwise everything
  let cnts : List Int :=
    match parts, o.parts with
    | [_], _ => [o.n]
    | _, some ps => ps ++ List.replicate (parts.length - ps.length) 0
    | _, none => parts.map fun _ => 0
  if cnts.length != parts.length then
    s!"fail:count:tokens in {cnts.length} level slots, the profile has {parts.length} levels"
  else if sumI cnts != o.n then s!"fail:driver:slot counts {sumI cnts} do not add up to n={o.n}"
  else
  let badCount := (List.zip (List.zip cnts ranges) (List.range parts.length)).find? fun ((c, r), _) => c < r.1 || c > r.2
  match badCount with
  | some ((c, r), j) => s!"fail:count:part={j} n={c} expected=[{r.1},{r.2}] total-n={o.n}"
  | none =>
  if o.left0 != o.n then s!"fail:left:Left() before start = {o.left0}, tokens handed out = {o.n}"
  else if o.fin != finExp then s!"fail:finish:fin={o.fin} expected={finExp}"
  else if !o.finStable then "fail:finish:finish time or Left() not stable after exhaustion"
  else if !o.mono then "fail:order:token times decrease"
  else if o.n > 0 && (o.tmin < 0 || o.tmax > finExp) then s!"fail:bounds:tmin={o.tmin} tmax={o.tmax} D={finExp}"
  else
    -- map global token index to (part, local index, part start)
    let rec locate (ps : List Part) (cs : List Int) (k : Int) (off : Int) : Option (Part × Int × Int) :=
      match ps, cs with
      | p :: ps', c :: cs' => if k < c then some (p, k, off) else locate ps' cs' (k - c) (off + p.dur)
      | _, _ => none
    let bad := o.toks.find? fun (k, t) =>
      match locate parts cnts k 0 with
      | some (p, k', off) => !(p.tokenOk k' (t - off))
      | none => true
    match bad with
    | some (k, t) => s!"fail:time:k={k} t={t}"
    | none => "ok"

end Pandora.Spec.C01
