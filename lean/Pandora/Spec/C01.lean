/-
Executable Spec of C01, evaluated on what the REAL schedules emitted (sampling tie
for the float64 gap).  Exact rational arithmetic, no square roots:
  token k at offset t (ns) is accepted iff   cum(t-1) ≤ k + δ  and  cum(t+2) ≥ k - δ
with cum the exact integral of the configured rate, clamped to [0, D], and
  δ = 2^-44 · (k + 1 + max(from,to)²·D/(|to-from|·10⁹))
the float64 rounding of the count-space computation (documented tolerance).
count: n = ⌊cum(D)⌋, or ±1 when cum(D) is within δ of an integer.
-/
import Pandora.Spec.Q

namespace Pandora.Spec.C01
open Pandora.Spec

inductive Part where
  | const (ops : Q) (dur : Int)
  | line (f t : Q) (dur : Int)
  | once (n : Int)

def billion : Q := Q.ofInt 1000000000

def Part.dur : Part → Int
  | .const _ d => d
  | .line _ _ d => d
  | .once _ => 0

/-- exact integral of the rate from 0 to u ns (u clamped into [0, D]) -/
def Part.cum (p : Part) (u : Int) : Q :=
  match p with
  | .const ops d =>
      let u := if u < 0 then 0 else if u > d then d else u
      Q.norm (ops * Q.ofInt u / billion)
  | .line f t d =>
      let u := if u < 0 then 0 else if u > d then d else u
      -- f·u/1e9 + (t-f)·u²/(2·D·1e9)
      Q.norm (f * Q.ofInt u / billion + (t - f) * Q.ofInt (u * u) / (Q.ofInt (2 * d) * billion))
  | .once n => Q.ofInt n

def Part.total (p : Part) : Q := p.cum p.dur

/-- count-space rounding tolerance -/
def Part.delta (p : Part) (k : Int) : Q :=
  let base := Q.ofInt (k + 1)
  let extra : Q := match p with
    | .line f t d =>
        let m := Q.max f t
        let df := Q.abs (t - f)
        if df.isZero then Q.ofInt 0 else Q.norm (m * m * Q.ofInt d / (df * billion))
    | _ => Q.ofInt 0
  Q.norm ((base + extra) * Q.pow2neg 44)

/-- acceptable counts [lo, hi] -/
def Part.countRange (p : Part) : Int × Int :=
  match p with
  | .once n => (n, n)
  | _ =>
    let tot := p.total
    let fl := tot.floor
    let d := p.delta fl
    let lo := if Q.le (tot - Q.ofInt fl) d then fl - 1 else fl
    let hi := if Q.le (Q.ofInt (fl + 1) - tot) d then fl + 1 else fl
    (if lo < 0 then 0 else lo, hi)

/-- is token (k, t) of this part acceptable? -/
def Part.tokenOk (p : Part) (k t : Int) : Bool :=
  match p with
  | .once _ => t == 0
  | _ =>
    let d := p.delta k
    0 ≤ t && t ≤ p.dur &&
    Q.le (p.cum (t - 1)) (Q.ofInt k + d) && Q.le (Q.ofInt k - d) (p.cum (t + 2))

/-- the parts a configured profile consists of (`none` = malformed input line) -/
def stepLevels (f t : Q) (step : Int) (fuel : Nat) : List Q :=
  match fuel with
  | 0 => []
  | fuel + 1 => if Q.le f t then f :: stepLevels (Q.norm (f + Q.ofInt step)) t step fuel else []

structure Obs where
  n : Int
  fin : Int
  finStable : Bool
  mono : Bool
  tmin : Int
  tmax : Int
  toks : List (Int × Int)

/-- verdict for a list of parts laid end to end -/
def judge (parts : List Part) (o : Obs) : String :=
  let ranges := parts.map Part.countRange
  let lo := ranges.foldl (fun a r => a + r.1) 0
  let hi := ranges.foldl (fun a r => a + r.2) 0
  let finExp := parts.foldl (fun a p => a + p.dur) 0
  if o.n < lo || o.n > hi then s!"fail:count:n={o.n} expected=[{lo},{hi}]"
  else if o.fin != finExp then s!"fail:finish:fin={o.fin} expected={finExp}"
  else if !o.finStable then "fail:finish:finish time not stable after exhaustion"
  else if !o.mono then "fail:order:token times decrease"
  else if o.n > 0 && (o.tmin < 0 || o.tmax > finExp) then s!"fail:bounds:tmin={o.tmin} tmax={o.tmax} D={finExp}"
  else if lo != hi && parts.length > 1 then "skip:count-boundary"
  else
    -- map global token index to (part, local index)
    let rec locate (ps : List Part) (rs : List (Int × Int)) (k : Int) (off : Int) : Option (Part × Int × Int) :=
      match ps, rs with
      | p :: ps', r :: rs' =>
          let cnt := if parts.length == 1 then o.n else r.1
          if k < cnt then some (p, k, off) else locate ps' rs' (k - cnt) (off + p.dur)
      | _, _ => none
    let bad := o.toks.find? fun (k, t) =>
      match locate parts ranges k 0 with
      | some (p, k', off) => !(p.tokenOk k' (t - off))
      | none => true
    match bad with
    | some (k, t) => s!"fail:time:k={k} t={t}"
    | none => "ok"

end Pandora.Spec.C01
