/-
Executable Spec of C07: what the provider must deliver for an ammo file that was rendered from a list of
entries — exactly the requests written in the file, in file order, wrapping around, each with the header
lines that precede it in the file (last value per canonical key; forgotten at each new pass) — independent of layout.
The Spec never looks at the file bytes or at the scanners: it is a function of the ENTRIES only.
`judge` evaluates it on the canonical observation printed by harness/cmd/c07 for the REAL provider.
-/
import Pandora.Model.C07Base
import Pandora.Model.C07Frame

namespace Pandora.Spec.C07
open Pandora.Model.C07

/-- the request a gun must receive for (method, target, host, body, tag) under the effective header set `h` -/
def mkReq (method uri host body tag : Bytes) (h : Hdrs) : Req :=
  { method := if method.isEmpty then getBytes else method
    uri := uri
    host := if host.isEmpty then (hget h hostKey).getD [] else host
    hdrs := sortHdrs (h.filter (fun kv => kv.1 != hostKey))
    body := body, tag := tag }

/-- what a request target written in the file denotes: `(authority, path+query)`.  An origin-form target (`/path?query`)
has no authority (Host then comes from the header lines); an absolute-form target `http://host[:port]/path?query` is
sent to `/path?query` with Host = its authority, whatever `[Host: …]` lines say (`parseURL`: what `net/url` does on the
class of targets the model knows; outside that class the Spec is not evaluated, `targetsKnown`) -/
def targetParts (u : Bytes) : Bytes × Bytes := (parseURL u).getD ([], u)

/-- one pass over the entries: a header entry applies to the entries after it; the provider's `headers` option
`cfg` only fills in what the file did not define -/
def expReqs (f : Fmt) (cfg : Hdrs) : Hdrs → List Item → List Req
  | _, [] => []
  | h, .hdr k v :: r => expReqs f cfg (hset h k v) r
  | h, .req u t b :: r =>
    (if f = .uripost then mkReq postBytes (targetParts u).2 (targetParts u).1 b t (mergeCfg h cfg)
     else mkReq getBytes (targetParts u).2 (targetParts u).1 [] t (mergeCfg h cfg))
      :: expReqs f cfg h r
  | h, .frame _ _ :: r => expReqs f cfg h r

/-- raw: the frames with their tags, in file order -/
def expFrames : List Item → List RawAmmo
  | [] => []
  | .frame t fr :: r => { frame := fr, tag := t } :: expFrames r
  | _ :: r => expFrames r

/-- the same pass at the level of decoded ammo (before `BuildRequest`): needs no knowledge of `net/url` -/
def expAmmo (f : Fmt) : Hdrs → List Item → List Ammo
  | _, [] => []
  | h, .hdr k v :: r => expAmmo f (hset h k v) r
  | h, .req u t b :: r =>
    { method := if f = .uripost then postBytes else getBytes, url := u
      body := if f = .uripost then b else [], tag := t, hdrs := h } :: expAmmo f h r
  | h, .frame _ _ :: r => expAmmo f h r

/-- all request targets of the entries are in the class where the model knows `net/url`: origin-form targets of
unreserved / sub-delim / `%XX` bytes, and `http://host[:port]` followed by such a target -/
def targetsKnown (items : List Item) : Bool :=
  items.all fun it => match it with | .req u _ _ => (parseURL u).isSome | _ => true

/-- http/json: the request for one decoded entity -/
def entityReq (cfg : Hdrs) (host method uri tag body : Bytes) (headers : List (Bytes × Bytes)) : Req :=
  mkReq method uri host body tag (mergeCfg (headers.foldl (fun h kv => hset h kv.1 kv.2) []) cfg)

/-- delivered sequence for `Limit = k`: the pass repeated -/
def expected {α : Type} (pass : List α) (k : Nat) : List α := cycleTake pass k

def expectedErr {α : Type} (pass : List α) : String := if pass.isEmpty then "noammo" else "ok"

/-! ### canonical text of an observation (same as harness/cmd/c07 `canonReq`) -/

def hexDigit (n : Nat) : Char := if n < 10 then Char.ofNat (n + 48) else Char.ofNat (n + 87)
def hex (bs : Bytes) : String := String.ofList (bs.flatMap fun b => [hexDigit (b.toNat / 16), hexDigit (b.toNat % 16)])

def hdrsStr (h : Hdrs) : String := "|".intercalate (h.map fun kv => hex kv.1 ++ ":" ++ hex kv.2)

/-- everything but the tag -/
def reqCore (r : Req) : String :=
  "m=" ++ hex r.method ++ ",u=" ++ hex r.uri ++ ",h=" ++ hex r.host ++ ",hd=" ++ hdrsStr r.hdrs ++ ",b=" ++ hex r.body

def reqStr (r : Req) : String := reqCore r ++ ",t=" ++ hex r.tag

def stopName : Stop → String
  | .eof => "ok"
  | .err e => e.name

/-- the observation (error class, request texts) of what a decoder model delivered;
`none` when some URL is outside the class where the model knows `net/url` -/
def modelObs (res : List Ammo × Stop) : Option (String × List String) :=
  if res.2 = .err .urlclass then none
  else (allSome (res.1.map buildReq)).map fun reqs => (stopName res.2, reqs.map reqStr)

def obsLine (err : String) (reqs : List String) : String :=
  "err=" ++ err ++ " n=" ++ toString reqs.length ++ " reqs=" ++ ";".intercalate reqs

/-! ### raw format: the request a frame denotes, in the canonical text of `canonReq`

`frameReq` (`Pandora.Model.C07Frame`) reads the HTTP text of a plain frame; multi-valued headers print as `v+v`.
This is what the Spec expects for a raw entry — a function of the frame the author wrote, not of what the code under
test makes of it (`raw.DecodeRequest`). -/

def fhdrsStr (h : List (Bytes × List Bytes)) : String :=
  "|".intercalate (h.map fun kv => hex kv.1 ++ ":" ++ "+".intercalate (kv.2.map hex))

def freqCore (r : FReq) : String :=
  "m=" ++ hex r.method ++ ",u=" ++ hex r.uri ++ ",h=" ++ hex r.host ++ ",hd=" ++ fhdrsStr r.hdrs ++ ",b=" ++ hex r.body

/-- canonical text of the request of a plain frame; `none`: the frame is outside the class `frameReq` reads -/
def frameCanon (frame : Bytes) : Option String := (frameReq frame).map freqCore

/-! ### raw format: the `headers` option on top of what `http.ReadRequest` made of the frame

The request text of a raw frame (`m=…,u=…,h=…,hd=…,b=…`) comes from the library (`raw.DecodeRequest` = `http.ReadRequest`,
run by the harness on each frame).  `RawAmmo.BuildRequest` then applies the provider's `headers` option with
`EnrichRequestWithHeaders`: a configured header is added only when the request does not have that (canonical) key;
`Host` is special — it becomes the request's Host only when the frame named none.  Same rule as `mergeCfg` + `mkReq` for
the uri / uripost formats, here on the canonical text (header values may be multi-valued `v+v`, kept as they are). -/

def insertSortedStr (kv : String × String) : List (String × String) → List (String × String)
  | [] => [kv]
  | x :: r => if kv.1 < x.1 then kv :: x :: r else x :: insertSortedStr kv r

def enrichCanon (cfg : Hdrs) (canon : String) : String :=
  match canon.splitOn "," with
  | [m, u, h, hd, b] =>
    let host := (h.drop 2).toString
    let hdText := (hd.drop 3).toString
    let hds : List (String × String) :=
      (if hdText.isEmpty then [] else hdText.splitOn "|").map fun e =>
        match e.splitOn ":" with
        | [k, v] => (k, v)
        | _ => (e, "")
    let step := fun (acc : String × List (String × String)) (kv : Bytes × Bytes) =>
      let key := canonKey kv.1
      let kh := hex key
      if acc.2.any (fun x => x.1 == kh) then acc
      else if key == hostKey then (if acc.1.isEmpty then (hex kv.2, acc.2) else acc)
      else (acc.1, insertSortedStr (kh, hex kv.2) acc.2)
    let r := cfg.foldl step (host, hds)
    m ++ "," ++ u ++ ",h=" ++ r.1 ++ ",hd=" ++ "|".intercalate (r.2.map fun x => x.1 ++ ":" ++ x.2) ++ "," ++ b
  | _ => canon

/-! ### raw format: the `headers` option on the request of a plain frame (round 4)

The same rule on the structured request `FReq` that `frameReq` reads: this is what the Spec expects for a plain frame
(`frameCanonCfg`); `enrichCanon` above is the same rule on the canonical TEXT and remains for the frames whose reading comes
from the library table.  Theorems: `C07_raw_option_keeps_request`, `C07_raw_frame_headers_win`, `C07_raw_frame_host_wins`,
`C07_raw_option_fills`, `C07_raw_option_host`. -/

def insertHdrF (kv : Bytes × List Bytes) : List (Bytes × List Bytes) → List (Bytes × List Bytes)
  | [] => [kv]
  | x :: r => if bytesLt kv.1 x.1 then kv :: x :: r else x :: insertHdrF kv r

/-- one entry of the option: ignored when the request has that (canonical) key; `Host` becomes the request's Host only when
the frame named none; any other key is added with the option's value -/
def enrichStep (r : FReq) (kv : Bytes × Bytes) : FReq :=
  let key := canonKey kv.1
  if r.hdrs.any (fun x => x.1 == key) then r
  else if key == hostKey then (if r.host.isEmpty then { r with host := kv.2 } else r)
  else { r with hdrs := insertHdrF (key, [kv.2]) r.hdrs }

/-- `EnrichRequestWithHeaders(req, decodedConfigHeaders)` on the request of a frame -/
def enrichF (cfg : Hdrs) (r : FReq) : FReq := cfg.foldl enrichStep r

/-- canonical text of the request a plain frame denotes under the `headers` option `cfg` -/
def frameCanonCfg (cfg : Hdrs) (frame : Bytes) : Option String := (frameReq frame).map fun r => freqCore (enrichF cfg r)

/-! ### verdict on an observation -/

def fieldNames : List String := ["m", "u", "h", "hd", "b", "t"]

def firstDiffField (a b : String) : String :=
  let fa := a.splitOn ","
  let fb := b.splitOn ","
  let rec go : List String → List String → List String → String
    | x :: xs, y :: ys, n :: ns => if x == y then go xs ys ns else n
    | _, _, _ => "shape"
  go fa fb fieldNames

/-- first difference between the expected and the delivered sequence -/
inductive Diff where
  | same
  | short (i : Nat) (next : String)          -- delivery stopped after i requests
  | extra (i : Nat) (x : String)             -- more than expected
  | skipped (i : Nat)                        -- position i holds the entry expected at i+1
  | repeated (i : Nat)                       -- position i repeats position i-1
  | changed (i : Nat) (e x : String)

def diff : Nat → List String → List String → Option String → Diff
  | _, [], [], _ => .same
  | i, e :: _, [], _ => .short i e
  | i, [], x :: _, _ => .extra i x
  | i, e :: es, x :: xs, prev =>
    if e == x then diff (i + 1) es xs (some x)
    else if es.head? == some x then .skipped i
    else if prev == some x then .repeated i
    else .changed i e x

/-- compares the delivered requests with the expected ones; "ok" or "fail:<key>:<detail>".
keys: `dropped` (an entry is missing / fewer delivered), `duplicated`, `extra`, `changed-<field>`, `error`. -/
def judge (exp : List String) (expErr : String) (impl : List String) (implErr : String) : String :=
  match diff 0 exp impl none with
  | .same => if implErr == expErr then "ok" else s!"fail:error:err={implErr} want {expErr}"
  | .short i e => s!"fail:dropped:delivered {i} of {exp.length} err={implErr} next-expected {e.take 60}"
  | .extra i x => s!"fail:extra:request {i} beyond the limit {x.take 60}"
  | .skipped i => s!"fail:dropped:entry at position {i} skipped, got the next one"
  | .repeated i => s!"fail:duplicated:position {i} repeats the previous request"
  | .changed i e x => s!"fail:changed-{firstDiffField e x}:position {i} want {e.take 80} got {x.take 80}"

end Pandora.Spec.C07
