/-
C15 — the property as executable predicates over OBSERVABLE behaviour (core Lean only).

* `specSteps`   — what a request list MEANS: every `name(n, s)` stands for n consecutive executions of `name`,
                  each followed by a pause of s ms; `sleep(ms)` adds ms to the pause after the step executed last
                  before it.  Written right-to-left (pending pause), independently of the Go loop.
* `ringOK`      — within every complete pass scenario i occurs `w_i / gcd(w)` times
                  (hence counts are proportional to the weights).
* `shotOK`      — one scenario invocation seen from outside: steps start in the listed order, every step
                  before the last one reported a successful sample, a failed sample is the last event of the
                  shot, and without a failure every step was executed.
* `feedCount`   — with the provider options `passes` / `limit` the feed ends after whole passes / after `limit` ammo.
* `roundRobinOK`— the rows handed out by one `[next]` counter are, as a multiset, `{k mod L | k < n}`.
-/
import Pandora.Model.C15

namespace Pandora.Spec.C15
open Pandora.Model.C15

/-- a step as seen from outside: request name and the pause after it -/
abbrev PStep := List Char × Int

/-- meaning of a request list, processed from the right; `pending` = pauses waiting for the step to their left.
`none`: a pause with no step before it (undefined, the description is rejected by the property's domain). -/
def specStepsRev : List Item → Int → Option (List PStep)
  | [], pending => if pending == 0 then some [] else none
  | it :: left, pending =>
    if it.name == sleepName then specStepsRev left (pending + it.cnt)
    else if it.cnt ≤ 0 then specStepsRev left pending
    else
      let s := if it.sleep > 0 then it.sleep else 0
      match specStepsRev left 0 with
      | none => none
      | some pre => some (pre ++ List.replicate (it.cnt.toNat - 1) (it.name, s) ++ [(it.name, s + pending)])

def specSteps (items : List Item) : Option (List PStep) := specStepsRev items.reverse 0

/-- order and multiplicity alone -/
def specNames (items : List Item) : List (List Char) :=
  items.flatMap fun it => if it.name == sleepName then [] else List.replicate it.cnt.toNat it.name

def count {α} [BEq α] (a : α) (l : List α) : Nat := (l.filter (· == a)).length

def gcdList : List Nat → Nat
  | [] => 0
  | w :: ws => Nat.gcd w (gcdList ws)

/-- effective weights: an absent / zero weight counts as 1; a single scenario always has weight 1 -/
def effWeights (ws : List Int) : List Nat :=
  match ws with
  | [_] => [1]
  | _ => ws.map fun w => if w == 0 then 1 else w.toNat

/-- `delivered` (scenario names in delivery order) against names `ns` with weights `ws`: every complete pass of
`Σ w_i / gcd(w)` deliveries contains scenario i exactly `w_i / gcd(w)` times — so over every whole number of passes
the counts are in proportion to the weights (also checked cross-multiplied). The ORDER inside a pass is not part of
the property (it is part of the model-vs-implementation comparison). -/
def ringOK (ns : List (List Char)) (ws : List Int) (delivered : List (List Char)) : Bool :=
  let ew := effWeights ws
  let g := gcdList ew
  let period := (ew.map (· / g)).foldl (· + ·) 0
  if g == 0 || period == 0 then delivered.isEmpty else
  -- every complete pass contains scenario i exactly w_i / g times
  (List.range (delivered.length / period)).all (fun j =>
    (ns.zip ew).all fun (n, w) => count n ((delivered.drop (j * period)).take period) == w / g) &&
  -- cross-multiplied proportionality over every whole number of passes
  (let whole := delivered.take (delivered.length / period * period)
   (ns.zip ew).all fun (ni, wi) => (ns.zip ew).all fun (nj, wj) =>
     count ni whole * wj == count nj whole * wi)

/-- the length of one pass: `Σ w_i / gcd(w)` -/
def ringPeriod (ws : List Int) : Nat :=
  let ew := effWeights ws
  let g := gcdList ew
  if g == 0 then 0 else (ew.map (· / g)).foldl (· + ·) 0

/-- how many ammo a consumer that takes at most `n` receives from a provider with the options `passes` / `limit`
(0 = unlimited) over a pass of `period` ammo: whole passes, at most `limit` -/
def feedCount (period passes limit n : Nat) : Nat :=
  let a := if passes == 0 then n else min n (passes * period)
  if limit == 0 then a else min a limit

/-- events of one shot as seen from outside -/
inductive OEv where
  | req (name : String)
  | sample (tag : String) (failed : Bool)
  | viol (what : String)
deriving Repr, DecidableEq

def samplesOf (evs : List OEv) : List (String × Bool) :=
  evs.filterMap fun | .sample t f => some (t, f) | _ => none

def reqsOf (evs : List OEv) : List String :=
  evs.filterMap fun | .req n => some n | _ => none

def isViol : OEv → Bool
  | .viol _ => true
  | _ => false

/-- the tag a sample of step `n` of scenario `scName` must carry -/
def wantTag (scName n : String) (failed : Bool) : String :=
  if failed then scName ++ "." ++ n ++ "|__EMPTY__" else scName ++ "." ++ n

/-- stop on failure: a failed sample is the last event -/
def afterFail : List OEv → Bool
  | [] => true
  | .sample _ true :: rest => rest.isEmpty
  | _ :: rest => afterFail rest

/-- verdict for one shot: `expected` = step names of the scenario (listed order with multiplicities) -/
def shotVerdict (scName : String) (expected : List String) (evs : List OEv) : String :=
  let samples := samplesOf evs
  let reqs := reqsOf evs
  match evs.find? isViol with
  | some (.viol w) => if w.startsWith "panic" then s!"fail:crash:{w}" else s!"fail:pause:{w}"
  | _ =>
  -- order: the i-th reported sample belongs to the i-th listed step
  let tagsOK := (samples.zip expected).all fun ((t, f), n) => t == wantTag scName n f
  if samples.length > expected.length then "fail:order:more samples than steps"
  else if !tagsOK then "fail:order:sample tags do not follow the listed order"
  else if !(reqs.zip expected).all (fun (r, n) => r == n) || reqs.length > samples.length then
    "fail:order:requests do not follow the listed order"
  else
    if !afterFail evs then "fail:stop:events after the failed step"
    else if samples.all (fun s => !s.2) && samples.length != expected.length then
      "fail:mult:no failure but not every step was executed"
    else if reqs.length + 1 < samples.length then "fail:order:sample without request"
    else "ok"

/-- rows handed out by ONE `[next]` counter over a source of `len` rows: as a multiset `{k % len | k < n}` -/
def roundRobinOK (len : Nat) (rows : List Nat) : Bool :=
  if len == 0 then rows.isEmpty else
  let n := rows.length
  (List.range len).all fun r => count r rows == n / len + (if r < n % len then 1 else 0)

end Pandora.Spec.C15
