/-
C02 — the abstract specification: a schedule tree MEANS the flat succession of its leaf parts, each part
starting exactly at the finish time of the part before it.  No locks, no leftAfter cache, no retries.
`specLeft` is pure: exact count when known, -1 iff a time-bounded unlimited part has not finished yet.
-/
import Pandora.Model.C02Sched

namespace Pandora.Spec.C02
open Pandora.Model.C02

mutual
def flatten : Tree → List Leaf
  | .fin offs dur => [Leaf.fin offs dur 0 none]
  | .unl dur => [Leaf.unl dur none]
  | .comp cs => match flattenList cs with
      | [] => [Leaf.fin [] 0 0 none]       -- NewComposite() = NewOnce(0)
      | ps => ps
def flattenList : List Tree → List Leaf
  | [] => []
  | t :: ts => flatten t ++ flattenList ts
end

/-- tokens still to come from an unstarted part list: exact, or -1 if it contains an unlimited part -/
def totalUnstarted : List Leaf → Int
  | [] => 0
  | .unl _ _ :: _ => -1
  | .fin offs _ i _ :: rest =>
      let r := totalUnstarted rest
      if r < 0 then -1 else ((offs.length - i : Nat) : Int) + r

def leafLeftPure : Leaf → Int → Int
  | .fin offs _ i _, _ => ((offs.length - i : Nat) : Int)
  | .unl _ none, _ => -1
  | .unl _ (some f), now => if now < f then -1 else 0

/-- finish time an exhausted part reports -/
def leafFinish : Leaf → Int → Int
  | .fin _ dur _ st, now => st.getD now + dur
  | .unl dur fi, now => fi.getD (now + dur)

def leafStartPure : Leaf → Int → Leaf
  | .fin offs dur i none, t => .fin offs dur i (some t)
  | .unl dur none, t => .unl dur (some (t + dur))
  | l, _ => l

def specStart : List Leaf → Int → Except String (List Leaf)
  | [], _ => .error indexPanic
  | p :: rest, t => do pure ((← p.start t) :: rest)

def specNextAux (p : Leaf) : (rest : List Leaf) → (now : Int) → Except String (List Leaf × Int × Bool)
  | [], now => do
      let (p', tx, ok) ← p.next now
      pure ([p'], tx, ok)
  | q :: rest, now => do
      let (p', tx, ok) ← p.next now
      if ok then pure (p' :: q :: rest, tx, true)
      else specNextAux (leafStartPure q tx) rest now

def specNext : List Leaf → Int → Except String (List Leaf × Int × Bool)
  | [], _ => .error indexPanic
  | p :: rest, now => specNextAux p rest now

def specLeftAux (p : Leaf) : (rest : List Leaf) → (now : Int) → Int
  | [], now => leafLeftPure p now
  | q :: rest, now =>
      let l := leafLeftPure p now
      if l < 0 then -1
      else if l > 0 then (let r := totalUnstarted (q :: rest); if r < 0 then -1 else l + r)
      else specLeftAux (leafStartPure q (leafFinish p now)) rest now

def specLeft : List Leaf → Int → Int
  | [], _ => 0
  | p :: rest, now => specLeftAux p rest now

end Pandora.Spec.C02
