/-
Spec C16: "a scenario means the same whether written in HCL or in YAML".

* `verdict` judges one observation of the differential driver (`harness/cmd/c16`): the canonical dump of the
  `AmmoConfig` decoded from the HCL file (`H=`), from the YAML file (`Y=`, `=` when identical) and the comparison of
  the ammo both providers deliver (`A=`).
* `docFields` is the documented description language (docs/eng/scenario-http-generator.md,
  scenario-grpc-generator.md, scenario/variable_source.md): which fields a struct of the HCL syntax has, how they are
  written (label / attribute / block), which of them may be left out, and under which key the same field is written
  in YAML.  `documented` checks a struct/tag table against it.
Core Lean only.
-/
import Pandora.Model.C16
import Pandora.Model.C16Locals

namespace Pandora.Spec.C16
open Pandora.Go Pandora.Model.C16

/-- value of token `k=` in a space separated observation -/
def token (obs k : String) : Option String :=
  (obs.splitOn " ").findSome? fun t =>
    if (k ++ "=").toList.isPrefixOf t.toList then some (String.ofList (t.toList.drop (k.length + 1))) else none

/-- "ok" | "fail:<key>:<detail>" -/
def verdict (obs : String) : String :=
  if "PANIC".toList.isPrefixOf obs.toList then "fail:panic:" ++ obs
  else if "HANG".toList.isPrefixOf obs.toList then "fail:hang:" ++ obs
  else
    match token obs "H", token obs "Y", token obs "A" with
    | some h, some y, some a =>
      if y != "=" then
        if h == "ERR" then "fail:accept:the HCL file is refused, the YAML file is accepted"
        else if y == "ERR" then "fail:accept:the YAML file is refused, the HCL file is accepted"
        else "fail:cfg-diff:the two files decode to different AmmoConfig; first difference at " ++ (token obs "D").getD "?"
      else if "DIFF".toList.isPrefixOf a.toList then
        "fail:ammo-diff:the two providers deliver different ammo; " ++ a
      else "ok"
    | _, _, _ => "fail:driver:unreadable observation"

def holds (obs : String) : Bool := verdict obs == "ok"

/-- the observation of an HCL file that the language does NOT evaluate (a `locals` block or an expression with an
undefined local, an unknown function, a call that fails — used by the body or not): conveniences are "fully evaluated
before conversion", so the HCL front-end must refuse the file as a whole -/
def verdictRefuse (obs : String) : String :=
  if "PANIC".toList.isPrefixOf obs.toList then "fail:panic:" ++ obs
  else if "HANG".toList.isPrefixOf obs.toList then "fail:hang:" ++ obs
  else
    match token obs "H" with
    | some h =>
      if h == "ERR" then "ok"
      else "fail:half-evaluated:the HCL file has a local or an expression that does not evaluate, yet the file is accepted"
    | none => "fail:driver:unreadable observation"

/-- the observation of an HCL file with a `locals` block the format does not admit — a label after the keyword
(`locals "prod" { … }`): hcl takes the block out of the body, reports an error for it and hands it to nobody, so its
definitions would silently vanish.  "Locals blocks are fully evaluated before conversion": the file must be refused -/
def verdictSchema (obs : String) : String :=
  if "PANIC".toList.isPrefixOf obs.toList then "fail:panic:" ++ obs
  else if "HANG".toList.isPrefixOf obs.toList then "fail:hang:" ++ obs
  else
    match token obs "H" with
    | some h =>
      if h == "ERR" then "ok"
      else "fail:dropped-locals:the HCL file has a `locals` block with a label; hcl reports an error for it and drops it, yet the file is accepted and the block's definitions are silently ignored"
    | none => "fail:driver:unreadable observation"

/-- one documented field: HCL struct, name in HCL, how it is written, may be left out, key in YAML -/
structure DocField where
  struct : String
  hcl : String
  kind : C16HKind
  optional : Bool
  yaml : String
  deriving Repr, DecidableEq

/-- the documented scenario format -/
def docFields : List DocField := [
  -- file level: blocks, each may be absent or repeated
  ⟨"AmmoHCL", "variable_source", .block, true, "variable_sources"⟩,
  ⟨"AmmoHCL", "request", .block, true, "requests"⟩,
  ⟨"AmmoHCL", "call", .block, true, "calls"⟩,
  ⟨"AmmoHCL", "scenario", .block, true, "scenarios"⟩,
  -- variable_source "name" "type" { ... }   (variable_source.md: fields, ignore_first_line, delimiter are optional)
  ⟨"SourceHCL", "name", .label, false, "name"⟩,
  ⟨"SourceHCL", "type", .label, false, "type"⟩,
  ⟨"SourceHCL", "file", .attr, true, "file"⟩,
  ⟨"SourceHCL", "fields", .attr, true, "fields"⟩,
  ⟨"SourceHCL", "ignore_first_line", .attr, true, "ignore_first_line"⟩,
  ⟨"SourceHCL", "delimiter", .attr, true, "delimiter"⟩,
  ⟨"SourceHCL", "variables", .attr, true, "variables"⟩,
  -- request "name" { method uri headers tag body templater preprocessor postprocessor }
  ⟨"RequestHCL", "name", .label, false, "name"⟩,
  ⟨"RequestHCL", "method", .attr, false, "method"⟩,
  ⟨"RequestHCL", "uri", .attr, false, "uri"⟩,
  ⟨"RequestHCL", "headers", .attr, false, "headers"⟩,
  ⟨"RequestHCL", "tag", .attr, true, "tag"⟩,
  ⟨"RequestHCL", "body", .attr, true, "body"⟩,
  ⟨"RequestHCL", "templater", .block, true, "templater"⟩,
  ⟨"RequestHCL", "preprocessor", .block, true, "preprocessor"⟩,
  ⟨"RequestHCL", "postprocessor", .block, true, "postprocessors"⟩,
  ⟨"TemplaterHCL", "type", .attr, false, "type"⟩,
  ⟨"RequestPreprocessorHCL", "mapping", .attr, false, "mapping"⟩,
  -- postprocessor "var/jsonpath" | "var/xpath" | "var/header" { mapping }, "assert/response" { headers body status_code size }
  ⟨"RequestPostprocessorHCL", "type", .label, false, "type"⟩,
  ⟨"RequestPostprocessorHCL", "mapping", .attr, true, "mapping"⟩,
  ⟨"RequestPostprocessorHCL", "headers", .attr, true, "headers"⟩,
  ⟨"RequestPostprocessorHCL", "body", .attr, true, "body"⟩,
  ⟨"RequestPostprocessorHCL", "status_code", .attr, true, "status_code"⟩,
  ⟨"RequestPostprocessorHCL", "size", .block, true, "size"⟩,
  ⟨"AssertSizeHCL", "val", .attr, true, "val"⟩,
  ⟨"AssertSizeHCL", "op", .attr, true, "op"⟩,
  -- call "name" { call tag metadata payload preprocessor "prepare" postprocessor "assert/response" }
  ⟨"CallHCL", "name", .label, false, "name"⟩,
  ⟨"CallHCL", "call", .attr, false, "call"⟩,
  ⟨"CallHCL", "tag", .attr, true, "tag"⟩,
  ⟨"CallHCL", "metadata", .attr, true, "metadata"⟩,
  ⟨"CallHCL", "payload", .attr, false, "payload"⟩,
  ⟨"CallHCL", "preprocessor", .block, true, "preprocessors"⟩,
  ⟨"CallHCL", "postprocessor", .block, true, "postprocessors"⟩,
  ⟨"CallPreprocessorHCL", "type", .label, false, "type"⟩,
  ⟨"CallPreprocessorHCL", "mapping", .attr, false, "mapping"⟩,
  ⟨"CallPostprocessorHCL", "type", .label, false, "type"⟩,
  ⟨"CallPostprocessorHCL", "payload", .attr, true, "payload"⟩,
  ⟨"CallPostprocessorHCL", "status_code", .attr, true, "status_code"⟩,
  -- scenario "name" { weight min_waiting_time requests }   ("the minimum fields are name and list of requests")
  ⟨"ScenarioHCL", "name", .label, false, "name"⟩,
  ⟨"ScenarioHCL", "weight", .attr, true, "weight"⟩,
  ⟨"ScenarioHCL", "min_waiting_time", .attr, true, "min_waiting_time"⟩,
  ⟨"ScenarioHCL", "requests", .attr, false, "requests"⟩
]

/-- the table has the documented field: same name and kind, optional where the documentation lets it be left out,
and the documented YAML key is what the naming rule of the model (`docKey`) and yaml.v2 (`yaml`) both give -/
def documentedField (T : Tables) (d : DocField) : Bool :=
  match findH T d.struct d.hcl with
  | none => false
  | some f => f.kind == d.kind && (!d.optional || f.optional) && docKey f == d.yaml && eqFold f.yaml d.yaml

def documented (T : Tables) : Bool := docFields.all (documentedField T)

/-- the HCL functions of docs/eng/scenario/functions.md ("HCL functions"), each with the go-cty stdlib function of the
linked description (`index` is documented by a link to Packer's `index(list, value)`; the registered go-cty
`IndexFunc` is element access `index(collection, key)` — a documentation aside, the same for every description) -/
def docFunctions : List (String × String) := [
  ("coalesce", "CoalesceFunc"), ("coalescelist", "CoalesceListFunc"), ("compact", "CompactFunc"),
  ("concat", "ConcatFunc"), ("distinct", "DistinctFunc"), ("element", "ElementFunc"), ("flatten", "FlattenFunc"),
  ("index", "IndexFunc"), ("keys", "KeysFunc"), ("lookup", "LookupFunc"), ("merge", "MergeFunc"),
  ("reverse", "ReverseListFunc"), ("slice", "SliceFunc"), ("sort", "SortFunc"), ("split", "SplitFunc"),
  ("values", "ValuesFunc"), ("zipmap", "ZipmapFunc")]

/-- for every registered function: argument lists on which it is told apart from every other registered function
(a slip in the table of `buildHclContext` — a name bound to a neighbour's implementation — changes the value of at
least one of these calls, or makes it fail).  `harness/cmd/c16` spells every one of them in a scenario file
(`enumFunctions`).  One pair cannot be told apart on tuples: wherever `index` is defined `element` gives the same
member (`element` additionally wraps around); the harness tells them apart on a map (`index(zipmap(…, split(…)), key)`),
which the model does not evaluate. -/
def fnWitnesses : List (String × List (List V)) :=
  let a := V.str "a"; let b := V.str "b"; let c := V.str "c"; let d := V.str "d"; let e := V.str ""
  let l := V.seq [b, e, a, b]
  let m := V.map [("b", .str "1"), ("a", .str "2")]
  [ ("CoalesceFunc", [[a, b], [.null, b]]),
    ("CoalesceListFunc", [[.seq [], .seq [a, b]], [.seq [a], .seq [b]]]),
    ("CompactFunc", [[l]]),
    ("ConcatFunc", [[.seq [a], .seq [b, a]]]),
    ("DistinctFunc", [[l]]),
    ("ElementFunc", [[.seq [a, b, c], .int 4]]),
    ("FlattenFunc", [[.seq [.seq [a], .seq [.seq [b], a]]]]),
    ("IndexFunc", [[.seq [a, b], .int 1]]),
    ("KeysFunc", [[m]]),
    ("LookupFunc", [[.map [("a", .str "x")], a, d], [.map [("a", .str "x")], b, d]]),
    ("MergeFunc", [[.map [("a", .str "1"), ("b", .str "2")], .map [("b", .str "3"), ("c", .str "4")]]]),
    ("ReverseListFunc", [[l]]),
    ("SliceFunc", [[.seq [a, b, c, d], .int 1, .int 3]]),
    ("SortFunc", [[l]]),
    ("SplitFunc", [[.str ",", .str "a,b,,c"]]),
    ("ValuesFunc", [[m]]),
    ("ZipmapFunc", [[.seq [a, b], .seq [.str "1", .str "2"]]]) ]

def witnessesOf (sym : String) : List (List V) :=
  match fnWitnesses.find? (fun p => p.1 == sym) with
  | some p => p.2
  | none => []

end Pandora.Spec.C16
