/-
Executable Spec of C14 over what the SAME ammo file delivers through two providers (preload off = `s`, on = `p`):
  * equivalence: same delivered sequence, `Run` ends the same way, consumers see the same end
    (a constructor that rejects the file must reject it in both modes);
  * chosencases: the delivered sequence is exactly the first `T` entries of the endlessly repeated list of chosen
    entries (file order), `T = min⁺(limit, passes · #chosen)` — the limit counts DELIVERED entries — or the
    cancel cap when there is no bound or the cap lies below that count (run cancelled in the middle);
  * every delivered ammo carries the tag of its entry.
A file from which nothing is chosen (an empty file included) must deliver nothing and end the same way on both
paths (`nomatch`).
-/
namespace Pandora.Spec.C14

inductive RunClass where
  | nil | canceled | limit | passes | noammo | other | noreturn | construct
  | fatal      -- the process running the provider died of a fatal runtime error (e.g. concurrent map read and map write)
  | canceledW  -- round 6: errors.Is finds context.Canceled in what `Run` returned, but core/engine does not recognise it
               -- as the context's own error (errutil.IsCtxError is false: wrapped with %w) — the engine reports a FAILED provider
  deriving DecidableEq, Repr, Inhabited

inductive EndClass where
  | closed | blocked | spinning | norun | crashed
  deriving DecidableEq, Repr, Inhabited

def RunClass.name : RunClass → String
  | .nil => "nil" | .canceled => "canceled" | .limit => "limit" | .passes => "passes"
  | .noammo => "noammo" | .other => "other" | .noreturn => "noreturn" | .construct => "construct"
  | .fatal => "fatal" | .canceledW => "canceledw"

def EndClass.name : EndClass → String
  | .closed => "closed" | .blocked => "blocked" | .spinning => "spinning" | .norun => "norun"
  | .crashed => "crashed"

/-- `none` = unbounded -/
def expected (limit passes n : Nat) : Option Nat :=
  match limit, passes with
  | 0, 0 => none
  | l, 0 => some l
  | 0, p => some (p * n)
  | l, p => some (min l (p * n))

structure Cell where
  tags : List String
  cases : List String      -- [] = no chosencases
  limit : Nat
  passes : Nat
  cap : Nat
  deriving Repr

structure Side where
  seq : List Nat           -- entry ids in delivery order (up to cap)
  cut : Bool
  run : RunClass           -- the provider's own class errors.Is finds in what `Run` returned (`other` = none, not nil)
  end_ : EndClass
  runClose : Bool := false -- round 3: errors.Is finds the error of closing the ammo file in what `Run` returned
  closed : Option Nat := none -- round 3: number of `Close` calls on the ammo file (`none` = no file to look at)
  deriving Repr, DecidableEq

structure Obs where
  s : Side                 -- preload off
  p : Side                 -- preload on
  tagsOk : Bool
  deriving Repr

def isChosenTag (cases : List String) (t : String) : Bool :=
  if cases.length = 0 then true else cases.any (· == t)

/-- ids of the chosen entries, in file order -/
def chosenIds (c : Cell) : List Nat :=
  ((List.range c.tags.length).zip c.tags).filterMap fun (i, t) => if isChosenTag c.cases t then some i else none

/-- number of deliveries after which the run stops by itself; `none` = no bound -/
def expectedCount (c : Cell) : Option Nat := expected c.limit c.passes (chosenIds c).length

/-- the harness' cancellation (after `cap` acquisitions) is what ends the run: no bound, or the cap lies below the
number of deliveries of the bounded run (a run cancelled in the middle) -/
def cutExpected (c : Cell) : Bool :=
  match expectedCount c with
  | some m => decide (c.cap < m)
  | none => true

/-- `cap` = the number of deliveries of the bounded run: whether the provider sees its bound or the cancellation
first is a race of the harness, the cell decides nothing -/
def inconclusive (c : Cell) : Bool := expectedCount c == some c.cap

/-- number of delivered ammo the harness records -/
def expectedLen (c : Cell) : Nat :=
  match expectedCount c with
  | some m => if c.cap < m then c.cap else m
  | none => c.cap

def expectedSeq (c : Cell) : List Nat :=
  let F := chosenIds c
  let t := expectedLen c
  ((List.replicate t F).flatten).take t

/-- same delivered sequence (and the same need to be cut at the cap) -/
def seqEquivOk (o : Obs) : Bool := o.s.seq == o.p.seq && o.s.cut == o.p.cut
/-- `Run` ends the same way (the same error as errors.Is sees it, the error of `Close` included), consumers see the same
end, the ammo file has been closed equally often -/
def endEquivOk (o : Obs) : Bool :=
  o.s.run == o.p.run && o.s.end_ == o.p.end_ && o.s.runClose == o.p.runClose && o.s.closed == o.p.closed
def equivOk (o : Obs) : Bool := seqEquivOk o && endEquivOk o
def chosenOk (c : Cell) (o : Obs) : Bool :=
  o.s.seq == expectedSeq c && o.p.seq == expectedSeq c &&
  o.s.cut == cutExpected c && o.p.cut == cutExpected c
def tagsOk (o : Obs) : Bool := o.tagsOk

def noMatch (c : Cell) : Bool := (chosenIds c).length == 0

def holds (c : Cell) (o : Obs) : Bool :=
  if noMatch c then o.s.seq.isEmpty && o.p.seq.isEmpty && equivOk o
  else equivOk o && chosenOk c o && tagsOk o

/-- the token of what `Run` returned: `closeerr` = the error of Close alone, `<class>+closeerr` = found together -/
def Side.runToken (x : Side) : String :=
  if x.runClose then (if x.run == .other || x.run == .nil then "closeerr" else x.run.name ++ "+closeerr") else x.run.name

def Side.closedToken (x : Side) : String :=
  match x.closed with
  | some n => toString n
  | none => "-"

def showSide (x : Side) : String := s!"seq={x.seq} cut={x.cut} run={x.runToken} end={x.end_.name} closed={x.closedToken}"

def judge (c : Cell) (o : Obs) : String :=
  if noMatch c then
    if !(o.s.seq.isEmpty && o.p.seq.isEmpty) then "fail:chosen:nothing is chosen but ammo was delivered"
    else if !equivOk o then s!"fail:nomatch:nothing chosen: streaming [{showSide o.s}] vs preload [{showSide o.p}]"
    else "ok"
  else if !tagsOk o then "fail:tags:a delivered ammo does not carry the tag of its entry"
  else if !seqEquivOk o then s!"fail:equiv-seq:streaming delivers {o.s.seq}{if o.s.cut then "…" else ""}, preload {o.p.seq}{if o.p.cut then "…" else ""}"
  else if !chosenOk c o then s!"fail:chosen:delivered {o.s.seq} expected {expectedSeq c}"
  else if !endEquivOk o then s!"fail:equiv-end:streaming ends [run={o.s.runToken} end={o.s.end_.name} closed={o.s.closedToken}], preload [run={o.p.runToken} end={o.p.end_.name} closed={o.p.closedToken}]"
  else "ok"

/-- a source that `NewProvider` must reject (inline uris with another decoder than uri, a file AND uris, no source at
all): the property only asks that both modes treat it alike -/
def judgeRejected (o : Obs) : String :=
  if o.s.run == .construct && o.p.run == .construct then "ok"
  else if (o.s.run == .construct) != (o.p.run == .construct) then
    s!"fail:equiv-end:a source that one mode rejects and the other accepts: streaming [{showSide o.s}] vs preload [{showSide o.p}]"
  else if !equivOk o then s!"fail:equiv-end:streaming [{showSide o.s}] vs preload [{showSide o.p}]"
  else "ok"

/-! ## round 2: the delivered REQUESTS (Host + headers, method, body), and a provider that kills its process

`ehdr[i]` = the canonical text of the Host and headers a request of entry `i` must carry (what the source declares
for that entry, completed from the `headers` option).  `shd` / `phd` = what the harness read off the delivered ammo:
for every delivered entry id, ascending, the distinct texts its requests carried (`renderHd`). -/

structure ObsH where
  base : Obs
  reqOk : Bool          -- every delivered request had the method and body of its entry
  shd : String
  phd : String
  deriving Repr

def insertNat (x : Nat) : List Nat → List Nat
  | [] => [x]
  | y :: ys => if x < y then x :: y :: ys else if x = y then y :: ys else y :: insertNat x ys

/-- the distinct ids of a delivered sequence, ascending -/
def distinctIds (seq : List Nat) : List Nat := seq.foldl (fun acc x => insertNat x acc) []

/-- the `hd` text of a side on which every request of entry `i` carried exactly `ehdr[i]` -/
def renderHd (ehdr : List String) (seq : List Nat) : String :=
  match distinctIds seq with
  | [] => "-"
  | i :: is =>
    let h := ehdr.getD i "?"
    if is.all (fun j => ehdr.getD j "?" == h) then "*:" ++ h
    else String.intercalate "|" ((i :: is).map fun j => toString j ++ ":" ++ ehdr.getD j "?")

def fatalOk (o : Obs) : Bool := o.s.run != .fatal && o.p.run != .fatal
def hdEquivOk (o : ObsH) : Bool := o.shd == o.phd
def hdOk (ehdr : List String) (o : ObsH) : Bool :=
  o.shd == renderHd ehdr o.base.s.seq && o.phd == renderHd ehdr o.base.p.seq

def holdsH (c : Cell) (ehdr : List String) (o : ObsH) : Bool :=
  fatalOk o.base && holds c o.base && o.reqOk && hdEquivOk o && hdOk ehdr o

def judgeH (c : Cell) (ehdr : List String) (o : ObsH) : String :=
  if o.base.s.run == .fatal then "fail:fatal:the streaming provider killed its process (fatal runtime error)"
  else if o.base.p.run == .fatal then "fail:fatal:the preloaded provider killed its process (fatal runtime error)"
  else
    let j := judge c o.base
    if j != "ok" then j
    else if !o.reqOk then "fail:request:a delivered request does not have the method / body of its entry"
    else if !hdEquivOk o then s!"fail:equiv-headers:streaming delivers requests with [{o.shd}], preload with [{o.phd}]"
    else if !hdOk ehdr o then s!"fail:headers:delivered requests carry [{o.shd}], the source declares [{renderHd ehdr o.base.s.seq}]"
    else "ok"

/-! ## round 6: a cancellation that lands while the decoder is inside `Scan` (`rc=K`: inside the K-th Read of the file)

Where exactly the provider notices it is a race (which check sees it first, whether the pending send still goes
through), so the delivered sequences may legitimately differ in length; what the property asks is that each side has
delivered a PREFIX of what the cell delivers, requests intact, and that both runs END THE SAME WAY — as core/engine
sees it (`canceled` = recognised as the context's own error, `canceledw` = not). -/

def isPrefixOf (a b : List Nat) : Bool := a == b.take a.length

def judgeMid (c : Cell) (ehdr : List String) (o : ObsH) : String :=
  if o.base.s.run == .fatal then "fail:fatal:the streaming provider killed its process (fatal runtime error)"
  else if o.base.p.run == .fatal then "fail:fatal:the preloaded provider killed its process (fatal runtime error)"
  else if !tagsOk o.base then "fail:tags:a delivered ammo does not carry the tag of its entry"
  else if !(isPrefixOf o.base.s.seq (expectedSeq c) && isPrefixOf o.base.p.seq (expectedSeq c)) then
    s!"fail:chosen:delivered {o.base.s.seq} / {o.base.p.seq}, not a prefix of {expectedSeq c}"
  else if !endEquivOk o.base then
    s!"fail:equiv-end:cancelled inside Scan: streaming ends [run={o.base.s.runToken} end={o.base.s.end_.name} closed={o.base.s.closedToken}], preload [run={o.base.p.runToken} end={o.base.p.end_.name} closed={o.base.p.closedToken}]"
  else if !o.reqOk then "fail:request:a delivered request does not have the method / body of its entry"
  else if !hdOk ehdr o then s!"fail:headers:delivered requests carry [{o.shd}] / [{o.phd}], the source declares [{renderHd ehdr o.base.s.seq}]"
  else "ok"

end Pandora.Spec.C14
