/-
C03 — executable Spec over the terminal counters of a pool that ended normally.  Evaluated on what the REAL engine did
(the counters come from the harness' log of Provider / Gun / Aggregator calls and from the engine's own Metrics).
-/
import Pandora.Model.C03

namespace Pandora.Spec.C03
open Pandora.Model.C03

structure Counters where
  started : Nat            -- instances of this pool that ran (engine-wide: metrics.InstanceStart)
  fired : Nat              -- Gun.Shoot calls
  discarded : Nat          -- Aggregator.Report of a discarded sample
  acquired : Nat           -- Provider.Acquire calls that returned an item
  released : Nat           -- Provider.Release calls
  usedAfterRelease : Bool  -- a Shoot got an item its instance did not hold at that moment
  doubleRelease : Bool     -- a Release of an item that was not held
  maxReleases : Nat        -- the largest number of Release calls any single item received
  minReleases : Nat        -- the smallest (over acquired items; 1 when nothing was acquired)

/-- total tokens: the shared profile, or one full profile per started instance -/
def totalTokens (c : Cfg) (k : Counters) : Nat := if c.perInstance then k.started * c.tokens else c.tokens

/-- one pool that ended normally -/
def poolVerdict (c : Cfg) (k : Counters) : String :=
  let total := minOpt (totalTokens c k) c.ammo
  if c.instances == 0 then "skip:startup-schedule-starts-no-instance"
  else if k.started == 0 then s!"fail:count:no instance was started although the startup schedule has {c.instances} tokens"
  else if k.fired + k.discarded != total then
    s!"fail:count:fired {k.fired} + discarded {k.discarded} != min(tokens {totalTokens c k}, ammo {repr c.ammo}) = {total}"
  else if k.acquired != k.released || k.doubleRelease || k.maxReleases > 1 || k.minReleases != 1 then
    s!"fail:release:acquired {k.acquired} released {k.released} double={k.doubleRelease} per-item releases {k.minReleases}..{k.maxReleases}"
  else if k.usedAfterRelease then "fail:use-after-release:an ammo was shot while not held"
  else if c.perInstance && k.acquired != k.fired + k.discarded then
    s!"fail:unfired:per-instance profile left {k.acquired - (k.fired + k.discarded)} acquired items unfired"
  else if !c.perInstance && k.acquired - (k.fired + k.discarded) > k.started - 1 then
    s!"fail:unfired:{k.acquired - (k.fired + k.discarded)} unfired items with {k.started} instances"
  else if !c.discardOn && k.discarded != 0 then s!"fail:discard-off:{k.discarded} discarded with discard_overflow off"
  else "ok"

/-- the engine: every pool, then the engine's Request / Response counters against the shots fired by all its pools -/
def verdict (pools : List (Cfg × Counters)) (request response : Nat) : String :=
  let vs := pools.map fun (c, k) => poolVerdict c k
  match vs.find? (fun v => v.startsWith "fail") with
  | some v => v
  | none =>
    let fired := (pools.map fun (_, k) => k.fired).sum
    if request != fired || response != fired then
      s!"fail:metrics:request {request} response {response} fired {fired}"
    else if vs.all (fun v => v.startsWith "skip") then vs.headD "skip:no-pool"
    else "ok"

end Pandora.Spec.C03
