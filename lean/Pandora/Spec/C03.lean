/-
C03 — executable Spec over the terminal counters of a pool that ended normally.
-/
import Pandora.Model.C03

namespace Pandora.Spec.C03
open Pandora.Model.C03

structure Counters where
  fired : Nat
  discarded : Nat
  acquired : Nat
  released : Nat
  request : Nat
  response : Nat
  usedAfterRelease : Bool
  doubleRelease : Bool

def verdict (c : Cfg) (k : Counters) : String :=
  let total := minOpt c.totalTokens c.ammo
  if k.fired + k.discarded != total then
    s!"fail:count:fired {k.fired} + discarded {k.discarded} != min(tokens {c.totalTokens}, ammo {repr c.ammo}) = {total}"
  else if k.acquired != k.released || k.doubleRelease then
    s!"fail:release:acquired {k.acquired} released {k.released} double={k.doubleRelease}"
  else if k.usedAfterRelease then "fail:use-after-release:an ammo was shot while not held"
  else if c.perInstance && k.acquired != k.fired + k.discarded then
    s!"fail:unfired:per-instance profile left {k.acquired - (k.fired + k.discarded)} acquired items unfired"
  else if !c.perInstance && k.acquired - (k.fired + k.discarded) > c.instances - 1 then
    s!"fail:unfired:{k.acquired - (k.fired + k.discarded)} unfired items with {c.instances} instances"
  else if k.request != k.fired || k.response != k.fired then
    s!"fail:metrics:request {k.request} response {k.response} fired {k.fired}"
  else if !c.discardOn && k.discarded != 0 then s!"fail:discard-off:{k.discarded} discarded with discard_overflow off"
  else "ok"

end Pandora.Spec.C03
