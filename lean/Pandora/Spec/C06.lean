/-
Executable Spec of C06, evaluated on what the REAL aggregators / the real pandora process produced.

* `judgeLine`   — one sample through the real phout aggregator: the bytes of the result file.
* `judgeQueue`  — G reporter goroutines × K samples through a real aggregator with a bounded queue, cancel
                  right after the last Report returned: lines, drop counter, Run error, order, sink state.
* `judgeProc`   — the pandora binary stopped with SIGINT/SIGTERM: lines of the result file vs requests the
                  target had answered (with a margin) before the signal.
Verdict strings: "ok" | "skip:<why>" | "fail:<key>:<detail>".
-/
import Pandora.Model.C06Phout
import Pandora.Model.C06AggQueue
import Pandora.Model.C06ErrJoin

namespace Pandora.Spec.C06
open Pandora.Model.Phout

/-! ## one phout line -/

inductive LineObs
  | bytes (out : Bytes)    -- content of the destination after Run returned
  | panic (what : String)
  | other (what : String)

def sameMultiset (a b : List Int) : Bool :=
  a.length == b.length && a.all (fun x => a.count x == b.count x)

/-- The property for one reported sample: exactly one line, 12 TAB separated columns,
`<seconds>.<3 digit ms>`, tag[#id], the ten integers in the documented order. -/
def judgeLine (s : Sample) (withId : Bool) (obs : LineObs) : String :=
  if s.tag.contains TAB || s.tag.contains LF then "skip:out-of-format-tag"
  else if s.ms < 1000 then "skip:timestamp-before-1s"
  else match obs with
  | .panic w => s!"fail:panic:{w}"
  | .other w => s!"fail:error:{w}"
  | .bytes out =>
    match fileLines out with
    | none => "fail:unterminated:output does not end with LF"
    | some lines =>
      match lines with
      | [line] =>
        let cols := splitOn TAB line
        if cols.length != 12 then s!"fail:columns:{cols.length} columns"
        else match decodeBody line withId with
          | none => "fail:malformed:line does not parse"
          | some d =>
            let want := if withId then s else { s with id := 0 }
            if d == want then "ok"
            else if d.ms != want.ms then s!"fail:timestamp:got {d.ms} ms want {want.ms} ms"
            else if d.tag != want.tag then "fail:tag:tag differs"
            else if d.id != want.id then s!"fail:id:got {d.id} want {want.id}"
            else if sameMultiset d.fields want.fields then s!"fail:field-order:got {d.fields} want {want.fields}"
            else s!"fail:value:got {d.fields} want {want.fields}"
      | _ => s!"fail:count:{lines.length} lines for one report"

/-! ## several samples through one aggregator: the whole file -/

def judgeSeq (ss : List Sample) (withId : Bool) (obs : LineObs) : String :=
  if ss.any (fun s => s.tag.contains TAB || s.tag.contains LF) then "skip:out-of-format-tag"
  else if ss.any (fun s => s.ms < 1000) then "skip:timestamp-before-1s"
  else match obs with
  | .panic w => s!"fail:panic:{w}"
  | .other w => s!"fail:error:{w}"
  | .bytes out =>
    match fileLines out with
    | none => "fail:unterminated:output does not end with LF"
    | some lines =>
      if lines.length != ss.length then s!"fail:count:{lines.length} lines for {ss.length} reports"
      else
        let rec go : List Bytes → List Sample → Nat → String
          | line :: ls, s :: rest, i =>
            if (splitOn TAB line).length != 12 then s!"fail:columns:line {i} has {(splitOn TAB line).length} columns"
            else match decodeBody line withId with
              | none => s!"fail:malformed:line {i} does not parse"
              | some d =>
                let want := if withId then s else { s with id := 0 }
                if d == want then go ls rest (i + 1) else s!"fail:value:line {i} decodes to another sample"
          | _, _, _ => "ok"
        go lines ss 0

/-! ## reporters × queue × aggregator -/

structure QueueIn where
  kind : Pandora.Model.AggQueue.Kind
  g : Nat        -- reporter goroutines
  k : Nat        -- samples per reporter
  q : Nat        -- queue size
  /-- (round 3) the sink's Close fails (after closing): the harness then prints Run's error as its members -/
  closeErr : Bool := false

def QueueIn.reports (i : QueueIn) : Nat := i.g * i.k

structure QueueObs where
  reports : Nat
  lines : Nat
  dropped : Nat               -- from the Run error (0 when nil)
  err : String                -- "nil" | "dropped:<n>" | "other…"
  order : Bool                -- per-reporter order preserved in the output
  dup : Nat                   -- lines that repeat an earlier (reporter, index)
  bad : Nat                   -- lines that do not decode / are not valid JSON / unknown sample
  closed : Bool               -- sink closed exactly once, no write after close
  /-- written (reporter, index) sequence in output order, when the harness sent it -/
  w : Option (List (Nat × Nat))

/-- per-reporter strictly increasing indices -/
def orderOk (w : List (Nat × Nat)) : Bool :=
  let rec go : List (Nat × Nat) → List (Nat × Nat) → Bool
    | [], _ => true
    | (r, k) :: rest, last =>
      match last.find? (fun e => e.1 == r) with
      | some (_, k0) => if k0 < k then go rest ((r, k) :: last.filter (fun e => e.1 != r)) else false
      | none => go rest ((r, k) :: last)
  go w []

def dupCount (w : List (Nat × Nat)) : Nat :=
  let rec go : List (Nat × Nat) → List (Nat × Nat) → Nat → Nat
    | [], _, n => n
    | x :: rest, seen, n => if seen.contains x then go rest seen (n + 1) else go rest (x :: seen) n
  go w [] 0

/-- the error Run must end with: nil / the drop count — and, when the sink's Close failed as well, both (encoder
aggregators; phout does not look at the error of Close): the text of `Model.C06ErrJoin.finalErr` -/
def expectedErr (kind : Pandora.Model.AggQueue.Kind) (closeErr : Bool) (dropped : Nat) : String :=
  if closeErr then
    Pandora.Model.C06ErrJoin.errText
      (Pandora.Model.C06ErrJoin.finalErr Pandora.Model.C06ErrJoin.codeJoin Pandora.Model.C06ErrJoin.codeOrder
        ⟨false, false, kind == .encoder, dropped⟩)
  else if dropped == 0 then "nil" else s!"dropped:{dropped}"

def judgeQueue (i : QueueIn) (o : QueueObs) : String :=
  if o.reports != i.reports then s!"fail:driver:harness made {o.reports} reports, input says {i.reports}"
  else if o.bad != 0 then s!"fail:malformed:{o.bad} lines do not decode"
  else if o.dup != 0 then s!"fail:dup:{o.dup} samples written more than once"
  else if !o.order then "fail:order:per-reporter order not preserved"
  else if o.lines + o.dropped != o.reports then
    s!"fail:count:{o.lines} lines + {o.dropped} dropped != {o.reports} reports"
  else if i.kind == .phout && o.dropped != 0 then s!"fail:drop:phout dropped {o.dropped}"
  else if o.err != expectedErr i.kind i.closeErr o.dropped then
    s!"fail:err:Run returned {o.err}, {o.reports - o.lines} samples were dropped{if i.closeErr then " and the sink's Close failed" else ""}"
  else if !o.closed then "fail:close:sink not closed exactly once after the last write"
  else match o.w with
    | none => "ok"
    | some w =>
      if w.length != o.lines then s!"fail:driver:sequence has {w.length} entries for {o.lines} lines"
      else if !orderOk w then "fail:order:per-reporter order not preserved (sequence)"
      else if dupCount w != 0 then s!"fail:dup:{dupCount w} duplicates (sequence)"
      else if w.any (fun e => e.1 ≥ i.g || e.2 ≥ i.k) then "fail:phantom:a line that nobody reported"
      else "ok"

/-! ## the cancel in the middle of the reporting; the engine -/

structure LateObs where
  reports : Nat     -- Report calls completed at all
  pre : Nat         -- Report calls completed before cancel() was called
  lines : Nat
  dropped : Nat
  err : String
  order : Bool
  dup : Nat
  bad : Nat
  closed : Bool
  miss : Nat        -- samples reported before the cancel that are not in the output

/-- what must hold when Report calls race with the cancel: everything reported BEFORE the cancel is written
(or, bounded-queue encoder aggregators, counted); nothing is written twice or out of order or malformed;
nothing is accounted for that was not reported; the sink is closed. -/
def judgeLate (kind : Pandora.Model.AggQueue.Kind) (o : LateObs) : String :=
  if o.bad != 0 then s!"fail:malformed:{o.bad} lines do not decode or were never reported"
  else if o.dup != 0 then s!"fail:dup:{o.dup} samples written more than once"
  else if !o.order then "fail:order:per-reporter order not preserved"
  else if o.lines + o.dropped > o.reports then
    s!"fail:count:{o.lines} lines + {o.dropped} dropped > {o.reports} reports made"
  else if o.lines + o.dropped < o.pre then
    s!"fail:count:{o.lines} lines + {o.dropped} dropped < {o.pre} reports made before the cancel"
  else if kind == .phout && o.dropped != 0 then s!"fail:drop:phout dropped {o.dropped}"
  else if o.miss > o.dropped then
    s!"fail:lost:{o.miss} samples reported before the cancel are not in the output, {o.dropped} counted as dropped"
  else if o.err != (if o.dropped == 0 then "nil" else s!"dropped:{o.dropped}") then s!"fail:err:Run returned {o.err}"
  else if !o.closed then "fail:close:sink not closed exactly once after the last write"
  else "ok"

/-- a sink that fails: nothing can be said about the lines, but the sink must still be closed (once, and
nothing written after that) -/
def judgeFailingSink (closed : Bool) : String :=
  if !closed then "fail:close:sink not closed exactly once after the last write (failing sink)" else "ok"

/-- (round 3) a known number of drops coinciding with a rejected final flush and/or a failing Close: the error Run
ends with must carry exactly that number, the sink must be closed once; when nothing was rejected every accepted
sample is a line -/
def judgeCoincide (n q : Nat) (rejected : Bool) (errDropped lines : Nat) (closed : Bool) : String :=
  let want := n - min n q
  if errDropped != want then
    s!"fail:count:{want} samples were dropped ({n} reports into a queue of {q}), the error Run ended with counts {errDropped}"
  else if !closed then "fail:close:sink not closed exactly once after the last write (coinciding faults)"
  else if !rejected && lines != min n q then s!"fail:count:{lines} lines + {want} dropped != {n} reports"
  else "ok"

/-- the real engine: `run` = what Engine.Run returned; judged at Run's return when nil, after Wait otherwise
(`failed`: the pool whose gun was made to panic failed, the caller cancelled and waited) -/
def judgeEngine (kind : Pandora.Model.AggQueue.Kind) (run : String) (aggret : Bool) (cancelled : Bool) (pools : Nat)
    (o : LateObs) : String :=
  if run == "other" then "fail:engine:Engine.Run returned an unexpected error"
  -- one pool's aggregator ended with its drop count and the engine passed that on as the run's error: Engine.Run
  -- then cancels the OTHER pools at an instant the harness does not know
  else if run == "dropped" && pools > 1 then "skip:inconclusive"
  else if run == "nil" && cancelled && o.pre < o.reports then "skip:inconclusive"   -- cancel raced with the natural end
  else if !aggret then "fail:early-return:the engine finished before the aggregator's Run returned"
  else judgeLate kind o

/-! ## JSON lines, content level -/

structure JsonObs where
  reports : Nat
  lines : Nat
  valid : Nat      -- lines that are one valid JSON value
  rt : Nat         -- lines that decode back to the reported value, position by position
  tail : Nat       -- bytes after the last LF
  dropped : Nat
  err : String
  closed : Bool
  out : Option Bytes

def judgeJson (o : JsonObs) : String :=
  if o.tail != 0 then s!"fail:unterminated:{o.tail} bytes after the last LF"
  else if o.lines + o.dropped != o.reports then s!"fail:count:{o.lines} lines + {o.dropped} dropped != {o.reports} reports"
  else if o.valid != o.lines then s!"fail:malformed:{o.lines - o.valid} lines are not one JSON value"
  else if o.dropped == 0 && o.rt != o.lines then s!"fail:value:{o.lines - o.rt} lines decode to another value"
  else if o.err != (if o.dropped == 0 then "nil" else s!"dropped:{o.dropped}") then s!"fail:err:Run returned {o.err}"
  else if !o.closed then "fail:close:sink not closed exactly once after the last write"
  else match o.out with
    | none => "ok"
    | some out =>
      match fileLines out with
      | none => "fail:unterminated:output does not end with LF"
      | some ls => if ls.length != o.lines then s!"fail:driver:{ls.length} LF-terminated pieces, harness counted {o.lines}"
                   else if ls.any (·.isEmpty) then "fail:malformed:empty line" else "ok"

/-! ## (round 6) phout aggregators that share the standard output -/

structure StdoutObs where
  reports : Nat     -- Report calls made to all aggregators together
  lines : Nat       -- LF-terminated pieces of the standard output
  err : String      -- "nil" or the first error a Run returned
  order : Bool
  dup : Nat
  bad : Nat         -- pieces that are not a line somebody reported (torn, spliced, unterminated)
  isOpen : Bool     -- the standard output still accepted a write after the last aggregator had returned

/-- every report of every aggregator is one whole line of the shared output, which none of them closed -/
def judgeStdout (o : StdoutObs) : String :=
  if o.bad != 0 then s!"fail:malformed:{o.bad} lines of the standard output do not decode (torn or spliced lines)"
  else if o.dup != 0 then s!"fail:dup:{o.dup} samples written more than once"
  else if !o.order then "fail:order:per-reporter order not preserved"
  else if o.lines != o.reports then s!"fail:count:{o.lines} lines on the standard output for {o.reports} reports"
  else if o.err != "nil" then s!"fail:err:Run returned {o.err}"
  else if !o.isOpen then "fail:close:an aggregator closed the standard output it shares with the rest of the process"
  else "ok"

/-! ## the process -/

structure ProcObs where
  exit : Int
  servedBefore : Nat    -- requests the target had completely answered ≥ margin before the signal was sent
  started : Nat         -- requests the target had received when the process was gone (informative: cancelled shoots also give lines)
  lines : Nat
  bad : Nat
  repro : Nat           -- how many consecutive runs of this case showed the same failure (0 = first run fine)
  timedOut : Bool       -- the process reported "timeout exceeded": it left through the interrupt timeout, without the final flush
  servedExit : Nat      -- requests the target had completely answered ≥ 500 ms before the process was gone
  since : Nat := 0      -- milliseconds between the signal and the moment the process was gone
  /-- what stopped the run: "the signal", (round 3) "the failure of the other pool", "the end of the run" -/
  what : String := "the signal"

def judgeProc (o : ProcObs) : String :=
  if o.bad != 0 then s!"fail:malformed:{o.bad} lines of the result file do not decode"
  else if o.lines < o.servedBefore && o.timedOut && o.since < 2500 then
    -- the process says it gave up waiting for its tasks, long before the shortest interrupt timeout (3 s) can have
    -- elapsed, and answered requests are missing from the result: conclusive in one run
    s!"fail:signal-loss:the process reported its interrupt timeout {o.since} ms after the signal (documented: 3 s / 30 s); {o.servedBefore} requests were answered before {o.what}, result file has {o.lines} lines (exit {o.exit})"
  else if o.lines < o.servedBefore then
    if o.repro ≥ 3 then
      s!"fail:signal-loss:{o.servedBefore} requests were answered before {o.what}, result file has {o.lines} lines (exit {o.exit})"
    else "skip:inconclusive"
  else if o.timedOut && o.lines < o.servedExit then
    -- the target answered every request at once, yet the process needed the whole interrupt timeout and then left
    -- without flushing: what was reported in between is gone
    if o.repro ≥ 3 then
      s!"fail:signal-loss:the process ran into its interrupt timeout; {o.servedExit} requests were answered 500 ms before it exited, result file has {o.lines} lines (exit {o.exit})"
    else "skip:inconclusive"
  else "ok"

end Pandora.Spec.C06
