/-
C18 — executable Spec of a session (several registrations in one registry, any interleaving of Register / New /
NewFactory / calls of the factories handed out / Lookup).

The Spec keeps its OWN book of what was registered and which factory belongs to which creation (`Track`), resolves every
creation "by name" itself — the registration for exactly this plugin type and this name, nothing else — and then demands of
every single step the clauses of the single-creation Spec (Spec/C18) w.r.t. the registration that was meant and the user
settings of the creation the factory came from.  Across the whole session: the configurations obtained by different
`Get`s of one registration are pairwise distinct and every product that must own its configuration still reads its own
serial number at the very end, whatever was created or called in between.
-/
import Pandora.Model.C18Sess
import Pandora.Spec.C18

namespace Pandora.Spec.C18Sess
open Pandora.Model.C18 Pandora.Model.C18Sess Pandora.Spec.C18

structure Track where
  regs : List Reg                  -- accepted registrations, slot order
  handles : List (Nat × Input)     -- per factory handed out: the slot and the input of ITS creation

def Track.empty : Track := ⟨[], []⟩

/-- "by name": the accepted registration for exactly this plugin type and this name -/
def resolve : List Reg → Nat → String → Option Nat
  | [], _, _ => none
  | r :: rs, t, n => if r.ptype = t ∧ r.name = n then some 0 else (resolve rs t n).map (· + 1)

/-- a registration must be accepted iff the name is not empty, nothing is registered under this (type, name) yet and the
default-config function fits the constructor -/
def mustAccept (tr : Track) (r : Reg) : Bool :=
  r.name != "" && (resolve tr.regs r.ptype r.name).isNone && registerOk r.sh

def seenOk (inp : Input) (s : Step) (fields : List Nat) : Bool :=
  match product? s with
  | none => true
  | some p =>
    if inp.sh.cfg = .none then p.seen == []
    else inp.sh.dflt == .shared ||
      fields.all fun f => f == markField || p.seen.get f == (expected inp.sh inp.w).get f

/-- every clause of the single-creation Spec that speaks about ONE call (of `New`, or of a factory) -/
def callStepOk (inp : Input) (s : Step) (fields : List Nat) : String :=
  if !(stepErrOk (inp.form == .facNoErr) s && !isMade s) then "errors"
  else if !seenOk inp s fields then "config"
  else if percallApplies inp && !freshCallOk inp.sh inp.w s then "fresh"
  else if onceApplies inp && !onceCallOk s then "once"
  else if !(s.evs.map kindOf == callKindsBy fillFailed inp s && (inp.sh.cfg != .none || noAddr s)) then "counts"
  else ""

/-- every clause of the single-creation Spec that speaks about the step that creates a factory -/
def createStepOk (inp : Input) (c : Step) : String :=
  if !(stepErrOk false c && (isMade c || isErr c)) then "errors"
  else if percallApplies inp && !(c.evs == []) then "fresh"
  else if onceApplies inp && !onceCreateOk inp.sh inp.w c then "once"
  else if !(c.evs.map kindOf == createKindsBy fillFailed inp c && (inp.sh.cfg != .none || noAddr c)) then "counts"
  else ""

/-- does this step own a configuration obtained by a `Get` of its own (non-shared default, a config is taken)? -/
def gets (inp : Input) (creation : Bool) : Bool :=
  inp.sh.cfg != .none && inp.sh.dflt != .shared &&
    (if creation then inp.sh.factory else (inp.form == .component || !inp.sh.factory))

/-- must the product of this call own its configuration? (the `freshApplies` of the single-creation Spec) -/
def owns (inp : Input) : Bool := freshApplies inp

def trackStep (tr : Track) (op : Op) (out : Out) : Track :=
  match op, out with
  | .register r, .accepted => { tr with regs := tr.regs ++ [r] }
  | .newFactory t n withErr user hasFill, .step _ s =>
    match resolve tr.regs t n with
    | some i =>
      match tr.regs[i]? with
      | some r => if isMade s then { tr with handles := tr.handles ++ [(i, r.input (formOf withErr) user hasFill)] } else tr
      | none => tr
    | none => tr
  | _, _ => tr

/-- the Spec's book after a whole run -/
def trackRun : Track → List Op → List Out → Track
  | tr, op :: ops, out :: outs => trackRun (trackStep tr op out) ops outs
  | tr, _, _ => tr

/-- the judgement of one operation: "" = fine, otherwise `<key>:<detail>` -/
def opOk (tr : Track) (op : Op) (out : Out) (fields : List Nat) : String :=
  let onSlot (i : Nat) (inp : Input) (creation : Bool) : String :=
    match out with
    | .step j s =>
      if j != i then "lookup:the operation ran on another registration than the one registered for this type and name"
      else
        let v := if creation then createStepOk inp s else callStepOk inp s fields
        if v != "" then v ++ ":a step of the session breaks the single-creation Spec of its own creation" else ""
    | _ => "lookup:a registered plugin was not found / the operation did not run"
  match op with
  | .register r =>
    (match out with
     | .accepted => if mustAccept tr r then "" else "register:a registration that must be refused is accepted"
     | .refused => if mustAccept tr r then "register:a supported registration is refused" else ""
     | _ => "crash:register result")
  | .new t n user hasFill =>
    (match resolve tr.regs t n with
     | none => (match out with
                | .noEntry _ => ""
                | _ => "lookup:New for a type and name nobody registered did not end with the error result")
     | some i =>
       match tr.regs[i]? with
       | some r => onSlot i (r.input .component user hasFill) false
       | none => "crash:slot")
  | .newFactory t n withErr user hasFill =>
    (match resolve tr.regs t n with
     | none => (match out with
                | .noEntry _ => ""
                | _ => "lookup:NewFactory for a type and name nobody registered did not end with the error result")
     | some i =>
       match tr.regs[i]? with
       | some r => onSlot i (r.input (formOf withErr) user hasFill) true
       | none => "crash:slot")
  | .call h =>
    (match tr.handles[h]? with
     | none => (match out with | .noHandle => "" | _ => "crash:call of a factory that was not handed out")
     | some (i, inp) => onSlot i inp false)
  | .lookup t =>
    (match out with
     | .found b => if (tr.regs.any fun r => r.ptype == t) && !b then "lookup:Lookup denies a registered plugin type" else ""
     | _ => "crash:lookup result")

/-- all operations, one after the other -/
def opsOk (fields : List Nat) : Track → List Op → List Out → String
  | tr, op :: ops, out :: outs =>
    let r := opOk tr op out fields
    if r != "" then r else opsOk fields (trackStep tr op out) ops outs
  | _, [], [] => ""
  | _, _, _ => "crash:number of results"

/-- the slot and the input an operation is judged against, and whether it is the creation of a factory -/
def target (tr : Track) : Op → Option (Nat × Input × Bool)
  | .new t n user hasFill =>
    (resolve tr.regs t n).bind fun i => tr.regs[i]?.map fun r => (i, r.input .component user hasFill, false)
  | .newFactory t n withErr user hasFill =>
    (resolve tr.regs t n).bind fun i => tr.regs[i]?.map fun r => (i, r.input (formOf withErr) user hasFill, true)
  | .call h => tr.handles[h]?.map fun x => (x.1, x.2, false)
  | _ => none

structure Cells where
  fills : List (Nat × Nat)       -- (slot, identity of the config fillConf worked on) of every step with a `Get` of its own
  confs : List (Nat × Nat)       -- (slot, identity of the *Conf the constructor was given) of every such step
  prods : List (Nat × Nat)       -- (slot, identity of the config held) of every product that must own its config

def stepOf : Out → Option Step
  | .step _ s => some s
  | _ => none

def cellsOf (tr : Track) (op : Op) (out : Out) : Cells :=
  match target tr op, stepOf out with
  | some (i, inp, creation), some s =>
    { fills := if gets inp creation then ((fillAddr? s).map fun c => (i, c)).toList else []
      confs := if gets inp creation then ((ctorConf? s).map fun c => (i, c)).toList else []
      prods := if !creation && owns inp then ((prodCell? s).map fun c => (i, c)).toList else [] }
  | _, _ => ⟨[], [], []⟩

def collect : Track → List Op → List Out → Cells
  | tr, op :: ops, out :: outs =>
    let c := cellsOf tr op out
    let r := collect (trackStep tr op out) ops outs
    ⟨c.fills ++ r.fills, c.confs ++ r.confs, c.prods ++ r.prods⟩
  | _, _, _ => ⟨[], [], []⟩

def nodupP (l : List (Nat × Nat)) : Bool := decide l.Nodup

/-- at the very end of the session: a product that must own its configuration reads its own serial number through
its config pointer — whatever was created or called after it -/
def viewOk (tr : Track) (op : Op) (out : Out) (view : Option Int) : Bool :=
  match target tr op, stepOf out with
  | some (_, inp, creation), some s =>
    !(!creation && owns inp && (prodCell? s).isSome) || view == (product? s).map (fun p => (p.serial : Int))
  | _, _ => true

def viewsOk : Track → List Op → List Out → List (Option Int) → Bool
  | tr, op :: ops, out :: outs, v :: vs => viewOk tr op out v && viewsOk (trackStep tr op out) ops outs vs
  | _, _, _, _ => true

/-- verdict on a session -/
def judgeSess (ops : List Op) (o : SObs) (fields : List Nat) : String :=
  let r := opsOk fields Track.empty ops o.outs
  if r != "" then "fail:" ++ r
  else if !viewsOk Track.empty ops o.outs o.views then
    "fail:fresh:at the end of the session a product does not read its own serial number through its config pointer"
  else
    let c := collect Track.empty ops o.outs
    if !(nodupP c.fills && nodupP c.confs && nodupP c.prods) then
      "fail:fresh:two creations / products of one registration were given the same configuration object"
    else "ok"

end Pandora.Spec.C18Sess
