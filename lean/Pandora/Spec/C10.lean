/-
C10 — the property as executable predicates over OBSERVABLE behaviour (core Lean only).
Written from the property text and docs/eng/grpc-generator.md, independently of the model:
the same functions judge what the real guns reported (lean/Pandora/Drv/C10.lean).
-/
namespace Pandora.Spec.C10

/-- docs/eng/grpc-generator.md, "Mapping table gPRC StatusCode -> HTTP StatusCode";
the last row ("unknown | - | 500") is the default. -/
def docTable : Nat → Nat
  | 0 => 200   -- OK
  | 1 => 499   -- Canceled
  | 3 => 400   -- InvalidArgument
  | 4 => 504   -- DeadlineExceeded
  | 5 => 404   -- NotFound
  | 6 => 409   -- AlreadyExists
  | 7 => 403   -- PermissionDenied
  | 8 => 429   -- ResourceExhausted
  | 9 => 400   -- FailedPrecondition
  | 10 => 409  -- Aborted
  | 11 => 400  -- OutOfRange
  | 12 => 501  -- Unimplemented
  | 14 => 503  -- Unavailable
  | 16 => 401  -- Unauthenticated
  | _ => 500

def emptyTag : String := "__EMPTY__"

/-! ### "the first k URI path elements" -/

/-- split on `'/'` (always at least one piece) -/
def splitSlash : List Char → List (List Char)
  | [] => [[]]
  | c :: cs =>
    if c = '/' then [] :: splitSlash cs
    else
      match splitSlash cs with
      | [] => [[c]]
      | p :: ps => (c :: p) :: ps

def joinSlash : List (List Char) → List Char
  | [] => []
  | [p] => p
  | p :: q :: ps => p ++ '/' :: joinSlash (q :: ps)

/-- `/my/very/deep/page`, 2 ↦ `/my/very`: the text before the first `/`, then k elements -/
def firstElementsChars (k : Nat) (path : List Char) : List Char :=
  joinSlash ((splitSlash path).take (k + 1))

def firstElements (k : Nat) (path : String) : String :=
  String.ofList (firstElementsChars k path.toList)

/-- The tag a sample of the http guns must carry: the ammo's tag, the auto-tag (joined to the ammo's tag by `|`
when both apply), or `__EMPTY__` when there is none. -/
def expectedTag (enabled : Bool) (k : Nat) (noTagOnly : Bool) (ammoTag path : String) : String :=
  if enabled && (!noTagOnly || ammoTag = "") then
    if ammoTag = "" then
      (if firstElements k path = "" then emptyTag else firstElements k path)
    else ammoTag ++ "|" ++ firstElements k path
  else if ammoTag = "" then emptyTag else ammoTag

/-- docs/eng/http-generator.md: `uri-elements: 2 # … Default: 2`, `no-tag-only: true # … Default: true`; auto-tagging is off
unless `enabled: true` is written -/
def docUriElements : Nat := 2
def docNoTagOnly : Bool := true

/-- the tag a sample must carry when the `auto-tag` section is written only in part (`none`: key absent) -/
def expectedTagWritten (enabled : Option Bool) (k : Option Nat) (noTagOnly : Option Bool) (ammoTag path : String) : String :=
  expectedTag (enabled.getD false) (k.getD docUriElements) (noTagOnly.getD docNoTagOnly) ammoTag path

/-! ### judging one request's samples -/

/-- what the scripted target did with the request (ground truth of the harness) -/
inductive Truth where
  /-- a complete response with this status was delivered -/
  | received (status : Nat)
  /-- a response head with this status was delivered, then the body broke off -/
  | bodyBroken (status : Nat)
  /-- no response was delivered (refused, reset, closed, garbage) -/
  | failed
  /-- the target stayed silent and the client's response-header timeout expired -/
  | timedOut
  deriving Repr, DecidableEq, Inhabited

structure Obs where
  tags : String
  id : Nat
  proto : Nat
  net : Nat
  deriving Repr, DecidableEq, Inhabited

/-- verdict on the samples that carry one request's id, for the plain http guns -/
def judgeHttp (expTag : String) (t : Truth) (obs : List Obs) : String :=
  match obs with
  | [] => "fail:count:no sample for a fired request"
  | _ :: _ :: _ => s!"fail:count:{obs.length} samples for one request"
  | [o] =>
    if o.tags ≠ expTag then s!"fail:tag:got {o.tags} want {expTag}"
    else match t with
      | .received st =>
        if o.proto ≠ st then s!"fail:proto:got {o.proto} want {st}"
        else if o.net ≠ 0 then s!"fail:net:response received but net code {o.net}"
        else "ok"
      | .bodyBroken st =>
        if o.proto ≠ st then s!"fail:proto:got {o.proto} want {st}"
        else if o.net = 0 then "fail:net:exchange failed but net code 0"
        else "ok"
      | .failed =>
        if o.net = 0 then "fail:net:exchange failed but net code 0" else "ok"
      | .timedOut =>
        if o.net = 0 then "fail:net:exchange failed but net code 0"
        else if o.net ≠ 110 then s!"fail:net:timeout reported with net code {o.net}, not 110"
        else "ok"

/-! ### scenarios -/

/-- ground truth of one scenario step -/
inductive StepTruth where
  /-- a response with this status was received and accepted by every postprocessor -/
  | passed (status : Nat)
  /-- the step failed (nothing sent, exchange failed, or an assertion rejected the response) -/
  | failedStep
  deriving Repr, DecidableEq, Inhabited

/-- the steps one shot executes: up to and including the first failing one -/
def executed : List (String × StepTruth) → List (String × StepTruth)
  | [] => []
  | (n, .passed st) :: rest => (n, .passed st) :: executed rest
  | (n, .failedStep) :: _ => [(n, .failedStep)]

/-- http scenario, one shot: one sample per executed step, tagged `scenario.step` -/
def judgeShot (scn : String) : List (String × StepTruth) → List Obs → String
  | [], [] => "ok"
  | [], _ :: _ => "fail:count:more samples than executed steps"
  | _ :: _, [] => "fail:count:fewer samples than executed steps"
  | (name, t) :: rest, o :: os =>
    let base := scn ++ "." ++ name
    match t with
    | .passed st =>
      if o.tags ≠ base then s!"fail:tag:got {o.tags} want {base}"
      else if o.proto ≠ st then s!"fail:proto:got {o.proto} want {st}"
      else if o.net ≠ 0 then s!"fail:net:response received but net code {o.net}"
      else judgeShot scn rest os
    | .failedStep =>
      if o.tags ≠ base ∧ o.tags ≠ base ++ "|" ++ emptyTag then s!"fail:tag:got {o.tags} want {base}"
      else if o.net = 0 then "fail:net:step failed but net code 0"
      else judgeShot scn rest os

/-- `n` identical shots, judged position by position -/
def judgeShotsSeq (scn : String) (steps : List (String × StepTruth)) : Nat → List Obs → String
  | 0, [] => "ok"
  | 0, _ :: _ => "fail:count:samples after the last shot"
  | n + 1, obs =>
    let ex := executed steps
    if obs.length < ex.length then "fail:count:fewer samples than executed steps"
    else
      match judgeShot scn ex (obs.take ex.length) with
      | "ok" => judgeShotsSeq scn steps n (obs.drop ex.length)
      | v => v

/-- is `tags` the tag of a sample of step `name` (`scenario.step`, with or without the `|__EMPTY__` a failed step appends) -/
def isStepTag (scn name tags : String) : Bool :=
  tags == scn ++ "." ++ name || tags == scn ++ "." ++ name ++ "|" ++ emptyTag

/-- "one sample per executed step", step by step: the first executed step whose number of samples (over all `n`
shots) is not the number of times it was executed, as a verdict naming that step; `none` when every step has its number.
(`ex` = all executed steps of one shot: a step name used twice in a scenario is executed twice per shot.) -/
def stepCountMismatch (scn : String) (n : Nat) (obs : List Obs) (ex : List (String × StepTruth)) :
    List (String × StepTruth) → Option String
  | [] => none
  | (name, _) :: rest =>
    let got := (obs.filter fun o => isStepTag scn name o.tags).length
    let want := n * (ex.filter fun s => s.1 == name).length
    if got ≠ want then some s!"fail:count:step {scn}.{name} executed {want} time(s) but {got} sample(s) carry its tag"
    else stepCountMismatch scn n obs ex rest

/-- `n` identical shots: tags and codes position by position; when that fails and some step does not have its number of
samples, the verdict is the COUNT failure naming that step (a doubled or lost sample shifts every later position, so the
positional verdict alone would name a code or a tag). -/
def judgeShots (scn : String) (steps : List (String × StepTruth)) (n : Nat) (obs : List Obs) : String :=
  match judgeShotsSeq scn steps n obs with
  | "ok" => "ok"
  | v =>
    match stepCountMismatch scn n obs (executed steps) (executed steps) with
    | some c => c
    | none => v


/-! ### redirects: which answer is "the response received"

A target may answer 3xx with a `Location` header. With `redirect: false` (the default) the gun does not follow it: the
3xx answer itself is the response received, whatever its `Location` says (also nothing, also something no URL parser
accepts). With `redirect: true` the client follows 301 / 302 / 303 / 307 / 308 answers that carry a `Location`, and the
LAST answer of the chain is the response received; a chain that cannot be followed to an answer (a `Location` that cannot
be parsed, a next exchange that fails, a chain longer than the client's limit of ten requests) is a failed exchange. -/

/-- what the `Location` header of an answer says -/
inductive Loc where
  /-- no header, or an empty one -/
  | absent
  /-- a reference a client can resolve; following it leads to the next element of the chain -/
  | leadsOn
  /-- a value no URL parser accepts -/
  | unparsable
  /-- a reference to a place that gives the same answer again, for ever -/
  | loops
  deriving Repr, DecidableEq, Inhabited

inductive ChainHop where
  /-- a complete answer with this status and this `Location` -/
  | answer (status : Nat) (loc : Loc)
  /-- the exchange the chain ends with, whatever it is -/
  | last (t : Truth)
  deriving Repr, DecidableEq, Inhabited

/-- the statuses a client follows -/
def isRedirectStatus (st : Nat) : Bool := st == 301 || st == 302 || st == 303 || st == 307 || st == 308

/-- `n`: requests the client may still send, this one included -/
def chainTruthN : Nat → Bool → List ChainHop → Truth
  | _, _, [] => .failed
  | _, _, .last t :: _ => t
  | _, false, .answer st _ :: _ => .received st
  | n, true, .answer st loc :: rest =>
    if isRedirectStatus st then
      match loc with
      | .absent => .received st
      | .unparsable => .failed
      | .loops => .failed
      | .leadsOn => if n ≤ 1 then .failed else chainTruthN (n - 1) true rest
    else .received st

/-- the client's limit: ten requests for one shot -/
def maxRequests : Nat := 10

def chainTruth (redirect : Bool) (hops : List ChainHop) : Truth := chainTruthN maxRequests redirect hops

/-! ### steps the target saw

Ground truth of "executed step" in runs that are cut short (the instance is cancelled in the middle of a shot): the target
logs which steps it received a request of. Every such step has exactly one sample per request. -/

/-- first step whose number of samples is not the number of requests the target saw for it -/
def hitsMismatch (scn : String) (obs : List Obs) : List (String × Nat) → Option String
  | [] => none
  | (name, hits) :: rest =>
    let got := (obs.filter fun o => isStepTag scn name o.tags).length
    if got ≠ hits then some s!"fail:count:the target saw {hits} request(s) of step {scn}.{name} but {got} sample(s) carry its tag"
    else hitsMismatch scn obs rest

/-- gRPC scenario: samples carry `scenario.tag` verbatim -/
def hitsMismatchGrpc (scn : String) (obs : List Obs) : List (String × Nat) → Option String
  | [] => none
  | (tag, hits) :: rest =>
    let got := (obs.filter fun o => o.tags == scn ++ "." ++ tag).length
    if got ≠ hits then some s!"fail:count:the target saw {hits} call(s) of {scn}.{tag} but {got} sample(s) carry its tag"
    else hitsMismatchGrpc scn obs rest

/-! ### gRPC -/

/-- one gRPC request: its tag and, when the call was made, the status code the target answered -/
def judgeGrpc : List (String × Option Nat) → List Obs → String
  | [], [] => "ok"
  | [], _ :: _ => "fail:count:more samples than requests"
  | _ :: _, [] => "fail:count:fewer samples than requests"
  | (tag, code) :: rest, o :: os =>
    if o.tags ≠ tag then s!"fail:tag:got {o.tags} want {tag}"
    else match code with
      | some c => if o.proto ≠ docTable c then s!"fail:proto:status {c} reported as {o.proto}, documented {docTable c}"
                  else judgeGrpc rest os
      | none =>
        -- the request was never sent (unknown method, payload that cannot be marshalled or does not fit): there is no
        -- call status to map; whatever the code is, it must not be the code of an ANSWERED call with status OK
        if o.proto = docTable 0 then s!"fail:proto:request that was never sent reported as {o.proto} (= status OK)"
        else judgeGrpc rest os

/-- Several instances shoot the entries of one gRPC ammo file: the samples arrive in any order, so they are judged as a
BAG. Every request whose call was made (`tag`, status code `c`) accounts for one sample tagged `tag` and coded
`docTable c`: for every tag the number of samples carrying it is the number of requests carrying it, and for every
(tag, documented code) pair likewise. -/
def judgeGrpcBag (reqs : List (String × Nat)) (obs : List Obs) : String :=
  if obs.length < reqs.length then "fail:count:fewer samples than requests"
  else if obs.length > reqs.length then "fail:count:more samples than requests"
  else
    let tagCount (t : String) : Nat × Nat := ((reqs.filter fun r => r.1 == t).length, (obs.filter fun o => o.tags == t).length)
    match obs.find? fun o => (tagCount o.tags).1 != (tagCount o.tags).2 with
    | some o => s!"fail:tag:{(tagCount o.tags).2} sample(s) carry the tag {o.tags} but {(tagCount o.tags).1} request(s) do"
    | none =>
      let pairCount (t : String) (p : Nat) : Nat × Nat :=
        ((reqs.filter fun r => r.1 == t && docTable r.2 == p).length, (obs.filter fun o => o.tags == t && o.proto == p).length)
      match obs.find? fun o => (pairCount o.tags o.proto).1 != (pairCount o.tags o.proto).2 with
      | some o => s!"fail:proto:{(pairCount o.tags o.proto).2} sample(s) tagged {o.tags} are coded {o.proto} but {(pairCount o.tags o.proto).1} request(s) with that tag have a status documented as {o.proto}"
      | none => "ok"

/-- "Unique within a run", for a stretch of a run: `start` ammo were acquired before (they carried the ids the counter
handed out until then: `1 … start` for a counter that has not wrapped), `count` samples were observed after that with
`distinct` different ids, `below` of which are `≤ start`. -/
def judgeIdsFrom (start count distinct below : Nat) : String :=
  if distinct ≠ count then s!"fail:ids:{count} samples carry only {distinct} distinct ids"
  else if below ≠ 0 then s!"fail:ids:{below} sample(s) carry an id that one of the {start} ammo acquired earlier in the run already carried"
  else "ok"

/-- "Errno-style": the net code of a failed exchange says what went wrong with the exchange (refused, reset, timed out, the
gun's own fallback), so it is a function of the failure and of the client the gun was asked for — not of which helper
dials. `dial.dns-cache` only selects that helper (a dialer that remembers the address of its first successful dial, or
`net.Dialer` itself): the same requests failing in the same way must be coded alike with the option on (`cached`) and
off (`plain`), request by request. -/
def judgeDialerIndependent : List Nat → List Nat → String
  | [], [] => "ok"
  | c :: cs, p :: ps =>
    if c ≠ p then s!"fail:net:a failed dial is coded {c} through the DNS-caching dialer but {p} with dial.dns-cache off"
    else judgeDialerIndependent cs ps
  | _, _ => "fail:count:the runs with dial.dns-cache on and off report different numbers of samples"

/-! ### shots the instance discards (`discard_overflow`)

Between the schedule and the gun the instance may decide NOT to send a request it holds (it is too far behind its
schedule) and reports a sample tagged `discarded` with net code 777 instead: that sample says "a shot was not sent".
Ground truth of "fired": the target saw the request. A fired request has exactly one sample — its own, with the
faithful codes; a request that was never fired has none that carries its id; and a `discarded` sample stands for a request
that was not fired, so there are never more of them than unfired requests. -/

def discardedTag : String := "discarded"
def discardedNet : Nat := 777

/-- is this the sample the engine reports for a shot it did not send -/
def isDiscarded (o : Obs) : Bool := o.tags == discardedTag && o.id == 0 && o.net == discardedNet

/-- the samples carrying one request's id, given whether the target saw that request -/
def judgeFiredOrNot (fired : Bool) (expTag : String) (t : Truth) (mine : List Obs) : String :=
  if fired then judgeHttp expTag t mine
  else if mine.isEmpty then "ok"
  else s!"fail:count:{mine.length} sample(s) carry the id of a request the target never saw"

/-- `unfired`: requests of the run the target never saw; `discards`: samples saying a shot was not sent -/
def judgeDiscards (total unfired discards : Nat) : String :=
  if discards > unfired then
    s!"fail:count:{discards} sample(s) say a shot was discarded (not sent) but only {unfired} of the {total} request(s) were not fired"
  else "ok"

/-- all ids distinct -/
def idsUnique (ids : List Nat) : Bool :=
  let rec go : List Nat → Bool
    | [] => true
    | x :: xs => !xs.contains x && go xs
  go ids

end Pandora.Spec.C10
