/-
C11 — the property as an executable judgement over what the REAL code was observed to do (core Lean only).

Five kinds of observation (see harness/cmd/c11):

* `alias`  — pointer-identity graph of two instances of one pool (gun + acquired ammo each), the allocation units
             reachable from both ("shared"), and the shared units whose content changed while ONE goroutine ran one real
             `Shoot` per instance ("mutated"). Judged against the sharing inventory below: guns must be distinct
             objects, two outstanding ammo must be distinct objects, and every mutated shared unit must be classed
             `sync` — and the object that synchronises it must have only guarded access sites in the regenerated
             lock-facts table. A write to shared memory classed `ro` is a schedule-independent witness of a data race
             between instances and of a cross-instance effect.
* `handover` — ONE goroutine fires real shots of a gun bound to a recording aggregator (every failure path of a
             scenario step); per sample object the word of what the gun did with it (T take, W write, G give = Report),
             judged by the ownership discipline `progOkB` of `Model/C11Own.lean`: a sample is given once and not
             written afterwards (schedule-independent witness of a gun↔aggregator race and of a double release).
* `guns`   — the real engine with a probing gun factory: one gun object per factory call, never two `Shoot` calls in
             progress on one gun object, one calling goroutine per gun.
* `race` / `hammer` — n concurrent instances (whole pool / one shared object) under the Go race detector: no race
             report, no fatal runtime error (`concurrent map writes` …), no panic.
* `locks`  — the regenerated lock-facts table itself: every access site guarded, classes consistent; the regenerated
             closure table: no function literal that assigns its captured variables is stored where another goroutine
             finds it; the regenerated hand-over words: no function touches a sample / an ammo after handing it on.
* `ammo`   — ONE goroutine: n instances of a pool take turns (shoot and release the ammo held, acquire the next one) in
             a given order, so that an instance keeps its ammo while the others go through whole passes of the ammo file;
             per delivered ammo what it is when `Acquire` returns it, what it is when its instance shoots it, and what
             the ammo of the same file position is on the first pass of a fresh one-instance pool; the units reachable from
             the ammo the OTHER instances hold that a step (Acquire with the provider's middlewares, Shoot, Release)
             changed, and the units two outstanding ammo have in common.
* `isolate` — ONE goroutine: the variables each shot of an n-instance pool extracted from ITS responses (echoed to the
             target by the later steps of the scenario), against what the same shot extracts in a fresh pool where it is the
             only shot: a difference is a cross-instance effect, whatever the schedule.

`alias` additionally reports, after the shots, the units the two instances have in common that they did not have in
common before (`late`: whatever the shots cached in shared objects), which of those a second round of shots changed
(`latemut`), and the closure objects (func values with captured variables) both instances reach (`closures`).
-/
import Pandora.Model.C11Sharing
import Pandora.Model.C11Table
import Pandora.Model.C11Own
import Pandora.Model.C11Modifiers
import Pandora.Model.C11Ammo
import Pandora.Model.C11Pool
import Pandora.Gen.Locks

namespace Pandora.Spec.C11
open Pandora.Go Pandora.Model.C11

/-- sharing class of an allocation unit of the real object graph (label as printed by harness/c11lib) -/
inductive Share where
  /-- shared definition: never written after pool start -/
  | ro
  /-- written by instances, every access synchronised; `objs` = the lock-table objects that say how -/
  | sync (objs : List String)
  /-- identity only (library objects with internal synchronisation — loggers, contexts, transports — and the
  harness's own aggregator); content is not snapshotted by the walker -/
  | opaque
  deriving Repr

/-- pool configuration of a case -/
structure PoolCfg where
  kind : String
  sharedClient : Bool
  /-- the provider delivers the same decoded ammo again on every pass (`preload: true`, or an http/json file that is one
  JSON array) -/
  reuse : Bool := false
  deriving Repr

def PoolCfg.http (c : PoolCfg) : Bool := c.kind ∈ ["uri", "uripost", "raw", "httpjson"]
def PoolCfg.grpc (c : PoolCfg) : Bool := c.kind ∈ ["grpcscen", "grpcjson"]
def PoolCfg.scen (c : PoolCfg) : Bool := c.kind ∈ ["httpscen", "grpcscen"]

structure Entry where
  label : String
  cls : Share
  /-- the pool configurations in which two instances share this unit -/
  on : PoolCfg → Bool

def lockGs := "lib/mp.NextIterator.gs"
def lockRnd := "lib/mp.NextIterator.rnd"
def lockPoolI := "core/clientpool.Pool.i"

/-- the sharing inventory: every allocation unit two instances of a built-in pool have in common -/
def inventory : List Entry := [
  ⟨"clientpool.Pool[components/guns/http.Client].pool(slice)", .ro, fun c => c.http && c.sharedClient⟩,
  ⟨"clientpool.Pool[github.com/jhump/protoreflect/dynamic/grpcdynamic.Stub].pool(slice)", .ro, fun c => c.kind == "grpcjson" && c.sharedClient⟩,
  ⟨"core.GunDeps.Ctx(*context.cancelCtx)", .opaque, fun _ => true⟩,
  ⟨"core.GunDeps.Log(*zap.Logger)", .opaque, fun _ => true⟩,
  ⟨"core.GunDeps.Shared(*grpc.SharedDeps)", .ro, fun c => c.grpc⟩,
  ⟨"core.GunDeps.Shared(*phttp.SharedDeps)", .ro, fun c => c.http⟩,
  ⟨"grpc.Gun.Aggr(*c11lib.Aggr)", .opaque, fun c => c.grpc⟩,
  ⟨"grpc.Gun.Services(map)", .ro, fun c => c.grpc⟩,
  ⟨"grpc.SharedDeps.clientPool(*clientpool.Pool[github.com/jhump/protoreflect/dynamic/grpcdynamic.Stub])", .sync [lockPoolI],
    fun c => c.kind == "grpcjson" && c.sharedClient⟩,
  ⟨"httpscenario.Request.Body(*string)", .ro, fun c => c.kind == "httpscen"⟩,
  ⟨"httpscenario.Request.Headers(map)", .ro, fun c => c.kind == "httpscen"⟩,
  ⟨"httpscenario.Request.Postprocessors(slice)", .ro, fun c => c.kind == "httpscen"⟩,
  ⟨"httpscenario.Request.Postprocessors[](*postprocessor.AssertResponse)", .ro, fun c => c.kind == "httpscen"⟩,
  ⟨"httpscenario.Request.Postprocessors[](*postprocessor.VarHeaderPostprocessor)", .ro, fun c => c.kind == "httpscen"⟩,
  ⟨"httpscenario.Request.Postprocessors[](*postprocessor.VarJsonpathPostprocessor)", .ro, fun c => c.kind == "httpscen"⟩,
  ⟨"httpscenario.Request.Postprocessors[](*postprocessor.VarXpathPostprocessor)", .ro, fun c => c.kind == "httpscen"⟩,
  ⟨"httpscenario.Request.Preprocessor(*preprocessor.Preprocessor)", .ro, fun c => c.kind == "httpscen"⟩,
  ⟨"httpscenario.Request.Templater(*templater.HTMLTemplater)", .ro, fun c => c.kind == "httpscen"⟩,
  ⟨"httpscenario.Request.Templater(*templater.TextTemplater)", .ro, fun c => c.kind == "httpscen"⟩,
  ⟨"httpscenario.Scenario.VariableStorage(*vs.SourceStorage)", .ro, fun c => c.kind == "httpscen"⟩,
  ⟨"mp.NextIterator.gs(map)", .sync [lockGs], fun c => c.scen⟩,
  ⟨"mp.NextIterator.rnd(*rand.Rand)", .sync [lockRnd], fun c => c.scen⟩,
  ⟨"netsample.aggregatorUnwrapper.Aggregator(*c11lib.Aggr)", .opaque, fun c => c.http || c.kind == "httpscen"⟩,
  ⟨"phttp.BaseGun.AnswLog(*zap.Logger)", .opaque, fun c => c.http || c.kind == "httpscen"⟩,
  ⟨"phttp.SharedDeps.clientPool(*clientpool.Pool[components/guns/http.Client])", .sync [lockPoolI], fun c => c.http && c.sharedClient⟩,
  ⟨"phttp.noRedirectClient.Transport(*http.Transport)", .opaque, fun c => c.http && c.sharedClient⟩,
  ⟨"postprocessor.AssertResponse.Body(slice)", .ro, fun c => c.kind == "httpscen"⟩,
  ⟨"postprocessor.AssertResponse.Headers(map)", .ro, fun c => c.kind == "httpscen"⟩,
  ⟨"postprocessor.AssertResponse.Size(*postprocessor.AssertSize)", .ro, fun c => c.kind == "httpscen"⟩,
  ⟨"postprocessor.VarHeaderPostprocessor.Mapping(map)", .ro, fun c => c.kind == "httpscen"⟩,
  ⟨"postprocessor.VarJsonpathPostprocessor.Mapping(map)", .ro, fun c => c.kind == "httpscen"⟩,
  ⟨"postprocessor.VarXpathPostprocessor.Mapping(map)", .ro, fun c => c.kind == "httpscen"⟩,
  ⟨"preprocessor.PreparePreprocessor.Mapping(map)", .ro, fun c => c.kind == "grpcscen"⟩,
  ⟨"preprocessor.PreparePreprocessor.iterator(*mp.NextIterator)", .ro, fun c => c.kind == "grpcscen"⟩,
  ⟨"preprocessor.Preprocessor.Mapping(map)", .ro, fun c => c.kind == "httpscen"⟩,
  ⟨"preprocessor.Preprocessor.iterator(*mp.NextIterator)", .ro, fun c => c.kind == "httpscen"⟩,
  ⟨"rand.Rand.s64(*rand.rngSource)", .sync [lockRnd], fun c => c.scen⟩,
  ⟨"scenario.Call.Metadata(map)", .ro, fun c => c.kind == "grpcscen"⟩,
  ⟨"scenario.Call.Preprocessors[](*preprocessor.PreparePreprocessor)", .ro, fun c => c.kind == "grpcscen"⟩,
  ⟨"scenario.Scenario.VariableStorage(*vs.SourceStorage)", .ro, fun c => c.kind == "grpcscen"⟩,
  ⟨"vs.SourceStorage.sources(map)", .ro, fun c => c.scen⟩,
  ⟨"vs.SourceStorage.sources{}(map)", .ro, fun c => c.scen⟩,
  ⟨"vs.SourceStorage.sources{}(slice)", .ro, fun c => c.scen⟩,
  ⟨"vs.SourceStorage.sources{}[](map)", .ro, fun c => c.scen⟩
]

/-- units that come into being while a pool shoots and are shared from then on: the `[next]` counter of a path (created
under the iterator mutex at the first use of the path, an atomic afterwards) -/
def lateInventory : List (String × Share) := [
  ("mp.NextIterator.gs{}(*atomic.Uint64)", .sync [lockGs])
]

/-- units of the scenario definition classed `ro` whose fields have access sites in the regenerated table: (label, table
object) -/
def roBacked : List (String × String) := [
  ("postprocessor.VarHeaderPostprocessor.Mapping(map)", "components/providers/scenario/http/postprocessor.VarHeaderPostprocessor.Mapping"),
  ("postprocessor.VarJsonpathPostprocessor.Mapping(map)", "components/providers/scenario/http/postprocessor.VarJsonpathPostprocessor.Mapping"),
  ("postprocessor.VarXpathPostprocessor.Mapping(map)", "components/providers/scenario/http/postprocessor.VarXpathPostprocessor.Mapping"),
  ("postprocessor.AssertResponse.Body(slice)", "components/providers/scenario/http/postprocessor.AssertResponse.Body"),
  ("postprocessor.AssertResponse.Headers(map)", "components/providers/scenario/http/postprocessor.AssertResponse.Headers"),
  ("postprocessor.AssertResponse.Size(*postprocessor.AssertSize)", "components/providers/scenario/http/postprocessor.AssertResponse.Size"),
  ("preprocessor.Preprocessor.Mapping(map)", "components/providers/scenario/http/preprocessor.Preprocessor.Mapping"),
  ("preprocessor.Preprocessor.iterator(*mp.NextIterator)", "components/providers/scenario/http/preprocessor.Preprocessor.iterator"),
  ("preprocessor.PreparePreprocessor.Mapping(map)", "components/providers/scenario/grpc/preprocessor.PreparePreprocessor.Mapping"),
  ("preprocessor.PreparePreprocessor.iterator(*mp.NextIterator)", "components/providers/scenario/grpc/preprocessor.PreparePreprocessor.iterator"),
  ("vs.SourceStorage.sources(map)", "components/providers/scenario/vs.SourceStorage.sources")
]

/-- what two OUTSTANDING ammo of a pool may have in common (`mode=ammo`): with a provider that delivers the same decoded
ammo again, the requests built from it share the value slices of the decoded header and the bytes of the body — the
header MAP of a request is the request's own (`Model/C11Ammo.lean`, `Gen.Locks.ammoFlows`) -/
def ammoInventory : List Entry := [
  ⟨"bytes.Reader.s(slice)", .ro, fun c => c.http && c.reuse⟩,
  ⟨"http.Request.Header{}(slice)", .ro, fun c => c.http && c.reuse⟩
]

def classOf (label : String) : Option Share :=
  match inventory.find? (·.label == label) with
  | some e => some e.cls
  | none => (lateInventory.find? (·.1 == label)).map (·.2)

/-- the model's prediction: which units two instances of this pool share (labels, sorted as the harness prints them) -/
def expectedShared (c : PoolCfg) : List String := (inventory.filter (·.on c)).map (·.label)

/-- the shared units one scenario shot writes: the `[next]` counters and the `[rand]` source of the data-source
iterator (both scenario files of the driver use `source.users[next]` and `source.users[rand]` in a step of every
scenario); plain ammo shots write nothing shared -/
def expectedMutated (c : PoolCfg) : List String :=
  if c.scen then ["mp.NextIterator.gs(map)", "rand.Rand.s64(*rand.rngSource)"] else []

/-! ### the lock-facts table as an observation -/

def rowsOf (tbl : List C11LockRow) (obj : String) : List C11LockRow := tbl.filter (·.obj == obj)

/-- first access site of `obj` that is not consistent with one synchronised / frozen class -/
def badSite (tbl : List C11LockRow) (obj : String) : Option C11LockRow :=
  (rowsOf tbl obj).find? fun r => !c11RowOk tbl r

def badSiteAny (tbl : List C11LockRow) : Option C11LockRow := tbl.find? fun r => !c11RowOk tbl r

def siteText (r : C11LockRow) : String :=
  s!"{r.obj}@{r.method}({if r.write then "write" else "read"})"

def judgeLocks (tbl : List C11LockRow) (objs : List String) : String :=
  match objs.findSome? (badSite tbl) with
  | some r => s!"fail:unguarded:{siteText r}"
  | none => "ok"

/-! ### judgements -/

/-! ### the regenerated closure table and hand-over words as observations -/

/-- (closure, place) pairs where a function literal that assigns its captured variables is stored, and stays with one
goroutine all the same: the progress callback of the decode provider's multi-pass reader is created in
`(*decodeProvider).Run`, stored in the reader that `Run` created, and called by the decoder on the provider goroutine -/
def confinedStores : List (String × String) := [
  ("core/provider:Run.func2", "lib/ioutil2.SetProgress: r.progress = progress")
]

def closureOf (key : String) : Option C11Closure := Pandora.Gen.Locks.closures.find? (·.key == key)

def closureText (c : C11Closure) : String :=
  if !c.writes.isEmpty then s!"{c.key} assigns its captured {",".intercalate c.writes}"
  else s!"{c.key} holds {",".intercalate c.holds}"

def judgeClosures (cs : List C11Closure) : String :=
  match cs.find? (fun c => !c11ClosureOk confinedStores c) with
  | some c => s!"fail:stored-closure:{closureText c}; stored at {(c.stored.filter fun st => !confinedStores.contains (c.key, st)).headD ""}"
  | none => "ok"

/-- a function's dealings with a sample / an ammo it hands on (U use, G hand-over) as a program of the ownership model:
the function holds the object when it starts -/
def siteOps (w : String) : List OOp :=
  .take 0 :: w.toList.filterMap fun c =>
    if c == 'U' then some (.own ⟨0, true, 0⟩) else if c == 'G' then some (.give 0) else none

def siteWordOk (w : String) : Bool := progOkB (fun _ => Class.sharedSync 0) 0 [] (siteOps w)

def judgeSites (sites : List (String × String × String)) : String :=
  match sites.find? (fun (_, _, w) => !siteWordOk w) with
  | some (f, v, w) => s!"fail:use-after-handover:{f} touches {v} after handing it on (path {w})"
  | none => "ok"

/-- the key inside a closure label `place(closure:key)` -/
def closureKey (label : String) : String :=
  match label.splitOn "(closure:" with
  | [_, rest] => (rest.dropEnd 1).toString
  | _ => label

def scannedPkg (key : String) : Bool := key.startsWith "components/" || key.startsWith "core/" || key.startsWith "lib/"

/-- the canonical name of a function literal ends in `.func<N>[.<M>…]`; anything else the walker may report (a method
value `T.M-fm`, whose state is its receiver, or — should the walker fail to tell static function values apart — a plain
function) is not a literal and has no row -/
def isLiteralKey (key : String) : Bool := (key.splitOn ".func").length ≥ 2 && !key.endsWith "-fm"

/-- a closure object both instances reach: calling it must not change it -/
def judgeSharedClosure (label : String) : Option String :=
  let key := closureKey label
  if !isLiteralKey key then none else
  match closureOf key with
  | some c => if c.stateful then some s!"fail:shared-closure:{label}: {closureText c}" else none
  | none => if scannedPkg key then some s!"fail:shared-closure:{label}: not in the regenerated closure table" else none

structure AliasObs where
  guns : String
  ammo : String
  served : String
  shared : List String
  mutated : List String
  /-- units published by the first round of shots and changed by the second -/
  latemut : List String := []
  /-- closure objects reachable from both instances (before or after the shots) -/
  closures : List String := []

def judgeAlias (tbl : List C11LockRow) (o : AliasObs) : String :=
  if o.guns != "distinct" then s!"fail:gun-shared:two instances got {o.guns} gun object"
  else if o.ammo == "same" then "fail:ammo-shared:two outstanding Acquire calls returned the same ammo object"
  else
    -- a write to a unit of the shared definition first (schedule-independent witness), then the lock facts of the
    -- units instances are allowed to write
    match (o.mutated ++ o.latemut).find? (fun l => match classOf l with
                                    | some (.sync _) => false
                                    | _ => (l.splitOn "(*atomic.").length != 2) with
    | some l => s!"fail:shared-write:{l}"
    | none =>
      match o.closures.findSome? judgeSharedClosure with
      | some v => v
      | none =>
      match (o.mutated ++ o.latemut).findSome? (fun l =>
        match classOf l with
        | some (.sync objs) => match judgeLocks tbl objs with
                               | "ok" => none
                               | v => some v
        | _ => none) with
      | some v => v
      | none => if o.served != "yes" then "skip:inconclusive-not-served" else "ok"

structure GunsObs where
  created : Nat
  distinct : Nat
  maxoverlap : Nat
  maxgoroutines : Nat

def judgeGuns (o : GunsObs) : String :=
  if o.distinct != o.created then s!"fail:gun-shared:{o.created} factory calls returned {o.distinct} distinct gun objects"
  else if o.maxoverlap > 1 then s!"fail:gun-overlap:{o.maxoverlap} Shoot calls in progress on one gun"
  else if o.maxgoroutines > 1 then s!"fail:gun-callers:{o.maxgoroutines} goroutines called one gun"
  else "ok"

/-- what the engine model predicts for `n` instances: a warm-up gun, then `n` starts; every instance shoots -/
def modelGuns (n : Nat) : GunsObs :=
  let acts : List Act := .warmup :: List.replicate n .start
  let s0 := engRun engInit acts
  -- every instance enters Shoot (all at the same time: the worst case), then leaves
  let s1 := engRun s0 ((List.range n).map Act.move)
  let guns := s1.insts.map (·.gun)
  { created := s1.nextGun, distinct := guns.eraseDups.length + (s1.nextGun - guns.length),
    maxoverlap := (guns.map fun g => active g s1.insts).foldl max 0,
    maxgoroutines := if n == 0 then 0 else 1 }

/-! ### hand-over of samples (mode=handover) -/

structure HandoverObs where
  shots : Nat
  reports : Nat
  /-- per sample object what the gun did with it: a word over T (take from the pool), W (write), G (give = Report) -/
  words : List (String × Nat)

/-- the gun's side of a sample's life as a program of the ownership model (the sample is object 0 with token 0) -/
def wordOps (w : String) : List OOp :=
  w.toList.filterMap fun c =>
    if c == 'T' then some (.take 0) else if c == 'W' then some (.own ⟨0, true, 0⟩) else if c == 'G' then some (.give 0) else none

/-- a sample handed to the aggregator belongs to the aggregator (which reads it on its own goroutine and returns it
to the sample pool): the gun's program on every sample must satisfy the ownership discipline `progOk` of
`Model/C11Own.lean` — the hypothesis of `C11_drf_handover_programs` -/
def judgeHandover (o : HandoverObs) : String :=
  match o.words.find? (fun (w, _) => !progOkB (fun _ => Class.sharedSync 0) 0 [] (wordOps w)) with
  | none => "ok"
  | some (w, n) =>
    if (w.toList.filter (· == 'G')).length > 1 then
      s!"fail:double-report:{n} sample(s) handed to the aggregator more than once (gun-side life of the sample: {w})"
    else s!"fail:use-after-report:{n} sample(s) written after Report (gun-side life of the sample: {w})"

/-- samples one shot reports: plain guns one; a scenario gun one per executed step — the steps up to and including the
first failing one (a step that cannot reach the target or whose response body breaks off fails; a 5xx answer is not a
failure) -/
def reportsPerShot (kind fail : String) (steps failat : Nat) : Nat :=
  if kind == "httpscen" || kind == "grpcscen" then
    if fail == "none" || fail == "status" then steps
    else if fail == "conn" then 1
    else failat
  else 1

/-- does any request of a run reach the target? not when the target is down, nor when the first step of the (only)
scenario fails before it is sent -/
def servedExpected (fail : String) (failat : Nat) : Bool :=
  !(fail == "conn" || (failat == 1 && fail ∈ ["tmpl", "pre", "call", "payload"]))

structure ConcObs where
  fatal : String
  detector : String
  races : String

/-- round 4: a race between a gun READING the time stamps of its own per-shot trace (`(*TraceTimings).Get…`) and a hook
of that trace (`CreateHTTPTrace.funcN`) running on a goroutine of the transport: inside one instance. It gets a verdict
key of its own (`race-own-trace`) — the defect found in round 4 (fixes/C11-trace-timings-mutex.diff) —; two hooks racing
with each other, or anything else, stay `race`. -/
def ownTraceRace (r : String) : Bool :=
  let isGetter := fun (s : String) => (s.splitOn "(*TraceTimings).Get").length == 2
  let isHook := fun (s : String) => (s.splitOn "CreateHTTPTrace.func").length == 2
  match r.splitOn "~" with
  | [a, b] => (isGetter a && isHook b) || (isGetter b && isHook a)
  | _ => false

/-- the verdict for a non-empty list of race reports: the first one that is not of the class above, if any -/
def raceVerdict (races : String) : String :=
  let rs := races.splitOn ","
  match rs.find? (fun r => !ownTraceRace r) with
  | some r => s!"fail:race:{r}"
  | none => s!"fail:race-own-trace:{rs.headD ""}"

def judgeConc (tbl : List C11LockRow) (objs : List String) (o : ConcObs) : String :=
  if o.fatal != "-" then s!"fail:fatal:{o.fatal}"
  else if o.races != "-" then raceVerdict o.races
  else match judgeLocks tbl objs with
    | "ok" => if o.detector != "on" then "skip:detector-off" else "ok"
    | v => v

def schedDoAt := ["core/schedule.doAtSchedule.start", "core/schedule.doAtSchedule.i", "core/schedule.StartSync.started"]
def schedCallback := ["core/coreutil.callbackOnFinishSchedule.onFinish", "core/coreutil.callbackOnFinishSchedule.Schedule"]

/-- the lock-table objects behind each object of `mode=hammer` -/
def hammerLocks : String → List String
  | "mpnext" => [lockGs]
  | "mprand" => [lockRnd]
  | "mpboth" => [lockGs, lockRnd]
  | "strrand" => ["lib/str.randSource"]
  | "tmplfuncs" => ["lib/str.randSource"]
  | "tmplhttp" => ["components/providers/scenario/http/templater.TextTemplater.templatesCache", "lib/str.randSource"]
  | "tmplhtml" => ["components/providers/scenario/http/templater.HTMLTemplater.templatesCache", "lib/str.randSource"]
  | "tmplgrpc" => ["components/guns/grpc/scenario.TextTemplater.templatesCache", "lib/str.randSource"]
  | "clientpool" => [lockPoolI, "core/clientpool.Pool.pool"]
  | "nextid" => ["components/providers/base.ProviderBase.idCounter"]
  | "samplepool" => ["core/aggregator/netsample.samplePool"]
  | "dnscache" => ["lib/netutil.SimpleDNSCache.hostToAddr"]
  | "schedonce" => schedDoAt ++ schedCallback
  | "schedline" => schedDoAt ++ schedCallback
  | "schedunlim" => ["core/schedule.unlimitedSchedule.finish", "core/schedule.StartSync.started"] ++ schedCallback
  | "schedcomp" => ["core/schedule.compositeSchedule.scheds", "core/schedule.compositeSchedule.leftAfter",
      "core/schedule.compositeSchedule.started", "core/schedule.unlimitedSchedule.finish"] ++ schedDoAt ++ schedCallback
  | _ => []

def judgeTable (tbl : List C11LockRow) : String :=
  match badSiteAny tbl with
  | some r => s!"fail:unguarded:{siteText r}"
  | none => "ok"

/-- package-level variables that are written after `init` only by the start-up API — plugin and resolver registration,
config-hook registration and the lazily compiled hook table of `core/config` — which pandora runs on one goroutine
before any pool starts (the driver serialises its own set-up calls for the same reason) -/
def setupOnlyVars : List String := [
  "core/config.compiledHook", "core/config.hooks", "core/config.hooksNeedCompile",
  "core/import.dataSinkConfigHooks", "core/import.dataSourceConfigHooks",
  "core/plugin.defaultRegistry", "lib/confutil.resolvers"
]

/-- a writer entry is (function, guard of the write as text) -/
def writerGuarded (w : String × String) : Bool := w.2 != ".none"

def pkgVarOk (v : String × String × List (String × String)) : Bool :=
  v.2.2.all writerGuarded || setupOnlyVars.contains v.1

def judgePkgVars (vs : List (String × String × List (String × String))) : String :=
  match vs.find? (fun v => !pkgVarOk v) with
  | some v => s!"fail:unguarded-global:{v.1} ({v.2.1}) is written by {((v.2.2.filter fun w => !writerGuarded w).map (·.1)).headD ""} without protection"
  | none => "ok"

/-- round 6: a package-level variable of a COMPONENT package (`components/…`: providers, guns, their decoders, templaters,
pre- and postprocessors) is one object for every pool of the process — whatever it caches or counts is shared by pools
that have nothing to do with each other (two pools whose ammo files use the same scenario and request names …). The
types reviewed as harmless there: error values, a `sync.Once` of an import function, a `sync.Pool`, the frozen jsoniter
configuration. Anything else (a templater, a cache, a component instance used as a default) is reported. -/
def componentVarTypesReviewed : List String := ["error", "*sync.Once", "*sync.Pool", "jsoniter.API"]

/-- `components/…` (a prefix test the kernel can evaluate) -/
def inComponents (name : String) : Bool := name.toList.take 11 == "components/".toList

def componentVarOk (v : String × String × List (String × String)) : Bool :=
  !inComponents v.1 || componentVarTypesReviewed.contains v.2.1

def judgeComponentVars (vs : List (String × String × List (String × String))) : String :=
  match vs.find? (fun v => !componentVarOk v) with
  | some v => s!"fail:process-wide-component:{v.1} ({v.2.1}) is ONE object for every pool of the process: what it caches or counts is shared by all providers / guns built from that package"
  | none => "ok"

/-- round 6: the functions that may call a method the lock-facts extractor takes as set-up only (`setup` of lockTargets in
gen/area_locks.go: writes of such a method do not make a field mutable in the table) — constructors of the shared client
pool on the warm-up path, the decode functions that build a scenario definition, the provider's `Run` before the first
delivery (the channel send orders it before every `Acquire`) -/
def setupCallersReviewed : List String := [
  "components/guns/grpc.Gun.prepareClientPool", "components/guns/http.BaseGun.prepareClientPool",
  "components/providers/http/provider.Provider.Run",
  "components/providers/scenario/config.ExtractVariableStorage",
  "components/providers/scenario/grpc.convertConfigToStep", "components/providers/scenario/http.convertConfigToRequest",
  "components/providers/scenario/import.NewAssertResponsePostprocessor",
  "components/providers/scenario/import.NewGRPCAssertResponsePostprocessor"
]

def setupCallerOk (r : String × String) : Bool := setupCallersReviewed.contains r.2

def judgeSetupCallers (rs : List (String × String)) : String :=
  match rs.find? (fun r => !setupCallerOk r) with
  | some r => s!"fail:setup-call:{r.1} is called by {r.2}: the lock facts take that method as set-up only (its writes are not guarded), and this caller is not one of the reviewed set-up functions"
  | none => "ok"

/-! ### reference flows on the instance-facing side of the http provider (`Gen.Locks.ammoFlows`) -/

/-- a regenerated row: (function, kind of reference, class of destination, destination, source) -/
abbrev FlowRow := String × String × String × String × String

/-- stores of a caller's reference that were reviewed: `EnrichRequestWithHeaders` enters the VALUE SLICES of the decoded
header into the request's own map (`req.Header[key] = values`): requests built from one decoded ammo read the same
slices and never write them (`Header.Add` appends to a slice without spare capacity, i.e. into a new array; `mode=ammo`
snapshots the whole backing array around every step of another instance) -/
def reviewedFlows : List FlowRow := [
  ("components/providers/http/util.EnrichRequestWithHeaders", "slice", "store", "param0.Header[]", "param1[]"),
  -- round 4 (grpc/json provider): `Acquire` hands on the pooled ammo its channel delivers — an object that changes hands
  -- (the provider goroutine took it from the pool and gave it to the channel; whoever receives it owns it until `Release`:
  -- hand-over words + `C11_owned_exclusive`; `mode=alias` / `mode=ammo` check that outstanding ammo are distinct objects)
  ("components/providers/grpc.Provider.Acquire", "ptr", "return", "0", "recv.Sink[]")
]

/-- no map of the caller (the decoded ammo's header, the provider's configuration) is kept by what `Acquire` builds; a
slice / pointer of the caller is stored — or returned: results of calls are taken as fresh by the rows of the callers —
only where reviewed (handing one to a constructor or a library call is what the callee's own row, or the dynamic aliasing
walk, accounts for) -/
def flowOk (r : FlowRow) : Bool :=
  r.2.1 != "map" && (r.2.2.1 != "store" && r.2.2.1 != "global" && r.2.2.1 != "chan" && r.2.2.1 != "return" || reviewedFlows.contains r)

def judgeFlows (flows : List FlowRow) : String :=
  match flows.find? (fun r => !flowOk r) with
  | some r =>
    if r.2.1 == "map" then s!"fail:aliased-map:{r.1} puts {r.2.2.2.2} (a map of its caller) into {r.2.2.1}:{r.2.2.2.1}: the requests built from one decoded ammo share a map that middlewares write"
    else if r.2.2.1 == "return" then s!"fail:aliased-ref:{r.1} returns {r.2.2.2.2} (a {r.2.1} that belongs to its receiver / caller) as result {r.2.2.2.1}: every caller gets the same object"
    else s!"fail:aliased-ref:{r.1} stores {r.2.2.2.2} (a {r.2.1} of its caller) in {r.2.2.2.1}"
  | none => "ok"

/-- a regenerated write: (function, origin of the object written, destination, how) -/
abbrev WriteRow := String × String × String × String

/-- round 4: writes through a receiver that were reviewed: the grpc/json provider stamps the id on the pooled ammo its
channel has just delivered to this very `Acquire` — the ammo changes hands through the channel, the receiving instance is
its only owner until `Release` (the same object as in `reviewedFlows`) -/
def reviewedWrites : List WriteRow := [
  ("components/providers/grpc.Ammo.SetID", "recv", "recv.id", "assign")
]

/-- `Acquire` and everything it calls run in the instances' goroutines on objects all instances use (the provider, its
middlewares, a decoded ammo or a scenario definition that is delivered again): they may write only what every call chain
hands them as something the caller made itself — the request being built, the clone of a scenario just made (`own-recv`:
a method whose receiver every call site binds to the result of a call) — or an atomic value -/
def writeOk (w : WriteRow) : Bool := w.2.1 == "param" || w.2.1 == "own-recv" || w.2.2.2 == "atomic" || reviewedWrites.contains w

def judgeWrites (ws : List WriteRow) : String :=
  match ws.find? (fun w => !writeOk w) with
  | some w => s!"fail:acquire-writes-shared:{w.1} writes {w.2.2.1} ({w.2.2.2}), which is part of {if w.2.1 == "recv" then "its receiver" else "a receiver up the call chain"}: an object every instance's Acquire uses"
  | none => "ok"

/-- memory of a pooled object that is put back by the function that hands the memory out (`Gen.Locks.pooledEscapes`):
as a program of the ownership model the function takes the object (`Get`), gives its memory to the caller and gives it
to the pool as well — a second `give` of what it no longer holds -/
def escapeOps : List OOp := [.take 0, .own ⟨0, true, 0⟩, .give 0, .give 0]

def judgeEscapes (es : List (String × String × String)) : String :=
  match es with
  | [] => "ok"
  | (f, v, e) :: _ => s!"fail:pooled-escape:{f} puts {v} back into its sync.Pool and hands its memory out all the same ({e})"

/-- everything `gen -area locks` re-extracted from the source of the tree under check -/
def judgeStatic (tbl : List C11LockRow) (cs : List C11Closure) (sites : List (String × String × String))
    (vars : List (String × String × List (String × String))) (flows : List FlowRow := [])
    (escapes : List (String × String × String) := []) (writes : List WriteRow := []) : String :=
  match judgeTable tbl with
  | "ok" => (match judgeClosures cs with
    | "ok" => (match judgeSites sites with
      | "ok" => (match judgePkgVars vars with
        | "ok" => (match judgeFlows flows with
          | "ok" => (match judgeEscapes escapes with
            | "ok" => judgeWrites writes
            | v => v)
          | v => v)
        | v => v)
      | v => v)
    | v => v)
  | v => v

/-! ### isolation of variables (mode=isolate) -/

structure IsolateObs where
  /-- per shot, what it echoed when the instances shot one after the other -/
  together : List String
  /-- per shot, what it echoes as the only shot of a fresh pool (same responses) -/
  solo : List String

def echoFields (e : String) : List String := (e.splitOn "/").flatMap (·.splitOn ",")

def judgeIsolate (o : IsolateObs) : String :=
  if o.together.length != o.solo.length then s!"fail:crash:{o.together.length} shots together, {o.solo.length} alone"
  else match (o.together.zip o.solo).zipIdx.find? (fun ((a, b), _) => a != b) with
    | none => "ok"
    | some ((a, b), j) =>
      match ((echoFields a).zip (echoFields b)).find? (fun (x, y) => x != y) with
      | some (x, y) => s!"fail:cross-instance:shot {j} sent [{x}] after the other instances' shots, [{y}] when it is the only shot"
      | none => s!"fail:cross-instance:shot {j} sent something else after the other instances' shots than alone"

/-! ### the provider's side: ammo held by one instance while the others acquire, shoot and release (mode=ammo) -/

structure AmmoObs where
  /-- per delivery (in order): content when `Acquire` returned it / when its instance shot it / of the same file position
  on the first pass of a fresh one-instance pool -/
  acq : List String
  shot : List String
  solo : List String
  /-- units reachable from the ammo other instances held that changed during a step of an instance -/
  altered : List String
  /-- units two outstanding ammo had in common -/
  shared : List String

/-- first position where two lists differ -/
def firstDiff (a b : List String) : Option (Nat × String × String) :=
  ((a.zip b).zipIdx.find? fun ((x, y), _) => x != y).map fun ((x, y), j) => (j, x, y)

/-- a unit instances may write: classed `sync` in the inventory (the `[next]` counters and the `[rand]` source of a
scenario's data-source iterator), or an atomic value -/
def syncLabel (l : String) : Bool :=
  match classOf l with
  | some (.sync _) => true
  | _ => (l.splitOn "(*atomic.").length == 2

def judgeAmmo (o : AmmoObs) : String :=
  -- a write to memory another instance's ammo consists of (schedule-independent witness), unless synchronised
  match o.altered.find? (fun l => !syncLabel l) with
  | some l => s!"fail:shared-write:{l} of an ammo held by one instance changed during a step of another instance"
  | none =>
    if o.acq.length != o.shot.length || o.acq.length != o.solo.length then
      s!"fail:crash:{o.acq.length} deliveries, {o.shot.length} shot, {o.solo.length} reference"
    else match firstDiff o.acq o.shot with
    | some (j, x, y) => s!"fail:ammo-altered:delivery {j} was [{x}] when acquired and [{y}] when its instance shot it"
    | none => match firstDiff o.shot o.solo with
      | some (j, x, y) => s!"fail:cross-instance:delivery {j} is [{x}] after the other instances' steps, [{y}] on the first pass of a fresh pool"
      | none => "ok"

/-- labels two outstanding ammo may share in this configuration; anything else is outside the model -/
def ammoSharedAllowed (c : PoolCfg) : List String := (ammoInventory.filter (·.on c)).map (·.label)

/-! ### the shared counters at extreme values (mode=wrap, round 4) -/

/-- what the real code made of each use: a row number, `err`, or `panic:<text>`. The property: no use of a shared
counter faults, every row handed out is a row of the slice -/
def judgeWrap (n : Int) (got : List String) : String :=
  match got.find? (fun g => g.startsWith "panic:") with
  | some g => s!"fail:fatal:a use of the shared counter panicked ({g.drop 6}) — an index outside the {n} rows"
  | none =>
    match got.find? (fun g => g != "err" && (match g.toInt? with
                                              | some i => !(decide (0 ≤ i) && decide (i < n))
                                              | none => true)) with
    | some g => s!"fail:bad-index:{g} is not a row of {n}"
    | none => "ok"

def showIdx : Option Int → String
  | none => "err"
  | some i => toString i

/-- the model's prediction of `mode=wrap`, computed with the bodies regenerated from the source -/
def wrapPrediction (obj idx : String) (n : Int) (ctr calls : Nat) : List (Option Int) :=
  match obj with
  | "nextiter" =>
    Pandora.Gen.Locks.calcIndexBody "next" 0 true n (Pandora.Gen.Locks.iterNextBody false 0) 0 ::
      (List.range calls).map fun j =>
        Pandora.Gen.Locks.calcIndexBody "next" 0 true n (Pandora.Gen.Locks.iterNextBody true ((ctr + j + 1 : Nat) : Int)) 0
  | "clientpool" =>
    Pandora.Gen.Locks.poolNextBody n 1 :: (List.range calls).map fun j => Pandora.Gen.Locks.poolNextBody n ((ctr + j + 1 : Nat) : Int)
  | _ =>
    match idx.toInt? with
    | some a => [Pandora.Gen.Locks.calcIndexBody idx a false n 0 0]
    | none => [Pandora.Gen.Locks.calcIndexBody idx 0 true n 0 0]

/-! ### results handed out by the shared components of a scenario definition (mode=retain) -/

/-- `drift` entries are `j@i`: the result of call `j` was no longer what it was when call `i` returned -/
def judgeRetain (drift : List String) : String :=
  match drift with
  | [] => "ok"
  | d :: _ => match d.splitOn "@" with
    | [j, i] => s!"fail:result-altered:what call {j} returned to its instance changed during call {i} (made for another request)"
    | _ => s!"fail:result-altered:{d}"

/-- `c11lib.Enc`: a single token -/
def hexDigit (n : Nat) : Char := if n < 10 then Char.ofNat (48 + n) else Char.ofNat (55 + n)

def encChar (c : Char) : String :=
  if c == ' ' then "~"
  else if c.isAlphanum || c == '_' || c == '.' || c == '-' || c == '{' || c == '}' then c.toString
  else s!"%{hexDigit (c.toNat / 16)}{hexDigit (c.toNat % 16)}"

def enc (s : String) : String := String.join (s.toList.map encChar)

/-- what a text template prints for a variable that was never set -/
def noValue := "<no value>"

/-- the gRPC isolate scenario: the greeting of the first answer (`none` = an empty greeting, which proto3 JSON omits)
comes back in the metadata and in the payload of the second call -/
def isolateEchoGrpc (tok : Option String) : String :=
  let v := tok.getD noValue
  s!"echo:{enc v},g:gg,name:{enc v}"

/-- the model's prediction of what one shot of the isolate scenario echoes, from the X-Tok header of its first response
(`none` = no such header) and the modifier chains of the var/header mapping: step 2 sends every extracted variable and
a body built from the JSON variable; step 3 sends the title it found in step 2's HTML answer (which the target built
from the `raw` variable it was sent) -/
def isolateEcho (chains : List (List Modifier)) (tok : Option String) : Option String :=
  let rendered (v : Option String) := v.getD noValue
  let raw := rendered tok
  let vals := chains.mapM fun ms => match tok with
    | none => some noValue
    | some t => (applyChain ms t.toList).map fun r => String.ofList r
  vals.map fun vs =>
    let fields := vs.zipIdx.map fun (v, i) => s!"v{i}:{enc v}"
    let body := enc "{\"k\":\"k123\",\"g\":\"gg\"}"
    s!"raw:{enc raw},{",".intercalate fields},body:{body}/raw:{enc raw},title:{enc ("T-" ++ raw)},body:"

/-! ### the regenerated loop body of `instance.Run` as an observation (`Gen.InstLoop.iterBody`, round 6) -/

def actName : Pandora.Model.C03Loop.Act → String
  | .acq => "Acquire" | .empty => "Acquire(none)" | .tokOk => "Wait" | .tokEnd => "Wait(finished)"
  | .reqAdd => "Request.Add" | .shoot => "Shoot" | .respAdd => "Response.Add" | .discard => "Report(discarded)"
  | .rel => "Release" | .bad why => s!"?({why})"

/-- the first answer of the environment under which one iteration of the loop body breaks the ownership discipline of the
ammo (`Model/C11Pool.actsOkFrom`: Acquire, then Shoot / Release only while the ammo is held, nothing held at the end) -/
def loopBad (body : List Pandora.Model.C03Loop.Instr) : Option (Bool × Bool × Bool) :=
  let bs := [true, false]
  let cases := bs.flatMap fun a => bs.flatMap fun w => bs.map fun f => (a, w, f)
  cases.find? (fun (a, w, f) => !Pandora.Model.C11Pool.actsOkFrom false (Pandora.Model.C11Pool.iterActs body a w f))

def judgeLoop (body : List Pandora.Model.C03Loop.Instr) : String :=
  match loopBad body with
  | none => "ok"
  | some (a, w, f) =>
    let acts := Pandora.Model.C11Pool.iterActs body a w f
    s!"fail:loop-discipline:one iteration of instance.Run (Acquire ok={a}, Wait ok={w}, fire={f}) does [{" ".intercalate (acts.map actName)}]: the ammo is shot or released while the instance does not hold it, or is still held at the end"

/-! ### several pools in one process (mode=pools, round 6) -/

/-- what one shot of the pool with tag `t` sends, according to ITS ammo file (`harness/cmd/c11/twopools.go`): request
`r…` rendered from the pool's own uri / header / body templates with the pool's own variable `v<tag>`, then request
`q…` — as the pool's target records it -/
def poolsEcho (t : String) : String :=
  let g := "v" ++ t
  s!"path:{enc ("/echo/p-" ++ t ++ "/" ++ g)},pool:{enc (t ++ "-" ++ g)},body:{enc ("b-" ++ t ++ "-" ++ g)}/path:{enc ("/echo/q-" ++ t)},two:{enc t},body:"

/-- the pool index a letter of `order` names -/
def poolsIndex (c : Char) : Nat := c.toNat - 'A'.toNat

/-- the prediction: sequential form — per shot what the pool that fires it sends; concurrent form — per pool (in order)
the one thing all its shots send (`-` for a pool that does not shoot) -/
def poolsExpected (tags : List String) (order : String) (par : Bool) : List String :=
  if par then
    tags.zipIdx.map fun (t, i) => if order.toList.any (fun c => poolsIndex c == i) then poolsEcho t else "-"
  else order.toList.map fun c => poolsEcho (tags.getD (poolsIndex c) "?")

/-- whatever a pool sends is a function of its own definition: a shot that sends what ANOTHER pool's templates say (or
anything else) has been altered by the other pool's instances -/
def judgePools (tags : List String) (order : String) (par : Bool) (sent : List String) : String :=
  let exp := poolsExpected tags order par
  if sent.length != exp.length then s!"fail:crash:{sent.length} observations for {exp.length} expected"
  else match (sent.zip exp).zipIdx.find? (fun ((a, b), _) => a != b) with
    | none => "ok"
    | some ((a, b), j) =>
      let who := if par then s!"pool {Char.ofNat ('A'.toNat + j)}"
                 else s!"shot {j} (pool {(order.toList.getD j '?')})"
      let other := (tags.zipIdx.find? fun (t, _) => (a.splitOn "+").any (· == poolsEcho t) && poolsEcho t != b).map
        fun (_, k) => s!" — the definition of pool {Char.ofNat ('A'.toNat + k)}"
      match ((echoFields a).zip (echoFields b)).find? (fun (x, y) => x != y) with
      | some (x, y) => s!"fail:cross-pool:{who} sent [{x}], its own ammo file says [{y}]{other.getD ""}"
      | none => s!"fail:cross-pool:{who} sent [{a.take 120}], its own ammo file says [{b.take 120}]"

end Pandora.Spec.C11
