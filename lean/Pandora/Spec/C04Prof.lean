/-
C04, round 6 — the property judged against the PROFILE, not against what the schedule handed out.

`Spec.C04.judge` compares every action with the token the real schedule gave to the instance; a schedule that hands out
instants EARLIER than the load profile says (a steeper line, a start instant that was never set) makes every request early
without any action preceding its token.  Here the configured profile itself is the reference: `Pandora.Spec.C01` (read-only
import: exact rational integral of the configured rate, C01's acceptance test with its stated float tolerance) says by which
offset the profile has scheduled its operation number m; the m-th action (fire or discard report, in order of time) of the
instances that share a schedule must not come before that.  Index-free on purpose: it needs no knowledge of which token went to
which instance, only "at no instant have more requests been fired than the profile had scheduled by then".

Also here: `judgeRace` (mode=race: many instances take their FIRST token from a fresh, lazily started schedule at the same
moment; the reference start is the instant just before they were released).
-/
import Pandora.Spec.C01
import Pandora.Spec.C04

namespace Pandora.Spec.C04
open Pandora.Spec Pandora.Model.C04

abbrev Part := Pandora.Spec.C01.Part

/-- operation `m` (0-based, counted over the whole profile) located with the LARGEST accepted count of every part (= the
earliest admissible place): (part, index inside the part, offset of the part's start) -/
def locateOp : List Part → Int → Int → Option (Part × Int × Int)
  | [], _, _ => none
  | p :: ps, m, off =>
    let c := p.countRange.2
    if m < c then some (p, m, off) else locateOp ps (m - c) (off + p.dur)

/-- has the profile scheduled its operation `m` by `u` ns after its start (within C01's float tolerance, one ns of slack)?
`true` for an operation the profile does not hold (the count checks speak about that) -/
def dueBy (parts : List Part) (m u : Int) : Bool :=
  match locateOp parts m 0 with
  | none => true
  | some (p, k, off) =>
    if u < off then false
    else match p with
      | .once _ => true
      | _ => Q.le (Q.ofInt k - p.delta k) (p.cum (u - off + 1))

def sortByRet (l : List Entry) : List Entry := l.mergeSort (fun a b => decide (a.ret ≤ b.ret))

def isActed (e : Entry) : Bool := e.dec == 'F' || e.dec == 'D'

/-- the first action that comes before the profile has scheduled that many operations; `start` = the profile's start -/
def firstEarly (parts : List Part) (start : Int) (es : List Entry) : Option (Nat × Entry) :=
  ((sortByRet (es.filter isActed)).zipIdx.find? fun (e, m) => !dueBy parts (m : Int) (e.ret - start)).map fun (e, m) => (m, e)

def sumLo (parts : List Part) : Int := (parts.map fun p => p.countRange.1).foldl (· + ·) 0
def sumHi (parts : List Part) : Int := (parts.map fun p => p.countRange.2).foldl (· + ·) 0

/-- the first operation of the profile is certainly at offset 0 (then the earliest token IS the profile's start) -/
def startsAtZero : List Part → Bool
  | p :: _ => p.countRange.1 ≥ 1
  | [] => false

def minTok (es : List Entry) : Int := ((sortInts (es.map (·.tok))).head?).getD 0

/-- one schedule (the entries of all instances that share it) against the profile -/
def judgeSchedule (parts : List Part) (i : Input) (complete : Bool) (es : List Entry) : Option String :=
  if es.isEmpty || !startsAtZero parts then none else
  let start := minTok es
  match firstEarly parts start es with
  | some (m, e) =>
    some s!"fail:early:action number {m} of the schedule (0-based, in order of time) at {e.ret - start} ns after the profile's start, but the configured profile has not scheduled that many operations by then; {render e}"
  | none =>
    let n : Int := es.length
    if complete && n < sumLo parts then
      if i.discard then some s!"fail:lost-token:the configured profile holds at least {sumLo parts} operations, the schedule handed out {n}"
      else some s!"fail:not-all-fired:the configured profile holds at least {sumLo parts} operations, {n} were fired"
    else if n > sumHi parts then
      some s!"fail:lost-token:the configured profile holds at most {sumHi parts} operations, the schedule handed out {n}"
    else none

/-- `Spec.C04.judge`, then the same run against the configured profile (`parts = none`: a profile this oracle cannot read) -/
def judgeFull (parts : Option (List Part)) (i : Input) (o : Obs) : String :=
  let v := judge i o
  if v != "ok" then v else
  match parts with
  | none => v
  | some ps =>
    if i.mode != "engine" then v else
    let complete := !i.cancelled && o.err == "nil"
    let scheds : List (List Entry) := if i.perInst then o.seqs else [allEntries o]
    match scheds.findSome? (judgeSchedule ps i complete) with
    | some f => f
    | none => v

/-! ### mode=race -/

structure Round where
  /-- instant just before the instances were released (ns on the observation's axis) -/
  rs : Int
  seqs : List (List Entry)
deriving Repr

/-- One round: `inst` instances, each with a Waiter of its own, take their first token from a fresh lazily started schedule at
the same moment (discard_overflow on). The profile starts at a clock reading taken during the run, so not before `rs`:
* no action before its token (`early`);
* the m-th action not before the profile, started at `rs`, has scheduled operation m (`early`);
* a discard report less than 2 s after `rs` is a request less than 2 s late that was discarded (`fresh-discarded`). -/
def judgeRound (parts : List Part) (r : Round) : Option String :=
  let es := r.seqs.flatMap id
  match (es.filter isActed).find? (fun e => e.ret < e.tok) with
  | some e => some s!"fail:early:{render e}"
  | none =>
  match (es.filter isActed).find? (fun e => e.dec == 'D' && e.ret - r.rs < maxOverdue) with
  | some e =>
    some s!"fail:fresh-discarded:discarded {(e.ret - r.rs) / 1000} us after the instances were released: no operation of the profile is 2 s late by then; {render e}"
  | none =>
  match firstEarly parts r.rs es with
  | some (m, e) =>
    some s!"fail:early:action number {m} of the round (0-based) {(e.ret - r.rs) / 1000} us after the instances were released, but the configured profile has not scheduled that many operations by then; {render e}"
  | none => none

def judgeRace (parts : List Part) (rounds : List Round) : String :=
  if rounds.isEmpty then "skip:no-round-observed" else
  match rounds.findSome? (judgeRound parts) with
  | some v => v
  | none => "ok"

end Pandora.Spec.C04
