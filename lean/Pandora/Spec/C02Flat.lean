/-
C02 — the abstract specification.

A schedule tree MEANS the flat succession of its leaf parts (`flat : Tree → List Part`).  Started at `t` the
parts get absolute times (`inst`): every part starts exactly at the finish time of the part before it.  The
started schedule is the list of `Seg`ments; `segNext` hands out the first token that is still available
(finite parts: their remaining tokens in order; a time-bounded unlimited part `unl s f`: the clock reading,
never before its start `s`, while the clock is before `f`), else the finish time of the last part.  Nothing
is ever dropped from the list, so a token can only be handed out by being popped: exactly once.
`segLeft` is pure: the exact number of tokens still to come when it is known, -1 iff an unlimited part at or
after the current one has not finished.  No locks, no `leftAfter` cache, no retries, no shifting.
-/
import Pandora.Model.C02Sched

namespace Pandora.Spec.C02
open Pandora.Model.C02

/-- an unstarted leaf part -/
inductive Part where
  | fin (offs : List Int) (dur : Int)
  | unl (dur : Int)
deriving Repr, DecidableEq

/-- a part with absolute times: remaining tokens and finish time / start and finish time -/
inductive Seg where
  | fin (toks : List Int) (f : Int)
  | unl (s f : Int)
deriving Repr, DecidableEq

def Part.dur : Part → Int
  | .fin _ d => d
  | .unl d => d

/-- finish time of a chain of parts started at `t` -/
def endOf : List Part → Int → Int
  | [], t => t
  | p :: r, t => endOf r (t + p.dur)

/-- start a chain of parts at `t`: each part starts at the finish time of the part before it -/
def inst : List Part → Int → List Seg
  | [], _ => []
  | .fin offs dur :: r, t => .fin (offs.map (t + ·)) (t + dur) :: inst r (t + dur)
  | .unl dur :: r, t => .unl t (t + dur) :: inst r (t + dur)

/-- tokens of parts that are not started yet: exact, or -1 if an unlimited part is among them -/
def partsLeft : List Part → Int
  | [] => 0
  | .unl _ :: _ => -1
  | .fin offs _ :: r => let u := partsLeft r; if u < 0 then -1 else (offs.length : Int) + u

/-- the same on segments that are not reached yet -/
def pendSegs : List Seg → Int
  | [] => 0
  | .unl _ _ :: _ => -1
  | .fin toks _ :: r => let u := pendSegs r; if u < 0 then -1 else (toks.length : Int) + u

/-- finish time of the last segment (`d` for the empty list) -/
def finOf : List Seg → Int → Int
  | [], d => d
  | .fin _ f :: r, _ => finOf r f
  | .unl _ f :: r, _ => finOf r f

/-- `Next()` of the flat spec at clock reading `now`; `l` = finish time of the part before -/
def segNextAux (l : Int) : List Seg → Int → List Seg × Int × Bool
  | [], _ => ([], l, false)
  | .fin (t :: ts) f :: r, _ => (.fin ts f :: r, t, true)
  | .fin [] f :: r, now => let x := segNextAux f r now; (.fin [] f :: x.1, x.2)
  | .unl s f :: r, now =>
      if now < f then (.unl s f :: r, max now s, true)
      else let x := segNextAux f r now; (.unl s f :: x.1, x.2)

def segNext (segs : List Seg) (now : Int) : List Seg × Int × Bool := segNextAux 0 segs now

/-- `Left()` of the flat spec: the head of the list is the current (started) part -/
def segLeft : List Seg → Int → Int
  | [], _ => 0
  | .fin toks _ :: r, now =>
      if toks.isEmpty then segLeft r now
      else let u := pendSegs r; if u < 0 then -1 else (toks.length : Int) + u
  | .unl _ f :: r, now => if now < f then -1 else segLeft r now

/-- nothing more can come from these segments at clock `clk` or later -/
def Dead : List Seg → Int → Prop
  | [], _ => True
  | .fin toks _ :: r, clk => toks = [] ∧ Dead r clk
  | .unl _ f :: r, clk => f ≤ clk ∧ Dead r clk

/-- tokens of the finite parts still to be handed out, in order -/
def finToks : List Seg → List Int
  | [] => []
  | .fin toks _ :: r => toks ++ finToks r
  | .unl _ _ :: r => finToks r

/-! ### the abstract object: unstarted parts, or running segments -/

inductive Abs where
  | unstarted (parts : List Part)
  | running (segs : List Seg)
deriving Repr, DecidableEq

def absStart : Abs → Int → Except String Abs
  | .unstarted parts, t => .ok (.running (inst parts t))
  | .running _, _ => .error alreadyStarted

/-- the segments `Next()` at `now` works on: an unstarted schedule is started by it at `now` -/
def Abs.segsAt : Abs → Int → List Seg
  | .unstarted parts, now => inst parts now
  | .running segs, _ => segs

def absNext (a : Abs) (now : Int) : Abs × Int × Bool :=
  let x := segNext (a.segsAt now) now
  (.running x.1, x.2)

def absLeft : Abs → Int → Int
  | .unstarted parts, _ => partsLeft parts
  | .running segs, now => segLeft segs now

/-- the same sequence of calls on the abstract object -/
def absRun : Abs → List (SOp × Int) → List Obs
  | _, [] => []
  | a, (.start t, _) :: r =>
    match absStart a t with
    | .ok a' => .started :: absRun a' r
    | .error e => [.err e]
  | a, (.next, now) :: r => .tok (absNext a now).2.1 (absNext a now).2.2 :: absRun (absNext a now).1 r
  | a, (.left, now) :: r => .cnt (absLeft a now) :: absRun a r

/-- clock readings of a sequence of calls never go back -/
def ClockSeq : Int → List (SOp × Int) → Prop
  | _, [] => True
  | clk, e :: r => clk ≤ e.2 ∧ ClockSeq e.2 r

/-! ### what a tree denotes -/

mutual
def flat : Tree → List Part
  | .fin offs dur => [.fin offs dur]
  | .unl dur => [.unl dur]
  | .comp cs => match flatList cs with
      | [] => [.fin [] 0]            -- NewComposite() = NewOnce(0)
      | ps => ps
def flatList : List Tree → List Part
  | [] => []
  | t :: ts => flat t ++ flatList ts
end

/-- well-formed leaf: offsets sorted, inside [0, dur] (what once/const/line produce); unlimited: dur ≥ 0 -/
def sortedB : List Int → Bool
  | [] => true
  | [_] => true
  | a :: b :: r => decide (a ≤ b) && sortedB (b :: r)

def Part.wf : Part → Bool
  | .fin offs dur => sortedB offs && offs.all (fun o => decide (0 ≤ o) && decide (o ≤ dur)) && decide (0 ≤ dur)
  | .unl dur => decide (0 ≤ dur)

end Pandora.Spec.C02
