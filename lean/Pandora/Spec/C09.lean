/-
C09 — the property as an executable predicate over what the target recorded.

Declarative expectations only (no merge code of the model is used here):
  * a header name defined by the ammo entry arrives with the ammo's value(s), otherwise with the configured
    value(s) of the `headers` option, otherwise not at all (names compared after MIME canonicalisation);
  * Host: the ammo's (URL host, `host` field or Host line) when it has one, else the configured one, else the
    target's host;
  * method, request-URI, body bytes unchanged; TLS iff `ssl`; everything arrives at the target;
  * connections: ≤ instances with keep-alive, = requests without (judged when neither the ammo nor the option
    defines a `Connection` header: an explicit `Connection: close` is the ammo's own demand — and when the gun's
    configuration itself does not stand against reuse: `reuseExpected`, stated on the OPTIONS AS GIVEN and the
    documented defaults of docs/eng/http-generator.md, not on the model's transport).
Headers the transport manages on its own (Content-Length, Transfer-Encoding, Connection, Trailer, a defaulted
User-Agent) are not compared; User-Agent is single-valued in net/http (first value is written).
-/
import Pandora.Model.C09

namespace Pandora.Spec.C09
open Pandora.Model.C09

/-- values of the lines whose name canonicalises to `n`, in order -/
def valsOf (lines : List (Str × Str)) (n : Str) : List Str :=
  (lines.filter fun kv => canon kv.1 = n).map (·.2)

def lastOf : List Str → List Str
  | [] => []
  | [v] => [v]
  | _ :: t => lastOf t

/-- the value(s) the ammo entry gives header `n`: HTTP field lines of a raw request accumulate; `[k: v]` lines and
JSON members mean "set", the last one stands -/
def fileVals (f : Format) (lines : List (Str × Str)) (n : Str) : List Str :=
  match f with
  | .raw => valsOf lines n
  | _ => lastOf (valsOf lines n)

/-- header `n` as it must arrive: the ammo's when the ammo defines it, else the configured, else absent -/
def expHeader (f : Format) (conf lines : List (Str × Str)) (n : Str) : Option (List Str) :=
  match fileVals f lines n with
  | [] => (match valsOf conf n with
    | [] => none
    | vs => some vs)
  | vs => some vs

/-- the header lines as the format reads them: HTTP field lines of a raw request lose the optional whitespace
around the value; `[k: v]` lines are already trimmed by DecodeHeader, JSON members are taken as they are -/
def seenLines (f : Format) (lines : List (Str × Str)) : List (Str × Str) :=
  match f with
  | .raw => lines.map fun kv => (kv.1, trimHTTP kv.2)
  | _ => lines

def urlHost (f : Format) (e : Entry) : Str := (splitURLv (viaOf f) (urlOf f e)).1

/-- the request-URI the entry must arrive with: its URI as the format's parser reads it (`URL.RequestURI()`); for an
origin-form URI (one leading `/`) that is the URI itself, see `C09_origin_form_unchanged` -/
def wireURI (f : Format) (e : Entry) : Str := (splitURLv (viaOf f) (urlOf f e)).2

/-- the Host line of the entry, if any -/
def fileHost (f : Format) (lines : List (Str × Str)) : Option Str :=
  match f with
  | .raw => (valsOf lines hostKey).head?
  | _ => (valsOf lines hostKey).getLast?

/-- configured Host (first value), else the target's host `t` -/
def confHost (conf : List (Str × Str)) (t : Str) : Str :=
  match valsOf conf hostKey with
  | c :: _ => if c = [] then t else c
  | [] => t

/-- the ammo gives a Host at all (URL host or Host line, possibly empty) -/
def ammoHasHost (f : Format) (lines : List (Str × Str)) (e : Entry) : Bool :=
  urlHost f e != [] || (fileHost f lines).isSome

/-- the ammo's non-empty Host, `[]` when it gives none (or an empty one) -/
def ammoHost (f : Format) (lines : List (Str × Str)) (e : Entry) : Str :=
  if urlHost f e ≠ [] then urlHost f e else (fileHost f lines).getD []

/-- acceptable Host values: the ammo's when non-empty; without any the configured one (the first of several is what
the model proves; any of them is accepted) or else the target's; when the ammo gives an EMPTY Host line either
reading (no Host / empty Host) is accepted -/
def hostOk (f : Format) (conf lines : List (Str × Str)) (e : Entry) (t : Str) (wire : Str) : Bool :=
  if ammoHost f lines e ≠ [] then wire = ammoHost f lines e
  else if ammoHasHost f lines e then wire = t || wire = confHost conf t
  else wire = confHost conf t || (wire ≠ [] && (valsOf conf hostKey).contains wire)

/-- what the target recorded for one request -/
structure Rec where
  method : Str
  uri : Str
  host : Str
  tls : Bool
  header : List (Str × List Str)
  body : Str
  /-- major protocol version the target saw (informative: 2 for the http2 gun) -/
  major : Nat := 1
  deriving Repr

structure Obs where
  n : Nat
  shots : Nat
  conns : Nat
  runOk : Bool
  reqs : List Rec
  /-- connect gun: every CONNECT the target answered names the gun's target -/
  tunOk : Bool := true
  /-- requests that reached the decoy host the target redirects to -/
  decoy : Nat := 0
  deriving Repr

def managed (n : Str) : Bool :=
  n = hostKey || n = str "Content-Length" || n = str "Transfer-Encoding" || n = str "Connection" || n = str "Trailer"

def lookupRec (h : List (Str × List Str)) (n : Str) : Option (List Str) :=
  match h.find? (fun kv => kv.1 = n) with
  | some kv => some kv.2
  | none => none

/-- net/http writes one User-Agent line (the first value); other fields arrive with all their values -/
def expOnWire (n : Str) (vs : Option (List Str)) : Option (List Str) :=
  if n = userAgentKey then
    match vs with
    | some (v :: _) => some [v]
    | _ => none
  else vs

/-- one expected arrival -/
structure Want where
  f : Format
  conf : List (Str × Str)
  lines : List (Str × Str)
  e : Entry
  targetHost : Str
  ssl : Bool

def eqStr (a b : Str) : Bool := a = b

/-- first failing aspect of one recorded request against its expectation, "" = fine -/
def judgeReq (w : Want) (r : Rec) : String :=
  if r.method ≠ methodOf w.f w.e then "method:method token changed"
  else if r.uri ≠ wireURI w.f w.e then "uri:request-URI changed"
  else if r.body ≠ bodyOf w.f w.e then "body:body bytes changed"
  else if r.tls ≠ w.ssl then "scheme:scheme differs from the ssl option"
  else if !hostOk w.f w.conf w.lines w.e w.targetHost r.host then
    (if ammoHost w.f w.lines w.e ≠ [] then "precedence:Host given by the ammo did not arrive"
     else "host:Host is neither the configured one nor the target's host")
  else
    let names := (r.header.map (·.1)) ++ (w.lines.map fun kv => canon kv.1) ++ (w.conf.map fun kv => canon kv.1)
    let bad := names.find? fun n =>
      !managed n && lookupRec r.header n != expOnWire n (expHeader w.f w.conf w.lines n)
    match bad with
    | none => ""
    | some n =>
      if fileVals w.f w.lines n ≠ [] then "precedence:header defined by the ammo entry arrived with another value"
      else if valsOf w.conf n ≠ [] then "header:configured header did not arrive with its values"
      else "header:header arrived that neither the ammo nor the option defines"

def judgeAll : List Want → List Rec → String
  | [], [] => ""
  | w :: ws, r :: rs => let v := judgeReq w r; if v = "" then judgeAll ws rs else v
  | _, _ => "count:number of recorded requests"

/-- the gun options that the documentation says govern idle connections, as given in the config (`none` = not given):
`idle-conn-timeout`, `response-header-timeout` (ns), `max-idle-conns`, `max-idle-conns-per-host` -/
structure ReuseOpts where
  idle : Option Int := none
  rht : Option Int := none
  mic : Option Int := none
  mich : Option Int := none
  deriving Repr

/-- docs/eng/http-generator.md: "idle-conn-timeout … Zero means no limit. Default: 90s" -/
def docIdleConnTimeout : Int := 90 * 1000000000

/-- the configuration and the timing of the case leave the property's promise standing: no pause of an instance
reaches the idle timeout in force (the given one, else the documented 90s; ≤ 0 = no limit), no answer takes as long
as a given response-header-timeout, and no idle limit is negative. Otherwise more connections are the operator's
own demand, like `Connection: close` of the ammo. `tls-handshake-timeout` and the other options do not occur here. -/
def reuseExpected (o : ReuseOpts) (maxPause maxDelay : Nat) : Bool :=
  let idle := o.idle.getD docIdleConnTimeout
  (decide (idle ≤ 0) || decide ((maxPause : Int) < idle)) &&
  (match o.rht with
   | none => true
   | some v => decide (v ≤ 0) || decide ((maxDelay : Int) < v)) &&
  (match o.mic with
   | none => true
   | some v => decide (0 ≤ v)) &&
  (match o.mich with
   | none => true
   | some v => decide (0 ≤ v))

/-- the entry or the option says something about `Connection` -/
def mentionsConnection (w : Want) : Bool :=
  (w.lines.any fun kv => canon kv.1 = connKey) || (w.conf.any fun kv => canon kv.1 = connKey)

/-- verdict for a well-formed case. `match_` = the target kind (plain/TLS) fits the ssl option; `reuse` =
`reuseExpected` of the case's options and timing; `redirect` = the operator set `redirect: true` (requests that follow a
redirect of the target to another host are then his own demand; what the TARGET receives is judged all the same). -/
def judge (wants : List Want) (match_ : Bool) (ka : Bool) (inst : Nat) (o : Obs) (reuse : Bool := true)
    (redirect : Bool := false) : String :=
  if !match_ then
    (if o.n = 0 then "ok" else "fail:scheme:request arrived although the scheme does not fit the target")
  else if o.decoy ≠ 0 ∧ !redirect then "fail:target:a request reached a host that is not the gun's target (redirect followed)"
  else if !o.tunOk then "fail:target:the CONNECT tunnel does not name the gun's target"
  else if !o.runOk then "fail:run:provider failed on well-formed ammo"
  else if o.n = 0 ∧ wants ≠ [] then "fail:target:nothing arrived at the gun's target"
  else if o.n ≠ wants.length ∨ o.reqs.length ≠ o.n then s!"fail:count:{o.n} requests arrived, {wants.length} entries"
  else
    match judgeAll wants o.reqs with
    | "" =>
      if wants.any mentionsConnection then "ok"
      else if ka ∧ !reuse then "ok"
      else if ka ∧ o.conns > inst then s!"fail:conns:{o.conns} connections for {inst} instances with keep-alive"
      else if !ka ∧ o.conns ≠ o.n then s!"fail:conns:{o.conns} connections for {o.n} requests without keep-alive"
      else "ok"
    | v => "fail:" ++ v

end Pandora.Spec.C09
