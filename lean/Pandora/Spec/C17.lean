/-
C17 — the property as an executable predicate over what a configuration reader DID (core Lean only).

An observation is what `config.DecodeAndValidate` (followed by the first call of every created factory) or the CLI
config reader reported for one configuration; an expectation says what the property demands of it:

* `reject`   an unknown / misspelled key, a wrongly typed value, a value violating a constraint, a placeholder naming
             an unset variable or a missing property: the configuration must not be accepted
* `accept`   a valid configuration must be accepted
* `value`    … and the decoded field must hold the given value (a given option, or the default when nothing / null is given)
* `cast`     a field that is exactly one placeholder must hold the resolved text converted to the field's kind
             (`castExpect`), and must be rejected when the text is not a literal of that kind
* `meets`    a field given a value next to the bound of one of its documented constraints (`demandAll`): a value that
             meets every constraint must be accepted and stored, one that violates one must be rejected; values the
             documentation does not speak about (a port written `+80`, an IPv6 host, …) carry no demand
* `number`   a number given for a numeric option: stored as that number when the option's type can hold it (and the
             field's constraints allow it), rejected otherwise (`numberDemand`)
* `values`   several fields at once, also inside constructed components (the config every instance received)
* `disc`     the CLI reader: `discard_overflow` of every pool is what the pool says, and `true` when it says nothing
-/
import Pandora.Model.C17

namespace Pandora.Spec.C17
open Pandora.Model.C17

/-- what was observed -/
inductive Obs
  | rejected                    -- error from DecodeAndValidate / the reader / the first factory call
  | accepted (v : Option DVal)  -- accepted; the decoded root value when it was observed
  | discards (ds : List Bool)   -- CLI reader: accepted, `DiscardOverflow` of the pools
  | crashed                     -- the reader panicked
  | unstable                    -- decoding the same data a second time gave another outcome
  | unknown                     -- not an outcome of config decoding (constructor error, harness trouble)
  deriving Repr

/-- the value a field of kind `k` must get from a lone placeholder that resolves to `raw`; `none`: must be rejected -/
def castExpect (k : Kind) (raw : Str) : Option DVal :=
  match k with
  | .str => some (.str raw)
  | .bool => (parseBoolLit raw).map DVal.bool
  | .int bits => (parseIntLit raw).bind fun i => if intFits bits i then some (.int i) else none
  | .uint bits => (parseUintLit raw).bind fun n => if uintFits bits n then some (.uint n) else none
  | .float bits => (parseDecLit raw).bind fun d => (castFloat bits d).map DVal.float
  | .dur =>
    -- a plain integer is a number of nanoseconds (as for a YAML integer); otherwise Go duration syntax
    match (parseIntLit raw).bind fun i => if intFits 64 i then some (DVal.int i) else none with
    | some w => some w
    | none => (parseDuration raw).map DVal.int

/-! ## numbers: an option holds the number it is given, or the configuration is refused

A number written for a numeric option is either stored AS THAT NUMBER or it is an error: a number the option's type
cannot hold (a fractional one for an integer option, 300 for an int8, 2⁶³ or 1e19 for an int64 / a duration, 1e39 for
a float32) must not be turned silently into another number. -/

/-- `none`: no number; `some none`: a number that is no integer; `some (some i)`: the integer -/
def wholeOf : Val → Option (Option Int)
  | .int i => some (some i)
  | .float d => some (if d.isWhole then some d.trunc else none)
  | _ => none

/-- what a field of kind `k` given the number `v` must end up with: `some (some w)` — accepted, holding `w`;
`some none` — refused; `none` — no statement (`v` is no number, `k` no numeric kind).  float32: a value within the
range is stored rounded to the width (the generator gives values a float32 holds exactly). -/
def numberDemand (k : Kind) (v : Val) : Option (Option DVal) :=
  match k with
  | .int bits => (wholeOf v).map fun w => w.bind fun i => if intFits bits i then some (.int i) else none
  | .dur => (wholeOf v).map fun w => w.bind fun i => if intFits 64 i then some (.int i) else none
  | .uint bits =>
    (wholeOf v).map fun w => w.bind fun i => if decide (0 ≤ i) && uintFits bits i.toNat then some (.uint i.toNat) else none
  | .float bits =>
    match v with
    | .int i => some (some (.float (Dec.ofInt i)))
    | .float d => some (if bits != 32 || d.absLeNat maxFloat32 then some (.float d) else none)
    | _ => none
  | _ => none

/-! ## documented constraints, stated independently of the validator's code

`endpoint`: "host:port" or ":port" (core/config/validations.go, docs: the gun `target`), the port a decimal number
1 … 65535.  `url-path`: one or more `/segment`, the segment characters of RFC 3986.  `min-time` / `max-time` / `min`:
the bound is inclusive.  `required`: not the zero value.  `eq=a|eq=b`: one of the alternatives. -/

/-- a port text: `some true` — decimal, no sign, no leading zero, 1 … 65535; `some false` — certainly no port (empty,
a character that is no digit, a minus sign, the numbers 0 and above 65535); `none` — forms the documentation is silent
about (`+80`, `080`) -/
def portClass (p : Str) : Option Bool :=
  if allDigits p then
    let n := digitsVal p 0
    if n == 0 || n > 65535 then some false
    else if p.head? == some '0' then none else some true
  else
    match p with
    | '+' :: r => if allDigits r then none else some false
    | _ => some false

def hostLabelOk (l : Str) : Bool :=
  match l with
  | [] => false
  | c :: r => asciiAlnum c && (r.all fun x => asciiAlnum x || x == '-') && r.getLast? != some '-' && decide (l.length ≤ 63)

/-- an RFC 1123 host name or dotted quad: dot-separated labels of letters, digits and inner hyphens -/
def simpleHost (h : Str) : Bool :=
  decide (h.length ≤ 253) && (h.all fun c => asciiAlnum c || c == '-' || c == '.') && (splitDots h).all hostLabelOk

/-- what the documentation demands of an `endpoint` value: `some true` must be accepted, `some false` must be rejected -/
def endpointDemand (s : Str) : Option Bool :=
  match cutLastColon s with
  | none => some false
  | some (host, port) =>
    match portClass port with
    | some false => some false
    | some true => if host.isEmpty || simpleHost host then some true else none
    | none => none

/-- pieces between slashes -/
def splitSlashes : Str → List Str
  | [] => [[]]
  | c :: cs =>
    if c == '/' then [] :: splitSlashes cs
    else
      match splitSlashes cs with
      | [] => [[c]]
      | l :: ls => (c :: l) :: ls

/-- `url-path`: a `/`, then one or more non-empty segments of RFC 3986 path characters separated by single `/` -/
def urlPathDemand (s : Str) : Bool :=
  match s with
  | '/' :: r => (splitSlashes r).all fun seg => !seg.isEmpty && seg.all pathCharOk
  | _ => false

/-- one documented constraint against a decoded value: `some true` met, `some false` violated, `none` no statement -/
def demand (t : VTag) (v : DVal) : Option Bool :=
  match t, v with
  | .required, v => some (!v.isZero)
  | .min n, .int i => some (decide (n ≤ i))
  | .min n, .uint u => some (decide (n ≤ (u : Int)))
  | .min n, .float d => some (d.geInt n)
  | .minTime ns, .int i => some (decide (ns ≤ i))
  | .maxTime ns, .int i => some (decide (i ≤ ns))
  | .endpoint, .str s => endpointDemand s
  | .urlPath, .str s => some (urlPathDemand s)
  | .oneOf alts, .str s => some (alts.contains s)
  | _, _ => none

/-- all constraints of a field (validator order; `omitempty` ends the chain for a zero value): violated as soon as one
is certainly violated, met when every one is certainly met -/
def demandAll : List VTag → DVal → Option Bool
  | [], _ => some true
  | .omitempty :: r, v => if v.isZero then some true else demandAll r v
  | .dive :: r, v => demandAll r v
  | t :: r, v =>
    match demand t v, demandAll r v with
    | some false, _ => some false
    | _, some false => some false
    | some true, some true => some true
    | _, _ => none

def stepPtr : DVal → DVal
  | .ptr v => v
  | .plugin c => c
  | v => v

/-- field lookup by Go field names; pointers are stepped through, a constructed component stands for the config it
received; `#i` selects the i-th element of a list, resp. the config the i-th observed call of a factory handed out (the
model's factory value has one config: every call hands out the same) -/
def lookup : List Str → DVal → Option DVal
  | [], v => some v
  | n :: p, v =>
    match stepPtr v with
    | .struct fs =>
      match fs.find? (fun f => f.1 == n) with
      | some (_, w) => lookup p w
      | none => none
    | .slice xs =>
      match n with
      | '#' :: ds => match xs[digitsVal ds 0]? with
        | some w => lookup p w
        | none => none
      | _ => none
    | .factory (.slice xs) =>
      match n with
      | '#' :: ds => match xs[digitsVal ds 0]? with
        | some w => lookup p w
        | none => none
      | _ => none
    | .factory c =>
      match n with
      | '#' :: _ => lookup p c
      | _ => none
    | _ => none

inductive Expect
  | reject
  | accept
  | value (loc : Option (List Str)) (want : DVal)
  | cast (loc : Option (List Str)) (k : Kind) (raw : Str)
  | meets (loc : Option (List Str)) (tags : List VTag) (v : DVal)
  | number (loc : Option (List Str)) (k : Kind) (v : Val) (tags : List VTag)
  | values (wants : List (List Str × DVal))
  | disc (want : List Bool)
  | nothing

inductive Verdict
  | ok
  | inconclusive
  | fail (why : String)
  deriving Repr, DecidableEq

/-- `DVal` equality as far as the observation syntax distinguishes values (scalars, nil, lists and maps of scalars) -/
def scalarEq : DVal → DVal → Bool
  | .bool a, .bool b => a == b
  | .int a, .int b => a == b
  | .uint a, .uint b => a == b
  | .float a, .float b => decide (a.num * (10 ^ b.exp : Nat) = b.num * (10 ^ a.exp : Nat))
  | .str a, .str b => a == b
  | .nil, .nil => true
  | _, _ => false

def sameValue : DVal → DVal → Bool
  | .slice xs, .slice ys => xs.length == ys.length && (xs.zip ys).all fun p => scalarEq p.1 p.2
  | .map xs, .map ys => xs.length == ys.length && (xs.zip ys).all fun p => p.1.1 == p.2.1 && scalarEq p.1.2 p.2.2
  | .ptr a, .ptr b => scalarEq a b
  | a, b => scalarEq a b

def checkValue (loc : Option (List Str)) (want : DVal) : Obs → Verdict
  | .rejected => .fail "rejected"
  | .accepted none => .ok
  | .accepted (some v) =>
    match loc with
    | none => .ok
    | some p =>
      match lookup p v with
      | some got => if sameValue got want then .ok else .fail "value"
      | none => .fail "no-such-field"
  | .discards _ => .ok
  | .crashed => .fail "panic"
  | .unstable => .fail "redecode"
  | .unknown => .inconclusive

/-- every listed field holds the listed value -/
def checkValues : List (List Str × DVal) → Obs → Verdict
  | [], o => match o with
    | .rejected => .fail "rejected"
    | _ => .ok
  | (loc, want) :: r, o =>
    match checkValue (some loc) want o with
    | .ok => checkValues r o
    | v => v

/-- does the observation meet the expectation? -/
def holds : Expect → Obs → Verdict
  | _, .crashed => .fail "panic"
  | _, .unstable => .fail "redecode"
  | _, .unknown => .inconclusive
  | .reject, .rejected => .ok
  | .reject, _ => .fail "accepted"
  | .accept, .rejected => .fail "rejected"
  | .accept, _ => .ok
  | .value loc want, o => checkValue loc want o
  | .cast loc k raw, o =>
    match castExpect k raw with
    | some want => checkValue loc want o
    | none => match o with
      | .rejected => .ok
      | _ => .fail "accepted"
  | .meets loc tags v, o =>
    match demandAll tags v with
    | some true => checkValue loc v o
    | some false => match o with
      | .rejected => .ok
      | _ => .fail "accepted"
    | none => .ok
  | .number loc k v tags, o =>
    match numberDemand k v with
    | some (some want) =>
      -- the type holds the number: the field's documented constraints decide
      match demandAll tags want with
      | some true => checkValue loc want o
      | some false => match o with
        | .rejected => .ok
        | _ => .fail "accepted"
      | none => .ok
    | some none => match o with
      | .rejected => .ok
      | _ => .fail "accepted"
    | none => .ok
  | .values wants, o => checkValues wants o
  | .disc want, .discards ds => if ds == want then .ok else .fail "discard"
  | .disc _, .rejected => .fail "rejected"
  | .disc _, _ => .inconclusive
  | .nothing, _ => .ok

/-- `discard_overflow` the CLI reader must arrive at: what each pool says, `true` when it says nothing (keys of a
configuration FILE are case-insensitive) -/
def expectDisc (cfg : Val) : Option (List Bool) :=
  match lowerKeys cfg with
  | .map kvs =>
    match assoc kvs "pools".toList with
    | some (.list pools) =>
      pools.mapM fun p =>
        match p with
        | .map pk =>
          match assoc pk "discard_overflow".toList with
          | none => some true
          | some (.bool b) => some b
          | some _ => none
        | _ => none
    | _ => none
  | _ => none

end Pandora.Spec.C17
