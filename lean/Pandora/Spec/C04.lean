/-
C04 — the property as an executable predicate over what was OBSERVED (harness/cmd/c04): for every token drawn by
an instance (or by a bare Waiter) the token time, the instant it was picked up (`Schedule.Next` returned it), the
instant of the action (Shoot entry / Report of the discarded sample) and the action.  All instants are ns on one
monotonic axis.
-/
import Pandora.Model.C04

namespace Pandora.Spec.C04
open Pandora.Model.C04

structure Entry where
  tok : Int
  pick : Int
  ret : Int
  /-- 'F' fired (Shoot / not slow), 'D' discarded (slow), '-' Wait returned false -/
  dec : Char
deriving Repr, DecidableEq

structure Obs where
  endT : Int
  /-- time the driver PROCESS was kept from running during the case (heartbeat: summed excess of the gaps between 5 ms ticks
  that were longer than 50 ms), ns: a stall of the machine lengthens the run by that much without any doing of the code -/
  stall : Int := 0
  err : String
  total : Nat
  bad : Nat
  net : String
  tag : String
  /-- expected token offsets of the profile (ns after its first token), from a separate copy of the schedule -/
  offs : List Int := []
  seqs : List (List Entry)
deriving Repr

structure Input where
  /-- "engine" | "waiter" -/
  mode : String
  discard : Bool
  /-- duration of the RPS profile, ns -/
  profDur : Int
  /-- slowest scripted response, ns -/
  maxResp : Int
  cancelled : Bool
  /-- every instance has its own copy of the profile (`rps-per-instance`) -/
  perInst : Bool := false
  /-- instant (ns on the observation's axis) before which the run context was certainly NOT cancelled (`cancel=<ms>`: the
  cancelling timer is armed after the axis' origin); 0 when the run is not cancelled -/
  cancelAt : Int := 0
  /-- duration of the startup schedule (instances are started over time), ns; 0 = all instances at once -/
  startDur : Int := 0
deriving Repr

/-- what the pandora process left in its phout file (mode=proc) -/
structure ProcObs where
  rc : String
  total : Nat
  fired : Nat
  disc : Nat
  bad : Nat
  served : Nat
  /-- fewest discarded samples of a pool -/
  minDisc : Nat
  /-- requests that ARRIVED at the target (counted at handler entry) -/
  recv : Nat := 0
  /-- result lines of fired requests that carry a net error (connection trouble: the request may not have reached the target) -/
  errs : Nat := 0
  /-- per pool, in the order of the config: result lines that are not discarded samples, discarded samples, malformed ones -/
  pools : List (Nat × Nat × Nat) := []
  /-- "option-rejected": the process refused to decode the (valid, driver-written) config and its complaint names
  `discard_overflow`; "-" otherwise -/
  why : String := "-"
deriving Repr

/-- one pool of a mode=proc run: `given` = what ITS section of the config says about discard_overflow, `total` = tokens of its
profile. With one instance, all tokens at the start and a target slower than 2 s / 3 per answer, the fourth and later tokens are more
than 2 s late whatever the machine load is: a pool with discard_overflow on (`effectiveDiscard given`) must show a discarded sample
(tag and net code both right), one with it off none, and every token must show up exactly once. -/
def judgePool (given : Option Bool) (total idx : Nat) (p : Nat × Nat × Nat) : Option String :=
  let (fired, disc, bad) := p
  if effectiveDiscard given then
    if bad > 0 then some s!"fail:discard-sample:bad={bad} in pool {idx}"
    else if fired + disc != total then
      some s!"fail:lost-token:fired={fired},discarded={disc},total={total} in pool {idx}: not exactly one result line (a request or a discarded sample) per token"
    else if disc == 0 then
      some s!"fail:late-fired:pool {idx} without any discarded sample although discard_overflow is on by default or explicitly; fired={fired},discarded={disc}"
    else none
  else
    if disc > 0 then some s!"fail:discard-off:discarded={disc} in pool {idx}"
    else if fired != total then some s!"fail:not-all-fired:fired={fired},total={total} in pool {idx}"
    else none

/-- mode=proc: `givens` = what the pool sections say about discard_overflow (one value for all pools, or one per pool). -/
def judgeProc (givens : List (Option Bool)) (o : ProcObs) : String :=
  -- a valid config whose pool sections leave the option out, or spell it as the documentation does, must RUN: a process that
  -- refuses the config because of that key neither fires nor discards anything
  if o.rc != "0" && o.why == "option-rejected" then
    s!"fail:config-rejected:the pandora process refused a valid config (rc={o.rc}), its complaint names discard_overflow: the default put into the pool sections / the documented key is not accepted by the decoder"
  else if o.rc != "0" then s!"skip:pandora-process-did-not-finish-normally-rc={o.rc}"
  -- "not fired but reported as a discarded sample": every result line that is not a discarded sample is a request the target
  -- received, and a discarded token never reaches the target
  -- (a line that looks like a real request although the target never saw one is a discarded sample that does not read as one)
  else if o.errs == 0 && o.fired > o.recv then
    s!"fail:discard-sample:{o.fired} result lines are not discarded samples but the target received {o.recv} requests (discarded={o.disc})"
  -- every discarded token also arrived at the target
  else if o.errs == 0 && o.disc ≥ 2 && o.recv ≥ o.fired + o.disc then
    s!"fail:discard-sample:the target received {o.recv} requests, {o.fired} result lines are not discarded samples: the {o.disc} discarded tokens reached the target"
  else if o.pools.isEmpty then "fail:crash:no per-pool counts in the observation"
  else
    let total := o.total / o.pools.length
    let givenOf := fun (k : Nat) => if givens.length == 1 then givens.head?.getD none else (givens[k]?).getD none
    match (o.pools.zipIdx.filterMap fun (p, k) => judgePool (givenOf k) total k p).head? with
    | some v => v
    | none =>
      -- one request more than result lines: net/http re-sends an idempotent request whose connection failed before an answer
      -- (seen once in ~600 process runs at load average 90); not decidable from the observation
      if o.errs == 0 && o.recv > o.fired then "skip:inconclusive-the-target-received-more-requests-than-there-are-result-lines"
      else "ok"

def sortInts (l : List Int) : List Int := l.mergeSort (fun a b => decide (a ≤ b))

/-- tokens of a group of entries relative to the earliest one, sorted -/
def relToks (es : List Entry) : List Int :=
  let ts := sortInts (es.map (·.tok))
  match ts with
  | [] => []
  | t0 :: _ => ts.map (· - t0)

/-- the tokens handed out are exactly the tokens of the profile (none lost, none twice): for a shared schedule over all
instances together, for per-instance schedules for every instance -/
def tokenSetOk (i : Input) (o : Obs) : Bool :=
  let want := sortInts o.offs
  if i.perInst then o.seqs.all (fun s => relToks s == want)
  else relToks (o.seqs.flatMap id) == want

def allEntries (o : Obs) : List Entry := o.seqs.flatMap id

def countDec (o : Obs) (c : Char) : Nat := ((allEntries o).filter (·.dec == c)).length

/-- slack above the proved bound before a run counts as too long / as inconclusive -/
def boundFail : Int := 1000000000
def boundMargin : Int := 250000000

/-- per-instance schedules start when their instance is started: the profile of the last instance begins `startDur` late -/
def extraStart (i : Input) : Int := if i.perInst then i.startDur else 0

def render (e : Entry) : String := s!"tok={e.tok},pick={e.pick},ret={e.ret},dec={e.dec}"

def isLateFired (e : Entry) : Bool := e.dec == 'F' && e.pick - e.tok ≥ maxOverdue

/-- discard_overflow on: a token fired although it was ≥ 2 s late when picked up. In a run that is not cancelled: a failure. In a
cancelled run `IsSlowDown` answers false on a done context (`C04_discarded_if_late_any_ctx_counterexample`), but only then
(`C04_cancel_one_late_shot`): such a shot must have been fired after the instant of cancellation and must be the last action of its
instance; anything else is a failure, the corner itself is outside the property's quantifier (skip). -/
def lateFiredVerdict (i : Input) (o : Obs) : Option String :=
  let bad := o.seqs.findSome? fun s =>
    let acted := s.filter (fun e => e.dec == 'F' || e.dec == 'D')
    match acted.find? isLateFired with
    | none => none
    | some e =>
      if !i.cancelled then some s!"fail:late-fired:picked up {(e.pick - e.tok) / 1000000} ms late, fired; {render e}"
      else if e.ret < i.cancelAt then
        some s!"fail:late-fired:picked up {(e.pick - e.tok) / 1000000} ms late, fired before the run was cancelled; {render e}"
      else if acted.getLast? != some e then
        some s!"fail:late-fired:picked up {(e.pick - e.tok) / 1000000} ms late, fired in a cancelled run, but not as the last action of its instance; {render e}"
      else none
  match bad with
  | some v => some v
  | none => if (allEntries o).any isLateFired then some "skip:late-token-fired-in-a-cancelled-run" else none

/-- verdict: "ok" | "skip:<why>" | "fail:<key>:<detail>" -/
def judge (i : Input) (o : Obs) : String :=
  let es := allEntries o
  let acted := es.filter (fun e => e.dec == 'F' || e.dec == 'D')
  match acted.find? (fun e => e.ret < e.tok) with
  | some e => s!"fail:early:{render e}"
  | none =>
  -- the run is measured from its first token (engine start-up before it is not part of the claim)
  let start := ((sortInts (es.map (·.tok))).head?).getD 0
  let runLen := o.endT - start
  let complete := i.mode == "engine" && !i.cancelled && o.err == "nil"
  if i.discard then
    match lateFiredVerdict i o with
    | some v => v
    | none =>
    match acted.find? (fun e => e.dec == 'D' && e.ret - e.tok < maxOverdue) with
    | some e => s!"fail:fresh-discarded:{(e.ret - e.tok) / 1000000} ms late, discarded; {render e}"
    | none =>
    if i.mode == "engine" && countDec o 'D' > 0 && (o.net != toString discardNetCode || o.tag != discardTag || o.bad > 0) then
      s!"fail:discard-sample:net={o.net},tag={o.tag},bad={o.bad}"
    else if o.bad > 0 then s!"fail:discard-sample:bad={o.bad}"
    else if complete && countDec o 'F' + countDec o 'D' != o.total then
      s!"fail:lost-token:fired={countDec o 'F'},discarded={countDec o 'D'},total={o.total}"
    else if complete && !tokenSetOk i o then
      s!"fail:lost-token:the tokens acted on are not the tokens of the profile"
    else if i.mode == "engine" && !i.cancelled && runLen > i.profDur + extraStart i + maxOverdue + i.maxResp + boundFail + o.stall then
      s!"fail:run-bound:length={runLen / 1000000}ms,bound={(i.profDur + extraStart i + maxOverdue + i.maxResp) / 1000000}ms"
    else if i.mode == "engine" && !i.cancelled && runLen > i.profDur + extraStart i + maxOverdue + i.maxResp + boundMargin then
      "skip:inconclusive-run-length"
    else "ok"
  else
    if countDec o 'D' > 0 || o.net != "-" then s!"fail:discard-off:discarded={countDec o 'D'}"
    else if o.bad > 0 then s!"fail:discard-sample:bad={o.bad}"
    else if !i.cancelled && o.err == "nil" && countDec o 'F' != o.total then
      s!"fail:not-all-fired:fired={countDec o 'F'},total={o.total}"
    else if complete && !tokenSetOk i o then
      s!"fail:not-all-fired:the tokens fired are not the tokens of the profile"
    else "ok"

end Pandora.Spec.C04
