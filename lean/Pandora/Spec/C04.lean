/-
C04 — the property as an executable predicate over what was OBSERVED (harness/cmd/c04): for every token drawn by
an instance (or by a bare Waiter) the token time, the instant it was picked up (`Schedule.Next` returned it), the
instant of the action (Shoot entry / Report of the discarded sample) and the action.  All instants are ns on one
monotonic axis.
-/
import Pandora.Model.C04

namespace Pandora.Spec.C04
open Pandora.Model.C04

structure Entry where
  tok : Int
  pick : Int
  ret : Int
  /-- 'F' fired (Shoot / not slow), 'D' discarded (slow), '-' Wait returned false -/
  dec : Char
deriving Repr, DecidableEq

structure Obs where
  endT : Int
  err : String
  total : Nat
  bad : Nat
  net : String
  tag : String
  seqs : List (List Entry)
deriving Repr

structure Input where
  /-- "engine" | "waiter" -/
  mode : String
  discard : Bool
  /-- duration of the RPS profile, ns -/
  profDur : Int
  /-- slowest scripted response, ns -/
  maxResp : Int
  cancelled : Bool
deriving Repr

def allEntries (o : Obs) : List Entry := o.seqs.flatMap id

def countDec (o : Obs) (c : Char) : Nat := ((allEntries o).filter (·.dec == c)).length

/-- slack above the proved bound before a run counts as too long / as inconclusive -/
def boundFail : Int := 1000000000
def boundMargin : Int := 250000000

def render (e : Entry) : String := s!"tok={e.tok},pick={e.pick},ret={e.ret},dec={e.dec}"

/-- verdict: "ok" | "skip:<why>" | "fail:<key>:<detail>" -/
def judge (i : Input) (o : Obs) : String :=
  let es := allEntries o
  let acted := es.filter (fun e => e.dec == 'F' || e.dec == 'D')
  match acted.find? (fun e => e.ret < e.tok) with
  | some e => s!"fail:early:{render e}"
  | none =>
  if i.discard then
    match acted.find? (fun e => e.dec == 'F' && e.pick - e.tok ≥ maxOverdue) with
    | some e => s!"fail:late-fired:picked up {(e.pick - e.tok) / 1000000} ms late, fired; {render e}"
    | none =>
    match acted.find? (fun e => e.dec == 'D' && e.ret - e.tok < maxOverdue) with
    | some e => s!"fail:fresh-discarded:{(e.ret - e.tok) / 1000000} ms late, discarded; {render e}"
    | none =>
    if i.mode == "engine" && countDec o 'D' > 0 && (o.net != toString discardNetCode || o.tag != discardTag || o.bad > 0) then
      s!"fail:discard-sample:net={o.net},tag={o.tag},bad={o.bad}"
    else if o.bad > 0 then s!"fail:discard-sample:bad={o.bad}"
    else if i.mode == "engine" && !i.cancelled && o.err == "nil" && countDec o 'F' + countDec o 'D' != o.total then
      s!"fail:lost-token:fired={countDec o 'F'},discarded={countDec o 'D'},total={o.total}"
    else if i.mode == "engine" && !i.cancelled && o.endT > i.profDur + maxOverdue + i.maxResp + boundFail then
      s!"fail:run-bound:end={o.endT / 1000000}ms,bound={(i.profDur + maxOverdue + i.maxResp) / 1000000}ms"
    else if i.mode == "engine" && !i.cancelled && o.endT > i.profDur + maxOverdue + i.maxResp + boundMargin then
      "skip:inconclusive-run-length"
    else "ok"
  else
    if countDec o 'D' > 0 || o.net != "-" then s!"fail:discard-off:discarded={countDec o 'D'}"
    else if o.bad > 0 then s!"fail:discard-sample:bad={o.bad}"
    else if !i.cancelled && o.err == "nil" && countDec o 'F' != o.total then
      s!"fail:not-all-fired:fired={countDec o 'F'},total={o.total}"
    else "ok"

end Pandora.Spec.C04
